/-
C16 – regenerated tie over Generated/CodecFuncs.lean (extract/funcs.go): for every source file the models of this
property were transcribed from, the outline of EVERY function of that file – regenerated from /repo on every run –
equals the transcript frozen here (bin/freeze_outlines.py, repo 7f54b88, 2026-10-01). A theorem that stops checking
names the file whose code is no longer the code that was modelled; bin/check then searches for a failing input.
-/
import Uniflow.Generated.CodecFuncs

set_option maxRecDepth 16384 in
/-- pkg/types/buffer.go as modelled (part 2 of 2): its declarations (in source order) and the outline of each -/
theorem C16.src_types_buffer_as_modelled_2 :
    Uniflow.Generated.CodecFuncs.o_types_buffer_fn_newBufferDecoder = [
      "typeReader := reflect.TypeOf((*io.Reader)(nil)).Elem()",
      "typeBinaryUnmarshaler := reflect.TypeOf((*encoding.BinaryUnmarshaler)(nil)).Elem()",
      "typeTextUnmarshaler := reflect.TypeOf((*encoding.TextUnmarshaler)(nil)).Elem()",
      "return encoding2.DecodeCompilerFunc[Value](func#1)",
      "func#1(typ reflect.Type) (encoding2.Decoder[Value, unsafe.Pointer], error)",
      "  if typ == nil",
      "    return nil, errors.WithStack(encoding2.ErrUnsupportedType)",
      "  else",
      "    if typ.ConvertibleTo(typeBinaryUnmarshaler)",
      "      return encoding2.DecodeFunc(func#2), nil",
      "      func#2(source Value, target unsafe.Pointer) error",
      "        if s, ok := source.(Buffer); ok",
      "          t := reflect.NewAt(typ.Elem(), target).Interface().(encoding.BinaryUnmarshaler)",
      "          if data, err := s.Bytes(); err != nil",
      "            return errors.Wrap(encoding2.ErrUnsupportedValue, err.Error())",
      "          else",
      "            if err := t.UnmarshalBinary(data); err != nil",
      "              return errors.Wrap(encoding2.ErrUnsupportedValue, err.Error())",
      "          return nil",
      "        return errors.WithStack(encoding2.ErrUnsupportedType)",
      "    else",
      "      if typ.ConvertibleTo(typeTextUnmarshaler)",
      "        return encoding2.DecodeFunc(func#3), nil",
      "        func#3(source Value, target unsafe.Pointer) error",
      "          if s, ok := source.(Buffer); ok",
      "            t := reflect.NewAt(typ.Elem(), target).Interface().(encoding.TextUnmarshaler)",
      "            if data, err := s.Bytes(); err != nil",
      "              return errors.Wrap(encoding2.ErrUnsupportedValue, err.Error())",
      "            else",
      "              if err := t.UnmarshalText(data); err != nil",
      "                return errors.Wrap(encoding2.ErrUnsupportedValue, err.Error())",
      "            return nil",
      "          return errors.WithStack(encoding2.ErrUnsupportedType)",
      "      else",
      "        if typ.Kind() == reflect.Pointer",
      "          if typ.Elem().ConvertibleTo(typeReader)",
      "            return encoding2.DecodeFunc(func#4), nil",
      "            func#4(source Value, target unsafe.Pointer) error",
      "              if s, ok := source.(Buffer); ok",
      "                t := reflect.NewAt(typ.Elem(), target)",
      "                t.Elem().Set(reflect.ValueOf(s.Interface()))",
      "                return nil",
      "              return errors.WithStack(encoding2.ErrUnsupportedType)",
      "          else",
      "            if typ.Elem().Kind() == reflect.Slice && typ.Elem().Elem().Kind() == reflect.Uint8",
      "              return encoding2.DecodeFunc(func#5), nil",
      "              func#5(source Value, target unsafe.Pointer) error",
      "                if s, ok := source.(Buffer); ok",
      "                  data, err := s.Bytes()",
      "                  if err != nil",
      "                    return err",
      "                  t := reflect.NewAt(typ.Elem(), target).Elem()",
      "                  t.Set(reflect.AppendSlice(t, reflect.ValueOf(data).Convert(t.Type())))",
      "                  return nil",
      "                return errors.WithStack(encoding2.ErrUnsupportedType)",
      "            else",
      "              if typ.Elem().Kind() == reflect.Array && typ.Elem().Elem().Kind() == reflect.Uint8",
      "                return encoding2.DecodeFunc(func#6), nil",
      "                func#6(source Value, target unsafe.Pointer) error",
      "                  if s, ok := source.(Buffer); ok",
      "                    data, err := s.Bytes()",
      "                    if err != nil",
      "                      return err",
      "                    t := reflect.NewAt(typ.Elem(), target).Elem()",
      "                    reflect.Copy(t, reflect.ValueOf(data).Convert(t.Type()))",
      "                    return nil",
      "                  return errors.WithStack(encoding2.ErrUnsupportedType)",
      "              else",
      "                if typ.Elem().Kind() == reflect.String",
      "                  return encoding2.DecodeFunc(func#7), nil",
      "                  func#7(source Value, target unsafe.Pointer) error",
      "                    if s, ok := source.(Buffer); ok",
      "                      data, err := s.Bytes()",
      "                      if err != nil",
      "                        return err",
      "                      *(*string)(target) = string(data)",
      "                      return nil",
      "                    return errors.WithStack(encoding2.ErrUnsupportedType)",
      "                else",
      "                  if typ.Elem() == types[KindUnknown]",
      "                    return encoding2.DecodeFunc(func#8), nil",
      "                    func#8(source Value, target unsafe.Pointer) error",
      "                      if s, ok := source.(Buffer); ok",
      "                        *(*any)(target) = s.Interface()",
      "                        return nil",
      "                      return errors.WithStack(encoding2.ErrUnsupportedType)",
      "  return nil, errors.WithStack(encoding2.ErrUnsupportedType)"
    ] ∧
    Uniflow.Generated.CodecFuncs.names_types_buffer = ["Buffer.MarshalBinary", "Buffer.UnmarshalBinary", "fn.newBufferEncoder", "fn.newBufferDecoder"] := by
  decide

set_option maxRecDepth 16384 in
/-- pkg/types/time.go as modelled: its declarations (in source order) and the outline of each -/
theorem C16.src_types_time_as_modelled :
    Uniflow.Generated.CodecFuncs.o_types_time_fn_newTimeEncoder = [
      "typeTime := reflect.TypeOf((*time.Time)(nil)).Elem()",
      "return encoding.EncodeCompilerFunc[any, Value](func#1)",
      "func#1(typ reflect.Type) (encoding.Encoder[any, Value], error)",
      "  if typ != nil && typ == typeTime",
      "    return encoding.EncodeFunc(func#2), nil",
      "    func#2(source any) (Value, error)",
      "      s := source.(time.Time)",
      "      return NewInt64(s.UnixMilli()), nil",
      "  return nil, errors.WithStack(encoding.ErrUnsupportedType)"
    ] ∧
    Uniflow.Generated.CodecFuncs.o_types_time_fn_newTimeDecoder = [
      "typeTime := reflect.TypeOf((*time.Time)(nil)).Elem()",
      "return encoding.DecodeCompilerFunc[Value](func#1)",
      "func#1(typ reflect.Type) (encoding.Decoder[Value, unsafe.Pointer], error)",
      "  if typ != nil && typ.Kind() == reflect.Pointer",
      "    if typ.Elem() == typeTime",
      "      return encoding.DecodeFunc(func#2), nil",
      "      func#2(source Value, target unsafe.Pointer) error",
      "        var v time.Time",
      "        var err error",
      "        if s, ok := source.(String); ok",
      "          v, err = time.Parse(time.RFC3339, s.String())",
      "        else",
      "          if s, ok := source.(Integer); ok",
      "            v = time.UnixMilli(s.Int()).UTC()",
      "          else",
      "            if s, ok := source.(Float); ok",
      "              v = time.UnixMilli(int64(s.Float())).UTC()",
      "            else",
      "              err = errors.WithStack(encoding.ErrUnsupportedType)",
      "        if err != nil",
      "          return err",
      "        t := reflect.NewAt(typ.Elem(), target)",
      "        t.Elem().Set(reflect.ValueOf(v))",
      "        return nil",
      "  return nil, errors.WithStack(encoding.ErrUnsupportedType)"
    ] ∧
    Uniflow.Generated.CodecFuncs.o_types_time_fn_newDurationEncoder = [
      "typeDuration := reflect.TypeOf((*time.Duration)(nil)).Elem()",
      "return encoding.EncodeCompilerFunc[any, Value](func#1)",
      "func#1(typ reflect.Type) (encoding.Encoder[any, Value], error)",
      "  if typ != nil && typ == typeDuration",
      "    return encoding.EncodeFunc(func#2), nil",
      "    func#2(source any) (Value, error)",
      "      s := source.(time.Duration)",
      "      return NewInt64(s.Milliseconds()), nil",
      "  return nil, errors.WithStack(encoding.ErrUnsupportedType)"
    ] ∧
    Uniflow.Generated.CodecFuncs.o_types_time_fn_newDurationDecoder = [
      "typeDuration := reflect.TypeOf((*time.Duration)(nil)).Elem()",
      "return encoding.DecodeCompilerFunc[Value](func#1)",
      "func#1(typ reflect.Type) (encoding.Decoder[Value, unsafe.Pointer], error)",
      "  if typ != nil && typ.Kind() == reflect.Pointer",
      "    if typ.Elem() == typeDuration",
      "      return encoding.DecodeFunc(func#2), nil",
      "      func#2(source Value, target unsafe.Pointer) error",
      "        var v time.Duration",
      "        var err error",
      "        if s, ok := source.(String); ok",
      "          if v, err = time.ParseDuration(s.String()); err != nil",
      "            err = errors.WithMessage(encoding.ErrUnsupportedValue, err.Error())",
      "        else",
      "          if s, ok := source.(Integer); ok",
      "            v = time.Millisecond * (time.Duration)(s.Int())",
      "          else",
      "            if s, ok := source.(Float); ok",
      "              v = time.Millisecond * (time.Duration)(s.Float())",
      "            else",
      "              err = errors.WithStack(encoding.ErrUnsupportedType)",
      "        if err != nil",
      "          return err",
      "        t := reflect.NewAt(typ.Elem(), target)",
      "        t.Elem().Set(reflect.ValueOf(v))",
      "        return nil",
      "  return nil, errors.WithStack(encoding.ErrUnsupportedType)"
    ] ∧
    Uniflow.Generated.CodecFuncs.names_types_time = ["fn.newTimeEncoder", "fn.newTimeDecoder", "fn.newDurationEncoder", "fn.newDurationDecoder"] := by
  decide

set_option maxRecDepth 16384 in
/-- pkg/types/uinteger.go as modelled (part 1 of 2): its declarations (in source order) and the outline of each -/
theorem C16.src_types_uinteger_as_modelled_1 :
    Uniflow.Generated.CodecFuncs.o_types_uinteger_Uint_MarshalJSON = [
      "return json.Marshal(i.value)"
    ] ∧
    Uniflow.Generated.CodecFuncs.o_types_uinteger_Uint_UnmarshalJSON = [
      "return json.Unmarshal(bytes, &i.value)"
    ] ∧
    Uniflow.Generated.CodecFuncs.o_types_uinteger_Uint8_MarshalJSON = [
      "return json.Marshal(i.value)"
    ] ∧
    Uniflow.Generated.CodecFuncs.o_types_uinteger_Uint8_UnmarshalJSON = [
      "return json.Unmarshal(bytes, &i.value)"
    ] ∧
    Uniflow.Generated.CodecFuncs.o_types_uinteger_Uint16_MarshalJSON = [
      "return json.Marshal(i.value)"
    ] ∧
    Uniflow.Generated.CodecFuncs.o_types_uinteger_Uint16_UnmarshalJSON = [
      "return json.Unmarshal(bytes, &i.value)"
    ] ∧
    Uniflow.Generated.CodecFuncs.o_types_uinteger_Uint32_MarshalJSON = [
      "return json.Marshal(i.value)"
    ] ∧
    Uniflow.Generated.CodecFuncs.o_types_uinteger_Uint32_UnmarshalJSON = [
      "return json.Unmarshal(bytes, &i.value)"
    ] ∧
    Uniflow.Generated.CodecFuncs.o_types_uinteger_Uint64_MarshalJSON = [
      "return json.Marshal(i.value)"
    ] ∧
    Uniflow.Generated.CodecFuncs.o_types_uinteger_Uint64_UnmarshalJSON = [
      "return json.Unmarshal(bytes, &i.value)"
    ] ∧
    Uniflow.Generated.CodecFuncs.o_types_uinteger_fn_newUintegerEncoder = [
      "return encoding.EncodeCompilerFunc[any, Value](func#1)",
      "func#1(typ reflect.Type) (encoding.Encoder[any, Value], error)",
      "  if typ == nil",
      "    return nil, errors.WithStack(encoding.ErrUnsupportedType)",
      "  else",
      "    if typ.Kind() == reflect.Uint",
      "      return encoding.EncodeFunc(func#2), nil",
      "      func#2(source any) (Value, error)",
      "        if s, ok := source.(uint); ok",
      "          return NewUint(s), nil",
      "        else",
      "          return NewUint(uint(reflect.ValueOf(source).Uint())), nil",
      "    else",
      "      if typ.Kind() == reflect.Uint8",
      "        return encoding.EncodeFunc(func#3), nil",
      "        func#3(source any) (Value, error)",
      "          if s, ok := source.(uint8); ok",
      "            return NewUint8(s), nil",
      "          else",
      "            return NewUint8(uint8(reflect.ValueOf(source).Uint())), nil",
      "      else",
      "        if typ.Kind() == reflect.Uint16",
      "          return encoding.EncodeFunc(func#4), nil",
      "          func#4(source any) (Value, error)",
      "            if s, ok := source.(uint16); ok",
      "              return NewUint16(s), nil",
      "            else",
      "              return NewUint16(uint16(reflect.ValueOf(source).Uint())), nil",
      "        else",
      "          if typ.Kind() == reflect.Uint32",
      "            return encoding.EncodeFunc(func#5), nil",
      "            func#5(source any) (Value, error)",
      "              if s, ok := source.(uint32); ok",
      "                return NewUint32(s), nil",
      "              else",
      "                return NewUint32(uint32(reflect.ValueOf(source).Uint())), nil",
      "          else",
      "            if typ.Kind() == reflect.Uint64",
      "              return encoding.EncodeFunc(func#6), nil",
      "              func#6(source any) (Value, error)",
      "                if s, ok := source.(uint64); ok",
      "                  return NewUint64(s), nil",
      "                else",
      "                  return NewUint64(reflect.ValueOf(source).Uint()), nil",
      "  return nil, errors.WithStack(encoding.ErrUnsupportedType)"
    ] := by
  decide

set_option maxRecDepth 16384 in
/-- pkg/types/encoding.go as modelled (part 2 of 2): its declarations (in source order) and the outline of each -/
theorem C16.src_types_encoding_as_modelled_2 :
    Uniflow.Generated.CodecFuncs.o_types_encoding_fn_newPointerDecoder = [
      "return encoding.DecodeCompilerFunc[Value](func#1)",
      "func#1(typ reflect.Type) (encoding.Decoder[Value, unsafe.Pointer], error)",
      "  if typ == nil",
      "    return encoding.DecodeFunc(func#2), nil",
      "    func#2(source Value, target unsafe.Pointer) error",
      "      return nil",
      "  else",
      "    if typ.Kind() == reflect.Pointer && typ.Elem().Kind() == reflect.Pointer",
      "      dec, err := decoder.Compile(typ.Elem())",
      "      if err != nil",
      "        return nil, err",
      "      return encoding.DecodeFunc(func#3), nil",
      "      func#3(source Value, target unsafe.Pointer) error",
      "        if source == nil",
      "          return nil",
      "        t := reflect.NewAt(typ.Elem(), target)",
      "        if t.Elem().IsNil()",
      "          zero := reflect.New(t.Type().Elem().Elem())",
      "          t.Elem().Set(zero)",
      "        return dec.Decode(source, t.Elem().UnsafePointer())",
      "    else",
      "      if typ.Kind() == reflect.Pointer && typ.Elem() == types[KindUnknown]",
      "        return encoding.DecodeFunc(func#4), nil",
      "        func#4(source Value, target unsafe.Pointer) error",
      "          if source == nil",
      "            *(*any)(target) = nil",
      "            return nil",
      "          return errors.WithStack(encoding.ErrUnsupportedType)",
      "  return nil, errors.WithStack(encoding.ErrUnsupportedType)"
    ] ∧
    Uniflow.Generated.CodecFuncs.names_types_encoding = ["fn.init", "fn.Marshal", "fn.Unmarshal", "fn.newShortcutEncoder", "fn.newShortcutDecoder", "fn.newPointerEncoder", "fn.newPointerDecoder"] := by
  decide

set_option maxRecDepth 16384 in
/-- pkg/types/map.go as modelled (part 4 of 4): its declarations (in source order) and the outline of each -/
theorem C16.src_types_map_as_modelled_4 :
    Uniflow.Generated.CodecFuncs.o_types_map_fn_getMapMeta = [
      "key := strcase.ToSnake(f.Name)",
      "tag := f.Tag.Get(tagMap)",
      "if tag != \"\"",
      "  if tag == \"-\"",
      "    return mapMeta{ignore: true}",
      "  if index := strings.Index(tag, \",\"); index != -1",
      "    meta := mapMeta{}",
      "    meta.alias = key",
      "    if tag[:index] != \"\"",
      "      meta.alias = tag[:index]",
      "    if tag[index+1:] == \"omitempty\"",
      "      meta.omitempty = true",
      "    else",
      "      if tag[index+1:] == \"inline\"",
      "        meta.alias = \"\"",
      "        meta.inline = true",
      "    return meta",
      "  return mapMeta{alias: tag}",
      "return mapMeta{alias: key}"
    ] ∧
    Uniflow.Generated.CodecFuncs.names_types_map = ["immutableMap.MarshalJSON", "immutableMap.UnmarshalJSON", "mutableMap.MarshalJSON", "mutableMap.UnmarshalJSON", "fn.newMapEncoder", "fn.newMapDecoder", "fn.getMapMeta"] := by
  decide

