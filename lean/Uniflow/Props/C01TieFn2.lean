/-
C01 – regenerated tie over Generated/PacketFuncs.lean (extract/funcs.go): the outline of EVERY function of the source
files named below – regenerated from /repo on every run – equals the transcript frozen here (bin/freeze_all.py, repo 7f54b88,
2026-10-01). A theorem that stops checking names the file whose code is no longer the code that was modelled; bin/check then
searches for a failing input.
-/
import Uniflow.Generated.PacketFuncs

set_option maxRecDepth 16384 in
/-- pkg/packet/writer.go as modelled (part 1 of 2): its declarations (in source order) and the outline of each -/
theorem C01.src_packet_writer_as_modelled_1 :
    Uniflow.Generated.PacketFuncs.o_packet_writer_fn_init = [
      "ClosedWriter = NewWriter()",
      "ClosedWriter.Close()"
    ] ∧
    Uniflow.Generated.PacketFuncs.o_packet_writer_fn_Send = [
      "return SendOrFallback(writer, pck, None)"
    ] ∧
    Uniflow.Generated.PacketFuncs.o_packet_writer_fn_SendOrFallback = [
      "if writer.Write(outPck) == 0",
      "  return backPck",
      "if pck, ok := <-writer.Receive(); ok",
      "  return pck",
      "return New(ErrDroppedPacket)"
    ] ∧
    Uniflow.Generated.PacketFuncs.o_packet_writer_fn_NewWriter = [
      "w := &Writer{ in: make(chan *Packet), out: make(chan *Packet), }",
      "go func#1()",
      "func#1()",
      "  defer close(w.out)",
      "  buffer := make([]*Packet, 0, 2)",
      "  for pck := range w.in",
      "    select",
      "      case w.out <- pck",
      "      default",
      "        buffer = append(buffer, pck)",
      "        for len(buffer) > 0",
      "          select",
      "            case pck, ok := <-w.in",
      "              if !ok",
      "                return",
      "              buffer = append(buffer, pck)",
      "            case w.out <- buffer[0]",
      "              buffer = buffer[1:]",
      "return w"
    ] ∧
    Uniflow.Generated.PacketFuncs.o_packet_writer_Writer_AddInboundHook = [
      "w.mu.Lock()",
      "defer w.mu.Unlock()",
      "if w.done",
      "  return false",
      "for _, h := range w.inbounds",
      "  if h == hook",
      "    return false",
      "w.inbounds = append(w.inbounds, hook)",
      "return true"
    ] ∧
    Uniflow.Generated.PacketFuncs.o_packet_writer_Writer_AddOutboundHook = [
      "w.mu.Lock()",
      "defer w.mu.Unlock()",
      "if w.done",
      "  return false",
      "for _, h := range w.outbounds",
      "  if h == hook",
      "    return false",
      "w.outbounds = append(w.outbounds, hook)",
      "return true"
    ] ∧
    Uniflow.Generated.PacketFuncs.o_packet_writer_Writer_Links = [
      "w.mu.RLock()",
      "defer w.mu.RUnlock()",
      "return append([]*Reader(nil), w.readers...)"
    ] ∧
    Uniflow.Generated.PacketFuncs.o_packet_writer_Writer_Link = [
      "w.mu.Lock()",
      "defer w.mu.Unlock()",
      "if w.done",
      "  return false",
      "for _, r := range w.readers",
      "  if r == reader",
      "    return false",
      "w.linked++",
      "w.readers = append(w.readers, reader)",
      "w.links = append(w.links, w.linked)",
      "return true"
    ] ∧
    Uniflow.Generated.PacketFuncs.o_packet_writer_Writer_Unlink = [
      "w.mu.Lock()",
      "defer w.mu.Unlock()",
      "if w.done",
      "  return false",
      "for i, r := range w.readers",
      "  if r == reader",
      "    w.readers = append(w.readers[:i], w.readers[i+1:]...)",
      "    w.links = append(w.links[:i], w.links[i+1:]...)",
      "    for j := range w.receives",
      "      if i < len(w.receives[j])",
      "        w.receives[j] = append(w.receives[j][:i], w.receives[j][i+1:]...)",
      "    for len(w.receives) > 0 && !slices.Contains(w.receives[0], nil)",
      "      pck := joinAccepted(w.receives[0])",
      "      w.receives = w.receives[1:]",
      "      w.writes = w.writes[1:]",
      "      w.inbounds.Handle(pck)",
      "      w.in <- pck",
      "    return true",
      "return false"
    ] := by
  decide

set_option maxRecDepth 16384 in
/-- pkg/packet/reader.go as modelled: its declarations (in source order) and the outline of each -/
theorem C01.src_packet_reader_as_modelled :
    Uniflow.Generated.PacketFuncs.o_packet_reader_fn_init = [
      "ClosedReader = NewReader()",
      "ClosedReader.Close()"
    ] ∧
    Uniflow.Generated.PacketFuncs.o_packet_reader_fn_NewReader = [
      "r := &Reader{ in: make(chan *Packet), out: make(chan *Packet), }",
      "go func#1()",
      "func#1()",
      "  defer close(r.out)",
      "  buffer := make([]*Packet, 0, 2)",
      "  for pck := range r.in",
      "    select",
      "      case r.out <- pck",
      "      default",
      "        buffer = append(buffer, pck)",
      "        for len(buffer) > 0",
      "          select",
      "            case pck, ok := <-r.in",
      "              if !ok",
      "                return",
      "              buffer = append(buffer, pck)",
      "            case r.out <- buffer[0]",
      "              buffer = buffer[1:]",
      "return r"
    ] ∧
    Uniflow.Generated.PacketFuncs.o_packet_reader_Reader_AddInboundHook = [
      "r.mu.Lock()",
      "defer r.mu.Unlock()",
      "if r.done",
      "  return false",
      "for _, h := range r.inbounds",
      "  if h == hook",
      "    return false",
      "r.inbounds = append(r.inbounds, hook)",
      "return true"
    ] ∧
    Uniflow.Generated.PacketFuncs.o_packet_reader_Reader_AddOutboundHook = [
      "r.mu.Lock()",
      "defer r.mu.Unlock()",
      "if r.done",
      "  return false",
      "for _, h := range r.outbounds",
      "  if h == hook",
      "    return false",
      "r.outbounds = append(r.outbounds, hook)",
      "return true"
    ] ∧
    Uniflow.Generated.PacketFuncs.o_packet_reader_Reader_Read = [
      "return r.out"
    ] ∧
    Uniflow.Generated.PacketFuncs.o_packet_reader_Reader_Receive = [
      "r.mu.Lock()",
      "if len(r.writers) == 0",
      "  r.mu.Unlock()",
      "  return false",
      "r.outbounds.Handle(pck)",
      "req := r.writers[0]",
      "r.writers = r.writers[1:]",
      "r.mu.Unlock()",
      "return req.writer.receive(pck, r, req.link, req.write)"
    ] ∧
    Uniflow.Generated.PacketFuncs.o_packet_reader_Reader_Close = [
      "r.mu.Lock()",
      "defer r.mu.Unlock()",
      "if r.done",
      "  return",
      "pck := New(ErrDroppedPacket)",
      "for _, req := range r.writers",
      "  r.outbounds.Handle(pck)",
      "  go req.writer.receive(pck, r, req.link, req.write)",
      "close(r.in)",
      "r.done = true",
      "r.writers = nil",
      "r.inbounds = nil",
      "r.outbounds = nil"
    ] ∧
    Uniflow.Generated.PacketFuncs.o_packet_reader_Reader_closed = [
      "r.mu.Lock()",
      "defer r.mu.Unlock()",
      "return r.done"
    ] ∧
    Uniflow.Generated.PacketFuncs.o_packet_reader_Reader_write = [
      "r.mu.Lock()",
      "defer r.mu.Unlock()",
      "if r.done",
      "  return false",
      "r.writers = append(r.writers, request{writer: writer, link: link, write: write})",
      "r.inbounds.Handle(pck)",
      "r.in <- pck",
      "return true"
    ] ∧
    Uniflow.Generated.PacketFuncs.names_packet_reader = ["fn.init", "fn.NewReader", "Reader.AddInboundHook", "Reader.AddOutboundHook", "Reader.Read", "Reader.Receive", "Reader.Close", "Reader.closed", "Reader.write"] := by
  decide

