/-
C11 – re-statements of the function-outline ties of the files this property is anchored in and that are filed under another
property (bin/freeze_all.py): a source change there is reported for C11 as well.
-/
import Uniflow.Props.C10TieFn1
import Uniflow.Props.C10TieFn2
import Uniflow.Props.C12TieFn1

theorem C11.src_store_store_as_modelled_1 : type_of% C10.src_store_store_as_modelled_1 := C10.src_store_store_as_modelled_1
theorem C11.src_store_store_as_modelled_2 : type_of% C10.src_store_store_as_modelled_2 := C10.src_store_store_as_modelled_2
theorem C11.src_store_store_as_modelled_3 : type_of% C10.src_store_store_as_modelled_3 := C10.src_store_store_as_modelled_3
theorem C11.src_store_segment_as_modelled_1 : type_of% C12.src_store_segment_as_modelled_1 := C12.src_store_segment_as_modelled_1
theorem C11.src_store_segment_as_modelled_2 : type_of% C12.src_store_segment_as_modelled_2 := C12.src_store_segment_as_modelled_2
theorem C11.src_store_segment_as_modelled_3 : type_of% C12.src_store_segment_as_modelled_3 := C12.src_store_segment_as_modelled_3
