/-
C16 – re-statements of the function-outline ties of source files this property DEPENDS on without being anchored in
them (bin/mk_dependency_ties.py; hand-run): a source change there is reported for C16 as well.
-/
import Uniflow.Props.C15TieSrc
import Uniflow.Props.C09TieLayer

theorem C16.dep_C15_types_map_as_modelled_1 : type_of% C15.src_types_map_as_modelled_1 := C15.src_types_map_as_modelled_1
theorem C16.dep_C15_types_map_as_modelled_2 : type_of% C15.src_types_map_as_modelled_2 := C15.src_types_map_as_modelled_2
theorem C16.dep_C15_types_map_as_modelled_3 : type_of% C15.src_types_map_as_modelled_3 := C15.src_types_map_as_modelled_3
theorem C16.dep_C15_types_map_as_modelled_4 : type_of% C15.src_types_map_as_modelled_4 := C15.src_types_map_as_modelled_4
theorem C16.dep_C09_scheme_codec_as_modelled : type_of% C09.src_scheme_codec_as_modelled := C09.src_scheme_codec_as_modelled
theorem C16.dep_C09_scheme_builder_as_modelled : type_of% C09.src_scheme_builder_as_modelled := C09.src_scheme_builder_as_modelled
