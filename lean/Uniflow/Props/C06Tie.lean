/-
C06 – theorems that tie `Model/Table.lean` to fact tables regenerated from pkg/symbol/table.go on
every run (extract/table.go → Generated/TableFacts.lean).  Each theorem states that the
conditions, loop headers, early exits and returns of one Go method are exactly the ones the model
function named in its comment transcribes; `decide` re-checks it against the regenerated table,
so an edit of the Go method breaks the proof obligation even when no generated history reaches it.
-/
import Uniflow.Generated.TableFacts

open Uniflow.Generated.TableFacts

/-- `links`, first loop = model `linkOut` folded over `o.ports 1 sb.ports`: for each out-port and
each of its references, resolve (`id == uuid.Nil` ⇒ by name in the symbol's namespace); only when
the target is present (`ref, ok := t.symbols[id]; ok` – an absent target is *skipped*, the loop
neither breaks nor returns) and in the same namespace: link when both ports exist, and append the
reverse reference. -/
theorem C06.links_first_loop_as_modelled :
    (of "links").take 7 =
      [("loop", "range sb.Ports()", ""),
       ("loop", "range ports", ""),
       ("if", "id == uuid.Nil", "id = t.lookup(sb.Namespace(), port.Name)"),
       ("if", "ref, ok := t.symbols[id]; ok", "block:if"),
       ("if", "ref.Namespace() == sb.Namespace()", "block:assign,if,assign,if,assign"),
       ("if", "out != nil && in != nil", "out.Link(in)"),
       ("if", "references == nil", "block:assign,assign")] := by
  decide

/-- `links`, second loop = model `linkInSym` / `linkIn` folded over `o.syms 1 st.symbols`: symbols
of another namespace are skipped (`continue`) *before* the match, the match is "by id, or by a
non-empty name equal to the new symbol's name" (model: `port.id = sb.id ∨ (port.name ≠ 0 ∧
port.name = sb.name)`), then link + reverse reference as in the first loop; nothing else leaves the
loops (no `break`, no `return`). -/
theorem C06.links_second_loop_as_modelled :
    (of "links").drop 7 =
      [("loop", "range t.symbols", ""),
       ("if", "ref.Namespace() != sb.Namespace()", "continue"),
       ("loop", "range ref.Ports()", ""),
       ("loop", "range ports", ""),
       ("if", "(port.ID == sb.ID()) || (port.Name != \"\" && port.Name == sb.Name())",
          "block:assign,if,assign,if,assign"),
       ("if", "out != nil && in != nil", "out.Link(in)"),
       ("if", "references == nil", "block:assign,assign")] ∧
    sig "links" = some (["sb *Symbol"], []) := by
  decide

/-- `Insert` = model `step (.insert sb)`: free the old symbol first – its error is the only early
return – then `insert`; `insert` = model `insert`: store, index the non-empty name, `links`,
and return `load`'s result.  There is no other exit before free + link. -/
theorem C06.insert_as_modelled :
    of "Insert" =
      [("if", "_, err := t.free(sb.ID()); err != nil", "return err"),
       ("return", "return t.insert(sb)", "")] ∧
    of "insert" =
      [("if", "sb.Name() != \"\"", "block:assign,if,assign"),
       ("if", "!ok", "block:assign,assign"),
       ("return", "return t.load(sb)", "")] ∧
    sig "Insert" = some (["sb *Symbol"], ["error"]) ∧ sig "insert" = some (["sb *Symbol"], ["error"]) := by
  decide

/-- `Free` / `free` = model `free`: absent ⇒ `(nil, nil)`; `unload` error ⇒ returned before
anything is changed; then `unlinks`, `sb.Close()`, drop the non-empty name (and the emptied
namespace map – flattened in the model), delete the symbol. -/
theorem C06.free_as_modelled :
    of "Free" =
      [("if", "err != nil", "return false, err"),
       ("return", "return sb != nil, nil", "")] ∧
    of "free" =
      [("if", "!ok", "return nil, nil"),
       ("if", "err := t.unload(sb); err != nil", "return nil, err"),
       ("if", "err := sb.Close(); err != nil", "return nil, err"),
       ("if", "sb.Name() != \"\"", "block:if"),
       ("if", "ns, ok := t.namespaces[sb.Namespace()]; ok", "block:call,if"),
       ("if", "len(ns) == 0", "delete(t.namespaces, sb.Namespace())"),
       ("return", "return sb, nil", "")] := by
  decide

/-- `lookup` = model `lookupName` (missing namespace or name ⇒ `uuid.Nil`), `Lookup` / `Keys` read
`t.symbols` only; and the table's state is exactly the three maps the model's `State` carries
(plus the hooks and the mutex): no further field an operation could remember anything in. -/
theorem C06.lookup_and_state_as_modelled :
    of "lookup" =
      [("if", "ns, ok := t.namespaces[namespace]; ok", "return ns[name]"),
       ("return", "return uuid.Nil", "")] ∧
    of "Lookup" = [("return", "return t.symbols[id]", "")] ∧
    of "Keys" = [("loop", "range t.symbols", ""), ("return", "return ids", "")] ∧
    tableFields =
      [("symbols", "map[uuid.UUID]*Symbol"),
       ("namespaces", "map[string]map[string]uuid.UUID"),
       ("references", "map[uuid.UUID]map[string][]spec.Port"),
       ("loadHooks", "LoadHooks"),
       ("unloadHooks", "UnloadHooks"),
       ("mu", "sync.RWMutex")] := by
  decide
