/-
C13 – theorems that tie the model's assumptions to fact tables regenerated from the
repository's source on every run (extract/main.go). Kept apart from C13.lean so that the
property theorems and these obligations can be maintained independently.

Besides the lock facts, Generated/StoreFacts (extract/store.go) carries
* the bodies of the per-document loops of `store.Insert` / `Update` / `Delete` as classified phases
  (`try s.segment.Store(val)`, `try s.emit(…)`): `C13.runDocs` runs a phase list on the store model, collecting the
  documents `emit` is called for, and `C13.insert_loop_as_modelled` / `update_…` / `delete_…` prove that running the
  regenerated lists gives the model's `storeInsert` / `swapAll` / `deleteAll` AND the event lists `insertEvents` /
  `swapEvents` / `deleteEvents` of Model/Watch.lean – mutation and emission of a document happen in one iteration, so a
  document rejected later in the batch does not take back the events of the earlier ones;
* `store.emit`: a `range` over all of `store.streams` without `continue` / `break`;
* `stream.Emit` / `Close`: lock first, then one `select` that tests `done` and sends / closes.
-/
import Uniflow.Generated.Locks
import Uniflow.Generated.StoreFacts
import Uniflow.Model.Watch

/-! ## Step granularity tied to the source

`Emit` and `Close` of a stream are one critical section each under `stream.mu` (that mutual
exclusion is what makes the send on `in` safe), and every store mutation runs under one
acquisition of `store.mu` (so `emit` happens inside the mutation's critical section). -/
open Uniflow.Generated.Locks in
theorem C13.atomic_sections :
    acquireSites.contains ("store.stream", "Emit", "mu", 1) = true ∧
    acquireSites.contains ("store.stream", "Close", "mu", 1) = true ∧
    acquireSites.contains ("store.store", "Insert", "mu", 1) = true ∧
    acquireSites.contains ("store.store", "Update", "mu", 1) = true ∧
    acquireSites.contains ("store.store", "Delete", "mu", 1) = true ∧
    (calls.filter (fun c => c.typ == "store.store" && c.callee == "store.stream.Emit")).all
      (fun c => c.held.contains "store.store.mu") = true := by
  decide

open Uniflow.Value Uniflow.Store Uniflow.Index Uniflow.Watch Uniflow.Generated.StoreFacts

/-! ## The per-document loops of `Insert` / `Update` / `Delete`: mutate, then emit, in ONE iteration -/
namespace C13

inductive LStep where
  | next (s : State) (ev : List (PList × Nat))
  | stop (m : Mut)
  | bad

/-- one phase of a per-document loop body (Generated/StoreFacts `insertPhases` / `updatePhases` / `deletePhases`) on the
store model; `ev` collects the documents `emit` was called for. Documents of the model are maps already, so the
marshalling phase cannot fail; `emit` fails only for a document without id (excluded by the segment call before it) or
a malformed watcher filter (outside the model, see Model/Watch.lean). -/
def docPhase (ph : String) (s : State) (d : PList) (ev : List (PList × Nat)) : LStep :=
  if ph = "val, err := types.Cast[types.Map](types.Marshal(doc))" ∨ ph = "fail-if err != nil: err" then .next s ev
  else if ph = "try s.segment.Store(val)" then
    (match segStore s d with | (s', none) => .next s' ev | r => .stop r)
  else if ph = "try s.segment.Swap(doc)" then
    (match segSwap s d with | (s', none) => .next s' ev | r => .stop r)
  else if ph = "try s.segment.Delete(doc.Get(types.NewString(\"id\")))" then
    (match segDelete s (mget d keyId) with | (s', none) => .next s' ev | r => .stop r)
  else if ph = "try s.emit(types.NewString(\"insert\"), val)" then .next s (ev ++ [(d, opInsert)])
  else if ph = "try s.emit(types.NewString(\"update\"), doc)" then .next s (ev ++ [(d, opUpdate)])
  else if ph = "try s.emit(types.NewString(\"delete\"), doc)" then .next s (ev ++ [(d, opDelete)])
  else .bad

/-- the body of one iteration -/
def runDoc : List String → State → PList → List (PList × Nat) → LStep
  | [], s, _, ev => .next s ev
  | ph :: rest, s, d, ev =>
    match docPhase ph s d ev with
    | .next s' ev' => runDoc rest s' d ev'
    | r => r

/-- `for _, doc := range docs { body }; return …` -/
def runDocs (phases : List String) : State → List PList → List (PList × Nat) → Option (Mut × List (PList × Nat))
  | s, [], ev => some ((s, none), ev)
  | s, d :: ds, ev =>
    match runDoc phases s d ev with
    | .next s' ev' => runDocs phases s' ds ev'
    | .stop m => some (m, ev)
    | .bad => none

/-- a loop of the expected form: a `range` over `docs` without `continue` / `break` -/
def docLoop (l : Loop) : Bool :=
  l.kind == "range" && l.header == "docs" && l.vars == "_,doc" && !l.hasContinue && !l.hasBreak

end C13

theorem C13.mutation_loops_facts :
    insertLoops = 1 ∧
    insertHeads = ["s.mu.Lock()", "defer s.mu.Unlock()", "for _, doc := range docs", "return nil"] ∧
    insertPhases = ["val, err := types.Cast[types.Map](types.Marshal(doc))", "fail-if err != nil: err",
      "try s.segment.Store(val)", "try s.emit(types.NewString(\"insert\"), val)"] ∧
    updatePhases = ["try s.segment.Swap(doc)", "try s.emit(types.NewString(\"update\"), doc)"] ∧
    upsertCond = "upsert && len(docs) == 0" ∧
    upsertPhases = ["doc, err := types.Cast[types.Map](extract(f))", "fail-if err != nil: err", "doc, err = patch(doc, u)",
      "fail-if err != nil: err", "try s.segment.Store(doc)", "try s.emit(types.NewString(\"insert\"), doc)", "return 1, nil"] ∧
    deletePhases = ["try s.segment.Delete(doc.Get(types.NewString(\"id\")))", "try s.emit(types.NewString(\"delete\"), doc)"] ∧
    C13.docLoop insertLoop = true ∧ C13.docLoop updateLoop = true ∧ C13.docLoop deleteLoop = true := by
  decide

theorem C13.insert_loop_as_modelled (s : State) (ds : List PList) :
    C13.docLoop insertLoop = true ∧ insertLoops = 1 ∧
    C13.runDocs insertPhases s ds [] = some (storeInsert s ds, insertEvents s ds) := by
  have h : insertPhases = ["val, err := types.Cast[types.Map](types.Marshal(doc))", "fail-if err != nil: err",
      "try s.segment.Store(val)", "try s.emit(types.NewString(\"insert\"), val)"] := by decide
  refine ⟨by decide, by decide, ?_⟩
  rw [h]
  suffices ∀ ev, C13.runDocs _ s ds ev = some (storeInsert s ds, ev ++ insertEvents s ds) by simpa using this []
  induction ds generalizing s with
  | nil => intro ev; simp [C13.runDocs, storeInsert, insertEvents]
  | cons d ds ih =>
    intro ev
    simp only [C13.runDocs, C13.runDoc, C13.docPhase]
    simp (config := { decide := true }) only [if_true, if_false]
    cases hs : segStore s d with
    | mk s' e =>
      cases e with
      | none => simp [storeInsert, insertEvents, hs, ih]
      | some r => simp [storeInsert, insertEvents, hs]

theorem C13.update_loop_as_modelled (s : State) (ds : List PList) :
    C13.docLoop updateLoop = true ∧
    C13.runDocs updatePhases s ds [] = some (swapAll s ds, swapEvents s ds) := by
  have h : updatePhases = ["try s.segment.Swap(doc)", "try s.emit(types.NewString(\"update\"), doc)"] := by decide
  refine ⟨by decide, ?_⟩
  rw [h]
  suffices ∀ ev, C13.runDocs _ s ds ev = some (swapAll s ds, ev ++ swapEvents s ds) by simpa using this []
  induction ds generalizing s with
  | nil => intro ev; simp [C13.runDocs, swapAll, swapEvents]
  | cons d ds ih =>
    intro ev
    simp only [C13.runDocs, C13.runDoc, C13.docPhase]
    simp (config := { decide := true }) only [if_true, if_false]
    cases hs : segSwap s d with
    | mk s' e =>
      cases e with
      | none => simp [swapAll, swapEvents, hs, ih]
      | some r => simp [swapAll, swapEvents, hs]

theorem C13.delete_loop_as_modelled (s : State) (ds : List PList) :
    C13.docLoop deleteLoop = true ∧
    C13.runDocs deletePhases s ds [] = some (deleteAll s ds, deleteEvents s ds) := by
  have h : deletePhases = ["try s.segment.Delete(doc.Get(types.NewString(\"id\")))",
      "try s.emit(types.NewString(\"delete\"), doc)"] := by decide
  refine ⟨by decide, ?_⟩
  rw [h]
  suffices ∀ ev, C13.runDocs _ s ds ev = some (deleteAll s ds, ev ++ deleteEvents s ds) by simpa using this []
  induction ds generalizing s with
  | nil => intro ev; simp [C13.runDocs, deleteAll, deleteEvents]
  | cons d ds ih =>
    intro ev
    simp only [C13.runDocs, C13.runDoc, C13.docPhase]
    simp (config := { decide := true }) only [if_true, if_false]
    cases hs : segDelete s (mget d keyId) with
    | mk s' e =>
      cases e with
      | none => simp [deleteAll, deleteEvents, hs, ih]
      | some r => simp [deleteAll, deleteEvents, hs]

/-- non-vacuity: two documents with the same id – the first is stored and its event emitted in its own iteration, the
second is rejected; nothing is emitted for it and the first event stays. -/
theorem C13.insert_loop_nonvacuous :
    (C13.runDocs insertPhases Uniflow.Index.init
        [.cons keyId (.int .w64 1) .nil, .cons keyId (.int .w64 1) .nil] []).map (fun r => (r.1.2, r.2.length))
      = some (some (.err .keyDuplicate), 1) := by
  decide

/-! ## `store.emit` and `stream.Emit` -/

/-- the elements a `range` loop reaches when it has no `continue` / `break` (a `return` inside is an error exit) -/
def C13.visitsAll {α : Type} (l : Loop) (xs : List α) : Option (List α) :=
  if l.kind = "range" ∧ l.hasContinue = false ∧ l.hasBreak = false then some xs else none

theorem C13.emit_facts :
    emitGuards = [("id == nil", "return errors.WithMessage(ErrKeyMissing, \"key: id\")")] ∧
    emitHeads = ["id := doc.Get(types.NewString(\"id\"))", "if id == nil", "for _, strm := range s.streams", "return nil"] ∧
    emitLoop = ⟨"range", "s.streams", "_,strm", false, false, true,
      ["if ok, err := strm.Match(doc); err != nil", "  return err", "else", "  if ok",
       "    strm.Emit(types.NewMap(types.NewString(\"op\"), op, types.NewString(\"id\"), id))"]⟩ := by
  decide

/-- `emit` offers the event to EVERY stream of `store.streams`, in order, and does not edit that list while it walks it
(only `Watch` assigns `store.streams` – Generated/Locks): the model's `doc` step maps over all streams. -/
theorem C13.emit_loop_as_modelled (st : Uniflow.Stream.St) (e : Uniflow.Stream.Event) (matched : List Nat) :
    emitLoop.header = "s.streams" ∧
    ((Uniflow.Generated.Locks.accesses_store_store.filter fun a => a.field == "streams" && a.write).map (·.meth)) = ["Watch"] ∧
    (C13.visitsAll emitLoop st.streams).map
        (·.map fun s => if matched.contains s.wid then s.emit e else s) =
      some (Uniflow.Stream.step st (.doc e true matched)).1.streams := by
  have h : emitLoop.kind = "range" ∧ emitLoop.hasContinue = false ∧ emitLoop.hasBreak = false := by decide
  refine ⟨by decide, by decide, ?_⟩
  simp [C13.visitsAll, h, Uniflow.Stream.step]

/-- Which clause of `select { case <-s.done: …; default: … }` runs, and whether it sends on `in`: a ready communication
is taken before `default`. `none`: a select this reading does not understand. -/
def C13.selectSends (clauses : List (String × List String)) (done : Bool) : Option Bool :=
  match clauses with
  | [(c1, b1), (c2, b2)] =>
    if c1 = "<-s.done" ∧ c2 = "default" then some ((if done then b1 else b2).contains "s.in <- doc") else none
  | _ => none

theorem C13.stream_emit_facts :
    streamEmitHeads = ["s.mu.Lock()", "defer s.mu.Unlock()", "select"] ∧
    streamEmitClauses = [("<-s.done", ["return false"]), ("default", ["s.in <- doc", "return true"])] ∧
    streamCloseHeads = ["s.mu.Lock()", "defer s.mu.Unlock()", "select"] ∧
    streamCloseClauses = [("<-s.done", ["return nil"]), ("default", ["close(s.done)", "return nil"])] := by
  decide

/-- `stream.Emit` takes the lock first and then – in the same critical section as `Close` – tests `done` and sends:
the model's `Strm.emit` (refused once `done` is closed, handed to the pump otherwise). -/
theorem C13.stream_emit_as_modelled (s : Uniflow.Stream.Strm) (e : Uniflow.Stream.Event) :
    streamEmitHeads = ["s.mu.Lock()", "defer s.mu.Unlock()", "select"] ∧
    s.emit e = (if C13.selectSends streamEmitClauses s.done = some true
                then { s with queue := s.queue ++ [e], emitted := s.emitted ++ [e] } else s) := by
  have h : streamEmitClauses = [("<-s.done", ["return false"]), ("default", ["s.in <- doc", "return true"])] := by decide
  refine ⟨by decide, ?_⟩
  rw [h]
  cases hd : s.done <;> simp [C13.selectSends, Uniflow.Stream.Strm.emit, hd]

/-! ## outlines -/

/-- `store.Watch` (the filter is validated before the stream exists – so `emit`'s `strm.Match` cannot fail on a document
that has already been stored: the malformed-watcher defect repaired in repo 7f54b88 –, the stream is appended to
`store.streams`; a goroutine removes it once it is done), `Insert`, `Update`, `Delete`, `emit`. -/
theorem C13.store_outline_as_modelled :
    outline_store_Watch = [
      "s.mu.Lock()",
      "defer s.mu.Unlock()",
      "var f types.Map",
      "if filter != nil",
      "  var err error",
      "  if f, err = types.Cast[types.Map](types.Marshal(filter)); err != nil",
      "    return nil, err",
      "  if err := validate(f); err != nil",
      "    return nil, err",
      "strm := newStream(f)",
      "s.streams = append(s.streams, strm)",
      "if ctx.Done() != nil",
      "  go func#1()",
      "  func#1()",
      "    select",
      "      case <-ctx.Done()",
      "        _ = strm.Close(ctx)",
      "      case <-strm.Done()",
      "go func#2()",
      "func#2()",
      "  <-strm.Done()",
      "  s.mu.Lock()",
      "  defer s.mu.Unlock()",
      "  for i := 0; i < len(s.streams); i++",
      "    if s.streams[i] == strm",
      "      s.streams = append(s.streams[:i], s.streams[i+1:]...)",
      "      break",
      "return strm, nil"] ∧
    outline_store_Insert = [
      "s.mu.Lock()",
      "defer s.mu.Unlock()",
      "for _, doc := range docs",
      "  val, err := types.Cast[types.Map](types.Marshal(doc))",
      "  if err != nil",
      "    return err",
      "  if err := s.segment.Store(val); err != nil",
      "    return err",
      "  if err := s.emit(types.NewString(\"insert\"), val); err != nil",
      "    return err",
      "return nil"] ∧
    outline_store_Update = [
      "s.mu.Lock()",
      "defer s.mu.Unlock()",
      "var upsert bool",
      "for _, opt := range opts",
      "  if opt.Upsert",
      "    upsert = opt.Upsert",
      "var f types.Map",
      "if filter != nil",
      "  var err error",
      "  if f, err = types.Cast[types.Map](types.Marshal(filter)); err != nil",
      "    return 0, err",
      "u, err := types.Cast[types.Map](types.Marshal(update))",
      "if err != nil",
      "  return 0, err",
      "docs, err := s.find(f)",
      "if err != nil",
      "  return 0, err",
      "if _, err := patch(types.NewMap(), u); err != nil",
      "  return 0, err",
      "if upsert && len(docs) == 0",
      "  doc, err := types.Cast[types.Map](extract(f))",
      "  if err != nil",
      "    return 0, err",
      "  doc, err = patch(doc, u)",
      "  if err != nil",
      "    return 0, err",
      "  if err := s.segment.Store(doc); err != nil",
      "    return 0, err",
      "  if err := s.emit(types.NewString(\"insert\"), doc); err != nil",
      "    return 0, err",
      "  return 1, nil",
      "for i := 0; i < len(docs); i++",
      "  doc, err := patch(docs[i], u)",
      "  if err != nil",
      "    return 0, err",
      "  docs[i] = doc",
      "for _, doc := range docs",
      "  if err := s.segment.Swap(doc); err != nil",
      "    return 0, err",
      "  if err := s.emit(types.NewString(\"update\"), doc); err != nil",
      "    return 0, err",
      "return len(docs), nil"] ∧
    outline_store_Delete = [
      "s.mu.Lock()",
      "defer s.mu.Unlock()",
      "var f types.Map",
      "if filter != nil",
      "  var err error",
      "  if f, err = types.Cast[types.Map](types.Marshal(filter)); err != nil",
      "    return 0, err",
      "docs, err := s.find(f)",
      "if err != nil",
      "  return 0, err",
      "for _, doc := range docs",
      "  if err := s.segment.Delete(doc.Get(types.NewString(\"id\"))); err != nil",
      "    return 0, err",
      "  if err := s.emit(types.NewString(\"delete\"), doc); err != nil",
      "    return 0, err",
      "return len(docs), nil"] ∧
    outline_store_emit = [
      "id := doc.Get(types.NewString(\"id\"))",
      "if id == nil",
      "  return errors.WithMessage(ErrKeyMissing, \"key: id\")",
      "for _, strm := range s.streams",
      "  if ok, err := strm.Match(doc); err != nil",
      "    return err",
      "  else",
      "    if ok",
      "      strm.Emit(types.NewMap(types.NewString(\"op\"), op, types.NewString(\"id\"), id))",
      "return nil"] := by
  decide

/-- `stream.Match` / `Emit` / `Next` / `Close` and the pump goroutine of `newStream` (Model/Stream.lean `Pump`). -/
theorem C13.stream_outline_as_modelled :
    outline_stream_Match = [
      "if s.filter == nil",
      "  return true, nil",
      "return match(doc, s.filter)"] ∧
    outline_stream_Emit = [
      "s.mu.Lock()",
      "defer s.mu.Unlock()",
      "select",
      "  case <-s.done",
      "    return false",
      "  default",
      "    s.in <- doc",
      "    return true"] ∧
    outline_stream_Next = [
      "select",
      "  case <-ctx.Done()",
      "    return false",
      "  case doc, ok := <-s.out",
      "    s.doc = doc",
      "    return ok"] ∧
    outline_stream_Close = [
      "s.mu.Lock()",
      "defer s.mu.Unlock()",
      "select",
      "  case <-s.done",
      "    return nil",
      "  default",
      "    close(s.done)",
      "    return nil"] ∧
    outline_newStream = [
      "c := &stream{ filter: filter, in: make(chan types.Map), out: make(chan types.Map), done: make(chan struct{}), }",
      "go func#1()",
      "func#1()",
      "  defer close(c.out)",
      "  defer close(c.in)",
      "  buffer := make([]types.Map, 0, 2)",
      "  for",
      "    var event types.Map",
      "    select",
      "      case event = <-c.in",
      "      case <-c.done",
      "        return",
      "    select",
      "      case c.out <- event",
      "      case <-c.done",
      "        return",
      "      default",
      "        buffer = append(buffer, event)",
      "        for len(buffer) > 0",
      "          select",
      "            case event = <-c.in",
      "              buffer = append(buffer, event)",
      "            case c.out <- buffer[0]",
      "              buffer = buffer[1:]",
      "            case <-c.done",
      "              return",
      "return c"] := by
  decide
