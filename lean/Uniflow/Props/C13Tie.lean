/-
C13 – theorems that tie the model's assumptions to fact tables regenerated from the
repository's source on every run (extract/main.go). Kept apart from C13.lean so that the
property theorems and these obligations can be maintained independently.
-/
import Uniflow.Generated.Locks

/-! ## Step granularity tied to the source

`Emit` and `Close` of a stream are one critical section each under `stream.mu` (that mutual
exclusion is what makes the send on `in` safe), and every store mutation runs under one
acquisition of `store.mu` (so `emit` happens inside the mutation's critical section). -/
open Uniflow.Generated.Locks in
theorem C13.atomic_sections :
    acquireSites.contains ("store.stream", "Emit", "mu", 1) = true ∧
    acquireSites.contains ("store.stream", "Close", "mu", 1) = true ∧
    acquireSites.contains ("store.store", "Insert", "mu", 1) = true ∧
    acquireSites.contains ("store.store", "Update", "mu", 1) = true ∧
    acquireSites.contains ("store.store", "Delete", "mu", 1) = true ∧
    (calls.filter (fun c => c.typ == "store.store" && c.callee == "store.stream.Emit")).all
      (fun c => c.held.contains "store.store.mu") = true := by
  decide
