/-
C03 – teardown at any point releases every waiting requester with a real packet.

Model: `Uniflow.Teardown` – components (C01 writer machine + writer pump + the consumer of
`Receive()`), node relays, and the six teardown actions, each the sequence of closes the Go code
performs.  All theorems quantify over every wiring `t : Topo`, every history
`h : List Teardown.Step` (any interleaving of critical sections, channel operations, node loop
iterations and teardown actions – no length bound, any number of writers, readers, processes)
and every writer `w`.  The exit rule of the writer pumps is `Pump.Rule.discard` – the code: the
pump goroutine returns as soon as it sees the closed `in` and drops what it buffered, so the
closed `Receive()` channel *stands for* the `dropped` responses `Writer.Close` queued.

What is proved, and for whom:
* requesters that use `packet.Send` / `SendOrFallback` (after `fix: Send must return a dropped
  packet, not nil …`): full strength – every result is a real packet, the response the writer
  emitted for that write or `dropped`; never nil; `dropped`-for-closed only when their own writer
  has been closed (`C03.never_nil`, `C03.send_total`);
* requesters that do a raw `<-w.Receive()`: `_partial` – never the closed channel as long as
  their own writer has not been closed (`C03.never_nil_raw_partial`); on their own closed writer
  they can see it (`C03.never_nil_raw_full_false` – known finding `close-discards-buffered` (i));
* liveness (`C03.teardown_releases_partial`) is about the requester of a writer that has itself
  been torn down (closed, or all its readers closed).  A requester *upstream of a node* whose
  out-writer alone is closed depends on the node's backward loop seeing the drop notices, which
  the pump may discard: the model's `bwd` does nothing on a closed channel, the upstream writer is
  not `TornDown`, and no theorem claims its release (known finding, part (ii)).

`RunNoSteal h`: the requester is the only consumer of its writer's `Receive()` channel (no step
of `h` is a `steal`).
-/
import Uniflow.Proofs.Teardown

open Uniflow Uniflow.Writer Uniflow.Teardown Uniflow.TeardownProofs Uniflow.WriterProofs

/-! ## Helper lemmas -/

namespace Uniflow.TeardownProofs

/-- The component invariant holds in every reachable state of every system history. -/
theorem cinv_reach (t : Topo) (h : List Teardown.Step) (hs : RunNoSteal h) (w : WId) :
    CInv ((Teardown.run .discard t {} h).comp w) := by
  obtain ⟨cs, n, e⟩ := run_evolves .discard t {} h hs w
  rw [e]
  exact cinv_run _ cs cinv_init n

/-- Once the writer is closed nothing is pushed into its pump any more. -/
theorem frozen_step (c : Comp) (st : CStep) (h : CInv c) (hd : c.w.done = true) :
    (applyC .discard c st).1.p.pushed = c.p.pushed ∧ (applyC .discard c st).1.w.done = true := by
  cases st with
  | w s =>
    obtain ⟨q1, _, q3⟩ := done_quiet c.w s hd (h.doneRows hd)
    simp only [applyC, q1, enqAll_nil]
    refine ⟨?_, q3⟩
    split
    · simp [Pump.stepR]
    · rfl
  | recv =>
    simp only [applyC]
    split
    · split
      · simp only [Pump.stepR]; split <;> exact ⟨rfl, hd⟩
      · exact ⟨rfl, hd⟩
      · exact ⟨rfl, hd⟩
    · exact ⟨rfl, hd⟩
  | steal => simp only [applyC, Pump.stepR]; split <;> exact ⟨rfl, hd⟩
  | pumpExit => simp only [applyC, Pump.stepR]; split <;> exact ⟨rfl, hd⟩

theorem frozen_run (c : Comp) (cs : List CStep) (h : CInv c) (hs : NoSteal cs) (hd : c.w.done = true) :
    (runC .discard c cs).p.pushed = c.p.pushed := by
  induction cs generalizing c with
  | nil => rfl
  | cons st rest ih =>
    simp only [runC]
    obtain ⟨f1, f2⟩ := frozen_step c st h hd
    rw [ih _ (cinv_step c st h (hs st (by simp))) (fun x hx => hs x (by simp [hx])) f2, f1]

/-- The writer-machine steps of a component history. -/
def wsteps : List CStep → List Writer.Step
  | [] => []
  | .w st :: rest => st :: wsteps rest
  | _ :: rest => wsteps rest

theorem runC_w (rule : Pump.Rule) (c : Comp) (cs : List CStep) :
    (runC rule c cs).w = (Writer.runFrom c.w (wsteps cs)).1 := by
  induction cs generalizing c with
  | nil => rfl
  | cons st rest ih =>
    cases st with
    | w s => simp only [runC, wsteps, Writer.runFrom]; rw [ih]; rfl
    | recv =>
      simp only [runC, wsteps]; rw [ih]
      simp only [applyC]
      split
      · split <;> rfl
      · rfl
    | steal => simp only [runC, wsteps]; rw [ih]; rfl
    | pumpExit => simp only [runC, wsteps]; rw [ih]; rfl

theorem prim_frame (rule : Pump.Rule) (t : Topo) (s : Sys) (w : WId) (c : CStep) (x : WId) (hx : x ≠ w) :
    (applyPrim rule t s w c).1.comp x = s.comp x := by
  rw [applyPrim_comp]; simp [hx]

/-- Every item of what a consumer has received is a delivered packet or – only when its writer
is closed – the closed channel. -/
theorem got_shape (c : Comp) (h : CInv c) :
    ∀ x ∈ c.got, (∃ a, x = .got a ∧ a ∈ c.p.pushed) ∨ (x = .closed ∧ c.w.done = true) := by
  intro x hx
  obtain ⟨k, hg, hk⟩ := h.got
  rw [hg] at hx
  rcases List.mem_append.1 hx with hx | hx
  · obtain ⟨a, ha, rfl⟩ := List.mem_map.1 hx
    exact Or.inl ⟨a, rfl, h.pre.subset ha⟩
  · have hxc := List.eq_of_mem_replicate hx
    have hkpos : 0 < k := by
      cases k with
      | zero => simp at hx
      | succ n => omega
    have hex := hk hkpos
    have hic := (h.exit hex).2
    exact Or.inr ⟨hxc, by rw [← h.closed]; exact hic⟩

end Uniflow.TeardownProofs

/-! ## Safety -/

/-- **Never nil (requesters using `Send` / `SendOrFallback`).**  In every reachable state of
every history – any teardown sequence at any point – every result a sole consumer has obtained
for an accepted write through the fixed `Send` is a real packet: either a response its writer
actually emitted, or `dropped`; the latter for a closed channel only, and the channel is closed
only when the requester's own writer has been closed.  Never nil, never "still parked". -/
theorem C03.never_nil (t : Topo) (h : List Teardown.Step) (hs : RunNoSteal h) (w : WId) :
    ∀ x ∈ ((Teardown.run .discard t {} h).comp w).got,
      (∃ a, a ∈ ((Teardown.run .discard t {} h).comp w).p.pushed ∧ sendResult true x = some (.some a)) ∨
      (((Teardown.run .discard t {} h).comp w).w.done = true ∧ sendResult true x = some (.some Resp.dropped)) := by
  intro x hx
  rcases got_shape _ (cinv_reach t h hs w) x hx with ⟨a, rfl, ha⟩ | ⟨rfl, hd⟩
  · exact Or.inl ⟨a, ha, rfl⟩
  · exact Or.inr ⟨hd, rfl⟩

/-- `Send`'s own guard (`fix: Send must return a dropped packet, not nil …`): the fixed `Send`
never returns the nil packet, whatever the channel yields – also when another consumer has
taken the response. -/
theorem C03.send_total (x : Pump.Recv Resp) : sendResult true x ≠ some .nilPacket := by
  cases x <;> simp [sendResult]

/-- The defect that was fixed (DESIGN.md §7 row 7), as a theorem about the pinned `Send`: the
writer is closed with a response owed, the pump goroutine sees the closed `in` first and returns,
the requester receives the zero value of the closed channel – and the pinned `Send` hands its
caller the nil packet, where the fixed one gives `dropped`. -/
theorem C03.send_pinned_nil :
    ∃ h : List Teardown.Step, RunNoSteal h ∧
      ((Teardown.run .discard {} {} h).comp 0).got = [.closed] ∧
      sendResult false .closed = some .nilPacket ∧ sendResult true .closed = some (.some Resp.dropped) :=
  ⟨[.prim 0 (.w (.link 0)), .prim 0 (.w (.write 1)), .down (.writerClose 0), .prim 0 .pumpExit, .prim 0 .recv],
   by intro st hst; simp only [List.mem_cons, List.not_mem_nil, or_false] at hst; rcases hst with rfl | rfl | rfl | rfl | rfl <;> simp [StepNoSteal],
   by decide, rfl, rfl⟩

/-- **Never nil (raw receivers)** – `_partial`: a requester that does a raw `<-w.Receive()` never
sees the closed channel while a response is owed *as long as its own writer has not been closed*
– whatever is torn down elsewhere (readers of that writer, other writers, ports, nodes,
processes that do not own it).  The hypothesis is exactly the negation of class (i) of the known
finding `close-discards-buffered`. -/
theorem C03.never_nil_raw_partial (t : Topo) (h : List Teardown.Step) (hs : RunNoSteal h) (w : WId)
    (hopen : ((Teardown.run .discard t {} h).comp w).w.done = false) :
    ∀ x ∈ ((Teardown.run .discard t {} h).comp w).got, x ≠ Pump.Recv.closed := by
  intro x hx hc
  rcases got_shape _ (cinv_reach t h hs w) x hx with ⟨a, rfl, _⟩ | ⟨_, hd⟩
  · cases hc
  · rw [hopen] at hd; cases hd

/-- The full statement for raw receivers (kept) and its refutation by the known finding: on its
own closed writer a raw receiver that is not parked yet sees the closed channel. -/
def C03.never_nil_raw_full : Prop :=
  ∀ (t : Topo) (h : List Teardown.Step), RunNoSteal h → ∀ w,
    ∀ x ∈ ((Teardown.run .discard t {} h).comp w).got, x ≠ Pump.Recv.closed

theorem C03.never_nil_raw_full_false : ¬ C03.never_nil_raw_full := by
  intro hf
  have := hf {} [.prim 0 (.w (.link 0)), .prim 0 (.w (.write 1)), .down (.writerClose 0), .prim 0 .pumpExit, .prim 0 .recv]
    (by intro st hst; simp only [List.mem_cons, List.not_mem_nil, or_false] at hst; rcases hst with rfl | rfl | rfl | rfl | rfl <;> simp [StepNoSteal])
    0 .closed (by decide)
  exact this rfl

/-- Non-vacuity: a node between a source writer (0) and a sink, a request in flight, the sink's
reader closed (the source writer stays open): the hypotheses of `C03.never_nil_raw_partial` hold
and the requester is released with the `dropped` packet passed up by the node. -/
theorem C03.never_nil_raw_partial_nonvacuous :
    let t : Topo := { consumer := fun w => if w = 1 then .node 0 0 else .requester,
                      listener := fun w _ => if w = 0 then .node 1 else .sink 0 }
    let h : List Teardown.Step := [.prim 0 (.w (.link 0)), .prim 1 (.w (.link 0)), .prim 0 (.w (.write 7)), .fwd 0 0,
      .down (.readerClose 1 0), .prim 1 (.w (.deliverDrop 0)), .bwd 1, .prim 0 .recv]
    ((Teardown.run .discard t {} h).comp 0).w.done = false ∧
    ((Teardown.run .discard t {} h).comp 0).got = [.got Resp.dropped] := by
  decide

/-- With a second consumer of the same `Receive()` channel that takes the response (`steal`) the
requester sees the closed channel once the writer is closed – `Send`'s guard covers that too. -/
theorem C03.send_guard_with_thief :
    ((Teardown.run .discard {} {} [.prim 0 (.w (.link 0)), .prim 0 (.w (.write 1)), .prim 0 (.w (.answer 0 (.val 5))),
        .prim 0 .steal, .down (.writerClose 0), .prim 0 .pumpExit, .prim 0 .recv]).comp 0).got = [.closed] := by
  decide

/-- **Exactly once.**  In every reachable state, for every writer: what the consumer has received
is the delivered packets – a prefix, in order, of what was pushed – followed, only after the pump
goroutine has returned, by the closed channel once per receive still owed; it never has more
results than accepted writes; the number of responses ever pushed plus the writes still pending
equals the number of accepted writes.  After the writer has been torn down (`done`) no write is
pending, exactly one response per accepted write has been pushed, and no continuation of the
history ever pushes another: the packet (or the closed channel standing for `dropped`) that
releases a requester is the only one for that write. -/
theorem C03.exactly_once_after_teardown (t : Topo) (h : List Teardown.Step) (hs : RunNoSteal h) (w : WId) :
    let c := (Teardown.run .discard t {} h).comp w
    (∃ k, c.got = c.p.delivered.map Pump.Recv.got ++ List.replicate k Pump.Recv.closed ∧ (0 < k → c.p.exited = true)) ∧
    c.p.delivered <+: c.p.pushed ∧
    c.got.length ≤ c.accepted ∧
    c.p.pushed.length + c.w.rows.length = c.accepted ∧
    (c.w.done = true →
      c.p.pushed.length = c.accepted ∧
      ∀ h', RunNoSteal h' →
        ((Teardown.run .discard t (Teardown.run .discard t {} h) h').comp w).p.pushed = c.p.pushed) := by
  intro c
  have hinv := cinv_reach t h hs w
  refine ⟨hinv.got, hinv.pre, hinv.bound, hinv.count, ?_⟩
  intro hd
  constructor
  · have := hinv.count
    rw [hinv.doneRows hd] at this
    simpa using this
  · intro h' hs'
    obtain ⟨cs, n, e⟩ := run_evolves .discard t (Teardown.run .discard t {} h) h' hs' w
    rw [e]
    exact frozen_run _ cs hinv n hd

/-- Non-vacuity: torn down with one write answered and received, one answered and still
buffered, one pending. -/
theorem C03.exactly_once_after_teardown_nonvacuous :
    let c := (Teardown.run .discard {} {} [.prim 0 (.w (.link 0)), .prim 0 (.w (.write 1)), .prim 0 (.w (.write 2)),
        .prim 0 (.w (.write 3)), .prim 0 (.w (.answer 0 (.val 10))), .prim 0 .recv, .prim 0 (.w (.answer 0 (.val 20))),
        .down (.writerClose 0)]).comp 0
    c.w.done = true ∧ c.accepted = 3 ∧ c.got = [.got (.val 10)] ∧ c.p.buf = [.val 20, Resp.dropped] := by
  decide

/-- **Frame.**  A step changes only the components in its footprint (the writer it is aimed at;
for a node loop its in- and out-side writers; for a teardown action the endpoints it closes):
every other writer – its machine, pump and requester – is left exactly as it was, under either
exit rule. -/
theorem C03.frame (rule : Pump.Rule) (t : Topo) (s : Sys) (st : Teardown.Step) (x : WId)
    (hx : x ∉ footprint t st) : (Teardown.step rule t s st).1.comp x = s.comp x := by
  cases st with
  | prim w c =>
    simp only [footprint, List.mem_singleton] at hx
    exact prim_frame rule t s w c x hx
  | fwd w r => exact (step_evolves rule t s (.fwd w r) trivial).2 x hx
  | bwd wo => exact (step_evolves rule t s (.bwd wo) trivial).2 x hx
  | down td => exact (step_evolves rule t s (.down td) trivial).2 x hx

/-- Hence unaffected requesters keep the C01 guarantees: after any system history the writer
machine of every writer is the result of *some* C01 history (the critical sections that were
aimed at it, in order) – so `C01.no_panic`, `C01.head_incomplete`, `C01.exactly_one_response`
hold of it; spelled out: its head row is incomplete and its response count is exact. -/
theorem C03.frame_c01 (t : Topo) (h : List Teardown.Step) (hs : RunNoSteal h) (w : WId) :
    ∃ hw : List Writer.Step,
      ((Teardown.run .discard t {} h).comp w).w = (Writer.run hw).1 ∧
      (∀ row rest, (Writer.run hw).1.rows = row :: rest → hasNil row = true) ∧
      (emitted (Writer.run hw).2).length + (Writer.run hw).1.rows.length = acceptedCount hw (Writer.run hw).2 := by
  obtain ⟨cs, _, e⟩ := run_evolves .discard t {} h hs w
  refine ⟨wsteps cs, ?_, C01.head_incomplete _, C01.exactly_one_response _⟩
  rw [e, runC_w]
  rfl

/-- Non-vacuity of `C03.frame`: closing an out-port leaves the writer of another path as it was. -/
theorem C03.frame_nonvacuous :
    (1 : WId) ∉ footprint { outPorts := [[0, 2]] } (.down (.outPortClose 0)) ∧
    footprint { outPorts := [[0, 2]] } (.down (.outPortClose 0)) = [0, 2] := by
  decide

/-! ## Liveness (measure argument under an explicit fairness assumption) -/

/-- What is claimed of a torn-down writer `c` (`TornDown`: closed itself, or every reader linked
to it closed).

**Fairness assumption (not proved, it is about the Go scheduler):** a fair step that is enabled
is eventually taken – the goroutines `Reader.Close` spawned run (`deliverDrop`), the pump
goroutine of a closed writer returns (`pumpExit`), and a requester parked in `<-Receive()` is
handed a buffered packet or the closed channel (`recv`).  Under it the facts below give release
after at most `μ` fair steps: (a) while the requester is owed anything a fair step is enabled;
(b) every fair step strictly decreases the measure `μ = 2·pending rows + buffered packets +
held-back drop notices + responses still owed + [pump goroutine still running]`; (c) a torn-down
writer accepts no further write, so nothing new becomes owed; (d) spelled out as a run: some
sequence of at most `μ` fair steps ends with nothing owed, and each result on the way is a
packet the writer emitted or – writer closed – the closed channel, which `Send` reports as
`dropped`. -/
def C03.Releases (c : Comp) : Prop :=
  (c.outstanding > 0 → c.p.buf ≠ [] ∨ c.p.exited = true ∨ (c.w.done = false ∧ ∃ r ∈ c.w.readers, (c.w.drops r).length > 0)) ∧
  (c.outstanding > 0 → (c.p.buf ≠ [] ∨ c.p.exited = true) → mu (applyC .discard c .recv).1 < mu c) ∧
  (c.p.inClosed = true → c.p.exited = false → mu (applyC .discard c .pumpExit).1 < mu c) ∧
  (∀ r ∈ c.w.readers, c.w.done = false → (c.w.drops r).length > 0 → mu (applyC .discard c (.w (.deliverDrop r))).1 < mu c) ∧
  (∀ v, (applyC .discard c (.w (.write v))).1.accepted = c.accepted) ∧
  (∃ cs, (∀ x ∈ cs, IsFair x) ∧ cs.length ≤ mu c ∧ (runC .discard c cs).outstanding = 0 ∧
    ∀ x ∈ (runC .discard c cs).got, (∃ a, x = .got a ∧ a ∈ (runC .discard c cs).p.pushed) ∨
      (x = .closed ∧ (runC .discard c cs).w.done = true))

/-- The full statement: every torn-down writer of every reachable state releases its requester. -/
def C03.teardown_releases_full : Prop :=
  ∀ (t : Topo) (h : List Teardown.Step), RunNoSteal h → ∀ w,
    TornDown ((Teardown.run .discard t {} h).comp w) → C03.Releases ((Teardown.run .discard t {} h).comp w)

/-- **Teardown releases** – `_partial`: proved for histories that never re-link a reader which
still has requests outstanding (`NoRelinkRun`, the class of the C01 known finding
`relink-with-pending`; the port layer links every reader in `OutPort.Open` before it hands the
writer out and never unlinks, so every history the ports can produce satisfies it).  Also not
proved: that steps of *other* threads on the same writer (late answers, `closeR` of an unlinked
reader, …) never increase `μ` – only (c), that no new response becomes owed.  And it speaks of
the requester of the torn-down writer itself: a requester upstream of a node whose out-writer
alone was closed is not covered (known finding `close-discards-buffered` (ii)). -/
theorem C03.teardown_releases_partial (t : Topo) (h : List Teardown.Step) (hs : RunNoSteal h)
    (hn : NoRelinkRun .discard t {} h) (w : WId)
    (ht : TornDown ((Teardown.run .discard t {} h).comp w)) :
    C03.Releases ((Teardown.run .discard t {} h).comp w) := by
  have hi := cinv_reach t h hs w
  have hb : Backed ((Teardown.run .discard t {} h).comp w) :=
    backed_run .discard t {} h (fun _ => backed_init) hn w
  refine ⟨enabled _ hi hb ht, fun ho hen => (recv_decreases _ hi ho hen).1,
    fun hc he => (exit_decreases _ hc he).1,
    fun r hr hnd hd => (drop_decreases _ hi hb r hr hnd hd).1, torn_no_accept _ ht, ?_⟩
  obtain ⟨cs, f, l, o, i⟩ := release (mu ((Teardown.run .discard t {} h).comp w)) _ (Nat.le_refl _) hi hb ht
  exact ⟨cs, f, l, o, got_shape _ i⟩

instance decNoRelinkRun (rule : Pump.Rule) (t : Topo) : (s : Sys) → (h : List Teardown.Step) → Decidable (NoRelinkRun rule t s h)
  | _, [] => isTrue trivial
  | s, st :: h =>
    have := decNoRelinkRun rule t (Teardown.step rule t s st).1 h
    have : Decidable (stepNoRelink s st) := by
      cases st with
      | prim w c =>
        cases c with
        | w st' => exact inferInstanceAs (Decidable (relinkPending (s.comp w).w st' = false))
        | recv => exact isTrue trivial
        | steal => exact isTrue trivial
        | pumpExit => exact isTrue trivial
      | fwd _ _ => exact isTrue trivial
      | bwd _ => exact isTrue trivial
      | down _ => exact isTrue trivial
    inferInstanceAs (Decidable (stepNoRelink s st ∧ NoRelinkRun rule t (Teardown.step rule t s st).1 h))

/-- Non-vacuity: a node between a source writer (0) and a sink; two requests in flight; the
process exits (sink reader, node out-writer, node in-reader, source writer closed in that order).
The hypotheses hold, the source writer is torn down with two responses owed. -/
theorem C03.teardown_releases_partial_nonvacuous :
    let t : Topo := { consumer := fun w => if w = 1 then .node 0 0 else .requester,
                      listener := fun w _ => if w = 0 then .node 1 else .sink 0,
                      procs := [[.writer 0, .reader 0 0, .writer 1, .reader 1 0]] }
    let h : List Teardown.Step := [.prim 0 (.w (.link 0)), .prim 1 (.w (.link 0)), .prim 0 (.w (.write 7)), .fwd 0 0,
      .prim 0 (.w (.write 8)), .fwd 0 0, .down (.processExit 0)]
    NoRelinkRun .discard t {} h ∧ ((Teardown.run .discard t {} h).comp 0).w.done = true ∧
    ((Teardown.run .discard t {} h).comp 0).outstanding = 2 ∧ mu ((Teardown.run .discard t {} h).comp 0) = 5 := by
  decide

/-- … and one where the writer stays open and only its reader is closed: the release needs the
held-back drop notices (`μ = 2·2 + 0 + 2 + 2 + 1`). -/
theorem C03.teardown_releases_partial_nonvacuous_reader :
    let h : List Teardown.Step := [.prim 0 (.w (.link 0)), .prim 0 (.w (.write 7)), .prim 0 (.w (.write 8)), .down (.readerClose 0 0)]
    NoRelinkRun .discard {} {} h ∧ ((Teardown.run .discard {} {} h).comp 0).w.done = false ∧
    ((Teardown.run .discard {} {} h).comp 0).w.closed 0 = true ∧
    ((Teardown.run .discard {} {} h).comp 0).outstanding = 2 ∧ mu ((Teardown.run .discard {} {} h).comp 0) = 9 := by
  decide
