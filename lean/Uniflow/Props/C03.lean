/-
C03 – teardown at any point releases every waiting requester with a real packet.

Model: `Uniflow.Teardown` – components (C01 writer machine + writer pump + the consumer of
`Receive()`), node relays, and the six teardown actions, each the sequence of closes the Go code
performs.  All theorems quantify over every wiring `t : Topo`, every history
`h : List Teardown.Step` (any interleaving of critical sections, channel operations, node loop
iterations and teardown actions – no length bound, any number of writers, readers, processes)
and every writer `w`.  The exit rule of the writer pumps is `Pump.Rule.discard` – the code: the
pump goroutine returns as soon as it sees the closed `in` and drops what it buffered, so the
closed `Receive()` channel *stands for* the `dropped` responses `Writer.Close` queued.

What is proved, and for whom:
* requesters that use `packet.Send` / `SendOrFallback` (after `fix: Send must return a dropped
  packet, not nil …`): full strength – every result is a real packet, the response the writer
  emitted for that write or `dropped`; never nil; `dropped`-for-closed only when their own writer
  has been closed (`C03.never_nil`, `C03.send_total`);
* requesters that do a raw `<-w.Receive()`: `_partial` – never the closed channel as long as
  their own writer has not been closed (`C03.never_nil_raw_partial`); on their own closed writer
  they can see it (`C03.never_nil_raw_full_false` – known finding `close-discards-buffered` (i));
* liveness is about the requester of a writer that has itself been torn down (closed, or all
  its readers closed).  State by state (`C03.Releases`): while anything is owed a fair step is
  enabled, every fair step strictly decreases the measure `μ`, nothing new becomes owed, some run
  of at most `μ` fair steps ends with nothing owed.  Under any scheduler
  (`C03.other_steps_do_not_increase`, `C03.ReleasesUnderAnySchedule`): *no* step of any thread on
  any writer, reader, node or sink – steps on the torn-down writer itself included – and no
  further teardown action increases `μ` or ends the torn-down condition; hence in every
  continuation the enabled fair steps of the writer that are taken plus `μ` at the end are at
  most `μ` at teardown time, and after that many of them – whatever was interleaved – the
  requester is owed nothing.
  - `C03.teardown_releases`: a closed writer (`Writer.Close`, `OutPort.Close`, node close,
    process exit) – every continuation.  Full statement.
  - `C03.teardown_releases_readers`: a writer torn down through its readers (`Reader.Close`,
    `InPort.Close`) – EVERY continuation in which it stays torn down, wiring it to further (closed)
    readers included.  Full statement (`C03.teardown_releases_readers_full_proved`).  `Writer.Link` can
    raise `μ` (`C03.relink_can_increase`: `μ` counts the notices of the LINKED readers, the stale drop
    notice of a re-linked reader is counted again), so the bound is stated with the measure `muR`
    (Proofs/TeardownRelink.lean) that sums requests, drop notices and answers in flight over a fixed
    finite set of readers containing every reader that carries any, linked or not: `Link` leaves it
    where it is, a stale notice is paid for once – when it is delivered and ignored.  A `Link` to an
    OPEN reader ends the torn-down condition itself (the writer accepts writes again): such
    continuations are outside the statement by its hypothesis.
  - `C03.teardown_releases_readers_no_relink`: the same writer, continuations that do not wire it
    to a further reader: the torn-down condition is then PRESERVED (not assumed) and the bound is `μ`
    (`C03.ReleasesUnderAnySchedule`).
  **What remains assumed is fairness only**: weak fairness of the Go scheduler towards the fair
  steps of the torn-down writer (the goroutines `Reader.Close` spawned run, a popped answer is
  delivered, the pump goroutine of a closed writer returns, the parked requester is handed what
  is there).  While anything is owed that set is continuously enabled.
* a requester *upstream of a node* whose out-writer alone is closed (`fix: node backward loops
  drop what is still pending when their writer's Receive closes`): the node's backward loop, when
  the channel closes, resolves what its tracer still awaits as `dropped` (`bwd` on the closed
  channel = `Tracer.Drop`).  `C03.teardown_releases_upstream_partial`: within `buffered + 2`
  steps of the node's own goroutines nothing the node had taken from its in-reader is left
  waiting – every such request has been answered upstream, in read order.
  `C03.upstream_other_steps_do_not_increase`: under any scheduler – no step of anybody increases
  `nu = buffered + [pump running] + [a taken request waits]`, the node's two fair steps decrease
  it, so after `buffered + 2` of them, whatever was interleaved, nothing is left waiting
  (assumed: weak fairness towards the node's backward loop and the closed writer's pump
  goroutine).  `_partial` of the first: it ends at the node's `answer` calls.
  `C03.teardown_releases_upstream_awaits_partial` / `C03.upstream_awaits_any_schedule_partial`:
  for histories with consistent wiring in which only the node answers on its in-reader, the
  upstream writer awaits from that reader exactly what the node holds (invariant `Upstream`:
  `pend r = inbox + reads` while `r` is open) – in every state of every continuation –, so once
  the node holds nothing taken it awaits only the requests the forward loop has not yet taken,
  and its machine is the image of a C01 specification state whose rows owe `r` exactly those.

* a request inside a node's action when the node is closed: when the action returns the forward
  loop's remaining tracer calls change nothing for anybody and do not panic
  (`C03.action_returns_after_node_close`).

`RunNoSteal h`: the requester is the only consumer of its writer's `Receive()` channel (no step
of `h` is a `steal`).
-/
import Uniflow.Proofs.TeardownUp
import Uniflow.Proofs.TeardownRelink
import Uniflow.Proofs.DropCommute

open Uniflow Uniflow.Writer Uniflow.Teardown Uniflow.TeardownProofs Uniflow.WriterProofs

/-! ## Helper lemmas -/

namespace Uniflow.TeardownProofs

/-- The component invariant holds in every reachable state of every system history. -/
theorem cinv_reach (t : Topo) (h : List Teardown.Step) (hs : RunNoSteal h) (w : WId) :
    CInv ((Teardown.run .discard t {} h).comp w) := by
  obtain ⟨cs, n, e⟩ := run_evolves .discard t {} h hs w
  rw [e]
  exact cinv_run _ cs cinv_init n

/-- Once the writer is closed nothing is pushed into its pump any more. -/
theorem frozen_step (c : Comp) (st : CStep) (h : CInv c) (hd : c.w.done = true) :
    (applyC .discard c st).1.p.pushed = c.p.pushed ∧ (applyC .discard c st).1.w.done = true := by
  cases st with
  | w s =>
    obtain ⟨q1, _, q3⟩ := done_quiet c.w s hd (h.doneRows hd)
    simp only [applyC, q1, enqAll_nil]
    refine ⟨?_, q3⟩
    split
    · simp [Pump.stepR]
    · rfl
  | recv =>
    simp only [applyC]
    split
    · split
      · simp only [Pump.stepR]; split <;> exact ⟨rfl, hd⟩
      · exact ⟨rfl, hd⟩
      · exact ⟨rfl, hd⟩
    · exact ⟨rfl, hd⟩
  | steal => simp only [applyC, Pump.stepR]; split <;> exact ⟨rfl, hd⟩
  | pumpExit => simp only [applyC, Pump.stepR]; split <;> exact ⟨rfl, hd⟩

theorem frozen_run (c : Comp) (cs : List CStep) (h : CInv c) (hs : NoSteal cs) (hd : c.w.done = true) :
    (runC .discard c cs).p.pushed = c.p.pushed := by
  induction cs generalizing c with
  | nil => rfl
  | cons st rest ih =>
    simp only [runC]
    obtain ⟨f1, f2⟩ := frozen_step c st h hd
    rw [ih _ (cinv_step c st h (hs st (by simp))) (fun x hx => hs x (by simp [hx])) f2, f1]

/-- The writer-machine steps of a component history. -/
def wsteps : List CStep → List Writer.Step
  | [] => []
  | .w st :: rest => st :: wsteps rest
  | _ :: rest => wsteps rest

theorem runC_w (rule : Pump.Rule) (c : Comp) (cs : List CStep) :
    (runC rule c cs).w = (Writer.runFrom c.w (wsteps cs)).1 := by
  induction cs generalizing c with
  | nil => rfl
  | cons st rest ih =>
    cases st with
    | w s => simp only [runC, wsteps, Writer.runFrom]; rw [ih]; rfl
    | recv =>
      simp only [runC, wsteps]; rw [ih]
      simp only [applyC]
      split
      · split <;> rfl
      · rfl
    | steal => simp only [runC, wsteps]; rw [ih]; rfl
    | pumpExit => simp only [runC, wsteps]; rw [ih]; rfl

theorem prim_frame (rule : Pump.Rule) (t : Topo) (s : Sys) (w : WId) (c : CStep) (x : WId) (hx : x ≠ w) :
    (applyPrim rule t s w c).1.comp x = s.comp x := by
  rw [applyPrim_comp]; simp [hx]

/-- Every item of what a consumer has received is a delivered packet or – only when its writer
is closed – the closed channel. -/
theorem got_shape (c : Comp) (h : CInv c) :
    ∀ x ∈ c.got, (∃ a, x = .got a ∧ a ∈ c.p.pushed) ∨ (x = .closed ∧ c.w.done = true) := by
  intro x hx
  obtain ⟨k, hg, hk⟩ := h.got
  rw [hg] at hx
  rcases List.mem_append.1 hx with hx | hx
  · obtain ⟨a, ha, rfl⟩ := List.mem_map.1 hx
    exact Or.inl ⟨a, rfl, h.pre.subset ha⟩
  · have hxc := List.eq_of_mem_replicate hx
    have hkpos : 0 < k := by
      cases k with
      | zero => simp at hx
      | succ n => omega
    have hex := hk hkpos
    have hic := (h.exit hex).2
    exact Or.inr ⟨hxc, by rw [← h.closed]; exact hic⟩

end Uniflow.TeardownProofs

/-! ## Safety -/

/-- **Never nil (requesters using `Send` / `SendOrFallback`).**  In every reachable state of
every history – any teardown sequence at any point – every result a sole consumer has obtained
for an accepted write through the fixed `Send` is a real packet: either a response its writer
actually emitted, or `dropped`; the latter for a closed channel only, and the channel is closed
only when the requester's own writer has been closed.  Never nil, never "still parked". -/
theorem C03.never_nil (t : Topo) (h : List Teardown.Step) (hs : RunNoSteal h) (w : WId) :
    ∀ x ∈ ((Teardown.run .discard t {} h).comp w).got,
      (∃ a, a ∈ ((Teardown.run .discard t {} h).comp w).p.pushed ∧ sendResult true x = some (.some a)) ∨
      (((Teardown.run .discard t {} h).comp w).w.done = true ∧ sendResult true x = some (.some Resp.dropped)) := by
  intro x hx
  rcases got_shape _ (cinv_reach t h hs w) x hx with ⟨a, rfl, ha⟩ | ⟨rfl, hd⟩
  · exact Or.inl ⟨a, ha, rfl⟩
  · exact Or.inr ⟨hd, rfl⟩

/-- `Send`'s own guard (`fix: Send must return a dropped packet, not nil …`): the fixed `Send`
never returns the nil packet, whatever the channel yields – also when another consumer has
taken the response. -/
theorem C03.send_total (x : Pump.Recv Resp) : sendResult true x ≠ some .nilPacket := by
  cases x <;> simp [sendResult]

/-- The defect that was fixed (DESIGN.md §7 row 7), as a theorem about the pinned `Send`: the
writer is closed with a response owed, the pump goroutine sees the closed `in` first and returns,
the requester receives the zero value of the closed channel – and the pinned `Send` hands its
caller the nil packet, where the fixed one gives `dropped`. -/
theorem C03.send_pinned_nil :
    ∃ h : List Teardown.Step, RunNoSteal h ∧
      ((Teardown.run .discard {} {} h).comp 0).got = [.closed] ∧
      sendResult false .closed = some .nilPacket ∧ sendResult true .closed = some (.some Resp.dropped) :=
  ⟨[.prim 0 (.w (.link 0)), .prim 0 (.w (.write 1)), .down (.writerClose 0), .prim 0 .pumpExit, .prim 0 .recv],
   by intro st hst; simp only [List.mem_cons, List.not_mem_nil, or_false] at hst; rcases hst with rfl | rfl | rfl | rfl | rfl <;> simp [StepNoSteal],
   by decide, rfl, rfl⟩

/-- **Never nil (raw receivers)** – `_partial`: a requester that does a raw `<-w.Receive()` never
sees the closed channel while a response is owed *as long as its own writer has not been closed*
– whatever is torn down elsewhere (readers of that writer, other writers, ports, nodes,
processes that do not own it).  The hypothesis is exactly the negation of class (i) of the known
finding `close-discards-buffered`. -/
theorem C03.never_nil_raw_partial (t : Topo) (h : List Teardown.Step) (hs : RunNoSteal h) (w : WId)
    (hopen : ((Teardown.run .discard t {} h).comp w).w.done = false) :
    ∀ x ∈ ((Teardown.run .discard t {} h).comp w).got, x ≠ Pump.Recv.closed := by
  intro x hx hc
  rcases got_shape _ (cinv_reach t h hs w) x hx with ⟨a, rfl, _⟩ | ⟨_, hd⟩
  · cases hc
  · rw [hopen] at hd; cases hd

/-- The full statement for raw receivers (kept) and its refutation by the known finding: on its
own closed writer a raw receiver that is not parked yet sees the closed channel. -/
def C03.never_nil_raw_full : Prop :=
  ∀ (t : Topo) (h : List Teardown.Step), RunNoSteal h → ∀ w,
    ∀ x ∈ ((Teardown.run .discard t {} h).comp w).got, x ≠ Pump.Recv.closed

theorem C03.never_nil_raw_full_false : ¬ C03.never_nil_raw_full := by
  intro hf
  have := hf {} [.prim 0 (.w (.link 0)), .prim 0 (.w (.write 1)), .down (.writerClose 0), .prim 0 .pumpExit, .prim 0 .recv]
    (by intro st hst; simp only [List.mem_cons, List.not_mem_nil, or_false] at hst; rcases hst with rfl | rfl | rfl | rfl | rfl <;> simp [StepNoSteal])
    0 .closed (by decide)
  exact this rfl

/-- Non-vacuity: a node between a source writer (0) and a sink, a request in flight, the sink's
reader closed (the source writer stays open): the hypotheses of `C03.never_nil_raw_partial` hold
and the requester is released with the `dropped` packet passed up by the node. -/
theorem C03.never_nil_raw_partial_nonvacuous :
    let t : Topo := { consumer := fun w => if w = 1 then .node 0 0 else .requester,
                      listener := fun w _ => if w = 0 then .node 1 else .sink 0 }
    let h : List Teardown.Step := [.prim 0 (.w (.link 0)), .prim 1 (.w (.link 0)), .prim 0 (.w (.write 7)), .fwd 0 0,
      .down (.readerClose 1 0), .prim 1 (.w (.deliverDrop 0)), .bwd 1, .prim 0 .recv]
    ((Teardown.run .discard t {} h).comp 0).w.done = false ∧
    ((Teardown.run .discard t {} h).comp 0).got = [.got Resp.dropped] := by
  decide

/-- With a second consumer of the same `Receive()` channel that takes the response (`steal`) the
requester sees the closed channel once the writer is closed – `Send`'s guard covers that too. -/
theorem C03.send_guard_with_thief :
    ((Teardown.run .discard {} {} [.prim 0 (.w (.link 0)), .prim 0 (.w (.write 1)), .prim 0 (.w (.answer 0 (.val 5))),
        .prim 0 .steal, .down (.writerClose 0), .prim 0 .pumpExit, .prim 0 .recv]).comp 0).got = [.closed] := by
  decide

/-- **Exactly once.**  In every reachable state, for every writer: what the consumer has received
is the delivered packets – a prefix, in order, of what was pushed – followed, only after the pump
goroutine has returned, by the closed channel once per receive still owed; it never has more
results than accepted writes; the number of responses ever pushed plus the writes still pending
equals the number of accepted writes.  After the writer has been torn down (`done`) no write is
pending, exactly one response per accepted write has been pushed, and no continuation of the
history ever pushes another: the packet (or the closed channel standing for `dropped`) that
releases a requester is the only one for that write. -/
theorem C03.exactly_once_after_teardown (t : Topo) (h : List Teardown.Step) (hs : RunNoSteal h) (w : WId) :
    let c := (Teardown.run .discard t {} h).comp w
    (∃ k, c.got = c.p.delivered.map Pump.Recv.got ++ List.replicate k Pump.Recv.closed ∧ (0 < k → c.p.exited = true)) ∧
    c.p.delivered <+: c.p.pushed ∧
    c.got.length ≤ c.accepted ∧
    c.p.pushed.length + c.w.rows.length = c.accepted ∧
    (c.w.done = true →
      c.p.pushed.length = c.accepted ∧
      ∀ h', RunNoSteal h' →
        ((Teardown.run .discard t (Teardown.run .discard t {} h) h').comp w).p.pushed = c.p.pushed) := by
  intro c
  have hinv := cinv_reach t h hs w
  refine ⟨hinv.got, hinv.pre, hinv.bound, hinv.count, ?_⟩
  intro hd
  constructor
  · have := hinv.count
    rw [hinv.doneRows hd] at this
    simpa using this
  · intro h' hs'
    obtain ⟨cs, n, e⟩ := run_evolves .discard t (Teardown.run .discard t {} h) h' hs' w
    rw [e]
    exact frozen_run _ cs hinv n hd

/-- Non-vacuity: torn down with one write answered and received, one answered and still
buffered, one pending. -/
theorem C03.exactly_once_after_teardown_nonvacuous :
    let c := (Teardown.run .discard {} {} [.prim 0 (.w (.link 0)), .prim 0 (.w (.write 1)), .prim 0 (.w (.write 2)),
        .prim 0 (.w (.write 3)), .prim 0 (.w (.answer 0 (.val 10))), .prim 0 .recv, .prim 0 (.w (.answer 0 (.val 20))),
        .down (.writerClose 0)]).comp 0
    c.w.done = true ∧ c.accepted = 3 ∧ c.got = [.got (.val 10)] ∧ c.p.buf = [.val 20, Resp.dropped] := by
  decide

/-- **Frame.**  A step changes only the components in its footprint (the writer it is aimed at;
for a node loop its in- and out-side writers; for an answer of a sink's reader the writer of the
oldest request in that reader's queue; for a teardown action the endpoints it closes):
every other writer – its machine, pump and requester – is left exactly as it was, under either
exit rule. -/
theorem C03.frame (rule : Pump.Rule) (t : Topo) (s : Sys) (st : Teardown.Step) (x : WId)
    (hx : x ∉ footprint t s st) : (Teardown.step rule t s st).1.comp x = s.comp x := by
  cases st with
  | prim w c =>
    simp only [footprint, List.mem_singleton] at hx
    exact prim_frame rule t s w c x hx
  | fwd w r => exact (step_evolves rule t s (.fwd w r) trivial).2 x hx
  | bwd wo => exact (step_evolves rule t s (.bwd wo) trivial).2 x hx
  | fwdEnd w r => exact (step_evolves rule t s (.fwdEnd w r) trivial).2 x hx
  | sinkAnswer k a => exact (step_evolves rule t s (.sinkAnswer k a) trivial).2 x hx
  | bwdLate wo => exact (step_evolves rule t s (.bwdLate wo) trivial).2 x hx
  | down td => exact (step_evolves rule t s (.down td) trivial).2 x hx

/-- Hence unaffected requesters keep the C01 guarantees: after any system history the writer
machine of every writer is the result of *some* C01 history (the critical sections that were
aimed at it, in order) – so `C01.no_panic`, `C01.head_incomplete`, `C01.exactly_one_response`
hold of it; spelled out: its head row is incomplete and its response count is exact. -/
theorem C03.frame_c01 (t : Topo) (h : List Teardown.Step) (hs : RunNoSteal h) (w : WId) :
    ∃ hw : List Writer.Step,
      ((Teardown.run .discard t {} h).comp w).w = (Writer.run hw).1 ∧
      (∀ row rest, (Writer.run hw).1.rows = row :: rest → hasNil row = true) ∧
      (emitted (Writer.run hw).2).length + (Writer.run hw).1.rows.length = acceptedCount hw (Writer.run hw).2 := by
  obtain ⟨cs, _, e⟩ := run_evolves .discard t {} h hs w
  refine ⟨wsteps cs, ?_, C01.head_incomplete _, C01.exactly_one_response _⟩
  rw [e, runC_w]
  rfl

/-- Non-vacuity of `C03.frame`: closing an out-port leaves the writer of another path as it was. -/
theorem C03.frame_nonvacuous :
    (1 : WId) ∉ footprint { outPorts := [[0, 2]] } {} (.down (.outPortClose 0)) ∧
    footprint { outPorts := [[0, 2]] } {} (.down (.outPortClose 0)) = [0, 2] := by
  decide

/-! ## Liveness (measure argument; what is assumed is fairness of the Go scheduler) -/

/-- What is claimed of a torn-down writer `c` (`TornDown`: closed itself, or every reader linked
to it closed), state by state.

**Fairness assumption (not proved, it is about the Go scheduler):** a fair step that is enabled
is eventually taken – the goroutines `Reader.Close` spawned run (`deliverDrop`), a goroutine
that has popped a request inside `Reader.Receive` goes on into `(*Writer).receive` (`deliver`),
the pump goroutine of a closed writer returns (`pumpExit`), and a requester parked in
`<-Receive()` is handed a buffered packet or the closed channel (`recv`).  The facts: (a) while
the requester is owed anything a fair step is enabled; (b) every fair step strictly decreases the
measure `μ = 2·pending rows + buffered packets + held-back drop notices + answers in flight +
responses still owed + [pump goroutine still running]` – an answer in flight decreases it whether
it is credited to its row or ignored (stale link generation, row gone); (c) a torn-down
writer accepts no further write, so nothing new becomes owed; (d) spelled out as a run: some
sequence of at most `μ` fair steps ends with nothing owed, and each result on the way is a
packet the writer emitted or – writer closed – the closed channel, which `Send` reports as
`dropped`.  That no step of anybody else undoes this is `C03.ReleasesUnderAnySchedule`. -/
def C03.Releases (c : Comp) : Prop :=
  (c.outstanding > 0 → c.p.buf ≠ [] ∨ c.p.exited = true ∨
    (c.w.done = false ∧ ∃ r ∈ c.w.readers, (c.w.drops r).length > 0 ∨ (c.w.flight r).length > 0)) ∧
  (c.outstanding > 0 → (c.p.buf ≠ [] ∨ c.p.exited = true) → mu (applyC .discard c .recv).1 < mu c) ∧
  (c.p.inClosed = true → c.p.exited = false → mu (applyC .discard c .pumpExit).1 < mu c) ∧
  (∀ r ∈ c.w.readers, c.w.done = false → (c.w.drops r).length > 0 → mu (applyC .discard c (.w (.deliverDrop r))).1 < mu c) ∧
  (∀ r ∈ c.w.readers, c.w.done = false → (c.w.flight r).length > 0 → mu (applyC .discard c (.w (.deliver r 0))).1 < mu c) ∧
  (∀ v, (applyC .discard c (.w (.write v))).1.accepted = c.accepted) ∧
  (∃ cs, (∀ x ∈ cs, IsFair x) ∧ cs.length ≤ mu c ∧ (runC .discard c cs).outstanding = 0 ∧
    ∀ x ∈ (runC .discard c cs).got, (∃ a, x = .got a ∧ a ∈ (runC .discard c cs).p.pushed) ∨
      (x = .closed ∧ (runC .discard c cs).w.done = true))

/-- **The scheduler-independent statement.**  `s` is a state in which writer `w` is torn down;
`ok h'` says which continuations are considered.  For every such continuation `h'` – any
interleaving of steps of any thread on any writer, reader, node or sink, `w` itself included, and
of further teardown actions:
* `w` is still torn down at the end;
* (number of enabled fair steps of `w` taken along `h'`) + (`μ` at the end) ≤ (`μ` at the
  start) – no step of anybody increases `μ`, each enabled fair step of `w` decreases it
  (`fairTaken` counts the steps `prim w x` of `h'` with `fairEnabled (comp w) x` in the state they
  are taken in);
* so once `μ`-at-teardown-time fair steps of `w` have been taken, whatever else ran in between,
  the requester of `w` is owed nothing: it has been handed every response;
* as long as it is owed something a fair step of `w` is enabled – the set of fair steps of `w`
  is continuously enabled, so weak fairness of the scheduler towards that set is all that is
  assumed: under it at most `μ` of them are ever taken, then nothing is owed;
* every result the requester has obtained is a packet the writer emitted or – writer closed –
  the closed channel. -/
def C03.ReleasesUnderAnySchedule (ok : List Teardown.Step → Prop) (t : Topo) (s : Sys) (w : WId) : Prop :=
  ∀ h' : List Teardown.Step, ok h' →
    TornDown ((Teardown.run .discard t s h').comp w) ∧
    fairTaken t w s h' + mu ((Teardown.run .discard t s h').comp w) ≤ mu (s.comp w) ∧
    (mu (s.comp w) ≤ fairTaken t w s h' → ((Teardown.run .discard t s h').comp w).outstanding = 0) ∧
    (((Teardown.run .discard t s h').comp w).outstanding > 0 →
      ∃ x, fairEnabled ((Teardown.run .discard t s h').comp w) x = true) ∧
    (∀ x ∈ ((Teardown.run .discard t s h').comp w).got,
      (∃ a, x = .got a ∧ a ∈ ((Teardown.run .discard t s h').comp w).p.pushed) ∨
      (x = .closed ∧ ((Teardown.run .discard t s h').comp w).w.done = true))

namespace Uniflow.TeardownProofs

theorem releases_state (c : Comp) (hi : CInv c) (hb : Backed c) (ht : TornDown c) : C03.Releases c := by
  refine ⟨enabled _ hi hb ht, fun ho hen => (recv_decreases _ hi ho hen).1,
    fun hc he => (exit_decreases _ hc he).1,
    fun r hr hnd hd => (drop_decreases _ hi hb r hr hnd hd).1,
    fun r hr hnd hd => (deliver_decreases _ hi hb r hr hnd hd).1, torn_no_accept _ ht, ?_⟩
  obtain ⟨cs, f, l, o, i⟩ := release (mu c) _ (Nat.le_refl _) hi hb ht
  exact ⟨cs, f, l, o, got_shape _ i⟩

theorem releases_any (t : Topo) (s : Sys) (w : WId) (d : Bool) (hg : Torn d (s.comp w)) :
    C03.ReleasesUnderAnySchedule (RunQ (After w d)) t s w := by
  intro h' hq
  obtain ⟨h1, h2⟩ := sys_run_le t w d h' s hg hq
  refine ⟨h2.torn, h1, ?_, fun ho => fair_progress _ h2.inv h2.backed h2.torn ho, got_shape _ h2.inv⟩
  intro hm
  have h0 : mu ((Teardown.run .discard t s h').comp w) = 0 := by omega
  simp only [mu] at h0
  omega

theorem torn_reach (t : Topo) (h : List Teardown.Step) (hs : RunNoSteal h) (w : WId)
    (ht : TornDown ((Teardown.run .discard t {} h).comp w)) :
    Torn ((Teardown.run .discard t {} h).comp w).w.done ((Teardown.run .discard t {} h).comp w) :=
  ⟨cinv_reach t h hs w, backed_run .discard t {} h (fun _ => backed_init) w, ht, fun e => e⟩

/-- On a closed writer every step but a `steal` is allowed. -/
theorem after_of_nosteal (w : WId) (h' : List Teardown.Step) (hs : RunNoSteal h') : RunQ (After w true) h' := by
  intro st hst
  have := hs st hst
  cases st with
  | prim x c => exact ⟨this, fun _ e => by cases e⟩
  | fwd _ _ => trivial
  | bwd _ => trivial
  | fwdEnd _ _ => trivial
  | sinkAnswer _ _ => trivial
  | bwdLate _ => trivial
  | down _ => trivial

/-- The continuations considered for a writer whose readers were closed and that is not closed
itself: nobody else consumes from a `Receive()` channel, and `w` is not wired to a further reader. -/
def NoRelinkOf (w : WId) (h' : List Teardown.Step) : Prop :=
  RunNoSteal h' ∧ ∀ r, Teardown.Step.prim w (.w (.link r)) ∉ h'

theorem after_of_norelink (w : WId) (d : Bool) (h' : List Teardown.Step) (hs : NoRelinkOf w h') : RunQ (After w d) h' := by
  intro st hst
  have h1 := hs.1 st hst
  cases st with
  | prim x c =>
    refine ⟨h1, ?_⟩
    intro hx _ r hc
    subst hx; subst hc
    exact hs.2 r hst
  | fwd _ _ => trivial
  | bwd _ => trivial
  | fwdEnd _ _ => trivial
  | sinkAnswer _ _ => trivial
  | bwdLate _ => trivial
  | down _ => trivial

end Uniflow.TeardownProofs

/-- **No step of anybody increases the measure of a torn-down writer.**  In every reachable state
in which writer `w` is torn down, every step `st` of `Teardown.Step` – a critical section, channel
operation or goroutine of any thread on any writer or reader (on `w` itself too: late answers,
answers in flight, closes, unlinks, refused writes, the requester's receive), a node loop
iteration, a sink's answer, a further teardown action – leaves `μ` of `w` where it was or lower
and leaves `w` torn down; if the step is an enabled fair step of `w` (`fairStepOf`), `μ` strictly
decreases.  Excluded (`After`): a second consumer of a `Receive()` channel (`steal`, as in all of
C03) and, only if `w` is not closed itself, wiring `w` to a further reader (`link` on `w`; on a
closed writer `Link` refuses and is allowed).  That exclusion is necessary:
`C03.relink_can_increase`. -/
theorem C03.other_steps_do_not_increase (t : Topo) (h : List Teardown.Step) (hs : RunNoSteal h) (w : WId)
    (ht : TornDown ((Teardown.run .discard t {} h).comp w)) (st : Teardown.Step)
    (hst : StepQ (After w ((Teardown.run .discard t {} h).comp w).w.done) st) :
    mu ((Teardown.step .discard t (Teardown.run .discard t {} h) st).1.comp w) ≤ mu ((Teardown.run .discard t {} h).comp w) ∧
    TornDown ((Teardown.step .discard t (Teardown.run .discard t {} h) st).1.comp w) ∧
    (fairStepOf w (Teardown.run .discard t {} h) st = true →
      mu ((Teardown.step .discard t (Teardown.run .discard t {} h) st).1.comp w) < mu ((Teardown.run .discard t {} h).comp w)) := by
  obtain ⟨h1, h2⟩ := sys_step_le t _ w _ st (torn_reach t h hs w ht) hst
  refine ⟨?_, h2.torn, ?_⟩
  · split at h1 <;> omega
  · intro hf
    rw [hf] at h1
    simp only [if_true] at h1
    omega

/-- Non-vacuity: the writer is torn down by closing its reader, one response owed; a late answer of
the closed reader (a foreign step on `w`) leaves `μ` at 5, the delivery of the held-back drop
notice (a fair step of `w`) takes it to 3. -/
theorem C03.other_steps_do_not_increase_nonvacuous :
    let h : List Teardown.Step := [.prim 0 (.w (.link 0)), .prim 0 (.w (.write 7)), .down (.readerClose 0 0)]
    ((Teardown.run .discard {} {} h).comp 0).w.done = false ∧
    ((Teardown.run .discard {} {} h).comp 0).w.closed 0 = true ∧
    mu ((Teardown.run .discard {} {} h).comp 0) = 5 ∧
    fairStepOf 0 (Teardown.run .discard {} {} h) (.prim 0 (.w (.answer 0 (.val 1)))) = false ∧
    mu ((Teardown.run .discard {} {} (h ++ [.prim 0 (.w (.answer 0 (.val 1)))])).comp 0) = 5 ∧
    fairStepOf 0 (Teardown.run .discard {} {} h) (.prim 0 (.w (.deliverDrop 0))) = true ∧
    mu ((Teardown.run .discard {} {} (h ++ [.prim 0 (.w (.deliverDrop 0))])).comp 0) = 3 := by
  decide

/-- **The exclusion of `link` is necessary**: a writer linked to readers 0 and 1, one request;
reader 0 is unlinked and then closed (its drop notice, for a link generation that is gone, stays
behind – it will be ignored), reader 1 is closed: every linked reader is closed, `μ = 5`.  Wiring
the writer to the closed reader 0 again leaves every linked reader closed and raises `μ` to 6:
the stale notice of reader 0 is counted again, because `μ` counts the notices of the *linked*
readers.  It is the measure that moves, not the requester's fate: the continuation of
`C03.relink_released` still releases it.  In the Go code `Writer.Link` is called only by
`OutPort.Open`, in the loop right after it created the writer, and `Writer.Unlink` is called by
nothing outside tests. -/
theorem C03.relink_can_increase :
    let h : List Teardown.Step := [.prim 0 (.w (.link 0)), .prim 0 (.w (.link 1)), .prim 0 (.w (.write 7)),
      .prim 0 (.w (.unlink 0)), .down (.readerClose 0 0), .down (.readerClose 0 1)]
    let c := (Teardown.run .discard {} {} h).comp 0
    let c' := (Teardown.run .discard {} {} (h ++ [.prim 0 (.w (.link 0))])).comp 0
    c.w.done = false ∧ c.w.readers = [1] ∧ c.w.closed 1 = true ∧ mu c = 5 ∧
    c'.w.readers = [1, 0] ∧ c'.w.closed 0 = true ∧ c'.w.closed 1 = true ∧ mu c' = 6 := by
  decide

/-- … and the requester is released with `dropped` all the same, wherever the re-wiring `link`
falls (before the closes, between them, after them) – replayed on the real code by the harness
(`relink` in harness/c03/c03.go). -/
theorem C03.relink_released :
    let pre : List Teardown.Step := [.prim 0 (.w (.link 0)), .prim 0 (.w (.link 1)), .prim 0 (.w (.write 7)), .prim 0 (.w (.unlink 0))]
    let post : List Teardown.Step := [.prim 0 (.w (.deliverDrop 0)), .prim 0 (.w (.deliverDrop 1)), .prim 0 .recv]
    let l : Teardown.Step := .prim 0 (.w (.link 0))
    ((Teardown.run .discard {} {} (pre ++ [l, .down (.readerClose 0 0), .down (.readerClose 0 1)] ++ post)).comp 0).got = [.got Resp.dropped] ∧
    ((Teardown.run .discard {} {} (pre ++ [.down (.readerClose 0 0), l, .down (.readerClose 0 1)] ++ post)).comp 0).got = [.got Resp.dropped] ∧
    ((Teardown.run .discard {} {} (pre ++ [.down (.readerClose 0 0), .down (.readerClose 0 1), l] ++ post)).comp 0).got = [.got Resp.dropped] := by
  decide

/-- **Teardown releases – a closed writer.**  For every history, every writer `w` that has been
closed (`Writer.Close`, `OutPort.Close`, a node's close, a process exit): `C03.Releases` of its
state, and `C03.ReleasesUnderAnySchedule` for *every* continuation in which the requester stays
the only consumer of its `Receive()` channel (`RunNoSteal`, the standing assumption of C03) – no
other restriction on what the other threads, the nodes, the sinks and further teardown actions
do.  What remains assumed is weak fairness of the Go scheduler towards the fair steps of `w` (see
`C03.ReleasesUnderAnySchedule`): the number of them that can be taken is bounded by `μ` at
teardown time whatever is interleaved, and while anything is owed one of them is enabled.
`Reader.Receive` is modelled with its window (C01: `pop` / `deliver`). -/
theorem C03.teardown_releases (t : Topo) (h : List Teardown.Step) (hs : RunNoSteal h) (w : WId)
    (hd : ((Teardown.run .discard t {} h).comp w).w.done = true) :
    C03.Releases ((Teardown.run .discard t {} h).comp w) ∧
    C03.ReleasesUnderAnySchedule RunNoSteal t (Teardown.run .discard t {} h) w := by
  have hT := torn_reach t h hs w (Or.inl hd)
  refine ⟨releases_state _ hT.inv hT.backed hT.torn, ?_⟩
  rw [hd] at hT
  intro h' hs'
  exact releases_any t _ w true hT h' (after_of_nosteal w h' hs')

/-- Non-vacuity: a node between a source writer (0) and a sink; two requests in flight; the
process exits (sink reader, node out-writer, node in-reader, source writer closed in that order).
The source writer is torn down with two responses owed, `μ = 5`.  A continuation in which foreign
steps – a late answer on the closed writer, an iteration of the node's backward loop, an attempt
to wire the closed writer to a further reader, a refused write – are interleaved with three fair
steps of writer 0 ends with nothing owed: the requester has received `dropped` twice. -/
theorem C03.teardown_releases_nonvacuous :
    let t : Topo := { consumer := fun w => if w = 1 then .node 0 0 else .requester,
                      listener := fun w _ => if w = 0 then .node 1 else .sink 0,
                      procs := [[.writer 0, .reader 0 0, .writer 1, .reader 1 0]] }
    let h : List Teardown.Step := [.prim 0 (.w (.link 0)), .prim 1 (.w (.link 0)), .prim 0 (.w (.write 7)), .fwd 0 0,
      .prim 0 (.w (.write 8)), .fwd 0 0, .down (.processExit 0)]
    let h' : List Teardown.Step := [.prim 0 (.w (.answer 0 (.val 1))), .prim 0 .recv, .bwd 1, .prim 0 (.w (.link 3)),
      .prim 0 .recv, .prim 0 (.w (.write 9)), .prim 0 .pumpExit]
    ((Teardown.run .discard t {} h).comp 0).w.done = true ∧
    ((Teardown.run .discard t {} h).comp 0).outstanding = 2 ∧ mu ((Teardown.run .discard t {} h).comp 0) = 5 ∧
    RunNoSteal h' ∧ fairTaken t 0 (Teardown.run .discard t {} h) h' = 3 ∧
    mu ((Teardown.run .discard t (Teardown.run .discard t {} h) h').comp 0) = 0 ∧
    ((Teardown.run .discard t (Teardown.run .discard t {} h) h').comp 0).got = [.got Resp.dropped, .got Resp.dropped] := by
  refine ⟨by decide, by decide, by decide, ?_, by decide, by decide, by decide⟩
  intro st hst
  simp only [List.mem_cons, List.not_mem_nil, or_false] at hst
  rcases hst with rfl | rfl | rfl | rfl | rfl | rfl | rfl <;> simp [StepNoSteal]

/-- The full statement for a writer that is torn down because every reader linked to it was
closed while it stays open itself (`Reader.Close`, `InPort.Close`): the same as
`C03.teardown_releases`, for every continuation without a second consumer in which `w` stays torn
down – wiring `w` to further readers included –, with some bound in place of `μ`.  Proved:
`C03.teardown_releases_readers_full_proved`. -/
def C03.teardown_releases_readers_full : Prop :=
  ∀ (t : Topo) (h : List Teardown.Step), RunNoSteal h → ∀ w,
    TornDown ((Teardown.run .discard t {} h).comp w) →
    C03.Releases ((Teardown.run .discard t {} h).comp w) ∧
    ∃ B, ∀ h', RunNoSteal h' →
      (∀ k, TornDown ((Teardown.run .discard t (Teardown.run .discard t {} h) (h'.take k)).comp w)) →
      B ≤ fairTaken t w (Teardown.run .discard t {} h) h' →
      ((Teardown.run .discard t (Teardown.run .discard t {} h) h').comp w).outstanding = 0

/-- What is claimed of every continuation in which `w` stays torn down (`∀ k`: in every state along
`h'`), re-links of `w` included: there is a bound `B` – `muR R` of the state `s`, for a finite set `R`
of readers containing every reader that still carries a request, a drop notice or an answer in flight
for `w` – such that
* at most `B` enabled fair steps of `w` are ever taken, whatever is interleaved;
* once `B` of them have been taken the requester of `w` is owed nothing;
* as long as it is owed something a fair step of `w` is enabled (weak fairness towards that set is
  what is assumed);
* every result the requester has obtained is a packet the writer emitted or – writer closed – the
  closed channel. -/
def C03.ReleasesWhileTornDown (t : Topo) (s : Sys) (w : WId) : Prop :=
  ∃ B, ∀ h' : List Teardown.Step, RunNoSteal h' →
    (∀ k, TornDown ((Teardown.run .discard t s (h'.take k)).comp w)) →
    fairTaken t w s h' ≤ B ∧
    (B ≤ fairTaken t w s h' → ((Teardown.run .discard t s h').comp w).outstanding = 0) ∧
    (((Teardown.run .discard t s h').comp w).outstanding > 0 →
      ∃ x, fairEnabled ((Teardown.run .discard t s h').comp w) x = true) ∧
    (∀ x ∈ ((Teardown.run .discard t s h').comp w).got,
      (∃ a, x = .got a ∧ a ∈ ((Teardown.run .discard t s h').comp w).p.pushed) ∨
      (x = .closed ∧ ((Teardown.run .discard t s h').comp w).w.done = true))

/-- **Teardown releases – a writer all of whose readers are closed, under ANY continuation.**  For
every history and every writer `w` that is torn down: `C03.Releases` of its state and
`C03.ReleasesWhileTornDown` – every continuation without a second consumer in which `w` stays torn
down, *re-links of `w` included* (`Link` of a reader that is closed: its stale drop notices and
answers in flight are delivered and ignored; a `Link` of an open reader makes `w` accept writes
again, i.e. ends the torn-down condition, and is excluded by the hypothesis, not by a side
condition on the steps).  The old measure `μ` fails here (`C03.relink_can_increase`); the bound is
`muR R` (Proofs/TeardownRelink.lean): no step of anybody increases it while `w` is torn down – `Link`
leaves it untouched –, every enabled fair step of `w` strictly decreases it.  What remains assumed
is fairness, as in `C03.teardown_releases`. -/
theorem C03.teardown_releases_readers (t : Topo) (h : List Teardown.Step) (hs : RunNoSteal h) (w : WId)
    (ht : TornDown ((Teardown.run .discard t {} h).comp w)) :
    C03.Releases ((Teardown.run .discard t {} h).comp w) ∧
    C03.ReleasesWhileTornDown t (Teardown.run .discard t {} h) w := by
  have hT := torn_reach t h hs w ht
  refine ⟨releases_state _ hT.inv hT.backed hT.torn, ?_⟩
  obtain ⟨cs, _, e⟩ := run_evolves .discard t {} h hs w
  obtain ⟨R, hR⟩ := supp_runC cs {} ⟨[], supp_init⟩
  rw [← e] at hR
  have hg : TornR R ((Teardown.run .discard t {} h).comp w) := ⟨hT.inv, hT.backed, hT.torn, hR⟩
  refine ⟨muR R ((Teardown.run .discard t {} h).comp w), ?_⟩
  intro h' hs' hk
  obtain ⟨h1, h2⟩ := sysR_run_le t w R h' _ hg hs' hk
  refine ⟨by omega, ?_, fun ho => fair_progress _ h2.inv h2.backed h2.torn ho, got_shape _ h2.inv⟩
  intro hm
  have h0 : muR R ((Teardown.run .discard t (Teardown.run .discard t {} h) h').comp w) = 0 := by omega
  simp only [muR, base] at h0
  omega

/-- `C03.teardown_releases_readers_full` holds. -/
theorem C03.teardown_releases_readers_full_proved : C03.teardown_releases_readers_full := by
  intro t h hs w ht
  obtain ⟨h1, B, h2⟩ := C03.teardown_releases_readers t h hs w ht
  exact ⟨h1, B, fun h' hs' hk hB => (h2 h' hs' hk).2.1 hB⟩

/-- Non-vacuity, with a re-link in the continuation: the state of `C03.relink_can_increase` (readers 0
and 1, one request; reader 0 unlinked and closed – its notice is stale –, reader 1 closed; `μ = 5`,
`muR [0,1] = 6`).  The continuation wires the writer to the closed reader 0 again – `μ` goes to 6,
`muR` stays 6 –, delivers the stale notice (ignored), lets the closed reader 1 try a late answer
(refused), delivers reader 1's notice and lets the requester receive: the writer is torn down in
every state on the way, three enabled fair steps are taken, `3 + muR(end) ≤ muR(start)`, and the
requester is owed nothing: it has received `dropped`. -/
theorem C03.teardown_releases_readers_nonvacuous :
    let h : List Teardown.Step := [.prim 0 (.w (.link 0)), .prim 0 (.w (.link 1)), .prim 0 (.w (.write 7)),
      .prim 0 (.w (.unlink 0)), .down (.readerClose 0 0), .down (.readerClose 0 1)]
    let h' : List Teardown.Step := [.prim 0 (.w (.link 0)), .prim 0 (.w (.deliverDrop 0)), .prim 0 (.w (.answer 1 (.val 3))),
      .prim 0 (.w (.deliverDrop 1)), .prim 0 .recv]
    let s := Teardown.run .discard {} {} h
    (s.comp 0).w.done = false ∧ RunNoSteal h' ∧
    (∀ k, TornDown ((Teardown.run .discard {} s (h'.take k)).comp 0)) ∧
    mu (s.comp 0) = 5 ∧ mu ((Teardown.run .discard {} s (h'.take 1)).comp 0) = 6 ∧
    muR [0, 1] (s.comp 0) = 6 ∧ muR [0, 1] ((Teardown.run .discard {} s (h'.take 1)).comp 0) = 6 ∧
    fairTaken {} 0 s h' = 3 ∧ muR [0, 1] ((Teardown.run .discard {} s h').comp 0) = 1 ∧
    ((Teardown.run .discard {} s h').comp 0).outstanding = 0 ∧
    ((Teardown.run .discard {} s h').comp 0).got = [.got Resp.dropped] := by
  refine ⟨by decide, ?_, ?_, by decide, by decide, by decide, by decide, by decide, by decide, by decide, by decide⟩
  · intro st hst
    simp only [List.mem_cons, List.not_mem_nil, or_false] at hst
    rcases hst with rfl | rfl | rfl | rfl | rfl <;> simp [StepNoSteal]
  · exact forall_take (fun l => TornDown ((Teardown.run .discard {} _ l).comp 0)) _ (by decide)

/-- **Teardown releases – a writer all of whose readers are closed, continuations without a
re-link** (or a closed writer: any torn-down writer).  `C03.Releases` of its state and
`C03.ReleasesUnderAnySchedule` for every continuation without a second consumer in which `w` is not
wired to a further reader (`NoRelinkOf w`: no `link` step *on `w`*; everything else, on `w` and
everywhere else, is allowed).  Compared with `C03.teardown_releases_readers`: the torn-down
condition is not a hypothesis on the continuation but a conclusion (without a `link` no step ends
it), and the bound is the simpler `μ`; continuations with a `link` on `w` – under which `μ` can
grow, `C03.relink_can_increase` – are covered by `C03.teardown_releases_readers`.  Fairness is
assumed as in `C03.teardown_releases`. -/
theorem C03.teardown_releases_readers_no_relink (t : Topo) (h : List Teardown.Step) (hs : RunNoSteal h) (w : WId)
    (ht : TornDown ((Teardown.run .discard t {} h).comp w)) :
    C03.Releases ((Teardown.run .discard t {} h).comp w) ∧
    C03.ReleasesUnderAnySchedule (NoRelinkOf w) t (Teardown.run .discard t {} h) w := by
  have hT := torn_reach t h hs w ht
  refine ⟨releases_state _ hT.inv hT.backed hT.torn, ?_⟩
  intro h' hs'
  exact releases_any t _ w _ hT h' (after_of_norelink w _ h' hs')

/-- Non-vacuity: the writer stays open and only its reader is closed: the release needs the
held-back drop notices (`μ = 2·2 + 0 + 2 + 2 + 1`).  A continuation with foreign steps on the
same writer (a late answer of the closed reader, a refused write, the reader unlinked) between
the fair ones ends with nothing owed. -/
theorem C03.teardown_releases_readers_no_relink_nonvacuous :
    let h : List Teardown.Step := [.prim 0 (.w (.link 0)), .prim 0 (.w (.write 7)), .prim 0 (.w (.write 8)), .down (.readerClose 0 0)]
    let h' : List Teardown.Step := [.prim 0 (.w (.answer 0 (.val 1))), .prim 0 (.w (.deliverDrop 0)), .prim 0 (.w (.write 9)),
      .prim 0 .recv, .prim 0 (.w (.deliverDrop 0)), .prim 0 (.w (.unlink 0)), .prim 0 .recv]
    ((Teardown.run .discard {} {} h).comp 0).w.done = false ∧
    ((Teardown.run .discard {} {} h).comp 0).w.closed 0 = true ∧
    ((Teardown.run .discard {} {} h).comp 0).outstanding = 2 ∧ mu ((Teardown.run .discard {} {} h).comp 0) = 9 ∧
    NoRelinkOf 0 h' ∧ fairTaken {} 0 (Teardown.run .discard {} {} h) h' = 4 ∧
    ((Teardown.run .discard {} (Teardown.run .discard {} {} h) h').comp 0).outstanding = 0 ∧
    ((Teardown.run .discard {} (Teardown.run .discard {} {} h) h').comp 0).got = [.got Resp.dropped, .got Resp.dropped] := by
  refine ⟨by decide, by decide, by decide, by decide, ⟨?_, ?_⟩, by decide, by decide, by decide⟩
  · intro st hst
    simp only [List.mem_cons, List.not_mem_nil, or_false] at hst
    rcases hst with rfl | rfl | rfl | rfl | rfl | rfl | rfl <;> simp [StepNoSteal]
  · intro r hst
    simp only [List.mem_cons, List.not_mem_nil, or_false] at hst
    rcases hst with e | e | e | e | e | e | e <;> cases e

/-- … and one with an answer in flight at the torn-down writer: the reader's owner has popped the
request (`Reader.Receive` up to the release of `r.mu`) when the reader is closed, so `Reader.Close`
finds nothing pending and spawns no drop notice; the only enabled fair step is the delivery of the
answer in flight, which is credited to the row of its own write: the requester receives the real
answer. -/
theorem C03.teardown_releases_readers_no_relink_nonvacuous_flight :
    let h : List Teardown.Step := [.prim 0 (.w (.link 0)), .prim 0 (.w (.write 7)), .prim 0 (.w (.pop 0 (.val 5))),
      .down (.readerClose 0 0)]
    ((Teardown.run .discard {} {} h).comp 0).w.closed 0 = true ∧
    (((Teardown.run .discard {} {} h).comp 0).w.flight 0).length = 1 ∧
    (((Teardown.run .discard {} {} h).comp 0).w.drops 0).length = 0 ∧
    ((Teardown.run .discard {} {} h).comp 0).outstanding = 1 ∧ mu ((Teardown.run .discard {} {} h).comp 0) = 5 ∧
    fairTaken {} 0 (Teardown.run .discard {} {} h) [.prim 0 (.w (.deliver 0 0)), .prim 0 .recv] = 2 ∧
    ((Teardown.run .discard {} {} (h ++ [.prim 0 (.w (.deliver 0 0)), .prim 0 .recv])).comp 0).got = [.got (.val 5)] := by
  decide

/-! ## A requester upstream of a node whose out-writer alone is closed -/

/-- **Teardown releases, through a node** – for every reachable state in which the out-writer
`wo` of a node (in-reader `r` of writer `wi`) is closed – by `Writer.Close`, `OutPort.Close`, a
process exit – whatever else is or is not closed: some sequence of at most `buffered + 2` steps
of the node's own goroutines (backward-loop iterations `bwd wo`; the writer pump returning) ends
with nothing the node had taken from its in-reader left waiting.  Every such request has then
been answered upstream (`answer r a` on `wi`, in the order the node read them): with the
response the backward loop still received, or – `Tracer.Drop`, when the channel closed on it –
with `dropped`.  The steps are enabled one after the other (fairness of those two goroutines is
the assumption, as in `C03.Releases`); that no step of anybody else undoes their progress, so
that the bound holds under every schedule, is `C03.upstream_other_steps_do_not_increase`.

`_partial` with respect to the property: the theorem ends at the node's `answer` calls; that
each of them completes the upstream row of the request it belongs to, so that the requester of
`wi` is handed its packet, is `C01.pending_backed_partial` / `C02.node_contract` (an answer of an
open, linked reader with a request outstanding is credited to its oldest outstanding request),
not re-proved for the relay model. -/
theorem C03.teardown_releases_upstream_partial (t : Topo) (ho : t.handOver = true) (h : List Teardown.Step) (hs : RunNoSteal h)
    (wo wi : WId) (r : RId) (hc : t.consumer wo = .node wi r) (hne : wo ≠ wi)
    (hd : ((Teardown.run .discard t {} h).comp wo).w.done = true) :
    ∃ sched : List Teardown.Step, (∀ st ∈ sched, st = .bwd wo ∨ st = .prim wo .pumpExit) ∧
      sched.length ≤ ((Teardown.run .discard t {} h).comp wo).p.buf.length + 2 ∧
      (Teardown.run .discard t (Teardown.run .discard t {} h) sched).reads wi r = [] :=
  node_release t ho wo wi r hc hne _ _ ⟨h, hs, rfl⟩ hd (Nat.le_refl _)

/-- Non-vacuity, and the end-to-end effect on a concrete path: a node between a source writer (0)
and a sink, two requests in flight behind the node, the node's out-writer (1) alone is closed and
its pump returns before the backward loop has received anything (both `dropped` responses are
discarded).  The backward loop finds the channel closed, drops both, and the requester on writer
0 – which was never closed – receives two `dropped` packets. -/
theorem C03.teardown_releases_upstream_partial_nonvacuous :
    let t : Topo := { consumer := fun w => if w = 1 then .node 0 0 else .requester,
                      listener := fun w _ => if w = 0 then .node 1 else .sink 0 }
    let h : List Teardown.Step := [.prim 0 (.w (.link 0)), .prim 1 (.w (.link 0)), .prim 0 (.w (.write 7)), .fwd 0 0,
      .prim 0 (.w (.write 8)), .fwd 0 0, .down (.writerClose 1), .prim 1 .pumpExit]
    ((Teardown.run .discard t {} h).comp 1).w.done = true ∧
    ((Teardown.run .discard t {} h).comp 0).w.done = false ∧
    ((Teardown.run .discard t {} h).reads 0 0).length = 2 ∧
    ((Teardown.run .discard t {} (h ++ [.bwd 1, .prim 0 .recv, .prim 0 .recv])).comp 0).got
      = [.got Resp.dropped, .got Resp.dropped] := by
  decide

/-- **The scheduler-independent statement for the node.**  `s` is a state in which the out-writer
`wo` of the node with in-reader `(wi, r)` is closed.  `nu = buffered responses of wo + [wo's pump
goroutine still running] + [a request the node took still waits for its answer] ≤ buffered + 2`.
For every continuation `h'` without a second consumer – any interleaving of steps of any thread,
node (this one's forward loop included), sink, and of further teardown actions:
* `wo` stays closed;
* (number of enabled fair steps of the node taken along `h'`) + (`nu` at the end) ≤ (`nu` at the
  start): no step of anybody increases `nu` – in particular none adds a waiting request: the
  forward loop's write on the closed `wo` is refused and the request recorded with itself as its
  answer –, and the node's two fair steps (`fairUp`: a backward-loop iteration that receives a
  buffered response or finds the channel closed while a request waits; the pump goroutine of
  `wo` returning) strictly decrease it while enabled;
* so once `buffered + 2` of them have been taken, whatever else ran in between, nothing the node
  took from its in-reader is left: every such request has been answered upstream, in read order;
* while a taken request waits one of the two is enabled (weak fairness towards these two
  goroutines is what is assumed);
* no waiting request = nothing left at all (answers are passed up as soon as they are known). -/
def C03.UpstreamUnderAnySchedule (t : Topo) (s : Sys) (wo wi : WId) (r : RId) : Prop :=
  ∀ h' : List Teardown.Step, RunNoSteal h' →
    ((Teardown.run .discard t s h').comp wo).w.done = true ∧
    upTaken t wo wi r s h' + nu (Teardown.run .discard t s h') wo wi r ≤ nu s wo wi r ∧
    ((s.comp wo).p.buf.length + 2 ≤ upTaken t wo wi r s h' → (Teardown.run .discard t s h').reads wi r = []) ∧
    (waiting ((Teardown.run .discard t s h').reads wi r) > 0 →
      fairUp wo wi r (Teardown.run .discard t s h') (.bwd wo) = true ∨
      fairUp wo wi r (Teardown.run .discard t s h') (.prim wo .pumpExit) = true) ∧
    (waiting ((Teardown.run .discard t s h').reads wi r) = 0 → (Teardown.run .discard t s h').reads wi r = [])

/-- **No step of anybody undoes the node's progress** – `C03.UpstreamUnderAnySchedule` holds in
every reachable state in which the out-writer of a node is closed.  The wiring is consistent
(`hl`: the reader whose requests the backward loop of `wo` answers is the one whose forward loop
writes to `wo` – they are the two loops of one node).  With it the existence statement
`C03.teardown_releases_upstream_partial` becomes: under weak fairness towards the node's two
goroutines, for every schedule. -/
theorem C03.upstream_other_steps_do_not_increase (t : Topo) (ho : t.handOver = true) (h : List Teardown.Step) (hs : RunNoSteal h)
    (wo wi : WId) (r : RId) (hc : t.consumer wo = .node wi r) (hl : t.listener wi r = .node wo) (hne : wo ≠ wi)
    (hd : ((Teardown.run .discard t {} h).comp wo).w.done = true) :
    C03.UpstreamUnderAnySchedule t (Teardown.run .discard t {} h) wo wi r := by
  have hg : UpInv (Teardown.run .discard t {} h) wo wi r :=
    ⟨cinv_reach t h hs wo, hd, by rw [run_detached _ _ _ _ ho], flushed_run t wi r h {} (fun e rest he => by cases he)⟩
  intro h' hs'
  obtain ⟨h1, h2⟩ := up_run_le t ho wo wi r hc hl hne h' _ hg hs'
  refine ⟨h2.done, h1, ?_, fun hw => up_progress h2 hw, fun hw => flushed_nil _ h2.flushed hw⟩
  intro hm
  have hle := nu_le (Teardown.run .discard t {} h) wo wi r
  exact up_done h2 (by omega)

/-- Non-vacuity: the path of `C03.teardown_releases_upstream_partial_nonvacuous` with two responses
buffered in the closed out-writer (the sink's answer, and `dropped` for the request pending at the
close), two requests waiting and a further request handed to the node (`nu = 2 + 1 + 1`); the
continuation interleaves foreign steps – the node's forward loop taking that request (refused by
the closed out-writer, echoed), a late answer of the sink, the requester's receives, a new
request – with the node's fair steps: backward loop (the buffered response), pump exit (the
buffered `dropped` is discarded), backward loop (channel closed: `Tracer.Drop`).  Nothing is left waiting and the requester on writer 0 –
never closed – has the response, the echo and `dropped`, in the order the node read them. -/
theorem C03.upstream_other_steps_do_not_increase_nonvacuous :
    let t : Topo := { consumer := fun w => if w = 1 then .node 0 0 else .requester,
                      listener := fun w _ => if w = 0 then .node 1 else .sink 0 }
    let h : List Teardown.Step := [.prim 0 (.w (.link 0)), .prim 1 (.w (.link 0)), .prim 0 (.w (.write 7)), .fwd 0 0,
      .sinkAnswer 0 (.val 70), .prim 0 (.w (.write 8)), .fwd 0 0, .prim 0 (.w (.write 9)), .down (.writerClose 1)]
    let h' : List Teardown.Step := [.fwd 0 0, .sinkAnswer 0 (.val 80), .bwd 1, .prim 0 .recv, .prim 0 (.w (.write 10)),
      .prim 1 .pumpExit, .bwd 1, .prim 0 .recv, .prim 0 .recv]
    t.handOver = true ∧ t.consumer 1 = .node 0 0 ∧ t.listener 0 0 = .node 1 ∧
    ((Teardown.run .discard t {} h).comp 1).w.done = true ∧
    nu (Teardown.run .discard t {} h) 1 0 0 = 4 ∧
    RunNoSteal h' ∧ upTaken t 1 0 0 (Teardown.run .discard t {} h) h' = 3 ∧
    (Teardown.run .discard t (Teardown.run .discard t {} h) h').reads 0 0 = [] ∧
    ((Teardown.run .discard t (Teardown.run .discard t {} h) h').comp 0).got
      = [.got (.val 70), .got Resp.dropped, .got (.val 9)] := by
  refine ⟨by decide, by decide, by decide, by decide, by decide, ?_, by decide, by decide, by decide⟩
  intro st hst
  simp only [List.mem_cons, List.not_mem_nil, or_false] at hst
  rcases hst with rfl | rfl | rfl | rfl | rfl | rfl | rfl | rfl | rfl <;> simp [StepNoSteal]

/-- **What the upstream writer awaits, under any schedule.**  For histories in which the wiring is
consistent and nobody but the node answers on the node's in-reader (`stepNoForeign`), and every
continuation `h'` of the same kind – whatever is interleaved: in every state, while `r` is open,
the number of answers `wi` awaits from `r` equals the requests the node holds (handed to its
reader and not yet taken, plus taken and not yet answered), and `wi`'s machine is the image of a
C01 specification state.  Hence whenever nothing the node took is left (`reads = []`, reached
after at most `buffered + 2` fair steps of the node under any schedule:
`C03.upstream_other_steps_do_not_increase`), `wi` awaits from `r` only what the forward loop has
not taken yet.  `_partial`: the hypothesis that nobody but the node answers on its in-reader. -/
theorem C03.upstream_awaits_any_schedule_partial (t : Topo) (h : List Teardown.Step)
    (wo wi : WId) (r : RId) (hl : t.listener wi r = .node wo) (hne : wo ≠ wi)
    (hf : ∀ st ∈ h, stepNoForeign wi r st) :
    ∀ h' : List Teardown.Step, (∀ st ∈ h', stepNoForeign wi r st) →
      (((Teardown.run .discard t (Teardown.run .discard t {} h) h').comp wi).w.closed r = false →
        (((Teardown.run .discard t (Teardown.run .discard t {} h) h').comp wi).w.pend r).length =
          ((Teardown.run .discard t (Teardown.run .discard t {} h) h').inbox wi r).length +
          ((Teardown.run .discard t (Teardown.run .discard t {} h) h').reads wi r).length) ∧
      Backed ((Teardown.run .discard t (Teardown.run .discard t {} h) h').comp wi) := by
  intro h' hf2
  have hf' : ∀ st ∈ h ++ h', stepNoForeign wi r st := by
    intro st hst
    rcases List.mem_append.1 hst with hst | hst
    · exact hf st hst
    · exact hf2 st hst
  have hu0 : Upstream ({} : Sys) wi r := by
    unfold Upstream OwedEq; intro _; rfl
  obtain ⟨hu, hb⟩ := upstream_run t wi r wo hl hne (h ++ h') {} (fun _ => backed_init) (by intro k e he; cases he) hf' hu0
  rw [run_append] at hu hb
  exact ⟨hu, hb wi⟩

/-- Non-vacuity: the history and the continuation of
`C03.upstream_other_steps_do_not_increase_nonvacuous` satisfy the hypotheses (the sink's answers
are on writer 1's reader, not on the node's in-reader); at the end the node holds nothing and
writer 0, whose reader is open, awaits exactly the one request still in the node's inbox. -/
theorem C03.upstream_awaits_any_schedule_partial_nonvacuous :
    let t : Topo := { consumer := fun w => if w = 1 then .node 0 0 else .requester,
                      listener := fun w _ => if w = 0 then .node 1 else .sink 0 }
    let h : List Teardown.Step := [.prim 0 (.w (.link 0)), .prim 1 (.w (.link 0)), .prim 0 (.w (.write 7)), .fwd 0 0,
      .sinkAnswer 0 (.val 70), .prim 0 (.w (.write 8)), .fwd 0 0, .prim 0 (.w (.write 9)), .down (.writerClose 1)]
    let h' : List Teardown.Step := [.fwd 0 0, .sinkAnswer 0 (.val 80), .bwd 1, .prim 0 .recv, .prim 0 (.w (.write 10)),
      .prim 1 .pumpExit, .bwd 1, .prim 0 .recv, .prim 0 .recv]
    (∀ st ∈ h, stepNoForeign 0 0 st) ∧ (∀ st ∈ h', stepNoForeign 0 0 st) ∧
    ((Teardown.run .discard t (Teardown.run .discard t {} h) h').comp 0).w.closed 0 = false ∧
    (((Teardown.run .discard t (Teardown.run .discard t {} h) h').comp 0).w.pend 0).length = 1 ∧
    ((Teardown.run .discard t (Teardown.run .discard t {} h) h').inbox 0 0).length = 1 ∧
    (Teardown.run .discard t (Teardown.run .discard t {} h) h').reads 0 0 = [] := by
  refine ⟨?_, ?_, by decide, by decide, by decide, by decide⟩
  · intro st hst
    simp only [List.mem_cons, List.not_mem_nil, or_false] at hst
    rcases hst with rfl | rfl | rfl | rfl | rfl | rfl | rfl | rfl | rfl <;> simp [stepNoForeign]
  · intro st hst
    simp only [List.mem_cons, List.not_mem_nil, or_false] at hst
    rcases hst with rfl | rfl | rfl | rfl | rfl | rfl | rfl | rfl | rfl <;> simp [stepNoForeign]

/-- **… and what the upstream writer then still awaits.**  Same situation, for histories in which
the wiring is consistent (`wi`'s reader `r` is listened to by the node whose out-writer is `wo`),
and nobody but the node answers on the node's in-reader (`stepNoForeign`): throughout, while
`r` is open, the number of answers `wi` awaits from `r` (`pend r`, the reader's FIFO of unanswered
requests) equals the requests the node holds – handed to its reader and not yet taken, plus taken
and not yet answered.  Hence after the `buffered + 2` steps of the node's goroutines `wi` awaits
from `r` only the requests the forward loop has not taken yet (each of which it will answer at
once: the closed out-writer accepts nothing, the request is echoed) – and `wi`'s machine is the
image of a C01 specification state satisfying C01's invariant, in which the rows that owe `r` an
answer are exactly those requests (`OweOK`).  So no request the node had taken keeps the
requester of `wi` waiting.  `_partial`: the hypothesis that nobody but the node answers on its
in-reader (the wiring hypothesis says that the two loops belong to one node).  For every
continuation instead of the one schedule: `C03.upstream_awaits_any_schedule_partial`. -/
theorem C03.teardown_releases_upstream_awaits_partial (t : Topo) (ho : t.handOver = true) (h : List Teardown.Step) (hs : RunNoSteal h)
    (wo wi : WId) (r : RId) (hc : t.consumer wo = .node wi r) (hl : t.listener wi r = .node wo) (hne : wo ≠ wi)
    (hf : ∀ st ∈ h, stepNoForeign wi r st)
    (hd : ((Teardown.run .discard t {} h).comp wo).w.done = true) :
    ∃ sched : List Teardown.Step, (∀ st ∈ sched, st = .bwd wo ∨ st = .prim wo .pumpExit) ∧
      sched.length ≤ ((Teardown.run .discard t {} h).comp wo).p.buf.length + 2 ∧
      (Teardown.run .discard t (Teardown.run .discard t {} h) sched).reads wi r = [] ∧
      (((Teardown.run .discard t (Teardown.run .discard t {} h) sched).comp wi).w.closed r = false →
        (((Teardown.run .discard t (Teardown.run .discard t {} h) sched).comp wi).w.pend r).length =
          ((Teardown.run .discard t (Teardown.run .discard t {} h) sched).inbox wi r).length) ∧
      Backed ((Teardown.run .discard t (Teardown.run .discard t {} h) sched).comp wi) := by
  obtain ⟨sched, h1, h2, h3⟩ := node_release t ho wo wi r hc hne _ _ ⟨h, hs, rfl⟩ hd (Nat.le_refl _)
  have hf' : ∀ st ∈ h ++ sched, stepNoForeign wi r st := by
    intro st hst
    rcases List.mem_append.1 hst with hst | hst
    · exact hf st hst
    · rcases h1 st hst with rfl | rfl <;> trivial
  have hu0 : Upstream ({} : Sys) wi r := by
    unfold Upstream OwedEq; intro _; rfl
  obtain ⟨hu, hb⟩ := upstream_run t wi r wo hl hne (h ++ sched) {} (fun _ => backed_init) (by intro k e he; cases he) hf' hu0
  rw [run_append] at hu hb
  refine ⟨sched, h1, h2, h3, ?_, hb wi⟩
  intro hcl
  have := hu hcl
  rw [h3] at this
  simpa using this

/-- Non-vacuity: the history of `C03.teardown_releases_upstream_partial_nonvacuous` satisfies the
hypotheses (the sink's answers are on writer 1's reader, not on the node's in-reader). -/
theorem C03.teardown_releases_upstream_awaits_partial_nonvacuous :
    let t : Topo := { consumer := fun w => if w = 1 then .node 0 0 else .requester,
                      listener := fun w _ => if w = 0 then .node 1 else .sink 0 }
    let h : List Teardown.Step := [.prim 0 (.w (.link 0)), .prim 1 (.w (.link 0)), .prim 0 (.w (.write 7)), .fwd 0 0,
      .prim 1 (.w (.answer 0 (.val 70))), .bwd 1, .prim 0 (.w (.write 8)), .fwd 0 0, .prim 0 (.w (.write 9)),
      .down (.writerClose 1), .prim 1 .pumpExit]
    (∀ st ∈ h, stepNoForeign 0 0 st) ∧
    ((Teardown.run .discard t {} h).comp 1).w.done = true ∧
    (((Teardown.run .discard t {} h).comp 0).w.pend 0).length = 2 ∧
    ((Teardown.run .discard t {} h).inbox 0 0).length = 1 ∧ ((Teardown.run .discard t {} h).reads 0 0).length = 1 := by
  refine ⟨?_, by decide, by decide, by decide, by decide⟩
  intro st hst
  simp only [List.mem_cons, List.not_mem_nil, or_false] at hst
  rcases hst with rfl | rfl | rfl | rfl | rfl | rfl | rfl | rfl | rfl | rfl | rfl <;> simp [stepNoForeign]

/-! ## Fan-in: several writers on one reader -/

namespace Uniflow.TeardownProofs

theorem closeW_deliv (m : W) : (Writer.step m .closeW).2.deliv = [] := by
  simp only [Writer.step, stepWith]; split <;> rfl

/-- `Writer.Close` leaves the queues of the readers it is linked to alone. -/
theorem closeW_queue (rule : Pump.Rule) (t : Topo) (s : Sys) (w : WId) :
    (applyPrim rule t s w (.w .closeW)).1.queue = s.queue := by
  simp only [applyPrim, applyC, closeW_deliv, deliverQ, setComp]

def isWriterClose : Close → Bool
  | .writer _ => true
  | .reader _ _ => false

theorem writerCloses_queue (rule : Pump.Rule) (t : Topo) (s : Sys) (cl : List Close)
    (h : ∀ c ∈ cl, isWriterClose c = true) : (applyCloses rule t s cl).queue = s.queue := by
  induction cl generalizing s with
  | nil => rfl
  | cons c rest ih =>
    simp only [applyCloses]
    rw [ih _ (fun c' hc' => h c' (by simp [hc']))]
    cases c with
    | writer w => exact closeW_queue rule t s w
    | reader w r => have := h (.reader w r) (by simp); simp [isWriterClose] at this

end Uniflow.TeardownProofs

/-- **Unaffected requesters get their own answers** (fan-in).  One Go reader may be linked from
several writers; its queue `Reader.writers` (`Sys.queue`) decides which writer the owner's next
answer goes to.  A teardown action that closes writers only (`Writer.Close`, `OutPort.Close`; the
writer closes of a node close or process exit) never touches those queues.  Hence (i) every
writer outside the action's footprint is left as it was, (ii) every reader's queue is left as it
was, and so (iii) the next answer of any reader's owner goes to the same request as it would have
without the teardown and has exactly the same effect on every writer outside the footprint: a
teardown action on writer `w` never changes what any other writer's requester receives – not
even when that requester's request is queued behind one of `w` on a shared reader. -/
theorem C03.unaffected_correct (rule : Pump.Rule) (t : Topo) (s : Sys) (td : Teardown)
    (hw : ∀ c ∈ closes t td, isWriterClose c = true) :
    (∀ x, x ∉ (closes t td).map closeTarget → (Teardown.step rule t s (.down td)).1.comp x = s.comp x) ∧
    (Teardown.step rule t s (.down td)).1.queue = s.queue ∧
    (∀ k a x, x ∉ (closes t td).map closeTarget →
      (Teardown.step rule t (Teardown.step rule t s (.down td)).1 (.sinkAnswer k a)).1.comp x =
        (Teardown.step rule t s (.sinkAnswer k a)).1.comp x) := by
  have hframe : ∀ x, x ∉ (closes t td).map closeTarget → (Teardown.step rule t s (.down td)).1.comp x = s.comp x :=
    fun x hx => (step_evolves rule t s (.down td) trivial).2 x hx
  have hq : (Teardown.step rule t s (.down td)).1.queue = s.queue := writerCloses_queue rule t s _ hw
  refine ⟨hframe, hq, ?_⟩
  intro k a x hx
  simp only [Teardown.step] at hframe hq ⊢
  rw [hq]
  cases hqk : s.queue k with
  | nil => exact hframe x hx
  | cons e rest =>
    obtain ⟨w, r⟩ := e
    simp only
    rw [applyPrim_comp, applyPrim_comp]
    by_cases hxw : x = w
    · subst hxw
      simp only [if_true]
      rw [hframe x hx]
    · simp only [hxw, if_false]
      exact hframe x hx

/-- Non-vacuity, on the situation of the seeded change c03c: writers 0 and 1 are linked to the same
reader (sink 0); writer 0's request is handed to it first, writer 1's is queued behind it; writer
0 is closed; the owner answers both requests in order (70 to the first, 80 to the second).  The
first answer goes to the closed writer and is discarded, the requester of writer 1 receives 80 –
its own answer. -/
theorem C03.unaffected_correct_nonvacuous :
    let t : Topo := { listener := fun _ _ => .sink 0 }
    let h : List Teardown.Step := [.prim 0 (.w (.link 0)), .prim 1 (.w (.link 0)), .prim 0 (.w (.write 7)),
      .prim 1 (.w (.write 8)), .down (.writerClose 0), .sinkAnswer 0 (.val 70), .sinkAnswer 0 (.val 80),
      .prim 1 .recv, .prim 0 .recv]
    (Teardown.run .discard t {} (h.take 4)).queue 0 = [(0, 0), (1, 0)] ∧
    ((Teardown.run .discard t {} h).comp 1).got = [.got (.val 80)] ∧
    ((Teardown.run .discard t {} h).comp 0).got = [.got Resp.dropped] := by
  decide

/-! ## The forward-end `Tracer.Drop` cannot lose a later request's answer -/

/-- **A node's forward loop ending is final.**  When a node's in-reader `r` (of writer `w`) is
closed its forward loop ends and drops what it still awaits downstream (`fwdEnd`: `Tracer.Drop` on
its writers) although the out-writer may stay open and the downstream may still answer those
requests later.  Such a late answer could only do harm if the same node, for the same process,
wrote a new request to that out-writer afterwards (the tracer matches responses to the pending
writes of a writer first-in first-out).  It cannot: from the state `fwdEnd` leaves – reader
closed, nothing handed to it and not taken, nothing taken and not answered – every step of every
history keeps all three: a closed reader stays closed (no operation reopens it; the in-port keeps
the closed reader for the process, `InPort.Close` forgets it but also drops the node's
listeners, a process exit makes `Open` return the closed reader), a closed reader accepts no
write, so nothing is ever handed to it, so the forward loop – if one were running – would take
nothing, so nothing is written downstream on its behalf.  A late answer finds `reads` empty and
is discarded (`bwd`: nothing to fill). -/
theorem C03.forward_end_is_final (t : Topo) (w : WId) (r : RId) (wo : WId) (hl : t.listener w r = .node wo)
    (s : Sys) (hc : (s.comp w).w.closed r = true) (h : List Teardown.Step) :
    let s' := Teardown.run .discard t (Teardown.step .discard t s (.fwdEnd w r)).1 h
    (s'.comp w).w.closed r = true ∧ s'.inbox w r = [] ∧ s'.reads w r = [] := by
  obtain ⟨h1, h2⟩ := fwdEnd_seals t w r wo hl s hc
  obtain ⟨h3, h4⟩ := sealed_run t w r wo hl h _ h1 h2
  exact ⟨h3.1, h3.2, h4⟩

/-- Non-vacuity: a request in flight behind a node, the node's in-reader closed, the forward loop
ends; the requester writes again (not accepted: count 0), the downstream answers late on the
still open out-writer, the backward loop runs: the node holds nothing and passes nothing up; the
requester has received exactly the `dropped` of the reader close. -/
theorem C03.forward_end_is_final_nonvacuous :
    let t : Topo := { consumer := fun w => if w = 1 then .node 0 0 else .requester,
                      listener := fun w _ => if w = 0 then .node 1 else .sink 0 }
    let h : List Teardown.Step := [.prim 0 (.w (.link 0)), .prim 1 (.w (.link 0)), .prim 0 (.w (.write 7)), .fwd 0 0,
      .down (.readerClose 0 0), .fwdEnd 0 0, .prim 0 (.w (.deliverDrop 0)), .prim 0 .recv,
      .prim 0 (.w (.write 8)), .fwd 0 0, .sinkAnswer 0 (.val 70), .bwd 1]
    ((Teardown.run .discard t {} h).comp 1).w.done = false ∧
    (Teardown.run .discard t {} h).reads 0 0 = [] ∧
    ((Teardown.run .discard t {} h).comp 0).accepted = 1 ∧
    ((Teardown.run .discard t {} h).comp 0).got = [.got Resp.dropped] := by
  decide

/-! ## The window between a writer's creation and the start of its backward loop -/

/-- **The action returns after the node was closed.**  A request can be inside a node's action when
the node is closed (`Node.Close` = in-port close, out-port close, `Tracer.Close`; also `Symbol.Close`,
`Table.Free`, an insert that replaces the node).  When the action returns, the forward loop goes on
with its remaining tracer calls for that request (`Link`, `Write`).  In the model: a `fwd` step in
any reachable state in which the node's in-reader `(w, r)` is closed and its out-writer `wo` is
closed – what the node close leaves.  That step changes NOTHING for anybody: every component
(writer machine, pump, what its requester has received and is still owed) is exactly as before, no
request is added to what the node still has to answer, and the step does not panic – the write on
the closed out-writer is refused (count 0), the request is passed up with itself as its answer to
the closed in-reader, which ignores it.  What the requester was owed is released by the drop
notice of the closed in-reader (`C03.teardown_releases_readers`), before or after this step.
(The Go `Tracer.Close` replaces its maps by empty ones, so the late `Link` / `Write` find a tracer
that follows nothing; with nil maps they panic – seeded change c03j, caught by the window family
"node close between the forward loop's Open and its Write".) -/
theorem C03.action_returns_after_node_close (t : Topo) (h : List Teardown.Step) (w : WId) (r : RId) (wo : WId)
    (hl : t.listener w r = .node wo)
    (hc : ((Teardown.run .discard t {} h).comp w).w.closed r = true)
    (hd : ((Teardown.run .discard t {} h).comp wo).w.done = true) :
    (∀ x, (Teardown.step .discard t (Teardown.run .discard t {} h) (.fwd w r)).1.comp x = (Teardown.run .discard t {} h).comp x) ∧
    waiting ((Teardown.step .discard t (Teardown.run .discard t {} h) (.fwd w r)).1.reads w r) =
      waiting ((Teardown.run .discard t {} h).reads w r) ∧
    ((Teardown.step .discard t (Teardown.run .discard t {} h) (.fwd w r)).2 = .skip ∨
     (Teardown.step .discard t (Teardown.run .discard t {} h) (.fwd w r)).2 = .c (.w { ret := .cnt 0 })) := by
  obtain ⟨sp, hR⟩ := backed_run .discard t {} h (fun _ => backed_init) w
  exact fwd_after_close t _ w r wo hl (hR.pendClosed r hc) hd

/-- Non-vacuity: a node (in-port 0 = reader 0 of writer 0, out-port 0 = writer 1) between a source
and a sink; a request has been handed to the node's in-reader and not been taken by the forward
loop's bookkeeping yet (it is inside the action) when the node is closed.  The hypotheses hold; the
action returns (`fwd`): the write is refused with count 0; the requester of writer 0 – never closed –
is released with `dropped` by the drop notice of the closed in-reader. -/
theorem C03.action_returns_after_node_close_nonvacuous :
    let t : Topo := { consumer := fun w => if w = 1 then .node 0 0 else .requester,
                      listener := fun w _ => if w = 0 then .node 1 else .sink 0,
                      inPorts := [[(0, 0)]], outPorts := [[1]], nodes := [(0, 0)] }
    let h : List Teardown.Step := [.prim 0 (.w (.link 0)), .prim 1 (.w (.link 0)), .prim 0 (.w (.write 7)), .down (.nodeClose 0)]
    let s := Teardown.run .discard t {} h
    t.listener 0 0 = .node 1 ∧ (s.comp 0).w.closed 0 = true ∧ (s.comp 1).w.done = true ∧ (s.comp 0).w.done = false ∧
    s.inbox 0 0 = [7] ∧ (s.comp 0).outstanding = 1 ∧
    (Teardown.step .discard t s (.fwd 0 0)).2 = .c (.w { ret := .cnt 0 }) ∧
    ((Teardown.run .discard t s [.fwd 0 0, .prim 0 (.w (.deliverDrop 0)), .prim 0 .recv]).comp 0).got = [.got Resp.dropped] ∧
    ((Teardown.run .discard t s [.prim 0 (.w (.deliverDrop 0)), .prim 0 .recv, .fwd 0 0]).comp 0).got = [.got Resp.dropped] := by
  decide

/-- **The late listener finds its writer.**  A node's backward loop is a listener of the out-port:
`OutPort.Open` starts it in its own goroutine and it obtains the writer with a second
`Open(proc)` (`bwdLate` is that second `Open` happening only now).  With the code after `fix: a
writer stays findable for its listeners until they have returned` (`handOver = true`) that step
changes nothing, in any state – whatever teardown landed between the forward loop's `Open` and it
(`OutPort.Close`, node close, writer close): the loop watches the writer the forward loop wrote
to, so `C03.teardown_releases_upstream_partial` applies at every crash point inside the window
too; and no backward loop ever watches another writer (`detached` stays false along every
history). -/
theorem C03.late_listener_finds_writer (rule : Pump.Rule) (t : Topo) (ho : t.handOver = true) :
    (∀ s wo, (Teardown.step rule t s (.bwdLate wo)).1 = s) ∧
    (∀ h w, (Teardown.run rule t {} h).detached w = false) := by
  refine ⟨fun s wo => by simp [Teardown.step, ho], fun h w => ?_⟩
  rw [run_detached rule t {} h ho]

/-- The defect that was fixed, as a theorem about the code before it (`handOver = false`): a
request is in flight behind a node, the node's out-port is closed before its backward listener
has made its own `Open`; the listener then gets a brand-new writer (`bwdLate`): however the pump,
the backward loop and the requester are scheduled afterwards, the node keeps the request
waiting and the requester upstream – whose own writer was never closed – stays owed a response
with nothing to receive. With the fix the same history releases it with `dropped`. -/
theorem C03.late_listener_pinned_blocked :
    let t (ho : Bool) : Topo := { consumer := fun w => if w = 1 then .node 0 0 else .requester,
                                  listener := fun w _ => if w = 0 then .node 1 else .sink 0,
                                  outPorts := [[0], [1]], handOver := ho }
    let h : List Teardown.Step := [.prim 0 (.w (.link 0)), .prim 1 (.w (.link 0)), .prim 0 (.w (.write 7)), .fwd 0 0,
      .down (.outPortClose 1), .bwdLate 1, .prim 1 .pumpExit, .bwd 1, .bwd 1, .prim 0 .pumpExit, .prim 0 .recv]
    ((Teardown.run .discard (t false) {} h).comp 0).outstanding = 1 ∧
    ((Teardown.run .discard (t false) {} h).comp 0).got = [] ∧
    ((Teardown.run .discard (t false) {} h).comp 0).w.done = false ∧
    (Teardown.run .discard (t false) {} h).reads 0 0 = [(7, none)] ∧
    ((Teardown.run .discard (t true) {} h).comp 0).got = [.got Resp.dropped] := by
  decide

/-! ## A closed in-port re-opened inside `OutPort.Open` -/

/-- The process's first `Open` of a source out-port took the snapshot of its linked in-ports, the
node's in-port was closed, the `Open` went on: the source writer (0) ends up linked to a fresh
reader (reader 1) of the closed port.  With `fix: a closed in-port drops what is still written to
it` the port itself listens on that reader (sink 9) and answers `dropped`: the request is
accepted, answered at once, and the requester receives `dropped`.  Before the fix nobody
listened: the same history without the port's answer leaves the requester owed a response with no
step of the system enabled for it but an answer that never comes (second conjunct: `pend`
non-empty, nothing buffered, the writer open). -/
theorem C03.closed_port_answers_dropped :
    let t : Topo := { listener := fun _ r => if r = 1 then .sink 9 else .node 1 }
    let h : List Teardown.Step := [.down (.readerClose 0 0), .prim 0 (.w (.link 1)), .prim 0 (.w (.write 7))]
    ((Teardown.run .discard t {} (h ++ [.sinkAnswer 9 Ans.dropped, .prim 0 .recv])).comp 0).got = [.got Resp.dropped] ∧
    (((Teardown.run .discard t {} h).comp 0).outstanding = 1 ∧
     (((Teardown.run .discard t {} h).comp 0).w.pend 1).length = 1 ∧
     ((Teardown.run .discard t {} h).comp 0).p.buf = [] ∧
     ((Teardown.run .discard t {} h).comp 0).w.done = false ∧
     (Teardown.run .discard t {} h).queue 9 = [(0, 1)]) := by
  decide

/-! ## The order in which drop notices are delivered does not matter -/

/-- **Drop notices commute.**  `Reader.Close` spawns one goroutine per request the reader still
owes; each runs `(*Writer).receive(dropped, r, link, write)`; the Go scheduler runs them in any
order, while the model's `deliverDrop r` takes the oldest first.  Since responses are matched to
their rows by write number (fix b041313) the order is immaterial: in every reachable state, for
every writer `w`, every reader `r` and every permutation `ns` of the notices held back for `r`,
delivering them in the order `ns` leaves exactly the same writer machine – rows, write numbers,
everything – and makes the writer emit exactly the same responses, in the same order, as
delivering them oldest first (`DropCommute.dropAll`: one `receive` per notice; the notices' own
bookkeeping, `drops r`, is emptied either way).  This is what allows the harness to release the
held-back notices in random order and to compare with the model afterwards. -/
theorem C03.drop_notices_commute (t : Topo) (h : List Teardown.Step) (hs : RunNoSteal h) (w : WId) (r : RId)
    (ns : List (Nat × Nat)) (hp : ns.Perm (((Teardown.run .discard t {} h).comp w).w.drops r)) :
    DropCommute.dropAll ((Teardown.run .discard t {} h).comp w).w r ns =
      DropCommute.dropAll ((Teardown.run .discard t {} h).comp w).w r (((Teardown.run .discard t {} h).comp w).w.drops r) := by
  obtain ⟨sp, hR⟩ := backed_run .discard t {} h (fun _ => backed_init) w
  have ht : DropCommute.Tied ((Teardown.run .discard t {} h).comp w).w sp :=
    ⟨hR.readers, hR.rows, hR.writes, hR.done, hR.linksLen, hR.inv.toCore⟩
  -- the write numbers of the held-back notices are strictly increasing
  obtain ⟨cs, _, e⟩ := run_evolves .discard t {} h hs w
  have hq : DropCommute.QSorted ((Teardown.run .discard t {} h).comp w).w := by
    rw [e, runC_w]
    exact DropCommute.qsorted_run _ _ DropCommute.qsorted_init
  have hnd : ((((Teardown.run .discard t {} h).comp w).w.drops r).map Prod.snd).Nodup :=
    (hq.drops r).imp (fun hlt => Nat.ne_of_lt hlt)
  cases hc : ((Teardown.run .discard t {} h).comp w).w.closed r with
  | false =>
    have hd := hR.dropsOpen r hc
    rw [hd] at hp ⊢
    rw [List.Perm.eq_nil hp]
  | true =>
    apply DropCommute.dropAll_perm hp _ sp ht ((hp.map Prod.snd).nodup_iff.2 hnd)
    intro n hn hslot
    apply hR.ent r n _ hslot
    have : n ∈ ((Teardown.run .discard t {} h).comp w).w.drops r := hp.mem_iff.1 hn
    simp only [WriterProofs.entries, WriterProofs.fifo, hc, if_true, List.mem_append]
    exact Or.inl this

/-- Non-vacuity: three requests outstanding, the reader closed: three notices are held back;
delivered youngest first or oldest first, the rows are gone and the same three `dropped`
responses have been emitted. -/
theorem C03.drop_notices_commute_nonvacuous :
    let h : List Teardown.Step := [.prim 0 (.w (.link 0)), .prim 0 (.w (.write 7)), .prim 0 (.w (.write 8)),
      .prim 0 (.w (.write 9)), .down (.readerClose 0 0)]
    let m := ((Teardown.run .discard {} {} h).comp 0).w
    m.drops 0 = [(1, 0), (1, 1), (1, 2)] ∧
    (DropCommute.dropAll m 0 [(1, 2), (1, 0), (1, 1)]).2 = [Resp.dropped, Resp.dropped, Resp.dropped] ∧
    (DropCommute.dropAll m 0 [(1, 2), (1, 0), (1, 1)]).1.rows = [] ∧
    (DropCommute.dropAll m 0 (m.drops 0)).2 = [Resp.dropped, Resp.dropped, Resp.dropped] := by
  decide
