/-
C10 – store results equal a reference evaluation of the supported operators.

Statement (properties.jsonl): for any history of inserts, updates, deletes and finds, every outcome – the documents
matched, the counts reported, their order under sort with skip and limit, and whether an error is returned – equals
that of a straightforward reference evaluation of the supported filter operators ($eq, $ne, $gt, $gte, $lt, $lte, $and,
$or, $exists, nested fields) and update operators ($set, $unset, upsert) over the documents currently stored.
Documents read back are the values as last written.

Reference: `Uniflow.Query` (Spec/Query.lean). Model: `Uniflow.Store` (helper.go), `Uniflow.Plan` (executionplan.go,
explain), `Uniflow.Index` (segment.go, store.go) – transcriptions of the code **after** these repairs in the repository
(each reproduced on the pinned tree first; witnesses in corpus/C10):
  * `$exists` ignored the document (DESIGN §7 row 12); `$or`/`$exists` returned before their sibling entries were
    evaluated, so a result depended on the hash order of the filter's keys (row 13); a nested-field filter panicked on a
    scanned document lacking the parent and errored on a non-map parent (row 14);
  * a malformed filter / update was reported only when the evaluation of some stored document reached it (never on an
    empty collection; dependent on key order and on which documents an index let the scan skip) – `validate`;
  * a nil operand of `$set`/`$unset`/`$and`/`$or` was dereferenced while formatting the error.
On the pinned tree `match_eq_ref` is false (the corpus files are counterexamples; the harness oracle finds them when a
fix is reverted).

What is proved here (every theorem about histories quantifies over **all** histories – no bound on length, number of
documents or indexes, or nesting of filters)
  * `C10.match_eq_ref` (every well-formed filter of any depth and size, every present or absent value),
    `C10.match_total`, `C10.validate_static`, `C10.malformed_rejected`, `C10.conjunction_order_irrelevant`;
  * `C10.find_eq_ref` – `Find` = `refFind` (documents, order, skip/limit, static error) after every history, whatever
    indexes exist (`GoodOps`: index keys are field names, index filters well-formed – necessary, see C11): the planned scan
    stays within sound bounds (`C11.plan_sound`) of an index holding every matching document (`C11.index_inv`,
    `C11.partial_applicable_sound`) and the residual `match` is applied to every scanned document;
  * `C10.patch_eq_ref` – `$set`/`$unset` = the dictionary reference on every document in `Range` order;
  * `C10.update_eq_ref` (incl. upsert), `C10.delete_eq_ref`, and the capstone `C10.store_refines`: on every history whose
    `Index` operations are non-unique the model answers every operation exactly as the reference store
    (Spec/RefStore.lean: documents only, `refMatch`, per-document steps) and holds the same documents;
  * `C10.sort_perm`, `C10.readback_last_written`, `C10.ref_find_is_refFind`.
What is missing for the unrestricted capstone: (1) the reference semantics of *unique* indexes (a constraint that rejects a
document) – C12 proves that such a rejection leaves no trace and that unique keys stay unique, but the reference store
here has no constraints, so `store_refines` is stated for histories without unique `Index` operations; (2) the upsert
document is `extract`'s: `C10.extract_simple_full` (`extract = refExtract` on simple filters) is stated, not proved;
(3) that the sorted arrangement is ordered by the comparator (`sortDocs` is shared by model and reference).
-/
import Uniflow.Proofs.Refine
import Uniflow.Proofs.PatchRef

open Uniflow.Value Uniflow.Store Uniflow.Query Uniflow.Plan Uniflow.Index Uniflow.RefStore

/-- `match` computes the reference evaluation: for every well-formed filter (any nesting), every value `d` that may be
absent (`none`), `match(valueOrNil(d), present(d), f) = (refMatch d f, nil)`. -/
theorem C10.match_eq_ref (f : Val) (hf : wf f = true) (d : Option Val) :
    matchV (valOf d) d.isSome f = .ok (refMatch d f) :=
  matchV_ref f hf d

/-- on a stored document (`match(doc, filter)` as `find` calls it) -/
theorem C10.match_doc_eq_ref (f : Val) (hf : wf f = true) (doc : PList) :
    matchV (.map doc) true f = .ok (refMatch (some (.map doc)) f) := by
  simpa [valOf] using matchV_ref f hf (some (.map doc))

/-- `validate` accepts exactly the well-formed filters: whether a filter is rejected depends on the filter alone. -/
theorem C10.validate_static (f : Val) : validate f = none ↔ wf f = true := by
  have := validate_wf f
  cases hv : validate f <;> simp [hv] at this ⊢ <;> simp [this]

/-- a malformed filter is rejected by `find` in every state – empty store, any documents, any indexes -/
theorem C10.malformed_rejected (s : State) (f : Val) (hf : wf f = false) : ∃ e, find s (some f) = .err e := by
  have := validate_wf f
  cases hv : validate f with
  | none => simp [hv, hf] at this
  | some e => exact ⟨e, by simp [find, hv]⟩

/-- a well-formed filter never makes `match` fail or panic, on a present or an absent value -/
theorem C10.match_total (f : Val) (hf : wf f = true) (d : Option Val) :
    ∃ b, matchV (valOf d) d.isSome f = .ok b :=
  ⟨_, matchV_ref f hf d⟩

/-- the entries of a map filter are a conjunction: swapping two neighbouring entries (hence any reordering) does not
change the reference result – the result cannot depend on the hash order of the filter's keys -/
theorem C10.conjunction_order_irrelevant (d : Option Val) (k1 v1 k2 v2 : Val) (rest : PList) :
    refP d (.cons k1 v1 (.cons k2 v2 rest)) = refP d (.cons k2 v2 (.cons k1 v1 rest)) := by
  simp only [refP_cons]
  cases entry d k1 v1 <;> cases entry d k2 v2 <;> rfl

/-- `Find` = reference find (documents, order, skip/limit) when the planner uses no index for the filter. -/
theorem C10.find_eq_ref_partial (s : State) (f : Option Val) (sort : Option PList) (skip limit : Nat)
    (hf : filterOk f = true) (hplan : ∀ g, f = some g → explain (s.indexes.map descOf) g = []) :
    storeFind s f sort skip limit = .ok (refFind (s.docs.map (·.2)) f sort skip limit) := by
  cases f with
  | none =>
    have h1 : refMatchDoc none = fun _ => true := rfl
    have h2 : ∀ l : List PList, l.filter (fun _ => true) = l := fun l => by
      induction l with
      | nil => rfl
      | cons a l ih => simp [List.filter, ih]
    cases sort <;> simp [storeFind, find, Res.bind, refFind, h1, h2]
  | some g =>
    have hw : wf g = true := hf
    have hv : validate g = none := (C10.validate_static g).mpr hw
    have h1 : refMatchDoc (some g) = fun d => refMatch (some (.map d)) g := rfl
    simp only [storeFind, find, hv, hplan g rfl, List.isEmpty_nil, if_true, residual_ref hw, Res.bind, refFind, h1]
    rfl

/-- sorting returns a permutation of the matched documents -/
theorem C10.sort_perm (spec : PList) (docs : List PList) : (sortDocs spec docs).Perm docs := by
  have ins : ∀ (d : PList) (es : List PList), (insertDoc spec d es).Perm (d :: es) := by
    intro d es
    induction es with
    | nil => exact List.Perm.refl _
    | cons e es ih =>
      simp only [insertDoc]
      split
      · exact List.Perm.refl _
      · exact (List.Perm.cons e ih).trans (List.Perm.swap d e es)
  induction docs with
  | nil => exact List.Perm.refl _
  | cons d ds ih =>
    simp only [sortDocs, List.foldr_cons]
    exact (ins d _).trans (List.Perm.cons d ih)

/-- full statement: after every history whose `Index` operations are over field names (keys not starting with `$`) with
well-formed index filters (`GoodOps`: DESIGN §5 C10 (v); an index key such as `$or` makes the planner read an operator
entry as a field condition – the hypothesis is necessary), `Find` is the reference find – documents, order, skip/limit –
and a malformed filter is rejected with the error `validate` reports. -/
def C10.find_eq_ref_full : Prop :=
  ∀ (ops : List Op) (f : Option Val) (sort : Option PList) (skip limit : Nat), GoodOps ops →
    let s := run Uniflow.Index.init ops
    storeFind s f sort skip limit =
      if filterOk f then .ok (refFind (s.docs.map (·.2)) f sort skip limit)
      else .err ((f.bind validate).getD .unsupportedType)

/-- **find_eq_ref**, in full: whatever indexes exist. The planned scan stays within sound bounds (`C11.plan_sound`) of an
index that holds every matching document (`C11.index_inv`, `C11.partial_applicable_sound`), and the residual `match`
is applied to every scanned document. -/
theorem C10.find_eq_ref : C10.find_eq_ref_full := by
  intro ops f sort skip limit hgood s
  have hfull : Full s := Full_run ops Full_init
  have hgs : GoodState s := GoodState_run ops GoodState_init hgood
  cases f with
  | none =>
    have h1 : refMatchDoc none = fun _ => true := rfl
    have h2 : ∀ l : List PList, l.filter (fun _ => true) = l := fun l => by
      induction l with
      | nil => rfl
      | cons a l ih => simp [List.filter, ih]
    cases sort <;> simp [storeFind, find, Res.bind, refFind, h1, h2, filterOk]
  | some g =>
    by_cases hw : wf g = true
    · have h1 : refMatchDoc (some g) = fun d => refMatch (some (.map d)) g := rfl
      simp only [storeFind, find_ref hfull hgs hw, Res.bind, refFind, h1, filterOk, hw, if_true]
      rfl
    · have hv := validate_wf g
      cases hval : validate g with
      | none => simp [hval] at hv; exact absurd hv hw
      | some e => simp [storeFind, find, hval, Res.bind, filterOk, hw]

/-- the primary tree: a put is read back, other ids are not disturbed -/
theorem C10.readback_last_written (docs : List (Val × PList)) (id : Val) (d : PList) :
    getDoc (putDoc docs id d) id = some d ∧ ∀ x, cmp id x ≠ 0 → getDoc (putDoc docs id d) x = getDoc docs x :=
  ⟨getDoc_putDoc_same id d (C14.cmp_refl id) docs, fun _ hx => getDoc_putDoc_other d hx docs⟩

/-- `$set`/`$unset` against the dictionary reference: for a document in `Range` order (`KAsc`: strictly ascending
`(hash, Compare)` keys – every map Go can build; the hypothesis is necessary, `Delete` removes one pair only) and a
well-formed update, the patched document and the reference dictionary `refPatch` (Spec/Query.lean: `Dict.set` per `$set`
field, `Dict.delete` per `$unset` field) agree on every key, and the patched document is again in `Range` order. -/
def C10.patch_eq_ref_full : Prop :=
  ∀ (d u d' : PList), KAsc d → wfUpdate u = true → patch d u = .ok d' →
    (∀ k, mfind d' k = Uniflow.Dict.get (refPatch d.toList u) k) ∧ KAsc d'

/-- **patch_eq_ref**: documents read back are the values as last written -/
theorem C10.patch_eq_ref : C10.patch_eq_ref_full := by
  intro d u d' hd hu hp
  have := Rel_patch u (Rel_toList hd) hu hp
  exact ⟨this.look, this.asc⟩

/-- overwriting the existing field of a one-field document (the case that did nothing on the pinned tree, DESIGN §7 row 1) -/
theorem C10.patch_eq_ref_nonvacuous :
    ∃ d u d', KAsc d ∧ wfUpdate u = true ∧ patch d u = .ok d' ∧ mfind d' (.str [97]) = some (.int .native 9) :=
  ⟨.cons (.str [97]) (.int .native 1) .nil,
   .cons (.str opSet) (.map (.cons (.str [97]) (.int .native 9) .nil)) .nil,
   .cons (.str [97]) (.int .native 9) .nil,
   ⟨by simp [pkeys], trivial⟩, by decide, rfl, rfl⟩

/-- `Update` against the reference store (Spec/RefStore.lean `rUpdate`: the matching documents – by `refMatch`, in id order –
each replaced by its patched version, stopping at the first rejected document; with `upsert` and no match the patched
upsert document is inserted): same answer (count or error class) and same stored documents, after every history whose
`Index` operations are non-unique, over field names, with well-formed filters. -/
def C10.update_eq_ref_full : Prop :=
  ∀ (ops : List Op) (f : Option Val) (u : PList) (upsert : Bool), (∀ op ∈ ops, GoodOp op ∧ NonUniqueOp op) →
    let s := run Uniflow.Index.init ops
    (storeUpdate s f u upsert).2 = (rUpdate s.docs f u upsert).2 ∧
      (storeUpdate s f u upsert).1.docs = (rUpdate s.docs f u upsert).1

/-- `Delete` against the reference store (`rDelete`: remove the documents `refMatch` lets through, report their number) -/
def C10.delete_eq_ref_full : Prop :=
  ∀ (ops : List Op) (f : Option Val), (∀ op ∈ ops, GoodOp op ∧ NonUniqueOp op) →
    let s := run Uniflow.Index.init ops
    (storeDelete s f).2 = (rDelete s.docs f).2 ∧ (storeDelete s f).1.docs = (rDelete s.docs f).1

/-- the capstone: on every history whose `Index` operations are non-unique (over field names, with well-formed filters),
the store model answers every operation exactly as the reference store does and holds the same documents. -/
def C10.store_refines_full : Prop :=
  ∀ (ops : List Op), (∀ op ∈ ops, GoodOp op ∧ NonUniqueOp op) →
    allOuts Uniflow.Index.init ops = rOuts [] ops ∧ (run Uniflow.Index.init ops).docs = rRun [] ops

/-- the run invariant of histories without unique `Index` operations -/
theorem C10.inv2_run : ∀ (ops : List Op) {s : State}, Inv2 s → (∀ op ∈ ops, GoodOp op ∧ NonUniqueOp op) → Inv2 (run s ops)
  | [], _, h, _ => h
  | op :: ops, _, h, ho =>
    C10.inv2_run ops (Inv2_step h (ho op (by simp)).1 (ho op (by simp)).2) (fun o h' => ho o (by simp [h']))

/-- **update_eq_ref** (incl. upsert; the upsert document of a filter is `extract`'s – `C10.extract_simple_full` states its
characterisation for simple filters) -/
theorem C10.update_eq_ref : C10.update_eq_ref_full := by
  intro ops f u up hops s
  exact storeUpdate_ref (C10.inv2_run ops Inv2_init hops) f u up

/-- **delete_eq_ref** -/
theorem C10.delete_eq_ref : C10.delete_eq_ref_full := by
  intro ops f hops s
  exact storeDelete_ref (C10.inv2_run ops Inv2_init hops) f

/-- **store_refines** -/
theorem C10.store_refines : C10.store_refines_full := by
  intro ops hops
  exact run_ref ops Inv2_init hops

/-- the reference store's `Find` is `refFind` of Spec/Query.lean -/
theorem C10.ref_find_is_refFind (docs : Docs) (f : Option Val) (sort : Option PList) (skip limit : Nat)
    (hf : filterOk f = true) : rFindAll docs f sort skip limit = .ok (refFind (docs.map (·.2)) f sort skip limit) := by
  cases f with
  | none =>
    have h1 : refMatchDoc none = fun _ => true := rfl
    have h2 : ∀ l : List PList, l.filter (fun _ => true) = l := fun l => by
      induction l with
      | nil => rfl
      | cons a l ih => simp [List.filter, ih]
    cases sort <;> simp [rFindAll, rFind, Res.bind, refFind, h1, h2]
  | some g =>
    have hv : validate g = none := (C10.validate_static g).mpr hf
    have h1 : refMatchDoc (some g) = fun d => refMatch (some (.map d)) g := rfl
    cases sort <;> simp [rFindAll, rFind, hv, Res.bind, refFind, h1]

/-! ### Non-vacuity -/

/-- a well-formed filter of depth 3 using `$or`, a nested field, `$exists` and a range, and a document it matches -/
theorem C10.match_eq_ref_nonvacuous :
    ∃ f d, wf f = true ∧ refMatch (some (.map d)) f = true ∧ matchV (.map d) true f = .ok true := by
  refine ⟨.map (.cons (.str opOr) (.slice (.cons (.map (.cons (.str [110]) (.map (.cons (.str [120]) (.map (.cons (.str opGt) (.int .native 1) .nil)) .nil)) .nil))
      (.cons (.map (.cons (.str [97]) (.map (.cons (.str opExists) (.bool false) .nil)) .nil)) .nil))) .nil),
   .cons (.str [105, 100]) (.int .native 1) (.cons (.str [110]) (.map (.cons (.str [120]) (.int .native 2) .nil)) .nil),
   by decide, by decide, ?_⟩
  rw [C10.match_doc_eq_ref _ (by decide)]
  exact congrArg Res.ok (by decide)

/-- the upsert document of a simple filter (Spec/Query.lean `simple`) is the reference's (statement only; not proved) -/
def C10.extract_simple_full : Prop :=
  ∀ f : Val, simple f = true → extract f = .ok (refExtract f)
