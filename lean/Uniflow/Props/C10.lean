/-
C10 – store results equal a reference evaluation of the supported operators.

Statement (properties.jsonl): for any history of inserts, updates, deletes and finds, every outcome – the documents
matched, the counts reported, their order under sort with skip and limit, and whether an error is returned – equals
that of a straightforward reference evaluation of the supported filter operators ($eq, $ne, $gt, $gte, $lt, $lte, $and,
$or, $exists, nested fields) and update operators ($set, $unset, upsert) over the documents currently stored.
Documents read back are the values as last written.

Reference: `Uniflow.Query` (Spec/Query.lean). Model: `Uniflow.Store` (helper.go), `Uniflow.Plan` (executionplan.go,
explain), `Uniflow.Index` (segment.go, store.go) – transcriptions of the code **after** these repairs in the repository
(each reproduced on the pinned tree first; witnesses in corpus/C10):
  * `$exists` ignored the document (DESIGN §7 row 12); `$or`/`$exists` returned before their sibling entries were
    evaluated, so a result depended on the hash order of the filter's keys (row 13); a nested-field filter panicked on a
    scanned document lacking the parent and errored on a non-map parent (row 14);
  * a malformed filter / update was reported only when the evaluation of some stored document reached it (never on an
    empty collection; dependent on key order and on which documents an index let the scan skip) – `validate`;
  * a nil operand of `$set`/`$unset`/`$and`/`$or` was dereferenced while formatting the error.
On the pinned tree `match_eq_ref` is false (the corpus files are counterexamples; the harness oracle finds them when a
fix is reverted).

What is proved here (every theorem about histories quantifies over **all** histories – no bound on length, number of
documents or indexes, or nesting of filters)
  * `C10.match_eq_ref` (every well-formed filter of any depth and size, every present or absent value),
    `C10.match_total`, `C10.validate_static`, `C10.malformed_rejected`, `C10.conjunction_order_irrelevant`;
  * `C10.find_eq_ref` – `Find` = `refFind` (documents, order, skip/limit, static error) after every history, whatever
    indexes exist (`GoodOps`: index keys are field names, index filters well-formed – necessary, see C11): the planned scan
    stays within sound bounds (`C11.plan_sound`) of an index holding every matching document (`C11.index_inv`,
    `C11.partial_applicable_sound`) and the residual `match` is applied to every scanned document;
  * `C10.patch_eq_ref` – `$set`/`$unset` = the dictionary reference on every document in `Range` order;
  * `C10.update_eq_ref` (incl. upsert), `C10.delete_eq_ref`, and the capstone `C10.store_refines`: on every history whose
    `Index` operations are non-unique the model answers every operation exactly as the reference store
    (Spec/RefStore.lean: documents only, `refMatch`, per-document steps) and holds the same documents;
  * `C10.sort_perm`, `C10.readback_last_written`, `C10.ref_find_is_refFind`.
Closed since: `C10.extract_simple` (the upsert document of a simple filter is the reference's); the specification of a
sorted find as a property of the result (`Spec/FindSpec.lean`: a skip/limit window of some permutation of the matching
documents that is ordered by the comparator, ties in any order) with `C10.sort_sorted`, `C10.order_preorder`,
`C10.window_spec`, `C10.find_sorted_spec` – `find_sorted_spec` mentions no sorting function; and the capstone with unique
indexes, `C10.store_refines_unique`, against the reference store with unique *constraints* (Spec/RefStoreU.lean), plus
`C10.unique_constraints_hold`.
What remains: hypotheses `GoodOpU` on `Index` operations (field-name keys – necessary –, well-formed index filters, a unique
index over at least one key – a unique index over no key is accepted by the code and never indexes anything; it is not
generated); sort directions non-zero; that `violates` is *equivalent* to "storing the document breaks `Holds`" is not
proved as a separate lemma (the invariant `C10.unique_constraints_hold` is).
-/
import Uniflow.Proofs.Refine
import Uniflow.Proofs.PatchRef
import Uniflow.Proofs.Extract
import Uniflow.Proofs.SortSpec
import Uniflow.Proofs.RefineU

open Uniflow.Value Uniflow.Store Uniflow.Query Uniflow.Plan Uniflow.Index Uniflow.RefStore Uniflow.RefStoreU

/-- `match` computes the reference evaluation: for every well-formed filter (any nesting), every value `d` that may be
absent (`none`), `match(valueOrNil(d), present(d), f) = (refMatch d f, nil)`. -/
theorem C10.match_eq_ref (f : Val) (hf : wf f = true) (d : Option Val) :
    matchV (valOf d) d.isSome f = .ok (refMatch d f) :=
  matchV_ref f hf d

/-- on a stored document (`match(doc, filter)` as `find` calls it) -/
theorem C10.match_doc_eq_ref (f : Val) (hf : wf f = true) (doc : PList) :
    matchV (.map doc) true f = .ok (refMatch (some (.map doc)) f) := by
  simpa [valOf] using matchV_ref f hf (some (.map doc))

/-- `validate` accepts exactly the well-formed filters: whether a filter is rejected depends on the filter alone. -/
theorem C10.validate_static (f : Val) : validate f = none ↔ wf f = true := by
  have := validate_wf f
  cases hv : validate f <;> simp [hv] at this ⊢ <;> simp [this]

/-- a malformed filter is rejected by `find` in every state – empty store, any documents, any indexes -/
theorem C10.malformed_rejected (s : State) (f : Val) (hf : wf f = false) : ∃ e, find s (some f) = .err e := by
  have := validate_wf f
  cases hv : validate f with
  | none => simp [hv, hf] at this
  | some e => exact ⟨e, by simp [find, hv]⟩

/-- a well-formed filter never makes `match` fail or panic, on a present or an absent value -/
theorem C10.match_total (f : Val) (hf : wf f = true) (d : Option Val) :
    ∃ b, matchV (valOf d) d.isSome f = .ok b :=
  ⟨_, matchV_ref f hf d⟩

/-- the entries of a map filter are a conjunction: swapping two neighbouring entries (hence any reordering) does not
change the reference result – the result cannot depend on the hash order of the filter's keys -/
theorem C10.conjunction_order_irrelevant (d : Option Val) (k1 v1 k2 v2 : Val) (rest : PList) :
    refP d (.cons k1 v1 (.cons k2 v2 rest)) = refP d (.cons k2 v2 (.cons k1 v1 rest)) := by
  simp only [refP_cons]
  cases entry d k1 v1 <;> cases entry d k2 v2 <;> rfl

/-- `Find` = reference find (documents, order, skip/limit) when the planner uses no index for the filter. -/
theorem C10.find_eq_ref_partial (s : State) (f : Option Val) (sort : Option PList) (skip limit : Nat)
    (hf : filterOk f = true) (hplan : ∀ g, f = some g → explain (s.indexes.map descOf) g = []) :
    storeFind s f sort skip limit = .ok (refFind (s.docs.map (·.2)) f sort skip limit) := by
  cases f with
  | none =>
    have h1 : refMatchDoc none = fun _ => true := rfl
    have h2 : ∀ l : List PList, l.filter (fun _ => true) = l := fun l => by
      induction l with
      | nil => rfl
      | cons a l ih => simp [List.filter, ih]
    cases sort <;> simp [storeFind, find, Res.bind, refFind, h1, h2]
  | some g =>
    have hw : wf g = true := hf
    have hv : validate g = none := (C10.validate_static g).mpr hw
    have h1 : refMatchDoc (some g) = fun d => refMatch (some (.map d)) g := rfl
    simp only [storeFind, find, hv, hplan g rfl, List.isEmpty_nil, if_true, residual_ref hw, Res.bind, refFind, h1]
    rfl

/-- sorting returns a permutation of the matched documents -/
theorem C10.sort_perm (spec : PList) (docs : List PList) : (sortDocs spec docs).Perm docs := by
  have ins : ∀ (d : PList) (es : List PList), (insertDoc spec d es).Perm (d :: es) := by
    intro d es
    induction es with
    | nil => exact List.Perm.refl _
    | cons e es ih =>
      simp only [insertDoc]
      split
      · exact List.Perm.refl _
      · exact (List.Perm.cons e ih).trans (List.Perm.swap d e es)
  induction docs with
  | nil => exact List.Perm.refl _
  | cons d ds ih =>
    simp only [sortDocs, List.foldr_cons]
    exact (ins d _).trans (List.Perm.cons d ih)

/-- full statement: after every history whose `Index` operations are over field names (keys not starting with `$`) with
well-formed index filters (`GoodOps`: DESIGN §5 C10 (v); an index key such as `$or` makes the planner read an operator
entry as a field condition – the hypothesis is necessary), `Find` is the reference find – documents, order, skip/limit –
and a malformed filter is rejected with the error `validate` reports. -/
def C10.find_eq_ref_full : Prop :=
  ∀ (ops : List Op) (f : Option Val) (sort : Option PList) (skip limit : Nat), GoodOps ops →
    let s := run Uniflow.Index.init ops
    storeFind s f sort skip limit =
      if filterOk f then .ok (refFind (s.docs.map (·.2)) f sort skip limit)
      else .err ((f.bind validate).getD .unsupportedType)

/-- **find_eq_ref**, in full: whatever indexes exist. The planned scan stays within sound bounds (`C11.plan_sound`) of an
index that holds every matching document (`C11.index_inv`, `C11.partial_applicable_sound`), and the residual `match`
is applied to every scanned document. -/
theorem C10.find_eq_ref : C10.find_eq_ref_full := by
  intro ops f sort skip limit hgood s
  have hfull : Full s := Full_run ops Full_init
  have hgs : GoodState s := GoodState_run ops GoodState_init hgood
  cases f with
  | none =>
    have h1 : refMatchDoc none = fun _ => true := rfl
    have h2 : ∀ l : List PList, l.filter (fun _ => true) = l := fun l => by
      induction l with
      | nil => rfl
      | cons a l ih => simp [List.filter, ih]
    cases sort <;> simp [storeFind, find, Res.bind, refFind, h1, h2, filterOk]
  | some g =>
    by_cases hw : wf g = true
    · have h1 : refMatchDoc (some g) = fun d => refMatch (some (.map d)) g := rfl
      simp only [storeFind, find_ref hfull hgs hw, Res.bind, refFind, h1, filterOk, hw, if_true]
      rfl
    · have hv := validate_wf g
      cases hval : validate g with
      | none => simp [hval] at hv; exact absurd hv hw
      | some e => simp [storeFind, find, hval, Res.bind, filterOk, hw]

/-- the primary tree: a put is read back, other ids are not disturbed -/
theorem C10.readback_last_written (docs : List (Val × PList)) (id : Val) (d : PList) :
    getDoc (putDoc docs id d) id = some d ∧ ∀ x, cmp id x ≠ 0 → getDoc (putDoc docs id d) x = getDoc docs x :=
  ⟨getDoc_putDoc_same id d (C14.cmp_refl id) docs, fun _ hx => getDoc_putDoc_other d hx docs⟩

/-- `$set`/`$unset` against the dictionary reference: for a document in `Range` order (`KAsc`: strictly ascending
`(hash, Compare)` keys – every map Go can build; the hypothesis is necessary, `Delete` removes one pair only) and a
well-formed update, the patched document and the reference dictionary `refPatch` (Spec/Query.lean: `Dict.set` per `$set`
field, `Dict.delete` per `$unset` field) agree on every key, and the patched document is again in `Range` order. -/
def C10.patch_eq_ref_full : Prop :=
  ∀ (d u d' : PList), KAsc d → wfUpdate u = true → patch d u = .ok d' →
    (∀ k, mfind d' k = Uniflow.Dict.get (refPatch d.toList u) k) ∧ KAsc d'

/-- **patch_eq_ref**: documents read back are the values as last written -/
theorem C10.patch_eq_ref : C10.patch_eq_ref_full := by
  intro d u d' hd hu hp
  have := Rel_patch u (Rel_toList hd) hu hp
  exact ⟨this.look, this.asc⟩

/-- overwriting the existing field of a one-field document (the case that did nothing on the pinned tree, DESIGN §7 row 1) -/
theorem C10.patch_eq_ref_nonvacuous :
    ∃ d u d', KAsc d ∧ wfUpdate u = true ∧ patch d u = .ok d' ∧ mfind d' (.str [97]) = some (.int .native 9) :=
  ⟨.cons (.str [97]) (.int .native 1) .nil,
   .cons (.str opSet) (.map (.cons (.str [97]) (.int .native 9) .nil)) .nil,
   .cons (.str [97]) (.int .native 9) .nil,
   ⟨by simp [pkeys], trivial⟩, by decide, rfl, rfl⟩

/-- `Update` against the reference store (Spec/RefStore.lean `rUpdate`: the matching documents – by `refMatch`, in id order –
each replaced by its patched version, stopping at the first rejected document; with `upsert` and no match the patched
upsert document is inserted): same answer (count or error class) and same stored documents, after every history whose
`Index` operations are non-unique, over field names, with well-formed filters. -/
def C10.update_eq_ref_full : Prop :=
  ∀ (ops : List Op) (f : Option Val) (u : PList) (upsert : Bool), (∀ op ∈ ops, GoodOp op ∧ NonUniqueOp op) →
    let s := run Uniflow.Index.init ops
    (storeUpdate s f u upsert).2 = (rUpdate s.docs f u upsert).2 ∧
      (storeUpdate s f u upsert).1.docs = (rUpdate s.docs f u upsert).1

/-- `Delete` against the reference store (`rDelete`: remove the documents `refMatch` lets through, report their number) -/
def C10.delete_eq_ref_full : Prop :=
  ∀ (ops : List Op) (f : Option Val), (∀ op ∈ ops, GoodOp op ∧ NonUniqueOp op) →
    let s := run Uniflow.Index.init ops
    (storeDelete s f).2 = (rDelete s.docs f).2 ∧ (storeDelete s f).1.docs = (rDelete s.docs f).1

/-- the capstone: on every history whose `Index` operations are non-unique (over field names, with well-formed filters),
the store model answers every operation exactly as the reference store does and holds the same documents. -/
def C10.store_refines_full : Prop :=
  ∀ (ops : List Op), (∀ op ∈ ops, GoodOp op ∧ NonUniqueOp op) →
    allOuts Uniflow.Index.init ops = rOuts [] ops ∧ (run Uniflow.Index.init ops).docs = rRun [] ops

/-- the run invariant of histories without unique `Index` operations -/
theorem C10.inv2_run : ∀ (ops : List Op) {s : State}, Inv2 s → (∀ op ∈ ops, GoodOp op ∧ NonUniqueOp op) → Inv2 (run s ops)
  | [], _, h, _ => h
  | op :: ops, _, h, ho =>
    C10.inv2_run ops (Inv2_step h (ho op (by simp)).1 (ho op (by simp)).2) (fun o h' => ho o (by simp [h']))

/-- **update_eq_ref** (incl. upsert; the upsert document of a filter is `extract`'s – `C10.extract_simple_full` states its
characterisation for simple filters) -/
theorem C10.update_eq_ref : C10.update_eq_ref_full := by
  intro ops f u up hops s
  exact storeUpdate_ref (C10.inv2_run ops Inv2_init hops) f u up

/-- **delete_eq_ref** -/
theorem C10.delete_eq_ref : C10.delete_eq_ref_full := by
  intro ops f hops s
  exact storeDelete_ref (C10.inv2_run ops Inv2_init hops) f

/-- **store_refines** -/
theorem C10.store_refines : C10.store_refines_full := by
  intro ops hops
  exact run_ref ops Inv2_init hops

/-- the reference store's `Find` is `refFind` of Spec/Query.lean -/
theorem C10.ref_find_is_refFind (docs : Docs) (f : Option Val) (sort : Option PList) (skip limit : Nat)
    (hf : filterOk f = true) : rFindAll docs f sort skip limit = .ok (refFind (docs.map (·.2)) f sort skip limit) := by
  cases f with
  | none =>
    have h1 : refMatchDoc none = fun _ => true := rfl
    have h2 : ∀ l : List PList, l.filter (fun _ => true) = l := fun l => by
      induction l with
      | nil => rfl
      | cons a l ih => simp [List.filter, ih]
    cases sort <;> simp [rFindAll, rFind, Res.bind, refFind, h1, h2]
  | some g =>
    have hv : validate g = none := (C10.validate_static g).mpr hf
    have h1 : refMatchDoc (some g) = fun d => refMatch (some (.map d)) g := rfl
    cases sort <;> simp [rFindAll, rFind, hv, Res.bind, refFind, h1]

/-! ### Non-vacuity -/

/-- a well-formed filter of depth 3 using `$or`, a nested field, `$exists` and a range, and a document it matches -/
theorem C10.match_eq_ref_nonvacuous :
    ∃ f d, wf f = true ∧ refMatch (some (.map d)) f = true ∧ matchV (.map d) true f = .ok true := by
  refine ⟨.map (.cons (.str opOr) (.slice (.cons (.map (.cons (.str [110]) (.map (.cons (.str [120]) (.map (.cons (.str opGt) (.int .native 1) .nil)) .nil)) .nil))
      (.cons (.map (.cons (.str [97]) (.map (.cons (.str opExists) (.bool false) .nil)) .nil)) .nil))) .nil),
   .cons (.str [105, 100]) (.int .native 1) (.cons (.str [110]) (.map (.cons (.str [120]) (.int .native 2) .nil)) .nil),
   by decide, by decide, ?_⟩
  rw [C10.match_doc_eq_ref _ (by decide)]
  exact congrArg Res.ok (by decide)

/-- the upsert document of a simple filter (Spec/Query.lean `simple`) is the reference's -/
def C10.extract_simple_full : Prop :=
  ∀ f : Val, simple f = true → extract f = .ok (refExtract f)

/-- **extract_simple**: for every simple filter – field conditions that are a value, exactly `{$eq: v}`, comparison-only maps,
or nested maps of such, of any depth – `extract` returns the reference upsert document. -/
theorem C10.extract_simple : C10.extract_simple_full := fun f h => extract_simple_V f h

/-! ### the specification of a sorted find (Spec/FindSpec.lean), independent of any sorting function -/

/-- **sort_sorted**: for a specification whose directions are non-zero, `sortDocs` returns a permutation of its input that
is ordered by the specification's comparator (`refOrder`: first differing field decides, by `Compare` times the direction);
and the model's comparator *is* that comparator. -/
theorem C10.sort_sorted (spec : PList) (docs : List PList) (hd : directed spec = true) :
    (sortDocs spec docs).Perm docs ∧ OrderedBy spec (sortDocs spec docs) ∧
      ∀ x y, sortCmp x y spec = refOrder spec x y :=
  ⟨sortDocs_perm spec docs, OrderedBy_sortDocs hd docs, fun x y => sortCmp_eq x y spec⟩

/-- the comparator is a total preorder (what makes "ordered by" meaningful) -/
theorem C10.order_preorder (spec : PList) (hd : directed spec = true) (x y z : PList) :
    refOrder spec x y = -refOrder spec y x ∧
      (refOrder spec x y ≤ 0 → refOrder spec y z ≤ 0 → refOrder spec x z ≤ 0) :=
  ⟨refOrder_antisymm x y spec, (refOrder_T3 x y z spec hd).1⟩

/-- `window` is skip-then-limit -/
theorem C10.window_spec (skip limit : Nat) (docs : List PList) : window skip limit docs = refWindow skip limit docs :=
  window_eq skip limit docs

/-- the full statement: after every history (`GoodOps`), a `Find` with a well-formed filter and a sort with non-zero
directions answers with a list that satisfies `FindSpec` of the documents `refMatch` lets through: a skip/limit window of
*some* permutation of them that is ordered by the comparator (ties in any order). The statement mentions no sorting
function. -/
def C10.find_sorted_spec_full : Prop :=
  ∀ (ops : List Op) (f : Option Val) (sort : Option PList) (skip limit : Nat), GoodOps ops → filterOk f = true →
    (∀ spec, sort = some spec → directed spec = true) →
    let s := run Uniflow.Index.init ops
    ∃ res, storeFind s f sort skip limit = .ok res ∧
      FindSpec ((s.docs.map (·.2)).filter (refMatchDoc f)) sort skip limit res

/-- **find_sorted_spec** -/
theorem C10.find_sorted_spec : C10.find_sorted_spec_full := by
  intro ops f sort skip limit hg hf hdir s
  have h := C10.find_eq_ref ops f sort skip limit hg
  simp only [hf, if_true] at h
  refine ⟨_, h, ?_⟩
  unfold refFind FindSpec
  cases sort with
  | none => exact ⟨_, rfl, window_eq _ _ _⟩
  | some spec =>
    exact ⟨sortDocs spec _, ⟨sortDocs_perm spec _, OrderedBy_sortDocs (hdir spec rfl) _⟩, window_eq _ _ _⟩

/-- a descending sort on `a` is directed, and its comparator puts `a = 2` strictly before `a = 1` -/
theorem C10.find_sorted_spec_nonvacuous :
    ∃ spec, directed spec = true ∧ ∃ x y : PList, refOrder spec x y < 0 :=
  ⟨.cons (.str [97]) (.int .native (-1)) .nil, by decide,
   .cons (.str [97]) (.int .native 2) .nil, .cons (.str [97]) (.int .native 1) .nil, by decide⟩

/-! ### the capstone with unique indexes (Spec/RefStoreU.lean) -/

/-- the full capstone: on **every** history whose `Index` operations are over field names with well-formed filters and –
when unique – over at least one key (`GoodOpU`), unique indexes included, the store model answers every operation exactly
as the reference store with unique constraints does (`uOuts`), and its documents and declared unique constraints are the
reference's (`absOf`). In the reference a unique index is a predicate on the document set; an `Insert`/`Update` document
is rejected iff another stored document the constraint admits has its key tuple; `Index` over conflicting data is
rejected; nothing else is known about indexes. -/
def C10.store_refines_unique_full : Prop :=
  ∀ (ops : List Op), (∀ op ∈ ops, GoodOpU op) →
    allOuts Uniflow.Index.init ops = uOuts rInit ops ∧ absOf (run Uniflow.Index.init ops) = uRun rInit ops

/-- **store_refines_unique** -/
theorem C10.store_refines_unique : C10.store_refines_unique_full := by
  intro ops hops
  have := run_refU ops InvU_init hops
  rw [absOf_init] at this
  exact this

/-- in every reachable state of the model each declared unique constraint *holds* of the stored documents, as the
predicate `Holds` of the reference (no two different stored documents the constraint admits share its key tuple) -/
theorem C10.unique_constraints_hold (ops : List Op) (hops : ∀ op ∈ ops, GoodOpU op) :
    ∀ c ∈ (absOf (run Uniflow.Index.init ops)).uniq, Holds c (absOf (run Uniflow.Index.init ops)).docs := by
  intro c hc
  have hinv : InvU (run Uniflow.Index.init ops) := by
    have : ∀ (os : List Op) {s : State}, InvU s → (∀ op ∈ os, GoodOpU op) → InvU (run s os) := by
      intro os
      induction os with
      | nil => intro s h _; exact h
      | cons o os ih => intro s h ho; exact ih (InvU_step h (ho o (by simp))) (fun o' h' => ho o' (by simp [h']))
    exact this ops InvU_init hops
  simp only [absOf, uniqOf, List.mem_map, List.mem_filter] at hc
  obtain ⟨idx, ⟨hi, hu⟩, rfl⟩ := hc
  have hk := (hinv.good idx hi).2 hu
  have hg := (hinv.good idx hi).1
  have hfull := hinv.full
  unfold Holds
  refine List.Pairwise.imp_of_mem ?_ (Asc_distinct hfull.cons.asc)
  intro a b ha hb hne hada hadb ht
  rw [← admits_cst hg] at hada hadb
  obtain ⟨ea, hea, ha1, ha2⟩ := hfull.complete idx hi hk a ha hada
  obtain ⟨eb, heb, hb1, hb2⟩ := hfull.complete idx hi hk b hb hadb
  have ht' : tupCmp (idx.tuple a.2) (idx.tuple b.2) = 0 := ht
  have hab : tupCmp ea.1 eb.1 = 0 := tupCmp_zero_trans ha2 (tupCmp_zero_trans ht' (tupCmp_zero_symm hb2))
  have hid := hfull.uniq idx hi hu ea hea eb heb hab
  exact hne (cmp_zero_trans (cmp_zero_symm ha1) (cmp_zero_trans hid hb1))

/-- a unique index that rejects: the second document with `a = 7` is refused by model and reference alike -/
theorem C10.store_refines_unique_nonvacuous :
    ∃ ops, (∀ op ∈ ops, GoodOpU op) ∧
      (match (uOuts rInit ops).getLast? with | some (.err .keyDuplicate) => true | _ => false) = true := by
  refine ⟨[.index [.str [97]] true none,
    .insert [.cons (.str [105, 100]) (.int .native 1) (.cons (.str [97]) (.int .native 7) .nil)],
    .insert [.cons (.str [105, 100]) (.int .native 2) (.cons (.str [97]) (.int .native 7) .nil)]], ?_, by decide⟩
  intro op hop
  simp only [List.mem_cons, List.mem_nil_iff, or_false] at hop
  rcases hop with rfl | rfl | rfl
  · exact ⟨⟨fun k hk => by simp at hk; subst hk; exact ⟨[97], rfl, by decide⟩, fun φ h => by simp at h⟩, fun _ => by simp⟩
  · trivial
  · trivial
