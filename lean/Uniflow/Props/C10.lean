/-
C10 – store results equal a reference evaluation of the supported operators.

Statement (properties.jsonl): for any history of inserts, updates, deletes and finds, every outcome – the documents
matched, the counts reported, their order under sort with skip and limit, and whether an error is returned – equals
that of a straightforward reference evaluation of the supported filter operators ($eq, $ne, $gt, $gte, $lt, $lte, $and,
$or, $exists, nested fields) and update operators ($set, $unset, upsert) over the documents currently stored.
Documents read back are the values as last written.

Reference: `Uniflow.Query` (Spec/Query.lean). Model: `Uniflow.Store` (helper.go), `Uniflow.Plan` (executionplan.go,
explain), `Uniflow.Index` (segment.go, store.go) – transcriptions of the code **after** these repairs in the repository
(each reproduced on the pinned tree first; witnesses in corpus/C10):
  * `$exists` ignored the document (DESIGN §7 row 12); `$or`/`$exists` returned before their sibling entries were
    evaluated, so a result depended on the hash order of the filter's keys (row 13); a nested-field filter panicked on a
    scanned document lacking the parent and errored on a non-map parent (row 14);
  * a malformed filter / update was reported only when the evaluation of some stored document reached it (never on an
    empty collection; dependent on key order and on which documents an index let the scan skip) – `validate`;
  * a nil operand of `$set`/`$unset`/`$and`/`$or` was dereferenced while formatting the error.
On the pinned tree `match_eq_ref` is false (the corpus files are counterexamples; the harness oracle finds them when a
fix is reverted).

What is proved here
  * `C10.match_eq_ref` (full strength: every well-formed filter of any depth and size, every present or absent value),
    `C10.match_total`, `C10.validate_static`, `C10.malformed_rejected`, `C10.conjunction_order_irrelevant`;
  * `C10.find_eq_ref_partial`: `Find` = `refFind` (filter, sort, skip, limit, error) whenever the planner uses no index;
    that a plan never changes the scanned result is C11 (`C11.find_index_independent_partial`), so the two compose to the
    full `C10.find_eq_ref_full` on states satisfying the index invariant;
  * `C10.sort_perm`: sorting keeps exactly the matched documents (a permutation). (That the arrangement is ordered by the
    comparator, and the skip/limit arithmetic, are part of the model shared with the reference `refFind`, not separately
    proved; Go's `slices.SortFunc` is unstable, the harness compares sorted finds as sequences of tie classes.)
  * `C10.readback_last_written`: the primary tree returns, under an id, the document last put there, and a put does not
    disturb other ids.
Stated but not proved (kept as `def … : Prop`): `C10.find_eq_ref_full`, `C10.patch_eq_ref_full`, `C10.update_eq_ref_full`,
`C10.delete_eq_ref_full`. They are exercised by the correspondence and by the reference oracle of the harness only.
-/
import Uniflow.Proofs.StoreOps

open Uniflow.Value Uniflow.Store Uniflow.Query Uniflow.Plan Uniflow.Index

/-- `match` computes the reference evaluation: for every well-formed filter (any nesting), every value `d` that may be
absent (`none`), `match(valueOrNil(d), present(d), f) = (refMatch d f, nil)`. -/
theorem C10.match_eq_ref (f : Val) (hf : wf f = true) (d : Option Val) :
    matchV (valOf d) d.isSome f = .ok (refMatch d f) :=
  matchV_ref f hf d

/-- on a stored document (`match(doc, filter)` as `find` calls it) -/
theorem C10.match_doc_eq_ref (f : Val) (hf : wf f = true) (doc : PList) :
    matchV (.map doc) true f = .ok (refMatch (some (.map doc)) f) := by
  simpa [valOf] using matchV_ref f hf (some (.map doc))

/-- `validate` accepts exactly the well-formed filters: whether a filter is rejected depends on the filter alone. -/
theorem C10.validate_static (f : Val) : validate f = none ↔ wf f = true := by
  have := validate_wf f
  cases hv : validate f <;> simp [hv] at this ⊢ <;> simp [this]

/-- a malformed filter is rejected by `find` in every state – empty store, any documents, any indexes -/
theorem C10.malformed_rejected (s : State) (f : Val) (hf : wf f = false) : ∃ e, find s (some f) = .err e := by
  have := validate_wf f
  cases hv : validate f with
  | none => simp [hv, hf] at this
  | some e => exact ⟨e, by simp [find, hv]⟩

/-- a well-formed filter never makes `match` fail or panic, on a present or an absent value -/
theorem C10.match_total (f : Val) (hf : wf f = true) (d : Option Val) :
    ∃ b, matchV (valOf d) d.isSome f = .ok b :=
  ⟨_, matchV_ref f hf d⟩

/-- the entries of a map filter are a conjunction: swapping two neighbouring entries (hence any reordering) does not
change the reference result – the result cannot depend on the hash order of the filter's keys -/
theorem C10.conjunction_order_irrelevant (d : Option Val) (k1 v1 k2 v2 : Val) (rest : PList) :
    refP d (.cons k1 v1 (.cons k2 v2 rest)) = refP d (.cons k2 v2 (.cons k1 v1 rest)) := by
  simp only [refP_cons]
  cases entry d k1 v1 <;> cases entry d k2 v2 <;> rfl

/-- `Find` = reference find (documents, order, skip/limit) when the planner uses no index for the filter. -/
theorem C10.find_eq_ref_partial (s : State) (f : Option Val) (sort : Option PList) (skip limit : Nat)
    (hf : filterOk f = true) (hplan : ∀ g, f = some g → explain (s.indexes.map descOf) g = []) :
    storeFind s f sort skip limit = .ok (refFind (s.docs.map (·.2)) f sort skip limit) := by
  cases f with
  | none =>
    have h1 : refMatchDoc none = fun _ => true := rfl
    have h2 : ∀ l : List PList, l.filter (fun _ => true) = l := fun l => by
      induction l with
      | nil => rfl
      | cons a l ih => simp [List.filter, ih]
    cases sort <;> simp [storeFind, find, Res.bind, refFind, h1, h2]
  | some g =>
    have hw : wf g = true := hf
    have hv : validate g = none := (C10.validate_static g).mpr hw
    have h1 : refMatchDoc (some g) = fun d => refMatch (some (.map d)) g := rfl
    simp only [storeFind, find, hv, hplan g rfl, List.isEmpty_nil, if_true, residual_ref hw, Res.bind, refFind, h1]
    rfl

/-- sorting returns a permutation of the matched documents -/
theorem C10.sort_perm (spec : PList) (docs : List PList) : (sortDocs spec docs).Perm docs := by
  have ins : ∀ (d : PList) (es : List PList), (insertDoc spec d es).Perm (d :: es) := by
    intro d es
    induction es with
    | nil => exact List.Perm.refl _
    | cons e es ih =>
      simp only [insertDoc]
      split
      · exact List.Perm.refl _
      · exact (List.Perm.cons e ih).trans (List.Perm.swap d e es)
  induction docs with
  | nil => exact List.Perm.refl _
  | cons d ds ih =>
    simp only [sortDocs, List.foldr_cons]
    exact (ins d _).trans (List.Perm.cons d ih)

/-- full statement (needs C11: a non-empty plan scans a superset of the matching documents) -/
def C10.find_eq_ref_full : Prop :=
  ∀ (ops : List Op) (f : Option Val) (sort : Option PList) (skip limit : Nat),
    let s := run Uniflow.Index.init ops
    storeFind s f sort skip limit =
      if filterOk f then .ok (refFind (s.docs.map (·.2)) f sort skip limit)
      else .err ((f.bind validate).getD .unsupportedType)

/-- the primary tree: a put is read back, other ids are not disturbed -/
theorem C10.readback_last_written (docs : List (Val × PList)) (id : Val) (d : PList) :
    getDoc (putDoc docs id d) id = some d ∧ ∀ x, cmp id x ≠ 0 → getDoc (putDoc docs id d) x = getDoc docs x :=
  ⟨getDoc_putDoc_same id d (C14.cmp_refl id) docs, fun _ hx => getDoc_putDoc_other d hx docs⟩

/-- `$set`/`$unset` against the dictionary reference: for a well-formed update the patched document and the reference
dictionary agree on every key (statement only) -/
def C10.patch_eq_ref_full : Prop :=
  ∀ (d u d' : PList), wfUpdate u = true → patch d u = .ok d' →
    ∀ k, mfind d' k = Uniflow.Dict.get (refPatch d.toList u) k

/-- `Update` (incl. upsert of a simple filter) against the reference (statement only) -/
def C10.update_eq_ref_full : Prop :=
  ∀ (ops : List Op) (f : Option Val) (u : PList),
    let s := run Uniflow.Index.init ops
    filterOk f = true → wfUpdate u = true →
      ∃ n s', storeUpdate s f u false = (s', .ok n) →
        n = ((s.docs.map (·.2)).filter (refMatchDoc f)).length

/-- `Delete` against the reference (statement only) -/
def C10.delete_eq_ref_full : Prop :=
  ∀ (ops : List Op) (f : Option Val),
    let s := run Uniflow.Index.init ops
    filterOk f = true →
      ∃ s', storeDelete s f = (s', .ok ((s.docs.map (·.2)).filter (refMatchDoc f)).length) ∧
        s'.docs.map (·.2) = (s.docs.map (·.2)).filter (fun d => !refMatchDoc f d)

/-! ### Non-vacuity -/

/-- a well-formed filter of depth 3 using `$or`, a nested field, `$exists` and a range, and a document it matches -/
theorem C10.match_eq_ref_nonvacuous :
    ∃ f d, wf f = true ∧ refMatch (some (.map d)) f = true ∧ matchV (.map d) true f = .ok true := by
  refine ⟨.map (.cons (.str opOr) (.slice (.cons (.map (.cons (.str [110]) (.map (.cons (.str [120]) (.map (.cons (.str opGt) (.int .native 1) .nil)) .nil)) .nil))
      (.cons (.map (.cons (.str [97]) (.map (.cons (.str opExists) (.bool false) .nil)) .nil)) .nil))) .nil),
   .cons (.str [105, 100]) (.int .native 1) (.cons (.str [110]) (.map (.cons (.str [120]) (.int .native 2) .nil)) .nil),
   by decide, by decide, ?_⟩
  rw [C10.match_doc_eq_ref _ (by decide)]
  exact congrArg Res.ok (by decide)
