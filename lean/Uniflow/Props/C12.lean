/-
C12 – rejected store mutations change nothing; ids and unique keys stay unique.

Statement (properties.jsonl): a document whose insertion or update is rejected with an error is not stored or altered in
any observable way, and creating an index that the existing data violates is rejected without disturbing queries. At no
time do two stored documents share an id or a key of a unique index.

Model: `Uniflow.Index` (Model/Index.lean) – `segment.Store / Swap / Delete / Index`, `store.Index`, after these repairs
in the repository (reproduced on the pinned tree first; witnesses in corpus/C12):
  * `segment.Store`/`Swap` wrote the primary tree before the unique indexes were consulted: the rejected document stayed
    stored, a rejected update was applied (DESIGN §7 row 17) – now `conflict` is checked for every index first;
  * `segment.Index` swallowed the build error and kept the half-built index; `store.Index` dropped the index it replaces
    before building the new one (row 18);
  * the duplicate *nil* key of a unique index was formatted with `val.Interface()` (panic).
On the pinned tree `reject_noop` is false of the faithful model (the state after `failE` was the mutated one).

What is proved (all for **every** history of operations from the empty store – no bound on its length, on the number of
documents or indexes, or on the nesting of filters)
  * `C12.consistent` – every reachable state is consistent: the primary tree is strictly ascending in the id, every
    document is stored under its own non-nil id, and every leaf of every index names a stored document under that
    document's key tuple (the soundness half of C11's index invariant);
  * `C12.ids_unique` – no two stored documents share an id;
  * `C12.reject_noop` – in every reachable state a rejected `segment.Store` / `Swap` / `Delete` (one document: the unit of
    atomicity, DESIGN §5 C10 (iii)) returns the state it was given, *literally* (documents, index set, every index's
    content – hence every find through every access path); a rejected `Insert` of a batch, and the swap loop of a
    rejected `Update`, leave exactly the state after the documents before the rejected one, and the rejected document
    is rejected again, with no effect, in that state;
  * `C12.reject_noop_insert_one` – the store operation `Insert([d])` that returns an error returns the state unchanged;
  * `C12.index_create_atomic` – a rejected `Index` returns the state it was given, literally, in every state;
  * `C12.rejected_before_write` – without any hypothesis: whenever the *checks* of `Store`/`Swap` reject (missing id,
    duplicate id, unknown id, a conflicting unique key in any index), the state is returned untouched.
  * `C12.unique_keys` – every history: for each unique index, the key tuples of the stored documents it admits are
    pairwise distinct (via the full index invariant of Proofs/IndexInv.lean: exact, admitted, complete, unique leaves).
-/
import Uniflow.Proofs.IndexInv

open Uniflow.Value Uniflow.Store Uniflow.Query Uniflow.Plan Uniflow.Index

/-- After every history the stored ids are pairwise different (`Compare ≠ 0`): the primary tree is strictly ascending. -/
theorem C12.ids_unique (ops : List Op) :
    (run Uniflow.Index.init ops).docs.Pairwise (fun a b => cmp a.1 b.1 ≠ 0) :=
  Asc_distinct (Asc_run ops (by simp [Uniflow.Index.init, Asc]))

/-- `Index` over data that violates it (or failing for any reason) changes nothing: same documents, same index set, same
index contents. -/
theorem C12.index_create_atomic (s s' : State) (keys : List Val) (unique : Bool) (filter : Option Val) (r : Res Unit)
    (h : storeIndex s keys unique filter = (s', some r)) : s' = s := by
  unfold storeIndex at h
  split at h
  · simp at h
  · simp only [failE, Prod.mk.injEq] at h; exact h.1.symm
  · simp only [Prod.mk.injEq] at h; exact h.1.symm

/-- a unique index over two documents with the same key is rejected with `ErrKeyDuplicate` -/
theorem C12.index_create_atomic_nonvacuous :
    ∃ s, (storeIndex s [.str [97]] true none).2 = some (.err .keyDuplicate) ∧ s.docs.length = 2 :=
  ⟨{ docs := [(.int .native 1, .cons (.str [105, 100]) (.int .native 1) (.cons (.str [97]) (.int .native 7) .nil)),
              (.int .native 2, .cons (.str [105, 100]) (.int .native 2) (.cons (.str [97]) (.int .native 7) .nil))],
     indexes := [] }, by decide, rfl⟩

/-- Every reachable state is consistent. -/
theorem C12.consistent (ops : List Op) :
    let s := run Uniflow.Index.init ops
    Asc s.docs ∧ StoredM s.docs ∧ EntriesExact s :=
  let h := Cons_run ops Cons_init
  ⟨h.asc, h.stored, h.exact⟩

/-- In every reachable state one rejected document changes nothing, and a rejected batch stops exactly after the
documents before the rejected one. -/
theorem C12.reject_noop (ops : List Op) :
    let s := run Uniflow.Index.init ops
    (∀ d s' r, segStore s d = (s', some r) → s' = s) ∧
    (∀ d s' r, segSwap s d = (s', some r) → s' = s) ∧
    (∀ id s' r, segDelete s id = (s', some r) → s' = s) ∧
    (∀ ds s' r, storeInsert s ds = (s', some r) →
      ∃ pre d post, ds = pre ++ d :: post ∧ storeInsert s pre = (s', none) ∧ ∃ r', segStore s' d = (s', some r')) ∧
    (∀ ds s' r, swapAll s ds = (s', some r) →
      ∃ pre d post, ds = pre ++ d :: post ∧ swapAll s pre = (s', none) ∧ ∃ r', segSwap s' d = (s', some r')) := by
  intro s
  have hc : Cons s := Cons_run ops Cons_init
  exact ⟨fun d s' r h => segStore_reject hc.exact h,
    fun d s' r h => segSwap_reject hc.exact (StoredM_ids hc.stored) h,
    fun id s' r h => segDelete_reject (StoredM_ids hc.stored) h,
    fun ds s' r h => storeInsert_reject ds hc h,
    fun ds s' r h => swapAll_reject ds hc h⟩

/-- the store operation: an `Insert` of one document that reports an error leaves the store as it was -/
theorem C12.reject_noop_insert_one (ops : List Op) (d : PList) (e : Err) :
    let s := run Uniflow.Index.init ops
    (step s (.insert [d])).2 = .err e → (step s (.insert [d])).1 = s := by
  intro s h
  have hc : Cons s := Cons_run ops Cons_init
  simp only [step, storeInsert] at h ⊢
  cases hs : segStore s d with
  | mk s1 r1 =>
    cases r1 with
    | none => rw [hs] at h; simp [outOfMut] at h
    | some r1 => exact segStore_reject hc.exact hs

/-- rejections happen in reachable states: a duplicate id, after one insert -/
theorem C12.reject_noop_nonvacuous :
    ∃ ops d, (storeInsert (run Uniflow.Index.init ops) [d]).2 = some (.err .keyDuplicate) :=
  ⟨[.insert [.cons (.str [105, 100]) (.int .native 1) .nil]], .cons (.str [105, 100]) (.int .native 1) .nil, by decide⟩

/-- Whatever the state: when one of the checks rejects, nothing has been written. -/
theorem C12.rejected_before_write (s : State) (d : PList) :
    (isNil (mget d keyId) = true → segStore s d = (s, some (.err .keyMissing)) ∧ segSwap s d = (s, some (.err .keyMissing))) ∧
    ((getDoc s.docs (mget d keyId)).isSome = true → isNil (mget d keyId) = false →
      segStore s d = (s, some (.err .keyDuplicate))) ∧
    (getDoc s.docs (mget d keyId) = none → isNil (mget d keyId) = false → segSwap s d = (s, some (.err .keyNotFound))) ∧
    (∀ e, firstConflict d s.indexes = some e → isNil (mget d keyId) = false →
      (getDoc s.docs (mget d keyId) = none → segStore s d = (s, some (.err e))) ∧
      ((getDoc s.docs (mget d keyId)).isSome = true → segSwap s d = (s, some (.err e)))) := by
  refine ⟨fun h => ?_, fun h hn => ?_, fun h hn => ?_, fun e he hn => ⟨fun h => ?_, fun h => ?_⟩⟩
  · simp [segStore, segSwap, h, failE]
  · simp [segStore, h, hn, failE]
  · simp [segSwap, h, hn, failE]
  · simp [segStore, h, hn, he, failE]
  · cases hg : getDoc s.docs (mget d keyId) with
    | none => simp [hg] at h
    | some old => simp [segSwap, hg, hn, he, failE]

/-- no two stored documents admitted by a unique index share its key tuple (statement only; not proved) -/
def C12.unique_keys_full : Prop :=
  ∀ (ops : List Op), let s := run Uniflow.Index.init ops
    ∀ idx ∈ s.indexes, idx.unique = true → idx.keys ≠ [] →
      s.docs.Pairwise (fun a b => idx.admits a.2 = true → idx.admits b.2 = true → tupCmp (idx.tuple a.2) (idx.tuple b.2) ≠ 0)

/-- **unique_keys**: in every reachable state, for each unique index, the key tuples of the stored documents it admits
are pairwise distinct. -/
theorem C12.unique_keys : C12.unique_keys_full := by
  intro ops s idx hi hu hk
  have hf : Full s := Full_run ops Full_init
  refine List.Pairwise.imp_of_mem ?_ (Asc_distinct hf.cons.asc)
  intro a b ha hb hne hada hadb ht
  obtain ⟨ea, hea, ha1, ha2⟩ := hf.complete idx hi hk a ha hada
  obtain ⟨eb, heb, hb1, hb2⟩ := hf.complete idx hi hk b hb hadb
  have hab : tupCmp ea.1 eb.1 = 0 := tupCmp_zero_trans ha2 (tupCmp_zero_trans ht (tupCmp_zero_symm hb2))
  have hid := hf.uniq idx hi hu ea hea eb heb hab
  exact hne (cmp_zero_trans (cmp_zero_symm ha1) (cmp_zero_trans hid hb1))

/-- a unique index over `a` holding two documents is reachable, so the statement is not vacuous -/
theorem C12.unique_keys_nonvacuous :
    ∃ ops, ((run Uniflow.Index.init ops).indexes.filter (·.unique)).length = 2 ∧ (run Uniflow.Index.init ops).docs.length = 2 :=
  ⟨[.index [.str [97]] true none,
    .insert [.cons (.str [105, 100]) (.int .native 1) (.cons (.str [97]) (.int .native 7) .nil)],
    .insert [.cons (.str [105, 100]) (.int .native 2) (.cons (.str [97]) (.int .native 8) .nil)],
    .insert [.cons (.str [105, 100]) (.int .native 3) (.cons (.str [97]) (.int .native 8) .nil)]], by decide, by decide⟩
