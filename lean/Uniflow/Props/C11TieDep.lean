/-
C11 – re-statements of the function-outline ties of source files this property DEPENDS on without being anchored in
them (bin/mk_dependency_ties.py; hand-run): a source change there is reported for C11 as well.
-/
import Uniflow.Props.C10TieFn2
import Uniflow.Props.C10TieFn1
import Uniflow.Props.C15TieSrc

theorem C11.dep_C10_store_helper_as_modelled_1 : type_of% C10.src_store_helper_as_modelled_1 := C10.src_store_helper_as_modelled_1
theorem C11.dep_C10_store_helper_as_modelled_2 : type_of% C10.src_store_helper_as_modelled_2 := C10.src_store_helper_as_modelled_2
theorem C11.dep_C10_store_helper_as_modelled_3 : type_of% C10.src_store_helper_as_modelled_3 := C10.src_store_helper_as_modelled_3
theorem C11.dep_C10_store_cursor_as_modelled : type_of% C10.src_store_cursor_as_modelled := C10.src_store_cursor_as_modelled
theorem C11.dep_C15_types_map_as_modelled_1 : type_of% C15.src_types_map_as_modelled_1 := C15.src_types_map_as_modelled_1
theorem C11.dep_C15_types_map_as_modelled_2 : type_of% C15.src_types_map_as_modelled_2 := C15.src_types_map_as_modelled_2
theorem C11.dep_C15_types_map_as_modelled_3 : type_of% C15.src_types_map_as_modelled_3 := C15.src_types_map_as_modelled_3
theorem C11.dep_C15_types_map_as_modelled_4 : type_of% C15.src_types_map_as_modelled_4 := C15.src_types_map_as_modelled_4
