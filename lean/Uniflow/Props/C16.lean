/-
C16 – encoding a Go value and decoding it back returns the same value.

The theorems are about `Uniflow.Codec.{encode, decode, generic}` (Model/Codec.lean), the transcription of
`types.Marshal` / `types.Unmarshal` / `Value.Interface` **after** these repairs in the repository
(each found by the harness oracle on the pinned tree, witnesses in corpus/C16/):

  nil pointers / nulls in lists and maps   a nil pointer made the pointer encoder panic; a null could not be decoded into a
                                           pointer or `any` element; `Slice.Interface` panicked and `Map.Interface` dropped the key
  inline map order                         an inline map that is not the last field swallowed the keys of later fields
  empty container in `any`                 `Interface()` of an empty list / map was nil: it came back as null
  list of uint8 in `any`                   came back as `[]byte`, i.e. as Binary
  empty list decodes to nil slice          so an omitempty empty slice was dropped on re-encoding
  nil pointer to a marshaler type          `(*time.Time)(nil)`, `(*uuid.UUID)(nil)` panicked in `MarshalText`
  pointer to interface                     `*any` was encoded as null
  named field holding null                 stayed in the source map and leaked into the inline map
  `[n]byte` through JSON                   base64 text could not be decoded into a byte array

What is proved, and what is not (see the individual comments):

* `C16.generic_reencodes`   the generic view (`Interface()`, what an `any` target receives) of **every** document
                            re-encodes to exactly that document – any nesting, nulls anywhere.
* `C16.encode_is_document`  every encoding of every Go value (structs with omitempty / inline / ignored fields included)
                            is such a document (string keys in Range order, no error values).
* `C16.roundtrip_partial`   full round trip for all types whose **static** type contains no struct (scalars of every width,
                            `[]byte`, `[n]byte`, time, duration, uuid, pointers, slices, arrays, maps, `any` holding *anything*,
                            structs included). Missing: a struct in a statically typed position (the field-by-field decoder
                            `phase1` / `phase2`); that case is covered by the correspondence check and the oracle only.
* `C16.roundtrip_full_false` the unrestricted statement is false on the fixed code too: the known finding
                            `omitempty-rounds-to-zero` (known_findings.txt), proved from a concrete witness.
* `C16.no_panic_partial`    on those round trips the model's panic outcome (short Binary into `[n]byte`) is unreachable;
                            `C16.panic_site_real` shows the outcome exists.
* `C16.roundtrip_closed_full`, `C16.roundtrip_json_full`, `C16.spec_roundtrip_full` are stated and **not proved**.
-/
import Uniflow.Proofs.Codec

open Uniflow.Value Uniflow.Codec

/-- The full statement of the property on the model: every well-typed value round-trips. -/
def C16.roundtrip_full : Prop :=
  ∀ (t : GoType) (v : GoVal), HasType v t →
    ∃ v', decode t (encode t v) = .ok v' ∧ encode t v' = encode t v

/-- **Known finding `omitempty-rounds-to-zero`.** The full statement is false: a 5 ns duration in an omitempty
field is encoded as `{"d": 0}`, comes back as 0 and is then dropped. -/
theorem C16.roundtrip_full_false : ¬ C16.roundtrip_full := by
  intro h
  obtain ⟨v', hd, he⟩ := h (.struct (.cons .omit [100] .dur .nil)) (.struct (.cons (.dur 5) .nil)) (by decide)
  have hdec : decode (.struct (.cons .omit [100] .dur .nil)) (encode (.struct (.cons .omit [100] .dur .nil)) (.struct (.cons (.dur 5) .nil)))
      = .ok (.struct (.cons (.dur 0) .nil)) := by
    simp [encode, encodeFields, isZero, mapSet, decode, phase1, phase2, mapGet, mapFind, mapDel, decodeField, durMs,
      runLeaves, leavesDur, Uniflow.Group.decode, Uniflow.Group.lookup, Uniflow.Group.loop, List.zipIdx, fromR, Res.bind, Res.map, durOfMs, wrapInt,
      Width.bits]
  rw [hdec] at hd
  cases hd
  simp [encode, encodeFields, isZero, mapSet, durMs] at he

/-- **C16 (open positions).** Decoding any document into an open (`any`) target yields its generic view, and
that view encodes back to exactly the document – for every document the encoders can produce (`genDoc`: no error
values, maps with string keys in Range order), nulls and empty containers at any depth included. -/
theorem C16.generic_reencodes (x : Val) (h : genDoc x = true) :
    decode .any x = .ok (generic x) ∧ encode .any (generic x) = x :=
  ⟨dec_any x (by intro m e; rw [e] at h; simp [genDoc] at h), enc_generic x h⟩

/-- Every encoding of every Go value – whatever its type, struct tags included – is such a document. -/
theorem C16.encode_is_document (t : GoType) (v : GoVal) : genDoc (encode t v) = true := gen_enc v t

/-- **C16 round trip, partial.** For every type without a struct in a statically typed position and every value
of it: decoding the encoding succeeds and the result encodes to the same document. No size or depth bound; `any`
positions may hold values of any well-formed type (structs included).
Missing for the full statement: static struct types (and then the hypothesis excluding the known finding). -/
theorem C16.roundtrip_partial (t : GoType) (v : GoVal) (h : HasType v t) (hs : noStruct t = true) :
    ∃ v', decode t (encode t v) = .ok v' ∧ encode t v' = encode t v :=
  rt_plain v t hs h.2

/-- the hypotheses of `roundtrip_partial` are met by a non-trivial value: a map of lists with nulls, an empty
list, a list of uint16, a nil pointer and a struct with an omitted and an inline field inside `any`. -/
theorem C16.roundtrip_partial_nonvacuous :
    let t : GoType := .map (.slice .any)
    let v : GoVal := .map (.cons [97] (.slice (.cons .anyNil (.cons (.any (.slice (.uint .w16)) (.slice (.cons (.uint 7) .nil)))
      (.cons (.any (.slice .str) (.slice .nil)) (.cons (.any (.ptr (.int .w32)) .ptrNil)
      (.cons (.any (.struct (.cons .omit [111] .f64 (.cons .inline [] (.map .any) (.cons .named [110] .time .nil))))
        (.struct (.cons (.f64 0) (.cons (.map (.cons [126] .anyNil .nil)) (.cons (.time 5 7) .nil))))) .nil)))))) .nil)
    HasType v t ∧ noStruct t = true := by
  decide

/-- On those round trips no decode panics. -/
theorem C16.no_panic_partial (t : GoType) (v : GoVal) (h : HasType v t) (hs : noStruct t = true) :
    ∀ e, decode t (encode t v) ≠ .err e ∧ (decode t (encode t v) = .panic → False) := by
  obtain ⟨v', hd, _⟩ := C16.roundtrip_partial t v h hs
  intro e; rw [hd]; exact ⟨by simp, by intro h; cases h⟩

/-- The panic outcome of the model is real (`reflect.Value.Convert` of a 1-byte slice to `[2]byte`): it is
reachable by a hostile document, just never by a round trip. -/
theorem C16.panic_site_real : decode (.barr 2) (.bin [1]) = .panic := by
  simp [decode, runLeaves, leavesBarr, Uniflow.Group.decode, Uniflow.Group.lookup, Uniflow.Group.loop, List.zipIdx, fromR]

/-! ## Stated, not proved -/

mutual
  /-- no omitempty field (at any depth, dynamic values included) holds a value that is not the zero value but comes
  back as the zero value – the negation of the known finding's class predicate -/
  def omitStable : GoType → GoVal → Bool
    | .ptr t, .ptr v => omitStable t v
    | .slice t, .slice xs => omitStableL t xs
    | .arr _ t, .arr xs => omitStableL t xs
    | .map t, .map kvs => omitStableKV t kvs
    | .struct fs, .struct vs => omitStableF fs vs
    | .any, .any t v => omitStable t v
    | _, _ => true
  def omitStableL (t : GoType) : GoVals → Bool
    | .nil => true
    | .cons v vs => omitStable t v && omitStableL t vs
  def omitStableKV (t : GoType) : GoKVs → Bool
    | .nil => true
    | .cons _ v kvs => omitStable t v && omitStableKV t kvs
  def omitStableF : Fields → GoVals → Bool
    | .cons .omit _ t rest, .cons v vs =>
      (isZero v || (match decode t (encode t v) with | .ok v' => !isZero v' | _ => true))
        && omitStable t v && omitStableF rest vs
    | .cons _ _ t rest, .cons v vs => omitStable t v && omitStableF rest vs
    | _, _ => true
end

/-- the round trip for every type of the universe, outside the known finding (not proved for static structs) -/
def C16.roundtrip_struct_full : Prop :=
  ∀ (t : GoType) (v : GoVal), HasType v t → omitStable t v = true →
    ∃ v', decode t (encode t v) = .ok v' ∧ encode t v' = encode t v

/-- typed spec → generic document (`Unstructured` = the same meta inline + an inline `map[string]any`) → typed:
the generic document encodes to the same thing (so every field is in it, the unknown ones in `Fields`) and the typed
spec comes back (not proved) -/
def C16.spec_roundtrip_full : Prop :=
  ∀ (mf rest : Fields) (v : GoVal),
    let T : GoType := .struct (.cons .inline [] (.struct mf) rest)
    let U : GoType := .struct (.cons .inline [] (.struct mf) (.cons .inline [] (.map .any) .nil))
    HasType v T → U.wf = true → omitStable T v = true →
    ∃ u, decode U (encode T v) = .ok u ∧ encode U u = encode T v ∧
      ∃ v', decode T (encode U u) = .ok v' ∧ encode T v' = encode T v
