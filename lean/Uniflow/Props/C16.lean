/-
C16 – encoding a Go value and decoding it back returns the same value.

The theorems are about `Uniflow.Codec.{encode, decode, generic, canon}` (Model/Codec.lean), the transcription of
`types.Marshal` / `types.Unmarshal` / `Value.Interface` **after** these repairs in the repository
(each found by the harness oracle on the pinned tree, witnesses in corpus/C16/):

  nil pointers / nulls in lists and maps   a nil pointer made the pointer encoder panic; a null could not be decoded into a
                                           pointer or `any` element; `Slice.Interface` panicked and `Map.Interface` dropped the key
  inline map order                         an inline map that is not the last field swallowed the keys of later fields
  empty container in `any`                 `Interface()` of an empty list / map was nil: it came back as null
  list of uint8 in `any`                   came back as `[]byte`, i.e. as Binary
  empty list decodes to nil slice          so an omitempty empty slice was dropped on re-encoding
  nil pointer to a marshaler type          `(*time.Time)(nil)`, `(*uuid.UUID)(nil)` panicked in `MarshalText`
  pointer to interface                     `*any` was encoded as null
  named field holding null                 stayed in the source map and leaked into the inline map
  `[n]byte` through JSON                   base64 text could not be decoded into a byte array
  omitempty on the encoded value           a value that is not the zero value but encodes like it (5 ns, pointer to nil pointer,
                                           zero instant in another zone, data only in ignored fields) was written and then
                                           dropped on the way back – the former known finding `omitempty-rounds-to-zero`

Proved: `roundtrip` (unrestricted), `roundtrip_struct`, `no_panic`, `roundtrip_closed` (`v' = canon v`),
`spec_roundtrip`, `generic_reencodes`, `encode_is_document`, the number / base64 laws of the JSON path and
`roundtrip_json`: the JSON round trip for every well-formed type – structs in statically typed positions (the
`phase1` / `phase2` lemmas generalised over the JSON value map, Proofs/CodecStructG.lean) and `any` included – under the
guards `jsonOK`; `json_omitempty_stable` is the lemma that "encodes like the zero value" survives the JSON round trip
for every type (lists and maps of re-encoded open values included).
Float32 values are outside the JSON statement (excluded by `jsonOK`; oracle only).
`*time.Time` (a pointer to a type with a text marshaler takes the RFC 3339 text form) is not a type of the model's
universe; its two halves are modelled in Model/CodecTime.lean and tied to the repository by the harness (`pt` lines:
the text; `as str … time` lines: decoding the text): `rfc3339_parse_format` proves parse ∘ format = id and
`time_text_decodes` that the text decodes to the same instant. Values of type `*time.Time` inside generated types
remain oracle-only.

All statements quantify over every well-formed type (`GoType.wf`) and every value of it (`hasType`), any nesting
depth and size: scalars of every width, `[]byte`, `[n]byte`, time, duration, uuid, pointers (to pointers), slices,
arrays, `map[string]T`, structs with named / omitempty / inline struct / inline map / ignored fields, and `any`
holding a value of any well-formed type.
-/
import Uniflow.Proofs.CodecCanon
import Uniflow.Proofs.CodecSpec
import Uniflow.Proofs.CodecJSON
import Uniflow.Proofs.CodecJSONFull
import Uniflow.Proofs.CodecTime

open Uniflow.Value Uniflow.Codec

/-- The full statement of the property on the model: every well-typed value round-trips. -/
def C16.roundtrip_full : Prop :=
  ∀ (t : GoType) (v : GoVal), HasType v t →
    ∃ v', decode t (encode t v) = .ok v' ∧ encode t v' = encode t v

/-- **C16 round trip – unrestricted.** For every well-formed type and every value of it, decoding the encoding
succeeds and the result encodes to the same document. (With the omitempty repair there is no exception left: the
former hypothesis `omitStable` is gone.) -/
theorem C16.roundtrip : C16.roundtrip_full :=
  fun t v h => rt_all v t h.1 h.2

/-- the statement with a struct in statically typed positions (kept under its own name: it was the gap of the
first delivery) -/
def C16.roundtrip_struct_full : Prop :=
  ∀ (fs : Fields) (vs : GoVals), HasType (.struct vs) (.struct fs) →
    ∃ ws, decode (.struct fs) (encode (.struct fs) (.struct vs)) = .ok (.struct ws) ∧
      encode (.struct fs) (.struct ws) = encode (.struct fs) (.struct vs)

/-- **Structs.** The field-by-field decoder (`phase1`: named, omitempty and ignored fields and inline structs on
the shared source map; `phase2`: the inline map takes what is left) returns a struct that encodes to the same
document. -/
theorem C16.roundtrip_struct : C16.roundtrip_struct_full := by
  intro fs vs h
  have hfw : Fields.wf fs = true := by
    have := h.1; simp only [GoType.wf, Bool.and_eq_true] at this; exact this.1.1
  have htf : hasTypeF fs vs = true := by
    have := h.2; simp only [hasType, Bool.and_eq_true] at this; exact this.1
  obtain ⟨ws, hd, _, he⟩ := struct_rt fs vs h.1 h.2 (rt_allF vs fs hfw htf)
  exact ⟨ws, hd, he⟩

/-- the hypotheses are met by a struct with every kind of field: omitempty holding a sub-millisecond duration (the
former known finding), an inline struct, an inline map with a null, an ignored field with data, a nil pointer -/
theorem C16.roundtrip_struct_nonvacuous :
    HasType
      (.struct (.cons (.dur 5) (.cons (.struct (.cons (.str [120]) (.cons .ptrNil .nil)))
        (.cons (.map (.cons [126] .anyNil (.cons [125] (.any (.slice .any) .sliceNil) .nil))) (.cons (.int 7) (.cons (.time 5 7) .nil))))))
      (.struct (.cons .omit [100] .dur (.cons .inline [] (.struct (.cons .named [110] .str (.cons .omit [112] (.ptr (.ptr (.int .w8))) .nil)))
        (.cons .inline [] (.map .any) (.cons .ignored [] (.int .w64) (.cons .named [116] .time .nil)))))) := by
  decide

/-- **No failure, no panic.** On every round trip the decoder returns a value: no error class and not the
model's panic outcome. -/
theorem C16.no_panic (t : GoType) (v : GoVal) (h : HasType v t) :
    (∀ e, decode t (encode t v) ≠ .err e) ∧ decode t (encode t v) ≠ .panic := by
  obtain ⟨v', hd, _⟩ := C16.roundtrip t v h
  rw [hd]; exact ⟨by intro e; simp, by simp⟩

/-- The panic outcome of the model is real (`reflect.Value.Convert` of a 1-byte slice to `[2]byte`): it is
reachable by a hostile document, just never by a round trip. -/
theorem C16.panic_site_real : decode (.barr 2) (.bin [1]) = .panic := by
  simp [decode, runLeaves, leavesBarr, Uniflow.Group.decode, Uniflow.Group.lookup, Uniflow.Group.loop, List.zipIdx, fromR]

/-- the statement for types without `any`: the decoded value is the normal form `canon` (Model/Codec.lean states
the normalisations: nil ↦ empty slice / map / bytes, pointer chains ending in nil ↦ nil, time and duration at
millisecond precision in UTC, ignored fields zeroed, omitempty fields that encode like the zero value zeroed) -/
def C16.roundtrip_closed_full : Prop :=
  ∀ (t : GoType) (v : GoVal), HasType v t → closed t = true → decode t (encode t v) = .ok (canon t v)

/-- **C16 closed types.** -/
theorem C16.roundtrip_closed : C16.roundtrip_closed_full :=
  fun t v h hc => co v t hc h.1 h.2

/-- `canon` changes nothing it does not have to: it is idempotent in the sense that the normal form encodes to the
same document -/
theorem C16.canon_encodes_same (t : GoType) (v : GoVal) (h : HasType v t) (hc : closed t = true) :
    encode t (canon t v) = encode t v := by
  obtain ⟨v', hd, he⟩ := C16.roundtrip t v h
  rw [C16.roundtrip_closed t v h hc] at hd
  cases hd; exact he

/-- **C16 (open positions).** Decoding any document into an open (`any`) target yields its generic view, and
that view encodes back to exactly the document – for every document the encoders can produce (`genDoc`: no error
values, maps with string keys in Range order), nulls and empty containers at any depth included. -/
theorem C16.generic_reencodes (x : Val) (h : genDoc x = true) :
    decode .any x = .ok (generic x) ∧ encode .any (generic x) = x :=
  ⟨dec_any x (by intro m e; rw [e] at h; simp [genDoc] at h), enc_generic x h⟩

/-- Every encoding of every Go value – whatever its type, struct tags included – is such a document. -/
theorem C16.encode_is_document (t : GoType) (v : GoVal) : genDoc (encode t v) = true := gen_enc v t

/-- the first delivery's theorem (types without a struct in a statically typed position), now a corollary -/
theorem C16.roundtrip_partial (t : GoType) (v : GoVal) (h : HasType v t) (_hs : noStruct t = true) :
    ∃ v', decode t (encode t v) = .ok v' ∧ encode t v' = encode t v :=
  C16.roundtrip t v h


/-! ## Node specs: typed → `spec.Unstructured` → typed -/

/-- `T` = a typed spec: the meta fields `mf` inline (as `spec.Meta` is embedded) followed by its own fields `rest`
(which may include an inline map that keeps unknown fields). `U` = `spec.Unstructured`: the same meta inline and
`Fields map[string]any` inline. `spec.As(typed, &Unstructured{})` is encode-as-`T`, decode-as-`U`;
`scheme.Decode` is encode-as-`U`, decode-as-`T` (its id assignment and validation are not modelled). -/
def C16.spec_roundtrip_full : Prop :=
  ∀ (mf rest : Fields) (mvs rvs : GoVals),
    let T : GoType := .struct (.cons .inline [] (.struct mf) rest)
    let U : GoType := .struct (.cons .inline [] (.struct mf) (.cons .inline [] (.map .any) .nil))
    let v : GoVal := .struct (.cons (.struct mvs) rvs)
    HasType v T →
    ∃ mws kvs,
      -- the generic document: meta decoded field by field, everything else in `Fields`
      decode U (encode T v) = .ok (.struct (.cons (.struct mws) (.cons (.map kvs) .nil))) ∧
      -- every entry of the typed document that is not a meta key is an entry of `Fields` (as a generic value that
      -- encodes to exactly that entry), and nothing else is
      (∀ k, lastKV .any kvs k = if k ∈ aliases mf then none else mapFind (encodeFields (.cons .inline [] (.struct mf) rest) (.cons (.struct mvs) rvs) .nil) k) ∧
      -- the generic document encodes to the typed document …
      encode U (.struct (.cons (.struct mws) (.cons (.map kvs) .nil))) = encode T v ∧
      -- … so decoding it as the typed spec gives the typed spec back (unknown fields come back through the typed
      -- spec's own inline map, if it has one)
      ∃ v', decode T (encode U (.struct (.cons (.struct mws) (.cons (.map kvs) .nil)))) = .ok v' ∧ encode T v' = encode T v

/-- **C16 specs.** -/
theorem C16.spec_roundtrip : C16.spec_roundtrip_full := by
  intro mf rest mvs rvs T U v h
  obtain ⟨mws, kvs, hd, _, hk, he⟩ := spec_to_unstructured mf rest mvs rvs h.1 h.2
  obtain ⟨v', hd', he'⟩ := C16.roundtrip T v h
  exact ⟨mws, kvs, hd, hk, he, v', by rw [he]; exact hd', he'⟩

/-! ## The JSON path -/

/-- an integer up to ±2^53 survives the JSON number (float64) exactly -/
theorem C16.json_number (v : Int) (h1 : -9007199254740992 ≤ v) (h2 : v ≤ 9007199254740992) :
    ∃ b, f64OfInt v = some b ∧ intOfF64 b = some v ∧ finite64 b = true := f64_int_rt v h1 h2

/-- `[]byte` survives its JSON form (base64 text) -/
theorem C16.json_base64 (bs : Bytes) (h : bytesOk bs = true) : b64dec (b64enc bs) = some bs :=
  b64_rt bs (bytesOk_lt h)

/-- the full JSON statement: under the guards (`jsonOK`: integers and millisecond counts within ±2^53, finite
float64, no float32, valid UTF-8) the document has a JSON form, decoding that form succeeds, and the decoded value
carries the same JSON document; for closed types it is the normal form. **Not proved** for structs in statically
typed positions and for `any` (see `roundtrip_json_partial`). -/
def C16.roundtrip_json_full : Prop :=
  ∀ (t : GoType) (v : GoVal), HasType v t → jsonOK t v = true →
    ∃ j, jsonForm (encode t v) = some j ∧
      ∃ v', decode t j = .ok v' ∧ jsonForm (encode t v') = some j ∧ (closed t = true → v' = canon t v)

/-- (first delivery, now a special case of `roundtrip_json_partial`) For closed types without a struct in a statically typed position (every
integer width, float64, string, bool, `[]byte`, `[n]byte`, time, duration, uuid, pointers, slices, arrays, maps):
the JSON form exists, decodes to exactly the normal form `canon t v`, and that value carries the same JSON document.
Missing for the full statement: struct types (the `phase1` / `phase2` lemmas are stated for the direct document) and
`any`. -/
theorem C16.roundtrip_json_closed_nostruct (t : GoType) (v : GoVal) (h : HasType v t) (g : jsonOK t v = true)
    (hc : closed t = true) (hs : noStruct t = true) :
    ∃ j, jsonForm (encode t v) = some j ∧ decode t j = .ok (canon t v) ∧
      jsonForm (encode t (canon t v)) = some j := by
  obtain ⟨j, hj, hd⟩ := cj v t hc hs h.1 h.2 g
  exact ⟨j, hj, hd, by rw [C16.canon_encodes_same t v h hc]; exact hj⟩

/-- the guards are satisfiable by a non-trivial value: a map of lists of pointers to 2^53, −2^53, a byte array -/
theorem C16.roundtrip_json_closed_nostruct_nonvacuous :
    let t : GoType := .map (.slice (.ptr (.int .w64)))
    let v : GoVal := .map (.cons [97] (.slice (.cons (.ptr (.int 9007199254740992)) (.cons .ptrNil
      (.cons (.ptr (.int (-9007199254740992))) .nil)))) .nil)
    HasType v t ∧ jsonOK t v = true ∧ closed t = true ∧ noStruct t = true := by
  decide


/-- **C16 through JSON.** For every well-formed type – structs in statically typed positions (named, omitempty,
inline struct, inline map, ignored fields) and `any` included, any nesting – and every value of it within the guards
`jsonOK` (integers and millisecond counts within ±2^53, finite float64, **no float32** – its JSON text is the shortest
decimal for float32, whose float64 reading is not modelled –, valid UTF-8 in strings, map keys and aliases): the
document has a JSON form `j`, decoding `j` into the type succeeds, the decoded value carries the same JSON document,
and for closed types it is the normal form `canon t v`. -/
theorem C16.roundtrip_json : C16.roundtrip_json_full := by
  intro t v h g
  obtain ⟨w, d1, d2, d3, d4, _⟩ := rj v t h.1 h.2 g
  have ok := okDoc_spec (jd_enc v t h.2 g)
  exact ⟨jd (encode t v), ok.1, w, d1, by rw [(okDoc_spec d3).1, d2], d4⟩

/-- "encodes like the zero value" – what omitempty tests – is preserved by the JSON round trip, for every type (the
lemma that was missing for omitempty arrays and structs with an open component) -/
theorem C16.json_omitempty_stable (t : GoType) (v : GoVal) (h : HasType v t) (g : jsonOK t v = true) :
    ∃ w, decode t (jd (encode t v)) = .ok w ∧
      equal (encode t w) (zeroDoc t) = equal (encode t v) (zeroDoc t) := by
  obtain ⟨w, d1, _, _, _, d5⟩ := rj v t h.1 h.2 g
  exact ⟨w, d1, d5⟩

/-- the earlier partial statement (with the static-type condition `jtOK`), now a corollary -/
theorem C16.roundtrip_json_partial (t : GoType) (v : GoVal) (h : HasType v t) (g : jsonOK t v = true)
    (_hj : jtOK t = true) :
    ∃ j, jsonForm (encode t v) = some j ∧
      ∃ v', decode t j = .ok v' ∧ jsonForm (encode t v') = some j ∧ (closed t = true → v' = canon t v) :=
  C16.roundtrip_json t v h g

/-- non-vacuity: a struct with an inline struct, an omitempty `any` holding a list with a null and an int, an
omitempty closed struct, an inline `map[string]any` with a nested map, a pointer to 2^53 and a `[]byte` -/
theorem C16.roundtrip_json_nonvacuous :
    let t : GoType := .struct (.cons .inline [] (.struct (.cons .named [105] .str (.cons .omit [110] (.ptr (.int .w64)) .nil)))
      (.cons .omit [111] .any (.cons .omit [115] (.struct (.cons .named [120] .dur .nil))
      (.cons .inline [] (.map .any) (.cons .named [98] .bytes .nil)))))
    let v : GoVal := .struct (.cons (.struct (.cons (.str [97]) (.cons (.ptr (.int 9007199254740992)) .nil)))
      (.cons (.any (.slice .any) (.slice (.cons .anyNil (.cons (.any (.int .w8) (.int (-3))) .nil))))
      (.cons (.struct (.cons (.dur 1500000000) .nil))
      (.cons (.map (.cons [126] (.any (.map .str) (.map (.cons [107] (.str [118]) .nil))) .nil))
      (.cons (.bytes [1, 2, 255]) .nil)))))
    HasType v t ∧ jsonOK t v = true ∧ jtOK t = true := by
  decide


/-- non-vacuity for the case that needed the new lemma: omitempty fields of struct and array type with an open
component (`struct{X any}` holding an int, `[2]any` holding null and text) -/
theorem C16.roundtrip_json_nonvacuous_open_omitempty :
    let t : GoType := .struct (.cons .omit [115] (.struct (.cons .named [120] .any .nil))
      (.cons .omit [114] (.arr 2 .any) .nil))
    let v : GoVal := .struct (.cons (.struct (.cons (.any (.int .w64) (.int 0)) .nil))
      (.cons (.arr (.cons .anyNil (.cons (.any .str (.str [104, 105])) .nil))) .nil))
    HasType v t ∧ jsonOK t v = true ∧ jtOK t = false := by
  decide


/-! ## `*time.Time`: the RFC 3339 text form -/

/-- **`time.Parse(RFC3339) ∘ MarshalText = id`** on the representable range: for an instant (`ms` milliseconds and
`sub < 10^6` nanoseconds) shown in a zone `off` seconds east of UTC (whole minutes, less than a day) whose civil year
is within 0 … 9999 – i.e. whenever `rfc3339` (the model of `MarshalText`, compared with Go's text by the harness)
yields a text – parsing the text returns the same instant and the same offset. -/
theorem C16.rfc3339_parse_format (ms : Int) (sub : Nat) (off : Int) (text : List Nat) (hsub : sub < 1000000)
    (h60 : off % 60 = 0) (hlo : -86400 < off) (hhi : off < 86400) (h : rfc3339 ms sub off = some text) :
    parseRFC3339 text = some (ms, sub, off) :=
  rfc3339_rt ms sub off text hsub h60 hlo hhi h

/-- the text form decodes into a `time.Time` with the same instant, nanoseconds included; "Z" comes back as UTC, any
other offset as a fixed zone (zone class 2) -/
theorem C16.time_text_decodes (ms : Int) (sub : Nat) (off : Int) (text : List Nat) (hsub : sub < 1000000)
    (h60 : off % 60 = 0) (hlo : -86400 < off) (hhi : off < 86400) (h : rfc3339 ms sub off = some text)
    (hms : inInt64 ms = true) :
    decode .time (.str text) = .ok (.time ms (sub * 3 + (if off = 0 then 0 else 2))) := by
  simp [decode, runLeaves, leavesTime, Uniflow.Group.decode, Uniflow.Group.lookup, Uniflow.Group.loop, List.zipIdx,
    fromR, rfc3339_rt ms sub off text hsub h60 hlo hhi h, hms]

/-- non-vacuity: 2024-01-02T07:34:05.006000123+05:30 -/
theorem C16.time_text_nonvacuous :
    rfc3339 1704161045006 123 19800 = some [50, 48, 50, 52, 45, 48, 49, 45, 48, 50, 84, 48, 55, 58, 51, 52, 58, 48, 53,
      46, 48, 48, 54, 48, 48, 48, 49, 50, 51, 43, 48, 53, 58, 51, 48] := by
  decide
