/-
C01 – regenerated tie over Generated/PacketFuncs.lean (extract/funcs.go): the outline of EVERY function of the source
files named below – regenerated from /repo on every run – equals the transcript frozen here (bin/freeze_all.py, repo 7f54b88,
2026-10-01). A theorem that stops checking names the file whose code is no longer the code that was modelled; bin/check then
searches for a failing input.
-/
import Uniflow.Generated.PacketFuncs

set_option maxRecDepth 16384 in
/-- pkg/packet/writer.go as modelled (part 2 of 2): its declarations (in source order) and the outline of each -/
theorem C01.src_packet_writer_as_modelled_2 :
    Uniflow.Generated.PacketFuncs.o_packet_writer_Writer_Write = [
      "w.mu.Lock()",
      "defer w.mu.Unlock()",
      "if w.done",
      "  return 0",
      "if len(w.readers) == 0",
      "  return 0",
      "if !w.accepting()",
      "  return 0",
      "w.outbounds.Handle(pck)",
      "count := 0",
      "receives := make([]*Packet, len(w.readers))",
      "for i, r := range w.readers",
      "  if r.write(New(pck.Payload()), w, w.links[i], w.written)",
      "    count++",
      "  else",
      "    receives[i] = refused",
      "if count > 0",
      "  w.receives = append(w.receives, receives)",
      "  w.writes = append(w.writes, w.written)",
      "  w.written++",
      "return count"
    ] ∧
    Uniflow.Generated.PacketFuncs.o_packet_writer_Writer_Receive = [
      "return w.out"
    ] ∧
    Uniflow.Generated.PacketFuncs.o_packet_writer_Writer_Close = [
      "w.mu.Lock()",
      "defer w.mu.Unlock()",
      "if w.done",
      "  return",
      "pck := New(ErrDroppedPacket)",
      "for range w.receives",
      "  w.inbounds.Handle(pck)",
      "  w.in <- pck",
      "close(w.in)",
      "w.done = true",
      "w.readers = nil",
      "w.links = nil",
      "w.receives = nil",
      "w.writes = nil",
      "w.inbounds = nil",
      "w.outbounds = nil"
    ] ∧
    Uniflow.Generated.PacketFuncs.o_packet_writer_Writer_receive = [
      "defer verifReceive(w, reader, pck, link, write)()",
      "w.mu.Lock()",
      "defer w.mu.Unlock()",
      "if w.done",
      "  return false",
      "index := w.indexOfReader(reader)",
      "if index < 0 || w.links[index] != link",
      "  return false",
      "head := w.indexOfHead(index, write)",
      "if head < 0",
      "  return false",
      "receives := w.receives[head]",
      "receives[index] = pck",
      "if head == 0",
      "  for len(w.receives) > 0 && !slices.Contains(w.receives[0], nil)",
      "    pck := joinAccepted(w.receives[0])",
      "    w.receives = w.receives[1:]",
      "    w.writes = w.writes[1:]",
      "    w.inbounds.Handle(pck)",
      "    w.in <- pck",
      "return true"
    ] ∧
    Uniflow.Generated.PacketFuncs.o_packet_writer_fn_joinAccepted = [
      "pcks := make([]*Packet, 0, len(receives))",
      "for _, pck := range receives",
      "  if pck != refused",
      "    pcks = append(pcks, pck)",
      "if len(pcks) == 0",
      "  return New(ErrDroppedPacket)",
      "return Join(pcks...)"
    ] ∧
    Uniflow.Generated.PacketFuncs.o_packet_writer_Writer_accepting = [
      "for _, r := range w.readers",
      "  if !r.closed()",
      "    return true",
      "return false"
    ] ∧
    Uniflow.Generated.PacketFuncs.o_packet_writer_Writer_indexOfReader = [
      "for i, r := range w.readers",
      "  if r == reader",
      "    return i",
      "return -1"
    ] ∧
    Uniflow.Generated.PacketFuncs.o_packet_writer_Writer_indexOfHead = [
      "for i, receives := range w.receives",
      "  if w.writes[i] != write || len(receives) <= index",
      "    continue",
      "  if receives[index] == nil",
      "    return i",
      "return -1"
    ] ∧
    Uniflow.Generated.PacketFuncs.names_packet_writer = ["fn.init", "fn.Send", "fn.SendOrFallback", "fn.NewWriter", "Writer.AddInboundHook", "Writer.AddOutboundHook", "Writer.Links", "Writer.Link", "Writer.Unlink", "Writer.Write", "Writer.Receive", "Writer.Close", "Writer.receive", "fn.joinAccepted", "Writer.accepting", "Writer.indexOfReader", "Writer.indexOfHead"] := by
  decide

set_option maxRecDepth 16384 in
/-- pkg/packet/packet.go as modelled: its declarations (in source order) and the outline of each -/
theorem C01.src_packet_packet_as_modelled :
    Uniflow.Generated.PacketFuncs.o_packet_packet_fn_Join = [
      "if len(pcks) == 0",
      "  return None",
      "else",
      "  if len(pcks) == 1",
      "    return pcks[0]",
      "var errs []error",
      "var payloads []types.Value",
      "for _, pck := range pcks",
      "  if pck == nil || pck == None",
      "    continue",
      "  switch payload := pck.Payload().(type)",
      "    case types.Error",
      "      errs = append(errs, payload.Unwrap())",
      "    default",
      "      payloads = append(payloads, payload)",
      "if len(errs) > 0",
      "  return New(types.NewError(errors.Join(errs...)))",
      "else",
      "  if len(payloads) == 0",
      "    return None",
      "  else",
      "    if len(payloads) == 1",
      "      return New(payloads[0])",
      "return New(types.NewSlice(payloads...))"
    ] ∧
    Uniflow.Generated.PacketFuncs.o_packet_packet_fn_New = [
      "return &Packet{ id: uuid.Must(uuid.NewV7()), payload: payload, }"
    ] ∧
    Uniflow.Generated.PacketFuncs.o_packet_packet_Packet_ID = [
      "return p.id"
    ] ∧
    Uniflow.Generated.PacketFuncs.o_packet_packet_Packet_Payload = [
      "return p.payload"
    ] ∧
    Uniflow.Generated.PacketFuncs.names_packet_packet = ["fn.Join", "fn.New", "Packet.ID", "Packet.Payload"] := by
  decide

