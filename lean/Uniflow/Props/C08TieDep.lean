/-
C08 – re-statements of the function-outline ties of source files this property DEPENDS on without being anchored in
them (bin/mk_dependency_ties.py; hand-run): a source change there is reported for C08 as well.
-/
import Uniflow.Props.C06TieFn2
import Uniflow.Props.C07TieFn1
import Uniflow.Props.C05TieFn1
import Uniflow.Props.C05TieFn2
import Uniflow.Props.C01TieFn1
import Uniflow.Props.C01TieFn2
import Uniflow.Props.C05TieLayer
import Uniflow.Props.C01TieLayer

theorem C08.dep_C06_symbol_symbol_as_modelled : type_of% C06.src_symbol_symbol_as_modelled := C06.src_symbol_symbol_as_modelled
theorem C08.dep_C07_symbol_loadhook_as_modelled : type_of% C07.src_symbol_loadhook_as_modelled := C07.src_symbol_loadhook_as_modelled
theorem C08.dep_C07_symbol_unloadhook_as_modelled : type_of% C07.src_symbol_unloadhook_as_modelled := C07.src_symbol_unloadhook_as_modelled
theorem C08.dep_C07_hook_hook_as_modelled : type_of% C07.src_hook_hook_as_modelled := C07.src_hook_hook_as_modelled
theorem C08.dep_C05_port_inport_as_modelled_1 : type_of% C05.src_port_inport_as_modelled_1 := C05.src_port_inport_as_modelled_1
theorem C08.dep_C05_port_inport_as_modelled_2 : type_of% C05.src_port_inport_as_modelled_2 := C05.src_port_inport_as_modelled_2
theorem C08.dep_C05_port_outport_as_modelled_1 : type_of% C05.src_port_outport_as_modelled_1 := C05.src_port_outport_as_modelled_1
theorem C08.dep_C05_port_outport_as_modelled_2 : type_of% C05.src_port_outport_as_modelled_2 := C05.src_port_outport_as_modelled_2
theorem C08.dep_C01_packet_packet_as_modelled : type_of% C01.src_packet_packet_as_modelled := C01.src_packet_packet_as_modelled
theorem C08.dep_C01_packet_reader_as_modelled : type_of% C01.src_packet_reader_as_modelled := C01.src_packet_reader_as_modelled
theorem C08.dep_C01_packet_writer_as_modelled_1 : type_of% C01.src_packet_writer_as_modelled_1 := C01.src_packet_writer_as_modelled_1
theorem C08.dep_C01_packet_writer_as_modelled_2 : type_of% C01.src_packet_writer_as_modelled_2 := C01.src_packet_writer_as_modelled_2
theorem C08.dep_C05_port_listener_as_modelled : type_of% C05.src_port_listener_as_modelled := C05.src_port_listener_as_modelled
theorem C08.dep_C05_port_openhook_as_modelled : type_of% C05.src_port_openhook_as_modelled := C05.src_port_openhook_as_modelled
theorem C08.dep_C05_port_closehook_as_modelled : type_of% C05.src_port_closehook_as_modelled := C05.src_port_closehook_as_modelled
theorem C08.dep_C01_packet_hook_as_modelled : type_of% C01.src_packet_hook_as_modelled := C01.src_packet_hook_as_modelled
