/-
C08 – re-statements of the function-outline ties of the source files this property DEPENDS on without being anchored in
them: the other files of its packages and every package they import (bin/mk_dependency_ties.py; hand-run). A source change
there is reported for C08 as well.
-/
import Uniflow.Props.C01TieLayer
import Uniflow.Props.C01TieFn1
import Uniflow.Props.C01TieFn2
import Uniflow.Props.C02TieFn1
import Uniflow.Props.C02TieLayer
import Uniflow.Props.C02TieFn2
import Uniflow.Props.C04TieFn1
import Uniflow.Props.C05TieLayer
import Uniflow.Props.C05TieFn1
import Uniflow.Props.C05TieFn2
import Uniflow.Props.C06TieFn2
import Uniflow.Props.C07TieFn1
import Uniflow.Props.C14Tie1
import Uniflow.Props.C14Tie2
import Uniflow.Props.C15TieSrc
import Uniflow.Props.C16Tie5
import Uniflow.Props.C16Tie3
import Uniflow.Props.C16Tie6
import Uniflow.Props.C16Tie1
import Uniflow.Props.C16Tie2
import Uniflow.Props.C16Tie4
import Uniflow.Props.C17Tie
import Uniflow.Props.C18Tie

theorem C08.dep_C01_packet_hook_as_modelled : type_of% C01.src_packet_hook_as_modelled := C01.src_packet_hook_as_modelled
theorem C08.dep_C01_packet_packet_as_modelled : type_of% C01.src_packet_packet_as_modelled := C01.src_packet_packet_as_modelled
theorem C08.dep_C01_packet_reader_as_modelled : type_of% C01.src_packet_reader_as_modelled := C01.src_packet_reader_as_modelled
theorem C08.dep_C01_packet_writer_as_modelled_1 : type_of% C01.src_packet_writer_as_modelled_1 := C01.src_packet_writer_as_modelled_1
theorem C08.dep_C01_packet_writer_as_modelled_2 : type_of% C01.src_packet_writer_as_modelled_2 := C01.src_packet_writer_as_modelled_2
theorem C08.dep_C02_node_manytoone_as_modelled : type_of% C02.src_node_manytoone_as_modelled := C02.src_node_manytoone_as_modelled
theorem C08.dep_C02_node_node_as_modelled : type_of% C02.src_node_node_as_modelled := C02.src_node_node_as_modelled
theorem C08.dep_C02_node_onetomany_as_modelled : type_of% C02.src_node_onetomany_as_modelled := C02.src_node_onetomany_as_modelled
theorem C08.dep_C02_node_onetoone_as_modelled : type_of% C02.src_node_onetoone_as_modelled := C02.src_node_onetoone_as_modelled
theorem C08.dep_C02_node_port_as_modelled : type_of% C02.src_node_port_as_modelled := C02.src_node_port_as_modelled
theorem C08.dep_C02_packet_readgroup_as_modelled : type_of% C02.src_packet_readgroup_as_modelled := C02.src_packet_readgroup_as_modelled
theorem C08.dep_C02_packet_tracer_as_modelled_1 : type_of% C02.src_packet_tracer_as_modelled_1 := C02.src_packet_tracer_as_modelled_1
theorem C08.dep_C02_packet_tracer_as_modelled_2 : type_of% C02.src_packet_tracer_as_modelled_2 := C02.src_packet_tracer_as_modelled_2
theorem C08.dep_C02_packet_tracer_as_modelled_3 : type_of% C02.src_packet_tracer_as_modelled_3 := C02.src_packet_tracer_as_modelled_3
theorem C08.dep_C02_port_pipe_as_modelled : type_of% C02.src_port_pipe_as_modelled := C02.src_port_pipe_as_modelled
theorem C08.dep_C04_process_exithook_as_modelled : type_of% C04.src_process_exithook_as_modelled := C04.src_process_exithook_as_modelled
theorem C08.dep_C04_process_process_as_modelled_1 : type_of% C04.src_process_process_as_modelled_1 := C04.src_process_process_as_modelled_1
theorem C08.dep_C04_process_process_as_modelled_2 : type_of% C04.src_process_process_as_modelled_2 := C04.src_process_process_as_modelled_2
theorem C08.dep_C05_port_closehook_as_modelled : type_of% C05.src_port_closehook_as_modelled := C05.src_port_closehook_as_modelled
theorem C08.dep_C05_port_inport_as_modelled_1 : type_of% C05.src_port_inport_as_modelled_1 := C05.src_port_inport_as_modelled_1
theorem C08.dep_C05_port_inport_as_modelled_2 : type_of% C05.src_port_inport_as_modelled_2 := C05.src_port_inport_as_modelled_2
theorem C08.dep_C05_port_listener_as_modelled : type_of% C05.src_port_listener_as_modelled := C05.src_port_listener_as_modelled
theorem C08.dep_C05_port_openhook_as_modelled : type_of% C05.src_port_openhook_as_modelled := C05.src_port_openhook_as_modelled
theorem C08.dep_C05_port_outport_as_modelled_1 : type_of% C05.src_port_outport_as_modelled_1 := C05.src_port_outport_as_modelled_1
theorem C08.dep_C05_port_outport_as_modelled_2 : type_of% C05.src_port_outport_as_modelled_2 := C05.src_port_outport_as_modelled_2
theorem C08.dep_C05_process_local_as_modelled_1 : type_of% C05.src_process_local_as_modelled_1 := C05.src_process_local_as_modelled_1
theorem C08.dep_C05_process_local_as_modelled_2 : type_of% C05.src_process_local_as_modelled_2 := C05.src_process_local_as_modelled_2
theorem C08.dep_C05_process_storehook_as_modelled : type_of% C05.src_process_storehook_as_modelled := C05.src_process_storehook_as_modelled
theorem C08.dep_C06_symbol_symbol_as_modelled : type_of% C06.src_symbol_symbol_as_modelled := C06.src_symbol_symbol_as_modelled
theorem C08.dep_C07_hook_hook_as_modelled : type_of% C07.src_hook_hook_as_modelled := C07.src_hook_hook_as_modelled
theorem C08.dep_C07_symbol_loadhook_as_modelled : type_of% C07.src_symbol_loadhook_as_modelled := C07.src_symbol_loadhook_as_modelled
theorem C08.dep_C07_symbol_unloadhook_as_modelled : type_of% C07.src_symbol_unloadhook_as_modelled := C07.src_symbol_unloadhook_as_modelled
theorem C08.dep_C14_types_binary_as_modelled : type_of% C14.src_types_binary_as_modelled := C14.src_types_binary_as_modelled
theorem C08.dep_C14_types_boolean_as_modelled : type_of% C14.src_types_boolean_as_modelled := C14.src_types_boolean_as_modelled
theorem C08.dep_C14_types_buffer_as_modelled : type_of% C14.src_types_buffer_as_modelled := C14.src_types_buffer_as_modelled
theorem C08.dep_C14_types_error_as_modelled : type_of% C14.src_types_error_as_modelled := C14.src_types_error_as_modelled
theorem C08.dep_C14_types_float_as_modelled : type_of% C14.src_types_float_as_modelled := C14.src_types_float_as_modelled
theorem C08.dep_C14_types_integer_as_modelled_1 : type_of% C14.src_types_integer_as_modelled_1 := C14.src_types_integer_as_modelled_1
theorem C08.dep_C14_types_integer_as_modelled_2 : type_of% C14.src_types_integer_as_modelled_2 := C14.src_types_integer_as_modelled_2
theorem C08.dep_C14_types_slice_as_modelled_1 : type_of% C14.src_types_slice_as_modelled_1 := C14.src_types_slice_as_modelled_1
theorem C08.dep_C14_types_slice_as_modelled_2 : type_of% C14.src_types_slice_as_modelled_2 := C14.src_types_slice_as_modelled_2
theorem C08.dep_C14_types_string_as_modelled : type_of% C14.src_types_string_as_modelled := C14.src_types_string_as_modelled
theorem C08.dep_C14_types_uinteger_as_modelled_1 : type_of% C14.src_types_uinteger_as_modelled_1 := C14.src_types_uinteger_as_modelled_1
theorem C08.dep_C14_types_uinteger_as_modelled_2 : type_of% C14.src_types_uinteger_as_modelled_2 := C14.src_types_uinteger_as_modelled_2
theorem C08.dep_C14_types_value_as_modelled : type_of% C14.src_types_value_as_modelled := C14.src_types_value_as_modelled
theorem C08.dep_C15_types_map_as_modelled_1 : type_of% C15.src_types_map_as_modelled_1 := C15.src_types_map_as_modelled_1
theorem C08.dep_C15_types_map_as_modelled_2 : type_of% C15.src_types_map_as_modelled_2 := C15.src_types_map_as_modelled_2
theorem C08.dep_C15_types_map_as_modelled_3 : type_of% C15.src_types_map_as_modelled_3 := C15.src_types_map_as_modelled_3
theorem C08.dep_C15_types_map_as_modelled_4 : type_of% C15.src_types_map_as_modelled_4 := C15.src_types_map_as_modelled_4
theorem C08.dep_C16_encoding_assembler_as_modelled : type_of% C16.src_encoding_assembler_as_modelled := C16.src_encoding_assembler_as_modelled
theorem C08.dep_C16_encoding_compiler_as_modelled : type_of% C16.src_encoding_compiler_as_modelled := C16.src_encoding_compiler_as_modelled
theorem C08.dep_C16_encoding_decoder_as_modelled : type_of% C16.src_encoding_decoder_as_modelled := C16.src_encoding_decoder_as_modelled
theorem C08.dep_C16_encoding_encoder_as_modelled : type_of% C16.src_encoding_encoder_as_modelled := C16.src_encoding_encoder_as_modelled
theorem C08.dep_C16_encoding_group_as_modelled : type_of% C16.src_encoding_group_as_modelled := C16.src_encoding_group_as_modelled
theorem C08.dep_C16_spec_encoding_as_modelled : type_of% C16.src_spec_encoding_as_modelled := C16.src_spec_encoding_as_modelled
theorem C08.dep_C16_types_binary_as_modelled_1 : type_of% C16.src_types_binary_as_modelled_1 := C16.src_types_binary_as_modelled_1
theorem C08.dep_C16_types_binary_as_modelled_2 : type_of% C16.src_types_binary_as_modelled_2 := C16.src_types_binary_as_modelled_2
theorem C08.dep_C16_types_boolean_as_modelled : type_of% C16.src_types_boolean_as_modelled := C16.src_types_boolean_as_modelled
theorem C08.dep_C16_types_buffer_as_modelled_1 : type_of% C16.src_types_buffer_as_modelled_1 := C16.src_types_buffer_as_modelled_1
theorem C08.dep_C16_types_buffer_as_modelled_2 : type_of% C16.src_types_buffer_as_modelled_2 := C16.src_types_buffer_as_modelled_2
theorem C08.dep_C16_types_encoding_as_modelled_1 : type_of% C16.src_types_encoding_as_modelled_1 := C16.src_types_encoding_as_modelled_1
theorem C08.dep_C16_types_encoding_as_modelled_2 : type_of% C16.src_types_encoding_as_modelled_2 := C16.src_types_encoding_as_modelled_2
theorem C08.dep_C16_types_error_as_modelled : type_of% C16.src_types_error_as_modelled := C16.src_types_error_as_modelled
theorem C08.dep_C16_types_float_as_modelled_1 : type_of% C16.src_types_float_as_modelled_1 := C16.src_types_float_as_modelled_1
theorem C08.dep_C16_types_float_as_modelled_2 : type_of% C16.src_types_float_as_modelled_2 := C16.src_types_float_as_modelled_2
theorem C08.dep_C16_types_integer_as_modelled_1 : type_of% C16.src_types_integer_as_modelled_1 := C16.src_types_integer_as_modelled_1
theorem C08.dep_C16_types_integer_as_modelled_2 : type_of% C16.src_types_integer_as_modelled_2 := C16.src_types_integer_as_modelled_2
theorem C08.dep_C16_types_json_as_modelled : type_of% C16.src_types_json_as_modelled := C16.src_types_json_as_modelled
theorem C08.dep_C16_types_map_as_modelled_1 : type_of% C16.src_types_map_as_modelled_1 := C16.src_types_map_as_modelled_1
theorem C08.dep_C16_types_map_as_modelled_2 : type_of% C16.src_types_map_as_modelled_2 := C16.src_types_map_as_modelled_2
theorem C08.dep_C16_types_map_as_modelled_3 : type_of% C16.src_types_map_as_modelled_3 := C16.src_types_map_as_modelled_3
theorem C08.dep_C16_types_map_as_modelled_4 : type_of% C16.src_types_map_as_modelled_4 := C16.src_types_map_as_modelled_4
theorem C08.dep_C16_types_slice_as_modelled : type_of% C16.src_types_slice_as_modelled := C16.src_types_slice_as_modelled
theorem C08.dep_C16_types_string_as_modelled_1 : type_of% C16.src_types_string_as_modelled_1 := C16.src_types_string_as_modelled_1
theorem C08.dep_C16_types_string_as_modelled_2 : type_of% C16.src_types_string_as_modelled_2 := C16.src_types_string_as_modelled_2
theorem C08.dep_C16_types_string_as_modelled_3 : type_of% C16.src_types_string_as_modelled_3 := C16.src_types_string_as_modelled_3
theorem C08.dep_C16_types_time_as_modelled : type_of% C16.src_types_time_as_modelled := C16.src_types_time_as_modelled
theorem C08.dep_C16_types_uinteger_as_modelled_1 : type_of% C16.src_types_uinteger_as_modelled_1 := C16.src_types_uinteger_as_modelled_1
theorem C08.dep_C16_types_uinteger_as_modelled_2 : type_of% C16.src_types_uinteger_as_modelled_2 := C16.src_types_uinteger_as_modelled_2
theorem C08.dep_C17_encoding_assembler_as_modelled : type_of% C17.src_encoding_assembler_as_modelled := C17.src_encoding_assembler_as_modelled
theorem C08.dep_C17_encoding_compiler_as_modelled : type_of% C17.src_encoding_compiler_as_modelled := C17.src_encoding_compiler_as_modelled
theorem C08.dep_C17_encoding_decoder_as_modelled : type_of% C17.src_encoding_decoder_as_modelled := C17.src_encoding_decoder_as_modelled
theorem C08.dep_C17_encoding_encoder_as_modelled : type_of% C17.src_encoding_encoder_as_modelled := C17.src_encoding_encoder_as_modelled
theorem C08.dep_C17_encoding_group_as_modelled : type_of% C17.src_encoding_group_as_modelled := C17.src_encoding_group_as_modelled
theorem C08.dep_C17_spec_encoding_as_modelled : type_of% C17.src_spec_encoding_as_modelled := C17.src_spec_encoding_as_modelled
theorem C08.dep_C17_types_binary_as_modelled_1 : type_of% C17.src_types_binary_as_modelled_1 := C17.src_types_binary_as_modelled_1
theorem C08.dep_C17_types_binary_as_modelled_2 : type_of% C17.src_types_binary_as_modelled_2 := C17.src_types_binary_as_modelled_2
theorem C08.dep_C17_types_boolean_as_modelled : type_of% C17.src_types_boolean_as_modelled := C17.src_types_boolean_as_modelled
theorem C08.dep_C17_types_buffer_as_modelled_1 : type_of% C17.src_types_buffer_as_modelled_1 := C17.src_types_buffer_as_modelled_1
theorem C08.dep_C17_types_buffer_as_modelled_2 : type_of% C17.src_types_buffer_as_modelled_2 := C17.src_types_buffer_as_modelled_2
theorem C08.dep_C17_types_encoding_as_modelled_1 : type_of% C17.src_types_encoding_as_modelled_1 := C17.src_types_encoding_as_modelled_1
theorem C08.dep_C17_types_encoding_as_modelled_2 : type_of% C17.src_types_encoding_as_modelled_2 := C17.src_types_encoding_as_modelled_2
theorem C08.dep_C17_types_error_as_modelled : type_of% C17.src_types_error_as_modelled := C17.src_types_error_as_modelled
theorem C08.dep_C17_types_float_as_modelled_1 : type_of% C17.src_types_float_as_modelled_1 := C17.src_types_float_as_modelled_1
theorem C08.dep_C17_types_float_as_modelled_2 : type_of% C17.src_types_float_as_modelled_2 := C17.src_types_float_as_modelled_2
theorem C08.dep_C17_types_integer_as_modelled_1 : type_of% C17.src_types_integer_as_modelled_1 := C17.src_types_integer_as_modelled_1
theorem C08.dep_C17_types_integer_as_modelled_2 : type_of% C17.src_types_integer_as_modelled_2 := C17.src_types_integer_as_modelled_2
theorem C08.dep_C17_types_json_as_modelled : type_of% C17.src_types_json_as_modelled := C17.src_types_json_as_modelled
theorem C08.dep_C17_types_map_as_modelled_1 : type_of% C17.src_types_map_as_modelled_1 := C17.src_types_map_as_modelled_1
theorem C08.dep_C17_types_map_as_modelled_2 : type_of% C17.src_types_map_as_modelled_2 := C17.src_types_map_as_modelled_2
theorem C08.dep_C17_types_map_as_modelled_3 : type_of% C17.src_types_map_as_modelled_3 := C17.src_types_map_as_modelled_3
theorem C08.dep_C17_types_map_as_modelled_4 : type_of% C17.src_types_map_as_modelled_4 := C17.src_types_map_as_modelled_4
theorem C08.dep_C17_types_slice_as_modelled : type_of% C17.src_types_slice_as_modelled := C17.src_types_slice_as_modelled
theorem C08.dep_C17_types_string_as_modelled_1 : type_of% C17.src_types_string_as_modelled_1 := C17.src_types_string_as_modelled_1
theorem C08.dep_C17_types_string_as_modelled_2 : type_of% C17.src_types_string_as_modelled_2 := C17.src_types_string_as_modelled_2
theorem C08.dep_C17_types_string_as_modelled_3 : type_of% C17.src_types_string_as_modelled_3 := C17.src_types_string_as_modelled_3
theorem C08.dep_C17_types_time_as_modelled : type_of% C17.src_types_time_as_modelled := C17.src_types_time_as_modelled
theorem C08.dep_C17_types_uinteger_as_modelled_1 : type_of% C17.src_types_uinteger_as_modelled_1 := C17.src_types_uinteger_as_modelled_1
theorem C08.dep_C17_types_uinteger_as_modelled_2 : type_of% C17.src_types_uinteger_as_modelled_2 := C17.src_types_uinteger_as_modelled_2
theorem C08.dep_C18_spec_spec_as_modelled : type_of% C18.src_spec_spec_as_modelled := C18.src_spec_spec_as_modelled
theorem C08.dep_C18_spec_unstructured_as_modelled : type_of% C18.src_spec_unstructured_as_modelled := C18.src_spec_unstructured_as_modelled
theorem C08.dep_C18_template_node_as_modelled : type_of% C18.src_template_node_as_modelled := C18.src_template_node_as_modelled
theorem C08.dep_C18_template_template_as_modelled : type_of% C18.src_template_template_as_modelled := C18.src_template_template_as_modelled
theorem C08.dep_C18_value_value_as_modelled : type_of% C18.src_value_value_as_modelled := C18.src_value_value_as_modelled
