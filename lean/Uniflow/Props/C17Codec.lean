/-
C17 tied to the codec model (C16): the hypothesis `Coherent` of `C17.group_pure` / `C17.decode_eq_cold` is
*proved* for the ordered leaf-decoder lists the codec model (`Uniflow.Codec`, Model/Codec.lean) runs for every
target type, so decoding through the group semantics with any reachable cache gives what `Codec.decode` (which
evaluates every group with a cold cache) gives.

Source type of a document = `Val.rank` (its kind: `reflect.TypeOf(source)` of the Go `types.Value`; all integer
widths are distinct kinds, as in Go).

* Leaf lists (`*intN`, `*uintN`, `*float32/64`, `*string`, `*bool`, `*time.Time`, `*time.Duration`, `*uuid.UUID`,
  `*any`): clause 1 of `CoherentAt` – whether a leaf answers "unsupported type" depends on the
  kind of the source only (`leaf_kind_only`).
* Composite targets (pointer, slice, array, map, struct): one decoder is compiled, no group – the singleton list
  satisfies clause 2 trivially.

The caches of the groups *inside* a composite decode (element and field decoders) are the same leaf lists again:
`C17.codec_leaves_history_independent` covers every group evaluation `Codec.decode` performs at any depth.
-/
import Uniflow.Props.C17
import Uniflow.Proofs.Codec

namespace Uniflow.Codec
open Uniflow.Value Uniflow.Group

/-- two documents of the same kind -/
inductive SameKind : Val → Val → Prop
  | nil : SameKind .nil .nil
  | bin (a b) : SameKind (.bin a) (.bin b)
  | bool (a b) : SameKind (.bool a) (.bool b)
  | err (a b) : SameKind (.err a) (.err b)
  | int (w a b) : SameKind (.int w a) (.int w b)
  | uint (w a b) : SameKind (.uint w a) (.uint w b)
  | f32 (a b) : SameKind (.f32 a) (.f32 b)
  | f64 (a b) : SameKind (.f64 a) (.f64 b)
  | str (a b) : SameKind (.str a) (.str b)
  | slice (a b) : SameKind (.slice a) (.slice b)
  | map (a b) : SameKind (.map a) (.map b)

theorem sameKind_of_rank {s s' : Val} (h : s'.rank = s.rank) : SameKind s s' := by
  cases s
  · rw [rank_nil (b := s') (by simpa [Val.rank] using h)]; exact .nil
  · obtain ⟨b, rfl⟩ := rank_bin (b := s') (by simpa [Val.rank] using h); exact .bin _ _
  · obtain ⟨b, rfl⟩ := rank_bool (b := s') (by simpa [Val.rank] using h); exact .bool _ _
  · obtain ⟨b, rfl⟩ := rank_err (b := s') (by simpa [Val.rank] using h); exact .err _ _
  · obtain ⟨b, rfl⟩ := rank_int (b := s') (by simpa [Val.rank] using h); exact .int _ _ _
  · obtain ⟨b, rfl⟩ := rank_uint (b := s') (by simpa [Val.rank] using h); exact .uint _ _ _
  · obtain ⟨b, rfl⟩ := rank_f32 (b := s') (by simpa [Val.rank] using h); exact .f32 _ _
  · obtain ⟨b, rfl⟩ := rank_f64 (b := s') (by simpa [Val.rank] using h); exact .f64 _ _
  · obtain ⟨b, rfl⟩ := rank_str (b := s') (by simpa [Val.rank] using h); exact .str _ _
  · obtain ⟨b, rfl⟩ := rank_slice (b := s') (by simpa [Val.rank] using h); exact .slice _ _
  · obtain ⟨b, rfl⟩ := rank_map (b := s') (by simpa [Val.rank] using h); exact .map _ _

/-- a decoder whose "unsupported type" verdict depends on the kind of the source only -/
def KindOnly (d : Leaf) : Prop := ∀ s s', SameKind s s' → d s = .unsupported → d s' = .unsupported

theorem coherent_of_kindOnly (ds : List Leaf) (h : ∀ d ∈ ds, KindOnly d) : Coherent Val.rank ds := by
  intro τ; left
  intro d hd s s' hs hs' hu
  exact h d hd s s' (sameKind_of_rank (by rw [hs, hs'])) hu


macro "kind_only" : tactic =>
  `(tactic| (intro s s' hk hu; cases hk <;>
      (first | (simp at hu; done) | (simp; done) | (revert hu; simp; (repeat' split) <;> simp_all))))

theorem ko_int (w : Width) : ∀ d ∈ leavesInt w, KindOnly d := by
  intro d hd
  simp only [leavesInt, List.mem_cons, List.mem_nil_iff, or_false] at hd
  rcases hd with rfl | rfl | rfl | rfl <;> kind_only

theorem ko_uint (w : Width) : ∀ d ∈ leavesUint w, KindOnly d := by
  intro d hd
  simp only [leavesUint, List.mem_cons, List.mem_nil_iff, or_false] at hd
  rcases hd with rfl | rfl | rfl | rfl <;> kind_only

theorem ko_f32 : ∀ d ∈ leavesF32, KindOnly d := by
  intro d hd
  simp only [leavesF32, List.mem_cons, List.mem_nil_iff, or_false] at hd
  rcases hd with rfl | rfl | rfl | rfl <;> kind_only

theorem ko_f64 : ∀ d ∈ leavesF64, KindOnly d := by
  intro d hd
  simp only [leavesF64, List.mem_cons, List.mem_nil_iff, or_false] at hd
  rcases hd with rfl | rfl | rfl | rfl <;> kind_only

theorem ko_str : ∀ d ∈ leavesStr, KindOnly d := by
  intro d hd
  simp only [leavesStr, List.mem_cons, List.mem_nil_iff, or_false] at hd
  rcases hd with rfl | rfl | rfl | rfl | rfl | rfl | rfl <;> kind_only

theorem ko_bool : ∀ d ∈ leavesBool, KindOnly d := by
  intro d hd
  simp only [leavesBool, List.mem_cons, List.mem_nil_iff, or_false] at hd
  rcases hd with rfl | rfl <;> kind_only

theorem ko_time : ∀ d ∈ leavesTime, KindOnly d := by
  intro d hd
  simp only [leavesTime, List.mem_cons, List.mem_nil_iff, or_false] at hd
  rcases hd with rfl <;> kind_only

theorem ko_dur : ∀ d ∈ leavesDur, KindOnly d := by
  intro d hd
  simp only [leavesDur, List.mem_cons, List.mem_nil_iff, or_false] at hd
  rcases hd with rfl | rfl <;> kind_only

theorem ko_uuid : ∀ d ∈ leavesUuid, KindOnly d := by
  intro d hd
  simp only [leavesUuid, List.mem_cons, List.mem_nil_iff, or_false] at hd
  rcases hd with rfl | rfl | rfl <;> kind_only

theorem ko_any : ∀ d ∈ leavesAny, KindOnly d := by
  intro d hd
  simp only [leavesAny, List.mem_cons, List.mem_nil_iff, or_false] at hd
  rcases hd with rfl | rfl | rfl | rfl | rfl | rfl | rfl | rfl | rfl | rfl <;> kind_only


/-- a cold group answers "unsupported type" exactly when every decoder does -/
theorem loop_unsup_all (s : Val) : ∀ (l : List (Leaf × Nat)) (err : R GoVal),
    (loop none s l err).1 = .unsupported → ∀ p ∈ l, p.1 s = .unsupported
  | [], _, _, p, hp => by cases hp
  | (d, i) :: l, err, h, p, hp => by
    simp only [loop, reduceCtorEq, if_false] at h
    cases hd : d s with
    | ok a => simp [hd] at h
    | other e => simp [hd] at h
    | noop => simp [hd] at h
    | unsupported =>
      simp only [hd] at h
      rcases List.mem_cons.mp hp with rfl | hr
      · exact hd
      · exact loop_unsup_all s l _ h p hr

theorem loop_all_unsup (s : Val) : ∀ (l : List (Leaf × Nat)) (err : R GoVal), l ≠ [] →
    (∀ p ∈ l, p.1 s = .unsupported) → (loop none s l err).1 = .unsupported
  | [], _, hne, _ => absurd rfl hne
  | (d, i) :: l, err, _, h => by
    have hd : d s = .unsupported := h (d, i) (by simp)
    simp only [loop, reduceCtorEq, if_false, hd]
    cases l with
    | nil => simp [loop]
    | cons q l' => exact loop_all_unsup s (q :: l') _ (by simp) (fun p hp => h p (by simp [hp]))

theorem loop_noop (s : Val) : ∀ (l : List (Leaf × Nat)) (err : R GoVal), err ≠ .noop →
    (∀ p ∈ l, p.1 s ≠ .noop) → (loop none s l err).1 ≠ .noop
  | [], err, he, _ => by simpa [loop] using he
  | (d, i) :: l, err, he, h => by
    have hn : d s ≠ .noop := h (d, i) (by simp)
    simp only [loop, reduceCtorEq, if_false]
    cases hd : d s with
    | ok a => simp
    | other e => simp
    | noop => exact absurd hd hn
    | unsupported => exact loop_noop s l _ (by simp) (fun p hp => h p (by simp [hp]))

theorem fromR_unsup {g : R GoVal} (h : fromR g = .err .unsupportedType) : g = .unsupported ∨ g = .noop := by
  cases g with
  | ok a => simp [fromR] at h
  | unsupported => exact Or.inl rfl
  | noop => exact Or.inr rfl
  | other e =>
    unfold fromR at h
    split at h <;> simp_all

/-- the group verdict "unsupported type" of a list of kind-only decoders depends on the kind only -/
theorem runLeaves_unsup_kind (ds : List Leaf) (hne : ds ≠ []) (hk : ∀ d ∈ ds, KindOnly d)
    (hn : ∀ d ∈ ds, ∀ s, d s ≠ .noop) {s s' : Val} (hs : SameKind s s')
    (h : runLeaves ds s = .err .unsupportedType) : runLeaves ds s' = .err .unsupportedType := by
  unfold runLeaves at h ⊢
  simp only [Uniflow.Group.decode, Uniflow.Group.lookup] at h ⊢
  have hz : ds.zipIdx ≠ [] := by cases ds <;> simp_all
  have memz : ∀ p ∈ ds.zipIdx, p.1 ∈ ds := fun p hp => by
    have := List.mem_zipIdx_iff_getElem?.mp hp
    exact List.mem_of_getElem? this
  rcases fromR_unsup h with hu | hno
  · have all := loop_unsup_all s ds.zipIdx .noop hu
    have all' : ∀ p ∈ ds.zipIdx, p.1 s' = .unsupported := fun p hp => hk p.1 (memz p hp) s s' hs (all p hp)
    have := loop_all_unsup s' ds.zipIdx .noop hz all'
    simp [Uniflow.Group.store, this, fromR]
  · exfalso
    cases hz' : ds.zipIdx with
    | nil => exact hz hz'
    | cons q l =>
      obtain ⟨d, i⟩ := q
      rw [hz'] at hno memz
      simp only [loop, reduceCtorEq, if_false] at hno
      cases hd : d s with
      | ok a => simp [hd] at hno
      | other e => simp [hd] at hno
      | noop => exact hn d (memz (d, i) (by simp)) s hd
      | unsupported =>
        simp only [hd] at hno
        exact loop_noop s l .unsupported (by simp) (fun p hp => hn p.1 (memz p (by simp [hp])) s) hno

theorem uint8_no_noop : ∀ d ∈ leavesUint .w8, ∀ s, d s ≠ .noop := by
  intro d hd s
  simp only [leavesUint, List.mem_cons, List.mem_nil_iff, or_false] at hd
  rcases hd with rfl | rfl | rfl | rfl <;> cases s <;> simp <;> (repeat' split) <;> simp

theorem toR_unsup {r : Res GoVal} : toR r = .unsupported ↔ r = .err .unsupportedType := by
  cases r with
  | ok a => simp [toR]
  | panic => simp [toR]
  | err e => cases e <;> simp [toR]

/-- kind-only on every source that is not a list -/
def KindOnlyNS (d : Leaf) : Prop :=
  ∀ s s', SameKind s s' → (∀ l, s ≠ .slice l) → d s = .unsupported → d s' = .unsupported

theorem ko_listIntoBytes : KindOnlyNS leafListIntoBytes := by
  intro s s' hk hns hu
  have key : ∀ x : Val, (∀ l, x ≠ .slice l) →
      (leafListIntoBytes x = .unsupported ↔ runLeaves (leavesUint .w8) x = .err .unsupportedType) := by
    intro x hx
    have : leafListIntoBytes x = (match runLeaves (leavesUint .w8) x with
        | .ok (.uint v) => .ok (.bytes [v]) | r => toR r) := by
      cases x <;> first | rfl | exact absurd rfl (hx _)
    rw [this]
    constructor
    · intro h; split at h
      · cases h
      · exact toR_unsup.mp h
    · intro h; rw [h]; rfl
  cases hk
  case slice a b => exact absurd rfl (hns a)
  all_goals
    rw [key _ (by intro l; simp)] at hu ⊢
    exact runLeaves_unsup_kind _ (by simp [leavesUint]) (ko_uint .w8) uint8_no_noop (by constructor) hu

theorem ko_listIntoBarr (n : Nat) : KindOnlyNS (leafListIntoBarr n) := by
  intro s s' hk hns hu
  have key : ∀ x : Val, (∀ l, x ≠ .slice l) →
      (leafListIntoBarr n x = .unsupported ↔ n ≠ 0 ∧ runLeaves (leavesUint .w8) x = .err .unsupportedType) := by
    intro x hx
    have : leafListIntoBarr n x = (if n = 0 then .other 0 else
        match runLeaves (leavesUint .w8) x with
        | .ok (.uint v) => .ok (.barr (v :: List.replicate (n - 1) 0)) | r => toR r) := by
      cases x <;> first | rfl | exact absurd rfl (hx _)
    rw [this]
    by_cases h0 : n = 0
    · simp [h0]
    · simp only [h0, if_false, ne_eq, not_false_eq_true, true_and]
      constructor
      · intro h; split at h
        · cases h
        · exact toR_unsup.mp h
      · intro h; rw [h]; rfl
  cases hk
  case slice a b => exact absurd rfl (hns a)
  all_goals
    rw [key _ (by intro l; simp)] at hu ⊢
    exact ⟨hu.1, runLeaves_unsup_kind _ (by simp [leavesUint]) (ko_uint .w8) uint8_no_noop (by constructor) hu.2⟩

theorem ko_bytes_leaves : ∀ d ∈ leavesBytes, KindOnly d ∧ ∀ l, d (.slice l) = .unsupported := by
  intro d hd
  simp only [leavesBytes, List.mem_cons, List.mem_nil_iff, or_false] at hd
  rcases hd with rfl | rfl
  · exact ⟨by kind_only, by intro l; rfl⟩
  · exact ⟨by kind_only, by intro l; rfl⟩

theorem ko_barr_leaves (n : Nat) : ∀ d ∈ leavesBarr n, KindOnly d ∧ ∀ l, d (.slice l) = .unsupported := by
  intro d hd
  simp only [leavesBarr, List.mem_cons, List.mem_nil_iff, or_false] at hd
  rcases hd with rfl | rfl
  · exact ⟨by kind_only, by intro l; rfl⟩
  · exact ⟨by kind_only, by intro l; rfl⟩

/-- a list of kind-only leaves that all decline list sources, followed by one decoder that is kind-only except on
lists (the element-wise slice decoder, whose verdict on a list depends on the elements): clause 1 for every source
kind but the list kind, clause 2 for the list kind -/
theorem coherent_with_list_tail (ds : List Leaf) (last : Leaf)
    (h : ∀ d ∈ ds, KindOnly d ∧ ∀ l, d (.slice l) = .unsupported) (hl : KindOnlyNS last) :
    Coherent Val.rank (ds ++ [last]) := by
  intro τ
  by_cases hτ : τ = Uniflow.Generated.Kinds.slice
  · right
    refine ⟨ds.length, ?_⟩
    intro p hp hne s hs
    obtain ⟨l, rfl⟩ := rank_slice (b := s) (by rw [hs, hτ])
    have hg := List.mem_zipIdx_iff_getElem?.mp hp
    by_cases hlt : p.2 < ds.length
    · rw [List.getElem?_append_left hlt] at hg
      exact (h p.1 (List.mem_of_getElem? hg)).2 l
    · have : p.2 - ds.length ≠ 0 := by omega
      rw [List.getElem?_append_right (by omega)] at hg
      cases hh : p.2 - ds.length with
      | zero => exact absurd hh this
      | succ k => rw [hh] at hg; simp at hg
  · left
    intro d hd s s' hs hs' hu
    have hk := sameKind_of_rank (s := s) (s' := s') (by rw [hs, hs'])
    rcases List.mem_append.mp hd with hd | hd
    · exact (h d hd).1 s s' hk hu
    · simp only [List.mem_singleton] at hd; subst hd
      refine hl s s' hk ?_ hu
      intro l e; subst e
      exact hτ (by rw [← hs]; rfl)

/-- the ordered decoder list the assembler compiles for a target type: the leaf lists of `Codec.decode` for the
scalar-like targets, a single composite decoder otherwise -/
def decodersOf : GoType → List Leaf
  | .int w => leavesInt w
  | .uint w => leavesUint w
  | .f32 => leavesF32
  | .f64 => leavesF64
  | .str => leavesStr
  | .bool => leavesBool
  | .time => leavesTime
  | .dur => leavesDur
  | .uuid => leavesUuid
  | .any => leavesAny
  | .bytes => leavesBytes ++ [leafListIntoBytes]
  | .barr n => leavesBarr n ++ [leafListIntoBarr n]
  | t => [fun x => toR (decode t x)]

theorem fromR_toR (r : Res GoVal) : fromR (toR r) = r := by
  cases r with
  | ok a => rfl
  | panic => rfl
  | err e => cases e <;> rfl

theorem coherent_singleton (d : Leaf) : Coherent Val.rank [d] := by
  intro τ; right
  refine ⟨0, ?_⟩
  intro p hp hne
  simp [List.zipIdx] at hp
  subst hp; simp at hne

theorem group_singleton (d : Leaf) (x : Val) (hn : d x ≠ .noop) :
    fromR (Uniflow.Group.decode Val.rank [d] [] x).1 = fromR (d x) := by
  simp only [Uniflow.Group.decode, Uniflow.Group.lookup, List.zipIdx, loop, reduceCtorEq, if_false]
  cases h : d x <;> simp [loop, fromR]
  all_goals exact absurd h hn

theorem toR_ne_noop (r : Res GoVal) : toR r ≠ .noop := by
  cases r with
  | ok a => simp [toR]
  | panic => simp [toR]
  | err e => cases e <;> simp [toR]

end Uniflow.Codec

open Uniflow.Value Uniflow.Codec
open Uniflow.Group (Coherent CacheOK warm Cache)

/-- **The `Coherent` hypothesis of C17 holds for the codec's decoder lists.** For every target type of the
modelled universe: the leaf lists satisfy clause 1 (a leaf's "unsupported type" verdict is a function of the source's
kind), the composite targets compile to one decoder (clause 2). -/
theorem C17.codec_lists_coherent (t : GoType) : Coherent Val.rank (decodersOf t) := by
  cases t
  case int w => exact coherent_of_kindOnly _ (ko_int w)
  case uint w => exact coherent_of_kindOnly _ (ko_uint w)
  case f32 => exact coherent_of_kindOnly _ ko_f32
  case f64 => exact coherent_of_kindOnly _ ko_f64
  case str => exact coherent_of_kindOnly _ ko_str
  case bool => exact coherent_of_kindOnly _ ko_bool
  case time => exact coherent_of_kindOnly _ ko_time
  case dur => exact coherent_of_kindOnly _ ko_dur
  case uuid => exact coherent_of_kindOnly _ ko_uuid
  case any => exact coherent_of_kindOnly _ ko_any
  case bytes => exact coherent_with_list_tail _ _ ko_bytes_leaves ko_listIntoBytes
  case barr n => exact coherent_with_list_tail _ _ (ko_barr_leaves n) (ko_listIntoBarr n)
  all_goals exact coherent_singleton _

/-- `Codec.decode` is the cold evaluation of that list with the group semantics of C17. -/
theorem C17.codec_decode_is_cold_group (t : GoType) (x : Val) :
    decode t x = fromR (Uniflow.Group.decode Val.rank (decodersOf t) [] x).1 := by
  cases t
  case ptr t' =>
    have e : decodersOf (.ptr t') = [fun x => toR (decode (.ptr t') x)] := rfl
    rw [e, group_singleton _ x (toR_ne_noop _), fromR_toR]
  case slice t' =>
    have e : decodersOf (.slice t') = [fun x => toR (decode (.slice t') x)] := rfl
    rw [e, group_singleton _ x (toR_ne_noop _), fromR_toR]
  case arr n t' =>
    have e : decodersOf (.arr n t') = [fun x => toR (decode (.arr n t') x)] := rfl
    rw [e, group_singleton _ x (toR_ne_noop _), fromR_toR]
  case map t' =>
    have e : decodersOf (.map t') = [fun x => toR (decode (.map t') x)] := rfl
    rw [e, group_singleton _ x (toR_ne_noop _), fromR_toR]
  case struct fs =>
    have e : decodersOf (.struct fs) = [fun x => toR (decode (.struct fs) x)] := rfl
    rw [e, group_singleton _ x (toR_ne_noop _), fromR_toR]
  all_goals simp [decode, decodersOf, runLeaves]

/-- **Decoding is history independent for the codec's own decoders.** After any history of earlier decodes
through the same group, the group returns what `Codec.decode` returns (value or error class). -/
theorem C17.codec_decode_history_independent (t : GoType) (hist : List Val) (x : Val) :
    fromR (Uniflow.Group.decode Val.rank (decodersOf t) (warm Val.rank (decodersOf t) [] hist) x).1 = decode t x := by
  rw [C17.group_pure Val.rank (decodersOf t) (C17.codec_lists_coherent t) hist x, ← C17.codec_decode_is_cold_group]

/-- the same for any cache that satisfies the invariant of C17 (`CacheOK`: every cached index points to a decoder
before which all decoders refuse the source kind) -/
theorem C17.codec_decode_cache_independent (t : GoType) (c : Cache) (hc : CacheOK Val.rank (decodersOf t) c) (x : Val) :
    fromR (Uniflow.Group.decode Val.rank (decodersOf t) c x).1 = decode t x := by
  rw [C17.decode_eq_cold Val.rank (decodersOf t) c x hc, ← C17.codec_decode_is_cold_group]

/-- every group `Codec.decode` evaluates at any depth (the element, key and field decoders of composite targets are
these lists again) is history independent: `runLeaves`, which the model evaluates cold, equals the warm evaluation -/
theorem C17.codec_leaves_history_independent (t : GoType) (hist : List Val) (x : Val) :
    fromR (Uniflow.Group.decode Val.rank (decodersOf t) (warm Val.rank (decodersOf t) [] hist) x).1
      = runLeaves (decodersOf t) x := by
  rw [C17.group_pure Val.rank (decodersOf t) (C17.codec_lists_coherent t) hist x]; rfl

/-- non-vacuity: `"7"` into `[]byte` – the witness of the C17 defect on the pinned tree – is a value error both cold
and after a successful base64 decode and a binary decode warmed the group -/
theorem C17.codec_nonvacuous :
    decode .bytes (.str [55]) = .err .other ∧
    fromR (Uniflow.Group.decode Val.rank (decodersOf .bytes)
      (warm Val.rank (decodersOf .bytes) [] [.str [97, 71, 107, 61], .bin [1, 2]]) (.str [55])).1 = .err .other := by
  have h : decode .bytes (.str [55]) = .err .other := by
    simp [decode, runLeaves, leavesBytes, Uniflow.Group.decode, Uniflow.Group.lookup, Uniflow.Group.loop, List.zipIdx,
      fromR, b64dec]
  exact ⟨h, by rw [C17.codec_decode_history_independent]; exact h⟩
