/-
C06 – regenerated tie over Generated/SymbolFuncs.lean (extract/funcs.go): the outline of EVERY function of the source
files named below – regenerated from /repo on every run – equals the transcript frozen here (bin/freeze_all.py, repo 7f54b88,
2026-10-01). A theorem that stops checking names the file whose code is no longer the code that was modelled; bin/check then
searches for a failing input.
-/
import Uniflow.Generated.SymbolFuncs

set_option maxRecDepth 16384 in
/-- pkg/symbol/symbol.go as modelled: its declarations (in source order) and the outline of each -/
theorem C06.src_symbol_symbol_as_modelled :
    Uniflow.Generated.SymbolFuncs.o_symbol_symbol_Symbol_ID = [
      "return s.Spec.GetID()"
    ] ∧
    Uniflow.Generated.SymbolFuncs.o_symbol_symbol_Symbol_SetID = [
      "s.Spec.SetID(id)"
    ] ∧
    Uniflow.Generated.SymbolFuncs.o_symbol_symbol_Symbol_Kind = [
      "return s.Spec.GetKind()"
    ] ∧
    Uniflow.Generated.SymbolFuncs.o_symbol_symbol_Symbol_SetKind = [
      "s.Spec.SetKind(kind)"
    ] ∧
    Uniflow.Generated.SymbolFuncs.o_symbol_symbol_Symbol_Namespace = [
      "return s.Spec.GetNamespace()"
    ] ∧
    Uniflow.Generated.SymbolFuncs.o_symbol_symbol_Symbol_SetNamespace = [
      "s.Spec.SetNamespace(namespace)"
    ] ∧
    Uniflow.Generated.SymbolFuncs.o_symbol_symbol_Symbol_Name = [
      "return s.Spec.GetName()"
    ] ∧
    Uniflow.Generated.SymbolFuncs.o_symbol_symbol_Symbol_SetName = [
      "s.Spec.SetName(name)"
    ] ∧
    Uniflow.Generated.SymbolFuncs.o_symbol_symbol_Symbol_NamespacedName = [
      "return s.Spec.GetNamespacedName()"
    ] ∧
    Uniflow.Generated.SymbolFuncs.o_symbol_symbol_Symbol_Annotations = [
      "return s.Spec.GetAnnotations()"
    ] ∧
    Uniflow.Generated.SymbolFuncs.o_symbol_symbol_Symbol_SetAnnotations = [
      "s.Spec.SetAnnotations(annotations)"
    ] ∧
    Uniflow.Generated.SymbolFuncs.o_symbol_symbol_Symbol_Env = [
      "return s.Spec.GetEnv()"
    ] ∧
    Uniflow.Generated.SymbolFuncs.o_symbol_symbol_Symbol_SetEnv = [
      "s.Spec.SetEnv(env)"
    ] ∧
    Uniflow.Generated.SymbolFuncs.o_symbol_symbol_Symbol_Ports = [
      "return s.Spec.GetPorts()"
    ] ∧
    Uniflow.Generated.SymbolFuncs.o_symbol_symbol_Symbol_SetPorts = [
      "s.Spec.SetPorts(ports)"
    ] ∧
    Uniflow.Generated.SymbolFuncs.o_symbol_symbol_Symbol_Ins = [
      "s.mu.RLock()",
      "defer s.mu.RUnlock()",
      "ins := make(map[string]*port.InPort, len(s.ins))",
      "for name, in := range s.ins",
      "  ins[name] = in",
      "return ins"
    ] ∧
    Uniflow.Generated.SymbolFuncs.o_symbol_symbol_Symbol_In = [
      "s.mu.Lock()",
      "defer s.mu.Unlock()",
      "if s.ins == nil",
      "  s.ins = make(map[string]*port.InPort)",
      "p, ok := s.ins[name]",
      "if !ok && s.Node != nil",
      "  if p = s.Node.In(name); p != nil",
      "    s.ins[name] = p",
      "return p"
    ] ∧
    Uniflow.Generated.SymbolFuncs.o_symbol_symbol_Symbol_Outs = [
      "s.mu.RLock()",
      "defer s.mu.RUnlock()",
      "outs := make(map[string]*port.OutPort, len(s.outs))",
      "for name, out := range s.outs",
      "  outs[name] = out",
      "return outs"
    ] ∧
    Uniflow.Generated.SymbolFuncs.o_symbol_symbol_Symbol_Out = [
      "s.mu.Lock()",
      "defer s.mu.Unlock()",
      "if s.outs == nil",
      "  s.outs = make(map[string]*port.OutPort)",
      "p, ok := s.outs[name]",
      "if !ok && s.Node != nil",
      "  if p = s.Node.Out(name); p != nil",
      "    s.outs[name] = p",
      "return p"
    ] ∧
    Uniflow.Generated.SymbolFuncs.o_symbol_symbol_Symbol_Unwrap = [
      "return s.Node"
    ] ∧
    Uniflow.Generated.SymbolFuncs.o_symbol_symbol_Symbol_Close = [
      "s.mu.Lock()",
      "defer s.mu.Unlock()",
      "s.ins = nil",
      "s.outs = nil",
      "if s.Node == nil",
      "  return nil",
      "return s.Node.Close()"
    ] ∧
    Uniflow.Generated.SymbolFuncs.names_symbol_symbol = ["Symbol.ID", "Symbol.SetID", "Symbol.Kind", "Symbol.SetKind", "Symbol.Namespace", "Symbol.SetNamespace", "Symbol.Name", "Symbol.SetName", "Symbol.NamespacedName", "Symbol.Annotations", "Symbol.SetAnnotations", "Symbol.Env", "Symbol.SetEnv", "Symbol.Ports", "Symbol.SetPorts", "Symbol.Ins", "Symbol.In", "Symbol.Outs", "Symbol.Out", "Symbol.Unwrap", "Symbol.Close"] := by
  decide

set_option maxRecDepth 16384 in
/-- pkg/symbol/table.go as modelled (part 2 of 4): its declarations (in source order) and the outline of each -/
theorem C06.src_symbol_table_as_modelled_2 :
    Uniflow.Generated.SymbolFuncs.o_symbol_table_Table_Close = [
      "t.mu.Lock()",
      "defer t.mu.Unlock()",
      "degree := map[*Symbol]int{}",
      "for id, sb := range t.symbols",
      "  degree[sb] = 0",
      "  for _, ports := range t.references[id]",
      "    degree[sb] += len(ports)",
      "var queue []*Symbol",
      "for sb, count := range degree",
      "  if count == 0",
      "    queue = append(queue, sb)",
      "symbols := make([]*Symbol, 0, len(t.symbols))",
      "for len(queue) > 0",
      "  curr := queue[0]",
      "  queue = queue[1:]",
      "  if slices.Contains(symbols, curr)",
      "    continue",
      "  symbols = append(symbols, curr)",
      "  for _, ports := range curr.Ports()",
      "    for _, port := range ports",
      "      id := port.ID",
      "      if id == uuid.Nil",
      "        id = t.lookup(curr.Namespace(), port.Name)",
      "      next, ok := t.symbols[id]",
      "      if ok && next.Namespace() == curr.Namespace()",
      "        degree[next]--",
      "        if degree[next] == 0",
      "          queue = append(queue, next)",
      "for sb, count := range degree",
      "  if count != 0",
      "    symbols = append(symbols, sb)",
      "for _, sb := range symbols",
      "  if _, err := t.free(sb.ID()); err != nil",
      "    return err",
      "return nil"
    ] ∧
    Uniflow.Generated.SymbolFuncs.o_symbol_table_Table_insert = [
      "t.symbols[sb.ID()] = sb",
      "if sb.Name() != \"\"",
      "  ns, ok := t.namespaces[sb.Namespace()]",
      "  if !ok",
      "    ns = make(map[string]uuid.UUID)",
      "    t.namespaces[sb.Namespace()] = ns",
      "  ns[sb.Name()] = sb.ID()",
      "t.links(sb)",
      "return t.load(sb)"
    ] ∧
    Uniflow.Generated.SymbolFuncs.o_symbol_table_Table_free = [
      "sb, ok := t.symbols[id]",
      "if !ok",
      "  return nil, nil",
      "if err := t.unload(sb); err != nil",
      "  return nil, err",
      "t.unlinks(sb)",
      "if err := sb.Close(); err != nil",
      "  return nil, err",
      "if sb.Name() != \"\"",
      "  if ns, ok := t.namespaces[sb.Namespace()]; ok",
      "    delete(ns, sb.Name())",
      "    if len(ns) == 0",
      "      delete(t.namespaces, sb.Namespace())",
      "delete(t.symbols, id)",
      "return sb, nil"
    ] ∧
    Uniflow.Generated.SymbolFuncs.o_symbol_table_Table_load = [
      "linked := t.linked(sb)",
      "for _, sb := range linked",
      "  if t.isActivated(sb)",
      "    if err := t.exec(sb, node.PortInit); err != nil",
      "      return err",
      "    else",
      "      if err := t.loadHooks.Load(sb); err != nil",
      "        return err",
      "      else",
      "        if err := t.exec(sb, node.PortBegin); err != nil",
      "          return err",
      "return nil"
    ] ∧
    Uniflow.Generated.SymbolFuncs.o_symbol_table_Table_unload = [
      "linked := t.linked(sb)",
      "for i := len(linked) - 1; i >= 0; i--",
      "  sb := linked[i]",
      "  if t.isActivated(sb)",
      "    if err := t.exec(sb, node.PortTerm); err != nil",
      "      return err",
      "    else",
      "      if err := t.unloadHooks.Unload(sb); err != nil",
      "        return err",
      "      else",
      "        if err := t.exec(sb, node.PortFinal); err != nil",
      "          return err",
      "return nil"
    ] := by
  decide

