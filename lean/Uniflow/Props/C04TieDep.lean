/-
C04 – re-statements of the function-outline ties of the source files this property DEPENDS on without being anchored in
them: the other files of its packages and every package they import (bin/mk_dependency_ties.py; hand-run). A source change
there is reported for C04 as well.
-/
import Uniflow.Props.C05TieFn2
import Uniflow.Props.C05TieFn1
import Uniflow.Props.C05TieLayer

theorem C04.dep_C05_process_local_as_modelled_1 : type_of% C05.src_process_local_as_modelled_1 := C05.src_process_local_as_modelled_1
theorem C04.dep_C05_process_local_as_modelled_2 : type_of% C05.src_process_local_as_modelled_2 := C05.src_process_local_as_modelled_2
theorem C04.dep_C05_process_storehook_as_modelled : type_of% C05.src_process_storehook_as_modelled := C05.src_process_storehook_as_modelled
