/-
C13 — watchers see each matching successful mutation exactly once, in order.

Theorems about `Uniflow.Stream` (model of pkg/store/stream.go and the watcher plumbing of
pkg/store/store.go). Filter matching and acceptance by the segment are parameters of the `doc`
operation (they are C10's and C12's subject).
-/
import Uniflow.Model.Stream

namespace Uniflow.Stream

/-! ### helper lemmas -/

theorem findW_map (w : Nat) (g : Strm → Strm) (hg : ∀ s, (g s).wid = s.wid) (l : List Strm) :
    findW w (l.map g) = (findW w l).map g := by
  induction l with
  | nil => rfl
  | cons s l ih =>
    simp only [findW, List.map_cons, List.find?_cons] at ih ⊢
    by_cases h : s.wid = w
    · simp [hg, h]
    · simp only [hg, h, decide_false]
      exact ih

theorem findW_mapW_same (w : Nat) (f : Strm → Strm) (hf : ∀ s, (f s).wid = s.wid) (l : List Strm) :
    findW w (mapW w f l) = (findW w l).map f := by
  unfold mapW
  rw [findW_map w _ (by intro s; split <;> simp [hf]) l]
  cases h : findW w l with
  | none => rfl
  | some s =>
    have : s.wid = w := by
      have := List.find?_some h
      simpa using this
    simp [this]

theorem findW_mapW_other (w w' : Nat) (hne : w' ≠ w) (f : Strm → Strm) (hf : ∀ s, (f s).wid = s.wid)
    (l : List Strm) : findW w' (mapW w f l) = findW w' l := by
  unfold mapW
  rw [findW_map w' _ (by intro s; split <;> simp [hf]) l]
  cases h : findW w' l with
  | none => rfl
  | some s =>
    have : s.wid = w' := by
      have := List.find?_some h
      simpa using this
    have h2 : ¬ s.wid = w := by rw [this]; exact hne
    simp [h2]

theorem findW_append_fresh (w w' : Nat) (l : List Strm) :
    findW w' (l ++ [Strm.fresh w]) =
      match findW w' l with
      | some s => some s
      | none => if w = w' then some (Strm.fresh w) else none := by
  unfold findW
  rw [List.find?_append]
  cases h : l.find? (fun s => decide (s.wid = w')) with
  | some s => simp
  | none =>
    by_cases hw : w = w' <;> simp [Strm.fresh, List.find?_cons, hw]

/-- Per-stream bookkeeping invariant. -/
def StrmOK (s : Strm) : Prop :=
  (s.exited = false → s.emitted = s.delivered ++ s.queue) ∧
  (∃ lost, s.emitted = s.delivered ++ s.queue ++ lost) ∧
  (s.exited = true → s.queue = [] ∧ s.done = true)

theorem strmOK_fresh (w : Nat) : StrmOK (Strm.fresh w) := by
  refine ⟨fun _ => rfl, ⟨[], rfl⟩, ?_⟩
  intro h; simp [Strm.fresh] at h

theorem strmOK_emit (s : Strm) (e : Event) (h : StrmOK s) : StrmOK (s.emit e) := by
  unfold Strm.emit
  split
  · exact h
  · rename_i hd
    obtain ⟨h1, ⟨lost, h2⟩, h3⟩ := h
    have hex : s.exited = false := by
      cases hx : s.exited with
      | false => rfl
      | true => exact absurd (h3 hx).2 hd
    refine ⟨fun _ => ?_, ⟨[], ?_⟩, ?_⟩
    · simp [h1 hex, List.append_assoc]
    · simp [h1 hex, List.append_assoc]
    · intro hx; simp [hex] at hx

/-- What stream `w` has been handed by `Emit` after running `os` from a state in which it
already exists. -/
theorem emitted_run_existing (w : Nat) (os : List Op) (st : St) (s : Strm)
    (hs : findW w st.streams = some s) :
    ∃ s', findW w (run st os).streams = some s' ∧
      s'.emitted = s.emitted ++ expected w os true s.done := by
  induction os generalizing st s with
  | nil => exact ⟨s, hs, by simp [expected]⟩
  | cons o os ih =>
    simp only [run]
    have hwid : s.wid = w := by
      have := List.find?_some hs
      simpa using this
    cases o with
    | watch w' =>
      simp only [step]
      by_cases hdup : (findW w' st.streams).isSome
      · simp only [hdup, if_true]
        obtain ⟨s', h1, h2⟩ := ih st s hs
        refine ⟨s', h1, ?_⟩
        simp only [expected]
        simp [h2]
      · simp only [hdup]
        have hs' : findW w (st.streams ++ [Strm.fresh w']) = some s := by
          rw [findW_append_fresh, hs]
        obtain ⟨s', h1, h2⟩ := ih { streams := st.streams ++ [Strm.fresh w'] } s hs'
        refine ⟨s', h1, ?_⟩
        simp only [expected]
        simp [h2]
    | doc e accepted matched =>
      simp only [step]
      cases accepted with
      | false =>
        obtain ⟨s', h1, h2⟩ := ih st s hs
        refine ⟨s', by simpa using h1, ?_⟩
        simp [expected, h2]
      | true =>
        simp only [if_true]
        have hfind : findW w (st.streams.map (fun s => if matched.contains s.wid then s.emit e else s)) =
            some (if matched.contains s.wid then s.emit e else s) := by
          rw [findW_map w _ (by intro s; split <;> simp [Strm.emit] <;> split <;> rfl), hs]; rfl
        obtain ⟨s', h1, h2⟩ := ih _ _ hfind
        refine ⟨s', h1, ?_⟩
        rw [h2, hwid]
        simp only [expected]
        by_cases hm : w ∈ matched
        · cases hd : s.done <;> simp [Strm.emit, hm, hd, List.append_assoc]
        · simp [hm]
    | next w' =>
      simp only [step]
      cases hf : findW w' st.streams with
      | none =>
        obtain ⟨s', h1, h2⟩ := ih st s hs
        exact ⟨s', by simpa using h1, by simp [expected, h2]⟩
      | some t =>
        simp only []
        by_cases hex : t.exited = true
        · simp only [hex, if_true]
          obtain ⟨s', h1, h2⟩ := ih st s hs
          exact ⟨s', h1, by simp [expected, h2]⟩
        · simp only [hex]
          cases hq : t.queue with
          | nil =>
            obtain ⟨s', h1, h2⟩ := ih st s hs
            exact ⟨s', by simpa using h1, by simp [expected, h2]⟩
          | cons e rest =>
            simp only []
            by_cases hww : w' = w
            · subst hww
              have hfind := findW_mapW_same w' (fun s => { s with queue := rest, delivered := s.delivered ++ [e] }) (by intro s; rfl) st.streams
              rw [hs] at hfind
              obtain ⟨s', h1, h2⟩ := ih _ _ hfind
              exact ⟨s', h1, by simp [expected, h2]⟩
            · have hfind := findW_mapW_other w' w (Ne.symm hww) (fun s => { s with queue := rest, delivered := s.delivered ++ [e] }) (by intro s; rfl) st.streams
              rw [hs] at hfind
              obtain ⟨s', h1, h2⟩ := ih _ _ hfind
              exact ⟨s', h1, by simp [expected, h2]⟩
    | close w' =>
      simp only [step]
      cases hf : findW w' st.streams with
      | none =>
        obtain ⟨s', h1, h2⟩ := ih st s hs
        refine ⟨s', by simpa using h1, ?_⟩
        have : w' ≠ w := by intro h; subst h; rw [hs] at hf; cases hf
        simp [expected, h2, this]
      | some t =>
        simp only []
        by_cases hww : w' = w
        · subst hww
          have hfind := findW_mapW_same w' (fun s => { s with done := true }) (by intro s; rfl) st.streams
          rw [hs] at hfind
          obtain ⟨s', h1, h2⟩ := ih _ _ hfind
          refine ⟨s', h1, ?_⟩
          simp only [expected]
          simp [h2]
        · have hfind := findW_mapW_other w' w (Ne.symm hww) (fun s => { s with done := true }) (by intro s; rfl) st.streams
          rw [hs] at hfind
          obtain ⟨s', h1, h2⟩ := ih _ _ hfind
          exact ⟨s', h1, by simp [expected, h2, hww]⟩
    | pumpExit w' =>
      simp only [step]
      cases hf : findW w' st.streams with
      | none =>
        obtain ⟨s', h1, h2⟩ := ih st s hs
        exact ⟨s', by simpa using h1, by simp [expected, h2]⟩
      | some t =>
        simp only []
        by_cases hc : t.done = true ∧ ¬ t.exited = true
        · simp only [hc, not_false_eq_true, and_self, if_true]
          by_cases hww : w' = w
          · subst hww
            have hfind := findW_mapW_same w' (fun s => { s with exited := true, queue := [] }) (by intro s; rfl) st.streams
            rw [hs] at hfind
            obtain ⟨s', h1, h2⟩ := ih _ _ hfind
            exact ⟨s', h1, by simp [expected, h2]⟩
          · have hfind := findW_mapW_other w' w (Ne.symm hww) (fun s => { s with exited := true, queue := [] }) (by intro s; rfl) st.streams
            rw [hs] at hfind
            obtain ⟨s', h1, h2⟩ := ih _ _ hfind
            exact ⟨s', h1, by simp [expected, h2]⟩
        · simp only [hc, if_false]
          obtain ⟨s', h1, h2⟩ := ih st s hs
          exact ⟨s', h1, by simp [expected, h2]⟩

end Uniflow.Stream

namespace Uniflow.Stream

/-- A watcher that does not exist yet: whatever `os` creates for it has been handed exactly
the expected events. -/
theorem emitted_run_absent (w : Nat) (os : List Op) (st : St) (hs : findW w st.streams = none) :
    ∀ s', findW w (run st os).streams = some s' → s'.emitted = expected w os false false := by
  induction os generalizing st with
  | nil => intro s' h; simp only [run] at h; rw [hs] at h; cases h
  | cons o os ih =>
    intro s' h
    simp only [run] at h
    cases o with
    | watch w' =>
      simp only [step] at h
      by_cases hdup : (findW w' st.streams).isSome
      · simp only [hdup, if_true] at h
        have hne : ¬ w' = w := by intro e; subst e; simp [hs] at hdup
        simp only [expected, hne, false_and, if_false]
        exact ih st hs s' h
      · simp only [hdup, Bool.false_eq_true, if_false] at h
        by_cases hww : w' = w
        · subst hww
          have hfind : findW w' ({ streams := st.streams ++ [Strm.fresh w'] } : St).streams = some (Strm.fresh w') := by
            simp only [findW_append_fresh, hs]; simp
          obtain ⟨s'', h1, h2⟩ := emitted_run_existing w' os _ _ hfind
          rw [h1] at h; injection h with h; subst h
          simp [expected, h2, Strm.fresh]
        · have hfind : findW w ({ streams := st.streams ++ [Strm.fresh w'] } : St).streams = none := by
            simp only [findW_append_fresh, hs]; simp [hww]
          simp only [expected, hww, false_and, if_false]
          exact ih _ hfind s' h
    | doc e accepted matched =>
      simp only [step] at h
      cases accepted with
      | false => simp only [expected]; simp; exact ih st hs s' (by simpa using h)
      | true =>
        simp only [if_true] at h
        have hfind : findW w (st.streams.map (fun s => if matched.contains s.wid then s.emit e else s)) = none := by
          rw [findW_map w _ (by intro s; split <;> simp [Strm.emit] <;> split <;> rfl), hs]; rfl
        simp only [expected]; simp
        exact ih _ hfind s' h
    | next w' =>
      simp only [step] at h
      cases hf : findW w' st.streams with
      | none => simp only [hf] at h; simp only [expected]; exact ih st hs s' h
      | some t =>
        simp only [hf] at h
        have hne : w' ≠ w := by intro e; subst e; rw [hs] at hf; cases hf
        simp only [expected]
        by_cases hex : t.exited = true
        · simp only [hex, if_true] at h; exact ih st hs s' h
        · simp only [hex] at h
          cases hq : t.queue with
          | nil => simp only [hq] at h; exact ih st hs s' (by simpa using h)
          | cons e rest =>
            simp only [hq] at h
            have hfind := findW_mapW_other w' w (Ne.symm hne) (fun s => { s with queue := rest, delivered := s.delivered ++ [e] }) (by intro s; rfl) st.streams
            rw [hs] at hfind
            exact ih _ hfind s' h
    | close w' =>
      simp only [step] at h
      cases hf : findW w' st.streams with
      | none =>
        simp only [hf] at h
        simp only [expected]; simp
        exact ih st hs s' h
      | some t =>
        simp only [hf] at h
        have hne : w' ≠ w := by intro e; subst e; rw [hs] at hf; cases hf
        have hfind := findW_mapW_other w' w (Ne.symm hne) (fun s => { s with done := true }) (by intro s; rfl) st.streams
        rw [hs] at hfind
        simp only [expected]; simp
        exact ih _ hfind s' h
    | pumpExit w' =>
      simp only [step] at h
      cases hf : findW w' st.streams with
      | none => simp only [hf] at h; simp only [expected]; exact ih st hs s' h
      | some t =>
        simp only [hf] at h
        have hne : w' ≠ w := by intro e; subst e; rw [hs] at hf; cases hf
        simp only [expected]
        by_cases hc : t.done = true ∧ ¬ t.exited = true
        · simp only [hc, not_false_eq_true, and_self, if_true] at h
          have hfind := findW_mapW_other w' w (Ne.symm hne) (fun s => { s with exited := true, queue := [] }) (by intro s; rfl) st.streams
          rw [hs] at hfind
          exact ih _ hfind s' h
        · simp only [hc, if_false] at h
          exact ih st hs s' h

/-- Watcher ids are unique (`Watch` creates a fresh stream; the driver refuses a reused id). -/
def Uniq (st : St) : Prop := (st.streams.map (·.wid)).Nodup

theorem findW_of_mem (l : List Strm) (hu : (l.map (·.wid)).Nodup) (t : Strm) (ht : t ∈ l) :
    findW t.wid l = some t := by
  induction l with
  | nil => cases ht
  | cons s l ih =>
    simp only [List.map_cons, List.nodup_cons] at hu
    simp only [findW, List.find?_cons]
    rcases List.mem_cons.mp ht with rfl | hin
    · simp
    · have hne : ¬ s.wid = t.wid := by
        intro e; apply hu.1; rw [e]; exact List.mem_map_of_mem hin
      simp only [hne, decide_false]
      exact ih hu.2 hin

theorem map_wid_mapW (w : Nat) (f : Strm → Strm) (hf : ∀ s, (f s).wid = s.wid) (l : List Strm) :
    (mapW w f l).map (·.wid) = l.map (·.wid) := by
  unfold mapW
  rw [List.map_map]
  apply List.map_congr_left
  intro s _
  simp only [Function.comp]
  split <;> simp [hf]

theorem uniq_step (st : St) (o : Op) (h : Uniq st) : Uniq (step st o).1 := by
  unfold Uniq at *
  cases o with
  | watch w =>
    simp only [step]
    split
    · exact h
    · rename_i hdup
      simp only [List.map_append, List.map_cons, List.map_nil]
      rw [List.nodup_append]
      refine ⟨h, by simp, ?_⟩
      intro a ha b hb
      simp only [List.mem_singleton] at hb
      subst hb
      intro e; subst e
      obtain ⟨t, ht, htw⟩ := List.mem_map.mp ha
      have := findW_of_mem st.streams h t ht
      rw [htw] at this
      simp [Strm.fresh, this] at hdup
  | doc e accepted matched =>
    simp only [step]
    split
    · simp only [List.map_map]
      have : ((fun (x : Strm) => x.wid) ∘ fun (s : Strm) => if matched.contains s.wid = true then s.emit e else s) = (fun (x : Strm) => x.wid) := by
        funext s; simp only [Function.comp]; split
        · unfold Strm.emit; split <;> rfl
        · rfl
      rw [this]; exact h
    · exact h
  | next w =>
    simp only [step]
    split
    · exact h
    · split
      · exact h
      · split
        · exact h
        · simp only []; rw [map_wid_mapW _ _ (by intro s; rfl)]; exact h
  | close w =>
    simp only [step]
    split
    · exact h
    · simp only []; rw [map_wid_mapW _ _ (by intro s; rfl)]; exact h
  | pumpExit w =>
    simp only [step]
    split
    · exact h
    · split
      · simp only []; rw [map_wid_mapW _ _ (by intro s; rfl)]; exact h
      · exact h

/-- Every stream of the state satisfies the bookkeeping invariant. -/
def AllOK (st : St) : Prop := ∀ s ∈ st.streams, StrmOK s

theorem allOK_step (st : St) (o : Op) (hu : Uniq st) (h : AllOK st) : AllOK (step st o).1 := by
  cases o with
  | watch w =>
    simp only [step]
    split
    · exact h
    · intro s hs
      simp only [List.mem_append, List.mem_singleton] at hs
      rcases hs with hs | hs
      · exact h s hs
      · subst hs; exact strmOK_fresh w
  | doc e accepted matched =>
    simp only [step]
    split
    · intro s hs
      simp only [List.mem_map] at hs
      obtain ⟨t, ht, rfl⟩ := hs
      split
      · exact strmOK_emit t e (h t ht)
      · exact h t ht
    · exact h
  | next w =>
    simp only [step]
    split
    · exact h
    · rename_i s0 hf
      split
      · exact h
      · split
        · exact h
        · rename_i e rest hq
          intro s hs
          simp only [mapW, List.mem_map] at hs
          obtain ⟨t, ht, rfl⟩ := hs
          split
          · rename_i htw
            have hts : t = s0 := by
              have := findW_of_mem st.streams hu t ht
              rw [htw, hf] at this; exact (Option.some.inj this).symm
            subst hts
            obtain ⟨h1, ⟨lost, h2⟩, h3⟩ := h t ht
            refine ⟨?_, ⟨lost, ?_⟩, ?_⟩
            · intro hx; simp [h1 hx, hq, List.append_assoc]
            · simp [h2, hq, List.append_assoc]
            · intro hx
              have := h3 hx
              simp [hq] at this
          · exact h t ht
  | close w =>
    simp only [step]
    split
    · exact h
    · intro s hs
      simp only [mapW, List.mem_map] at hs
      obtain ⟨t, ht, rfl⟩ := hs
      split
      · obtain ⟨h1, h2, h3⟩ := h t ht
        exact ⟨h1, h2, fun hx => ⟨(h3 hx).1, rfl⟩⟩
      · exact h t ht
  | pumpExit w =>
    simp only [step]
    split
    · exact h
    · rename_i s0 hf
      split
      · rename_i hc
        intro s hs
        simp only [mapW, List.mem_map] at hs
        obtain ⟨t, ht, rfl⟩ := hs
        split
        · rename_i htw
          have hts : t = s0 := by
            have := findW_of_mem st.streams hu t ht
            rw [htw, hf] at this; exact (Option.some.inj this).symm
          subst hts
          obtain ⟨h1, ⟨lost, h2⟩, h3⟩ := h t ht
          exact ⟨fun hx => by simp at hx, ⟨t.queue ++ lost, by simp [h2, List.append_assoc]⟩, fun _ => ⟨rfl, hc.1⟩⟩
        · exact h t ht
      · exact h

theorem inv_run (st : St) (os : List Op) (hu : Uniq st) (h : AllOK st) :
    Uniq (run st os) ∧ AllOK (run st os) := by
  induction os generalizing st with
  | nil => exact ⟨hu, h⟩
  | cons o os ih => exact ih _ (uniq_step st o hu) (allOK_step st o hu h)

end Uniflow.Stream

open Uniflow.Stream

/-! ## Property theorems -/

/-- **Exactly the matching successful mutations, in order, nothing lost before close.**
For every history of watch / document-mutation / next / close / pump-exit operations and every
watcher `w` whose stream `s` exists at the end: what the consumer has received so far is a
prefix of the events `w` is owed (`expected`: accepted documents matching `w`'s filter between
its `Watch` and its `Close`, in mutation order), and as long as the pump has not exited the
received events followed by the events still queued are *exactly* the owed events – so no event
is lost or duplicated, however slowly the consumer reads. -/
theorem C13.events_exact (h : List Op) (w : Nat) (s : Strm)
    (hs : findW w (run {} h).streams = some s) :
    s.delivered <+: expected w h false false ∧
    (s.exited = false → s.delivered ++ s.queue = expected w h false false) := by
  have hem := emitted_run_absent w h {} rfl s hs
  have hinv := (inv_run {} h (by simp [Uniq]) (by intro s hs; cases hs)).2
  have hmem : s ∈ (run {} h).streams := List.mem_of_find?_eq_some hs
  obtain ⟨h1, ⟨lost, h2⟩, _⟩ := hinv s hmem
  rw [← hem]
  refine ⟨?_, fun hx => (h1 hx).symm⟩
  rw [h2, List.append_assoc]
  exact List.prefix_append _ _

/-- A rejected mutation produces no event for anybody, and an accepted document produces no
event for a watcher whose filter it does not match. -/
theorem C13.no_event_for_rejected_or_unmatched (st : St) (e : Event) (matched : List Nat) :
    (step st (.doc e false matched)).1 = st ∧
    ∀ s ∈ st.streams, ¬ s.wid ∈ matched →
      s ∈ (step st (.doc e true matched)).1.streams := by
  refine ⟨rfl, ?_⟩
  intro s hs hm
  simp only [step, if_true, List.mem_map]
  exact ⟨s, hs, by simp [hm]⟩

/-- Writers never wait for consumers: a writer's operation (`doc`) is enabled in every state,
whatever the consumers have or have not read. -/
theorem C13.writer_never_blocks (st : St) (e : Event) (a : Bool) (m : List Nat) :
    (step st (.doc e a m)).2 = .ok := by
  simp only [step]; split <;> rfl

/-- At the pump level: unless it has exited, the pump either takes an event from `Emit` at once
or does so after one internal step (`park`, the `default:` branch) that needs no consumer. -/
theorem C13.pump_receptive_after_park (p : Pump) (hp : p ≠ .exited) :
    p.receptive = true ∨ ∃ p', pstep false p .park = some p' ∧ p'.receptive = true := by
  cases p with
  | idle => left; rfl
  | trying e => right; exact ⟨.draining [e], rfl, rfl⟩
  | draining b => left; rfl
  | exited => exact absurd rfl hp

/-- The pump is a FIFO: each of its steps acts on `pending` as a queue operation, and it only
exits after `done` has been closed. -/
theorem C13.pump_fifo (done : Bool) (p p' : Pump) (s : PStep) (h : pstep done p s = some p') :
    match s with
    | .recv e => p'.pending = p.pending ++ [e] ∧ done = false
    | .give => ∃ e, p.pending = e :: p'.pending
    | .park => p'.pending = p.pending
    | .quit => p' = .exited ∧ done = true := by
  cases p with
  | idle =>
    cases s <;> simp only [pstep] at h
    · split at h
      · cases h
      · injection h with h; subst h; simp_all [Pump.pending]
    · cases h
    · cases h
    · split at h <;> simp_all
  | trying e0 =>
    cases s <;> simp only [pstep] at h
    · cases h
    · injection h with h; subst h; exact ⟨e0, rfl⟩
    · injection h with h; subst h; rfl
    · split at h <;> simp_all
  | draining b =>
    cases s <;> simp only [pstep] at h
    · split at h
      · cases h
      · injection h with h; subst h; simp_all [Pump.pending]
    · cases b with
      | nil => simp [pstep] at h
      | cons e0 rest =>
        simp only [pstep] at h
        injection h with h; subst h
        refine ⟨e0, ?_⟩
        cases rest <;> simp [Pump.pending]
    · cases h
    · split at h <;> simp_all
  | exited => cases s <;> simp [pstep] at h

/-- Closing (or exiting the pump of) one stream, or reading from it, does not disturb any
other watcher's stream. -/
theorem C13.close_isolated (st : St) (w w' : Nat) (hne : w' ≠ w) :
    findW w' (step st (.close w)).1.streams = findW w' st.streams ∧
    findW w' (step st (.pumpExit w)).1.streams = findW w' st.streams ∧
    findW w' (step st (.next w)).1.streams = findW w' st.streams := by
  refine ⟨?_, ?_, ?_⟩
  · simp only [step]; split
    · rfl
    · exact findW_mapW_other w w' hne _ (by intro s; rfl) _
  · simp only [step]; split
    · rfl
    · split
      · exact findW_mapW_other w w' hne _ (by intro s; rfl) _
      · rfl
  · simp only [step]; split
    · rfl
    · split
      · rfl
      · split
        · rfl
        · exact findW_mapW_other w w' hne _ (by intro s; rfl) _

/-- After `Close` and the pump's exit, `Next` reports the end of the stream. -/
theorem C13.closed_stream_ends (st : St) (w : Nat) (s : Strm) (hs : findW w st.streams = some s)
    (hex : s.exited = true) : (step st (.next w)).2 = .closed := by
  simp [step, hs, hex]

/-- Non-vacuity: a history with two watchers, a rejected document, a non-matching one and a
close, on which the owed events are non-trivial and differ per watcher. -/
theorem C13.events_exact_nonvacuous :
    let h : List Op := [.watch 1, .doc ⟨10, 0⟩ true [1], .watch 2, .doc ⟨11, 0⟩ false [1, 2],
      .doc ⟨12, 1⟩ true [1, 2], .next 1, .close 2, .doc ⟨13, 2⟩ true [1, 2], .pumpExit 2]
    expected 1 h false false = [⟨10, 0⟩, ⟨12, 1⟩, ⟨13, 2⟩] ∧ expected 2 h false false = [⟨12, 1⟩] ∧
    (findW 1 (run {} h).streams).map (·.delivered) = some [⟨10, 0⟩] ∧
    (findW 2 (run {} h).streams).map (·.exited) = some true := by
  decide
