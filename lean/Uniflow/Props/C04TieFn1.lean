/-
C04 – regenerated tie over Generated/ProcessFuncs.lean (extract/funcs.go): the outline of EVERY function of the source
files named below – regenerated from /repo on every run – equals the transcript frozen here (bin/freeze_all.py, repo 7f54b88,
2026-10-01). A theorem that stops checking names the file whose code is no longer the code that was modelled; bin/check then
searches for a failing input.
-/
import Uniflow.Generated.ProcessFuncs

set_option maxRecDepth 16384 in
/-- pkg/process/process.go as modelled (part 1 of 2): its declarations (in source order) and the outline of each -/
theorem C04.src_process_process_as_modelled_1 :
    Uniflow.Generated.ProcessFuncs.o_process_process_fn_New = [
      "p := &Process{ id: uuid.Must(uuid.NewV7()), data: make(map[any]any), startTime: time.Now(), done: make(chan struct{}), }",
      "p.join = sync.NewCond(&p.mu)",
      "return p"
    ] ∧
    Uniflow.Generated.ProcessFuncs.o_process_process_Process_ID = [
      "return p.id"
    ] ∧
    Uniflow.Generated.ProcessFuncs.o_process_process_Process_Keys = [
      "p.mu.RLock()",
      "defer p.mu.RUnlock()",
      "keys := make([]any, 0, len(p.data))",
      "for key := range p.data",
      "  keys = append(keys, key)",
      "if p.parent != nil",
      "  keys = append(keys, p.parent.Keys()...)",
      "return keys"
    ] ∧
    Uniflow.Generated.ProcessFuncs.o_process_process_Process_Value = [
      "p.mu.RLock()",
      "defer p.mu.RUnlock()",
      "if val, ok := p.data[key]; ok",
      "  return val",
      "if p.parent != nil",
      "  return p.parent.Value(key)",
      "return nil"
    ] ∧
    Uniflow.Generated.ProcessFuncs.o_process_process_Process_SetValue = [
      "p.mu.Lock()",
      "defer p.mu.Unlock()",
      "p.data[key] = val"
    ] ∧
    Uniflow.Generated.ProcessFuncs.o_process_process_Process_RemoveValue = [
      "p.mu.Lock()",
      "defer p.mu.Unlock()",
      "if val, ok := p.data[key]; ok",
      "  delete(p.data, key)",
      "  return val",
      "if p.parent != nil",
      "  return p.parent.RemoveValue(key)",
      "return nil"
    ] ∧
    Uniflow.Generated.ProcessFuncs.o_process_process_Process_Status = [
      "p.mu.RLock()",
      "defer p.mu.RUnlock()",
      "return p.status"
    ] ∧
    Uniflow.Generated.ProcessFuncs.o_process_process_Process_Err = [
      "p.mu.RLock()",
      "defer p.mu.RUnlock()",
      "if p.err != nil",
      "  return p.err",
      "if p.status == StatusTerminated",
      "  return context.Canceled",
      "return nil"
    ] ∧
    Uniflow.Generated.ProcessFuncs.o_process_process_Process_StartTime = [
      "return p.startTime"
    ] ∧
    Uniflow.Generated.ProcessFuncs.o_process_process_Process_EndTime = [
      "p.mu.RLock()",
      "defer p.mu.RUnlock()",
      "return p.endTime"
    ] ∧
    Uniflow.Generated.ProcessFuncs.o_process_process_Process_Parent = [
      "return p.parent"
    ] ∧
    Uniflow.Generated.ProcessFuncs.o_process_process_Process_Deadline = [
      "return time.Time{}, false"
    ] ∧
    Uniflow.Generated.ProcessFuncs.o_process_process_Process_Done = [
      "return p.done"
    ] ∧
    Uniflow.Generated.ProcessFuncs.o_process_process_Process_Join = [
      "p.mu.Lock()",
      "defer p.mu.Unlock()",
      "for p.children > 0",
      "  p.join.Wait()"
    ] ∧
    Uniflow.Generated.ProcessFuncs.o_process_process_Process_Fork = [
      "p.mu.Lock()",
      "p.children++",
      "p.mu.Unlock()",
      "child := &Process{ id: uuid.Must(uuid.NewV7()), data: make(map[any]any), endTime: time.Now(), exitHooks: []ExitHook{ ExitFunc(func#1), }, done: make(chan struct{}), parent: p, }",
      "func#1(err error)",
      "  p.mu.Lock()",
      "  defer p.mu.Unlock()",
      "  if p.children--; p.children == 0",
      "    p.join.Broadcast()",
      "child.join = sync.NewCond(&child.mu)",
      "p.AddExitHook(child)",
      "return child"
    ] := by
  decide

set_option maxRecDepth 16384 in
/-- pkg/process/process.go as modelled (part 2 of 2): its declarations (in source order) and the outline of each -/
theorem C04.src_process_process_as_modelled_2 :
    Uniflow.Generated.ProcessFuncs.o_process_process_Process_Exit = [
      "p.mu.Lock()",
      "exitHooks := p.exitHooks",
      "if p.status != StatusTerminated",
      "  close(p.done)",
      "  p.data = make(map[any]any)",
      "  p.status = StatusTerminated",
      "  p.err = err",
      "  p.endTime = time.Now()",
      "  p.exitHooks = nil",
      "p.mu.Unlock()",
      "exitHooks.Exit(err)"
    ] ∧
    Uniflow.Generated.ProcessFuncs.o_process_process_Process_AddExitHook = [
      "p.mu.Lock()",
      "if p.status == StatusTerminated",
      "  err := p.err",
      "  p.mu.Unlock()",
      "  hook.Exit(err)",
      "  return false",
      "for _, h := range p.exitHooks",
      "  if h == hook",
      "    p.mu.Unlock()",
      "    return false",
      "p.exitHooks = append(p.exitHooks, hook)",
      "p.mu.Unlock()",
      "return true"
    ] ∧
    Uniflow.Generated.ProcessFuncs.names_process_process = ["fn.New", "Process.ID", "Process.Keys", "Process.Value", "Process.SetValue", "Process.RemoveValue", "Process.Status", "Process.Err", "Process.StartTime", "Process.EndTime", "Process.Parent", "Process.Deadline", "Process.Done", "Process.Join", "Process.Fork", "Process.Exit", "Process.AddExitHook"] := by
  decide

set_option maxRecDepth 16384 in
/-- pkg/process/exithook.go as modelled: its declarations (in source order) and the outline of each -/
theorem C04.src_process_exithook_as_modelled :
    Uniflow.Generated.ProcessFuncs.o_process_exithook_fn_ExitFunc = [
      "return &exitHook{exit: exit}"
    ] ∧
    Uniflow.Generated.ProcessFuncs.o_process_exithook_ExitHooks_Exit = [
      "for i := len(h) - 1; i >= 0; i--",
      "  hook := h[i]",
      "  hook.Exit(err)"
    ] ∧
    Uniflow.Generated.ProcessFuncs.o_process_exithook_exitHook_Exit = [
      "h.exit(err)"
    ] ∧
    Uniflow.Generated.ProcessFuncs.names_process_exithook = ["fn.ExitFunc", "ExitHooks.Exit", "exitHook.Exit"] := by
  decide

