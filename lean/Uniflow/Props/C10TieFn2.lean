/-
C10 – regenerated tie over Generated/StoreFuncs.lean (extract/funcs.go): the outline of EVERY function of the source
files named below – regenerated from /repo on every run – equals the transcript frozen here (bin/freeze_all.py, repo 7f54b88,
2026-10-01). A theorem that stops checking names the file whose code is no longer the code that was modelled; bin/check then
searches for a failing input.
-/
import Uniflow.Generated.StoreFuncs

set_option maxRecDepth 16384 in
/-- pkg/store/helper.go as modelled (part 1 of 3): its declarations (in source order) and the outline of each -/
theorem C10.src_store_helper_as_modelled_1 :
    Uniflow.Generated.StoreFuncs.o_store_helper_fn_match = [
      "return matchField(doc, true, filter)"
    ] ∧
    Uniflow.Generated.StoreFuncs.o_store_helper_fn_matchField = [
      "f, ok := filter.(types.Map)",
      "if !ok",
      "  return types.Equal(doc, filter), nil",
      "for k, value := range f.Range()",
      "  key, ok := k.(types.String)",
      "  if !ok",
      "    return false, errors.WithMessagef(ErrUnsupportedType, \"key: %v\", types.InterfaceOf(k))",
      "  if !strings.HasPrefix(key.String(), \"$\")",
      "    // A field of a missing or non-map parent is absent. var child types.Value",
      "    var has bool",
      "    if d, ok := doc.(types.Map); ok",
      "      child, has = d.Get(key), d.Has(key)",
      "    ok, err := matchField(child, has, value)",
      "    if err != nil",
      "      return false, err",
      "    if !ok",
      "      return false, nil",
      "    continue",
      "  switch key.String()",
      "    case \"$exists\"",
      "      if exists != (value != nil && !reflect.ValueOf(value).IsZero())",
      "        return false, nil",
      "    case \"$eq\"",
      "      if !types.Equal(doc, value)",
      "        return false, nil",
      "    case \"$ne\"",
      "      if types.Equal(doc, value)",
      "        return false, nil",
      "    case \"$gt\"",
      "      if types.Compare(doc, value) <= 0",
      "        return false, nil",
      "    case \"$lt\"",
      "      if types.Compare(doc, value) >= 0",
      "        return false, nil",
      "    case \"$gte\"",
      "      if types.Compare(doc, value) < 0",
      "        return false, nil",
      "    case \"$lte\"",
      "      if types.Compare(doc, value) > 0",
      "        return false, nil",
      "    case \"$and\"",
      "      vals, ok := value.(types.Slice)",
      "      if !ok",
      "        return false, errors.WithMessagef(ErrUnsupportedType, \"value: %v\", types.InterfaceOf(value))",
      "      for _, sub := range vals.Range()",
      "        match, err := matchField(doc, exists, sub)",
      "        if err != nil",
      "          return false, err",
      "        if !match",
      "          return false, nil",
      "    case \"$or\"",
      "      vals, ok := value.(types.Slice)",
      "      if !ok",
      "        return false, errors.WithMessagef(ErrUnsupportedType, \"value: %v\", types.InterfaceOf(value))",
      "      any := false",
      "      for _, sub := range vals.Range()",
      "        match, err := matchField(doc, exists, sub)",
      "        if err != nil",
      "          return false, err",
      "        if match",
      "          any = true",
      "          break",
      "      if !any",
      "        return false, nil",
      "    default",
      "      return false, errors.WithMessagef(ErrUnsupportedOperation, \"operation: %v\", key.String())",
      "return true, nil"
    ] ∧
    Uniflow.Generated.StoreFuncs.o_store_helper_fn_validate = [
      "f, ok := filter.(types.Map)",
      "if !ok",
      "  return nil",
      "for k, value := range f.Range()",
      "  key, ok := k.(types.String)",
      "  if !ok",
      "    return errors.WithMessagef(ErrUnsupportedType, \"key: %v\", types.InterfaceOf(k))",
      "  if !strings.HasPrefix(key.String(), \"$\")",
      "    if err := validate(value); err != nil",
      "      return err",
      "    continue",
      "  switch key.String()",
      "    case \"$exists\", \"$eq\", \"$ne\", \"$gt\", \"$lt\", \"$gte\", \"$lte\"",
      "    case \"$and\", \"$or\"",
      "      vals, ok := value.(types.Slice)",
      "      if !ok",
      "        return errors.WithMessagef(ErrUnsupportedType, \"value: %v\", types.InterfaceOf(value))",
      "      for _, sub := range vals.Range()",
      "        if err := validate(sub); err != nil",
      "          return err",
      "    default",
      "      return errors.WithMessagef(ErrUnsupportedOperation, \"operation: %v\", key.String())",
      "return nil"
    ] := by
  decide

set_option maxRecDepth 16384 in
/-- pkg/store/store.go as modelled (part 3 of 3): its declarations (in source order) and the outline of each -/
theorem C10.src_store_store_as_modelled_3 :
    Uniflow.Generated.StoreFuncs.o_store_store_store_Find = [
      "s.mu.RLock()",
      "defer s.mu.RUnlock()",
      "var limit int",
      "var skip int",
      "var sort types.Map",
      "for _, opt := range opts",
      "  if opt.Limit > 0",
      "    limit = opt.Limit",
      "  if opt.Skip > 0",
      "    skip = opt.Skip",
      "  if opt.Sort != nil",
      "    var err error",
      "    if sort, err = types.Cast[types.Map](types.Marshal(opt.Sort)); err != nil",
      "      return nil, err",
      "var f types.Map",
      "if filter != nil",
      "  var err error",
      "  if f, err = types.Cast[types.Map](types.Marshal(filter)); err != nil",
      "    return nil, err",
      "docs, err := s.find(f)",
      "if err != nil",
      "  return nil, err",
      "if sort != nil",
      "  slices.SortFunc(docs, func#1)",
      "  func#1(x, y types.Map) int",
      "    for field, o := range sort.Range()",
      "      val1 := x.Get(field)",
      "      val2 := y.Get(field)",
      "      if comp := types.Compare(val1, val2); comp != 0",
      "        order := 1",
      "        _ = types.Unmarshal(o, &order)",
      "        return comp * order",
      "    return 0",
      "if skip > len(docs)",
      "  skip = len(docs)",
      "if limit == 0 || limit > len(docs)-skip",
      "  limit = len(docs) - skip",
      "docs = docs[skip : skip+limit]",
      "return newCursor(docs), nil"
    ] ∧
    Uniflow.Generated.StoreFuncs.o_store_store_store_find = [
      "if err := validate(filter); err != nil",
      "  return nil, err",
      "plan, err := s.explain(filter)",
      "if err != nil",
      "  return nil, err",
      "scan := scanner(s.segment)",
      "for plan != nil",
      "  scan = scan.Scan(plan.key, plan.min, plan.max)",
      "  plan = plan.next",
      "var docs []types.Map",
      "for _, doc := range scan.Range()",
      "  if filter == nil",
      "    docs = append(docs, doc)",
      "    continue",
      "  if ok, err := match(doc, filter); err != nil",
      "    return nil, err",
      "  else",
      "    if ok",
      "      docs = append(docs, doc)",
      "return docs, nil"
    ] ∧
    Uniflow.Generated.StoreFuncs.o_store_store_store_explain = [
      "if filter == nil",
      "  return nil, nil",
      "doc := pinned(filter)",
      "var plans []*executionPlan",
      "for _, idx := range s.segment.Indexes()",
      "  if idx.Filter != nil && (idx.Implied == nil || !idx.Implied(doc))",
      "    continue",
      "  if plan := newExecutionPlan(idx.Keys, filter); plan != nil",
      "    plans = append(plans, plan)",
      "var plan *executionPlan",
      "for _, p := range plans",
      "  if plan == nil || p.lenght() > plan.lenght()",
      "    plan = p",
      "return plan, nil"
    ] ∧
    Uniflow.Generated.StoreFuncs.o_store_store_store_emit = [
      "id := doc.Get(types.NewString(\"id\"))",
      "if id == nil",
      "  return errors.WithMessage(ErrKeyMissing, \"key: id\")",
      "for _, strm := range s.streams",
      "  if ok, err := strm.Match(doc); err != nil",
      "    return err",
      "  else",
      "    if ok",
      "      strm.Emit(types.NewMap(types.NewString(\"op\"), op, types.NewString(\"id\"), id))",
      "return nil"
    ] ∧
    Uniflow.Generated.StoreFuncs.names_store_store = ["fn.New", "store.Watch", "store.Index", "store.Unindex", "store.Insert", "store.Update", "store.Delete", "store.Find", "store.find", "store.explain", "store.emit"] := by
  decide

set_option maxRecDepth 16384 in
/-- pkg/store/helper.go as modelled (part 3 of 3): its declarations (in source order) and the outline of each -/
theorem C10.src_store_helper_as_modelled_3 :
    Uniflow.Generated.StoreFuncs.o_store_helper_fn_extract = [
      "f, ok := filter.(types.Map)",
      "if !ok",
      "  return filter, nil",
      "doc := types.NewMap().Mutable()",
      "for k, value := range f.Range()",
      "  key, ok := k.(types.String)",
      "  if !ok",
      "    continue",
      "  if !strings.HasPrefix(key.String(), \"$\")",
      "    child, err := extract(value)",
      "    if err != nil",
      "      return nil, err",
      "    if child != nil",
      "      doc = doc.Set(key, child)",
      "    continue",
      "  switch key.String()",
      "    case \"$eq\"",
      "      return value, nil",
      "    case \"$and\", \"$or\"",
      "      vals, ok := value.(types.Slice)",
      "      if !ok",
      "        return nil, errors.WithMessagef(ErrUnsupportedType, \"value: %v\", types.InterfaceOf(value))",
      "      for _, sub := range vals.Range()",
      "        child, err := types.Cast[types.Map](extract(sub))",
      "        if err != nil",
      "          return nil, err",
      "        for key, val := range child.Range()",
      "          if doc.Has(key)",
      "            return nil, errors.WithMessagef(ErrKeyDuplicate, \"key: %v\", key.Interface())",
      "          doc = doc.Set(key, val)",
      "    default",
      "      return nil, nil",
      "return doc.Immutable(), nil"
    ] ∧
    Uniflow.Generated.StoreFuncs.names_store_helper = ["fn.match", "fn.matchField", "fn.validate", "fn.patch", "fn.pinned", "fn.fields", "fn.extract"] := by
  decide

set_option maxRecDepth 16384 in
/-- pkg/store/cursor.go as modelled: its declarations (in source order) and the outline of each -/
theorem C10.src_store_cursor_as_modelled :
    Uniflow.Generated.StoreFuncs.o_store_cursor_fn_newCursor = [
      "return &cursor{docs: append([]types.Map{nil}, docs...)}"
    ] ∧
    Uniflow.Generated.StoreFuncs.o_store_cursor_cursor_All = [
      "if len(c.docs) == 0",
      "  return errors.WithStack(encoding.ErrUnsupportedType)",
      "elements := make([]types.Value, 0, len(c.docs))",
      "for _, doc := range c.docs[1:]",
      "  elements = append(elements, doc)",
      "c.docs = nil",
      "return types.Unmarshal(types.NewSlice(elements...), val)"
    ] ∧
    Uniflow.Generated.StoreFuncs.o_store_cursor_cursor_Next = [
      "if len(c.docs) <= 1",
      "  return false",
      "c.docs = c.docs[1:]",
      "return true"
    ] ∧
    Uniflow.Generated.StoreFuncs.o_store_cursor_cursor_Decode = [
      "if len(c.docs) == 0",
      "  return errors.WithStack(encoding.ErrUnsupportedType)",
      "return types.Unmarshal(c.docs[0], val)"
    ] ∧
    Uniflow.Generated.StoreFuncs.o_store_cursor_cursor_Close = [
      "c.docs = nil",
      "return nil"
    ] ∧
    Uniflow.Generated.StoreFuncs.names_store_cursor = ["fn.newCursor", "cursor.All", "cursor.Next", "cursor.Decode", "cursor.Close"] := by
  decide

