/-
C01 – regenerated tie over Generated/C01LayerFuncs.lean (extract/funcs.go): for every source file the models of this
property were transcribed from, the outline of EVERY function of that file – regenerated from /repo on every run –
equals the transcript frozen here (bin/freeze_outlines.py, repo 68af5b4, 2026-10-01). A theorem that stops checking
names the file whose code is no longer the code that was modelled; bin/check then searches for a failing input.
-/
import Uniflow.Generated.C01LayerFuncs

set_option maxRecDepth 16384 in
/-- pkg/packet/hook.go as modelled: its declarations (in source order) and the outline of each -/
theorem C01.src_packet_hook_as_modelled :
    Uniflow.Generated.C01LayerFuncs.o_packet_hook_fn_HookFunc = [
      "return &hook{handle: handle}"
    ] ∧
    Uniflow.Generated.C01LayerFuncs.o_packet_hook_Hooks_Handle = [
      "for _, hook := range h",
      "  hook.Handle(pck)"
    ] ∧
    Uniflow.Generated.C01LayerFuncs.o_packet_hook_hook_Handle = [
      "h.handle(pck)"
    ] ∧
    Uniflow.Generated.C01LayerFuncs.names_packet_hook = ["fn.HookFunc", "Hooks.Handle", "hook.Handle"] := by
  decide

