/-
C02 — nodes answer each request once, in order, after all derived packets: the END-TO-END statement
`C02.flow_answers_eq_ref_full` (Props/C02.lean) proved for the classes T1 ⊆ T2 ⊆ T3 ⊆ T4 ⊆ T5 ⊆ T6 ⊆ T7 of workflows and
schedules. Each `C02.flow_answers_eq_ref_T<k>` is literally the full statement with ONE additional hypothesis
`C02.ClassT<k> kinds links es`; `C02.classT<k-1>_sub_T<k>` are the inclusions and `C02.flow_T<k>_instance` /
`C02.flow_class_instance` the non-vacuity instances. The table of classes and what remains open is in the header
of Props/C02.lean.

  T1  one-to-one nodes, forest of links                      invariant `FlowInv.FI`   Proofs/FlowInv1..16
  T2  one-to-one nodes, any forward links                    invariant `FlowG.GI`     Proofs/FlowG1..15
  T3  + one-to-many nodes                                    corollary of T5          (defs: Proofs/FlowH3, FlowH4)
  T4  + actions returning no packet                          corollary of T5
  T5  + many-to-one nodes (all three kinds)                  invariant `FlowN.HI`     Proofs/FlowM1..9, FlowN1..21
  T6  + actions returning their input packet (pass-through)                           Proofs/FlowN18s, FlowN19
  T7  + actions of any kind (also one-to-one) returning nothing                       Proofs/FlowN19

The statement WITHOUT a class hypothesis is `C02.flow_answers_eq_ref_all` (Props/C02All.lean): every well-formed
workflow (`C02.WorkflowWF` = `FlowN.GraphWF5`), every schedule, every result shape; T1 … T7 are corollaries.

What the union of T1 … T7 – and `flow_answers_eq_ref_all` – leaves out of the property's quantifier ("for all
acyclic workflows of the three node kinds, all payload routings incl. drop and error, all arrival interleavings"):
 * result shapes / routings: NOTHING. An action may return a new packet, its in packet, an error packet (error port
   linked or not: an error nobody accepts is answered with itself through the tracer, in arrival order –
   `C02.flow_unlinked_error_instance`), new packets / the in packet on any out ports, nothing; unlinked out ports,
   fan-out, fan-in. (The classes T1 … T7 restricted WHICH node kind may return WHICH shape – e.g. `many` only on
   one-to-many nodes –; `FlowN.prog_any` covers every kind × shape, including the `Rel`s that no Go action signature
   can produce.)
 * interleavings: NOTHING at the granularity of the Flow machine (`Ext`: send / an action returns / a sink answers,
   each followed by `settle`: every enabled tracer call of every thread and every pending answer delivery, in one
   fixed order). Interleavings of the individual `Link`/`Write`/`Receive` calls of DIFFERENT nodes within one settle
   phase are not quantified over at flow level; per node they are (`C02.node_contract`, every schedule of `Node.Step`).
 * workflows: only the encoding bounds of `Uniflow.Flow` – at most 1000 nodes, at most 62 out ports per one-to-many
   node (was 6: the pump `maxW` is now 64), at most 63 in-ports per many-to-one node – and the well-formedness every
   real workflow has (links into existing in-ports, no in-port twice on one out port, source linked). See the header
   of Props/C02All.lean for why the bounds are artefacts and what removing them takes.
 * one process per workflow run (the model is per process; several processes through the same nodes are exercised
   by the harness only), writers / readers never close (teardown is C03's), acyclic workflows only.
-/
import Uniflow.Props.C02
import Uniflow.Proofs.FlowInv16
import Uniflow.Proofs.FlowG15
import Uniflow.Proofs.FlowN21

open Uniflow.Tracer Uniflow.Node Uniflow.NodeSpec

/-! ### the end-to-end statement for class T1 (proof by the global invariant, `Proofs/FlowInv1..13`)

Class T1: every node is one-to-one; the links form a forest rooted at the source (`FlowInv.TreeWF`: every
writer feeds at most one reader, every reader is fed by exactly one writer, node in-port 0 only, links
go forward, the source is linked); an action returns one NEW packet on its out port or one new packet on
its error port (`FlowInv.ExtT1`).  Arbitrary depth, arbitrarily many requests in flight, unlinked out /
error ports (echo), every interleaving of `send` / `release` / `sinkAnswer`. -/

open Uniflow.Flow in
/-- **The global invariant holds in every reachable state (class T1).** `FlowInv.FI` (file
`Proofs/FlowInv1.lean`) ties the layers together: every node refines its one-to-one spec state; per
writer, the pending writes are the queued answers followed by the pending rows, aligned with the node's
`written` cells and with the requests held by the linked reader, whose FIFO names this writer; every
stored answer is the reference answer of its packet; live packet ids are distinct across containers. -/
theorem C02.flow_invariant_partial (N : Nat) (links : List (Nat × List Tgt)) (es : List Ext)
    (hwf : Uniflow.FlowInv.TreeWF N links) (hes : ∀ e ∈ es, Uniflow.FlowInv.ExtT1 e) :
    ∃ ss, Uniflow.FlowInv.FI N links ss Uniflow.FlowInv.D0 (runExt (initG (List.replicate N .oneToOne) links) es) :=
  Uniflow.FlowInv.FIe_runExt N links hwf es _ hes (Uniflow.FlowInv.FIe_init N links hwf)

open Uniflow.Flow in
/-- **Safety half of `C02.flow_answers_eq_ref_full`, class T1, every schedule, every prefix**: the i-th
response the source has received is the reference answer of its i-th request – so a response exists only
when every packet derived from the request, down to the sinks, has been answered, responses come in
request order and none is duplicated or invented. -/
theorem C02.flow_safety_partial (N : Nat) (links : List (Nat × List Tgt)) (es : List Ext)
    (hwf : Uniflow.FlowInv.TreeWF N links) (hes : ∀ e ∈ es, Uniflow.FlowInv.ExtT1 e) (i : Nat) (a : Ans) :
    (runExt (initG (List.replicate N .oneToOne) links) es).resp[i]? = some a →
    ∃ p, (runExt (initG (List.replicate N .oneToOne) links) es).roots[i]? = some p ∧
      ∃ f, refAns (runExt (initG (List.replicate N .oneToOne) links) es).log f p = some a :=
  Uniflow.FlowInv.FIe_safety N links _
    (Uniflow.FlowInv.FIe_runExt N links hwf es _ hes (Uniflow.FlowInv.FIe_init N links hwf)) i a

open Uniflow.Flow in
/-- **Quiescence half of `C02.flow_answers_eq_ref_full`, class T1, every schedule**: when nothing is left
to do (no sink holds a request, every pump queue, tracer and inbox is empty) every request of the source
has exactly one response (`resp.length = roots.length`; by `C02.flow_safety_partial` the i-th one is the
reference answer of the i-th request), and whenever the executable reference `refAnswers` (fuel
`next + 1`) is determined it is exactly the list of responses. (Not proved: that fuel `next + 1` always
suffices, i.e. `refAnswers g ≠ none` here – it needs the additional log-order invariant "derived ids are
larger than their parent's"; the driver checks it on every run, `M1`.) -/
theorem C02.flow_quiescent_partial (N : Nat) (links : List (Nat × List Tgt)) (es : List Ext)
    (hwf : Uniflow.FlowInv.TreeWF N links) (hes : ∀ e ∈ es, Uniflow.FlowInv.ExtT1 e) :
    quiescent (runExt (initG (List.replicate N .oneToOne) links) es) = true →
    (runExt (initG (List.replicate N .oneToOne) links) es).resp.length =
      (runExt (initG (List.replicate N .oneToOne) links) es).roots.length ∧
    ∀ l, refAnswers (runExt (initG (List.replicate N .oneToOne) links) es) = some l →
      l = (runExt (initG (List.replicate N .oneToOne) links) es).resp :=
  Uniflow.FlowInv.FIe_quiescent_ref N links hwf _
    (Uniflow.FlowInv.FIe_runExt N links hwf es _ hes (Uniflow.FlowInv.FIe_init N links hwf))

open Uniflow.Flow in
/-- **`Write` copies (class T1, every reachable state).** What `deliver` – the model of `Writer.Write`
handing a packet to one linked reader – gives the node behind the reader is a packet with the id
`g.next`, and no live tracer entry of that node (`receives`, `reader`, `sources`, `targets`, the maps the
tracer keys by `pck.ID()`) uses that id: two requests reaching one in-port are never folded into one
tracer entry, even when they stem from ONE packet object (an action handing its in packet to several
outputs that fan in, a client writing one packet twice). The node contract (`C02.node_contract`,
freshness of the ids a node is handed) rests on this. A `Writer.Write` that passes the caller's packet
through uncopied violates it; the correspondence exercises it with `resend` (the source writes the packet
object of its previous request again) and `rel n s k` (a one-to-many action returns its in packet on k
outputs that lead to one in-port). -/
theorem C02.deliver_copies (N : Nat) (links : List (Nat × List Tgt)) (es : List Ext)
    (hwf : Uniflow.FlowInv.TreeWF N links) (hes : ∀ e ∈ es, Uniflow.FlowInv.ExtT1 e)
    (m port key : Nat) (v : Val) (nd nd' : Node) (ev : List Ev) :
    getNode (runExt (initG (List.replicate N .oneToOne) links) es).nodes m = some nd →
    Uniflow.Node.step nd (.deliver port ⟨(runExt (initG (List.replicate N .oneToOne) links) es).next, v⟩) = some (nd', ev) →
    getNode (deliver (runExt (initG (List.replicate N .oneToOne) links) es) key v (.node m port)).nodes m = some nd' ∧
    Uniflow.Tracer.aget nd.tr.receives (runExt (initG (List.replicate N .oneToOne) links) es).next = none ∧
    Uniflow.Tracer.aget nd.tr.reader (runExt (initG (List.replicate N .oneToOne) links) es).next = none ∧
    Uniflow.Tracer.aget nd.tr.sources (runExt (initG (List.replicate N .oneToOne) links) es).next = none ∧
    Uniflow.Tracer.aget nd.tr.targets (runExt (initG (List.replicate N .oneToOne) links) es).next = none := by
  intro hn hs
  exact ⟨(Uniflow.FlowInv.deliver_node _ key v m port nd nd' ev hn hs).1,
    Uniflow.FlowInv.FIe_fresh N links _
      (Uniflow.FlowInv.FIe_runExt N links hwf es _ hes (Uniflow.FlowInv.FIe_init N links hwf)) m nd hn _ (Nat.le_refl _)⟩

open Uniflow.Flow in
/-- the ghost derivation tree of every reachable T1 state is ordered (children have larger ids than their
parent, all below `next`) – the fact that makes the fuel `next + 1` of `refAnswers` sufficient
(`FlowInv.refAns_fuel_bound`) -/
theorem C02.flow_log_ordered_partial (N : Nat) (links : List (Nat × List Tgt)) (es : List Ext)
    (hwf : Uniflow.FlowInv.TreeWF N links) (hes : ∀ e ∈ es, Uniflow.FlowInv.ExtT1 e) :
    Uniflow.FlowInv.LogOrd (runExt (initG (List.replicate N .oneToOne) links) es).log
      (runExt (initG (List.replicate N .oneToOne) links) es).next :=
  Uniflow.FlowInv.FIe_logOrd N links _
    (Uniflow.FlowInv.FIe_runExt N links hwf es _ hes (Uniflow.FlowInv.FIe_init N links hwf))

/-- **Class T1** of workflows and schedules: every node one-to-one, the links a forest rooted at the linked
source (`FlowInv.TreeWF`), every action returns one new out packet or one new error packet
(`FlowInv.ExtT1`) -/
def C02.ClassT1 (kinds : List Kind) (links : List (Nat × List Uniflow.Flow.Tgt)) (es : List Uniflow.Flow.Ext) : Prop :=
  (∃ N, kinds = List.replicate N .oneToOne ∧ Uniflow.FlowInv.TreeWF N links) ∧ ∀ e ∈ es, Uniflow.FlowInv.ExtT1 e

open Uniflow.Flow in
/-- **The end-to-end statement for class T1** – literally `C02.flow_answers_eq_ref_full` with the one
additional hypothesis `C02.ClassT1 kinds links es`: at every prefix the i-th response the source has
received is the reference answer of its i-th request, and at quiescence `refAnswers g = some g.resp`
(every request has exactly one response, in request order, equal to the join over its derivation tree). -/
theorem C02.flow_answers_eq_ref_T1 :
    ∀ (kinds : List Kind) (links : List (Nat × List Tgt)) (es : List Ext),
    C02.FlowWF kinds links → Uniflow.Tracer.getL links srcKey ≠ [] → (∀ e ∈ es, e.fresh = true) →
    C02.ClassT1 kinds links es →
    let g := runExt (initG kinds links) es
    (∀ (i : Nat) (a : Ans), g.resp[i]? = some a → ∃ p, g.roots[i]? = some p ∧ ∃ f, refAns g.log f p = some a) ∧
    (quiescent g = true → anyPanic g = false → refAnswers g = some g.resp) := by
  intro kinds links es _ _ _ hc
  obtain ⟨⟨N, hk, hwf⟩, hes⟩ := hc
  subst hk
  have hI := Uniflow.FlowInv.FIe_runExt N links hwf es _ hes (Uniflow.FlowInv.FIe_init N links hwf)
  exact ⟨Uniflow.FlowInv.FIe_safety N links _ hI,
    fun hq _ => Uniflow.FlowInv.FIe_quiescent_ref_eq N links hwf _ hI hq⟩

/-- non-vacuity of class T1: source → node 0 → node 1 → sink 0 (error ports unlinked) is in the class -/
theorem C02.flow_class_instance : Uniflow.FlowInv.TreeWF 2 Uniflow.FlowInv.chainLinks :=
  Uniflow.FlowInv.chain_wf

/-! ### class T2: one-to-one nodes, arbitrary forward links (fan-out and fan-in) -/

/-- **Class T2**: every node one-to-one; ANY forward links – a writer may feed several readers (fan-out:
rows with one cell per reader, joined in link order), a reader may be fed by several writers (fan-in: its
FIFO mixes writers) – `FlowG.GraphWF` (no reader twice on one writer, node in-port 0, source linked);
every action returns one new out packet or one new error packet (`FlowInv.ExtT1`). Contains class T1. -/
def C02.ClassT2 (kinds : List Kind) (links : List (Nat × List Uniflow.Flow.Tgt)) (es : List Uniflow.Flow.Ext) : Prop :=
  (∃ N, kinds = List.replicate N .oneToOne ∧ Uniflow.FlowG.GraphWF N links) ∧ ∀ e ∈ es, Uniflow.FlowInv.ExtT1 e

open Uniflow.Flow in
/-- the general-links invariant `FlowG.GI` (per writer: queued answers ++ pending rows with one
`(copy, answer?)` cell per linked reader; per reader: the FIFO of feeding writers aligned with the held
requests, of which each writer sees its own sub-sequence) holds in every reachable state of class T2 -/
theorem C02.flow_invariant_T2 (N : Nat) (links : List (Nat × List Tgt)) (es : List Ext)
    (hwf : Uniflow.FlowG.GraphWF N links) (hes : ∀ e ∈ es, Uniflow.FlowInv.ExtT1 e) :
    ∃ ss, Uniflow.FlowG.GI N links ss Uniflow.FlowInv.D0 (runExt (initG (List.replicate N .oneToOne) links) es) :=
  Uniflow.FlowG.GIe_runExt N links hwf es _ hes (Uniflow.FlowG.GIe_init N links hwf)

open Uniflow.Flow in
/-- **The end-to-end statement for class T2** (one-to-one nodes, fan-out and fan-in) – literally
`C02.flow_answers_eq_ref_full` with the one additional hypothesis `C02.ClassT2 kinds links es`: at every
prefix the i-th response the source has received is the reference answer of its i-th request, and at
quiescence `refAnswers g = some g.resp`. -/
theorem C02.flow_answers_eq_ref_T2 :
    ∀ (kinds : List Kind) (links : List (Nat × List Tgt)) (es : List Ext),
    C02.FlowWF kinds links → Uniflow.Tracer.getL links srcKey ≠ [] → (∀ e ∈ es, e.fresh = true) →
    C02.ClassT2 kinds links es →
    let g := runExt (initG kinds links) es
    (∀ (i : Nat) (a : Ans), g.resp[i]? = some a → ∃ p, g.roots[i]? = some p ∧ ∃ f, refAns g.log f p = some a) ∧
    (quiescent g = true → anyPanic g = false → refAnswers g = some g.resp) := by
  intro kinds links es _ _ _ hc
  obtain ⟨⟨N, hk, hwf⟩, hes⟩ := hc
  subst hk
  have hI := Uniflow.FlowG.GIe_runExt N links hwf es _ hes (Uniflow.FlowG.GIe_init N links hwf)
  exact ⟨Uniflow.FlowG.GIe_safety N links _ hI,
    fun hq _ => Uniflow.FlowG.GIe_quiescent_ref_eq N links hwf _ hI hq⟩

/-- class T1 is contained in class T2 (a forest is a graph without duplicate readers on a writer) -/
theorem C02.classT1_sub_T2 (kinds : List Kind) (links : List (Nat × List Uniflow.Flow.Tgt)) (es : List Uniflow.Flow.Ext)
    (h : C02.ClassT1 kinds links es) : C02.ClassT2 kinds links es := by
  obtain ⟨⟨N, hk, hwf⟩, hes⟩ := h
  refine ⟨⟨N, hk, ?_⟩, hes⟩
  refine ⟨hwf.small, ?_, hwf.tnode, hwf.src, hwf.keys, hwf.fwd⟩
  intro key
  have := hwf.single key
  cases hl : Uniflow.Tracer.getL links key with
  | nil => simp
  | cons t ts =>
    rw [hl] at this
    cases ts with
    | nil => simp
    | cons _ _ => simp at this

open Uniflow.Flow in
/-- a schedule on the fan-out/fan-in diamond `FlowG.diamond1Links` (node 0's out port feeds nodes 1 and 2,
both feed node 3's in-port): one request, every action transforms, the sink answers `11` then `12` -/
def C02.diamond1Sched : List Ext :=
  [.send (.atom 5), .release 0 (.out (.atom 6)), .release 1 (.out (.atom 7)), .release 2 (.out (.atom 8)),
   .release 3 (.out (.atom 9)), .sinkAnswer 0 (some (.pay (.atom 11))), .release 3 (.out (.atom 10)),
   .sinkAnswer 0 (some (.pay (.atom 12)))]

open Uniflow.Flow in
/-- **non-vacuity of class T2**: the diamond with a fan-out writer and a fan-in reader is in the class, the
schedule above is a class schedule, it reaches quiescence without panic, and the one response is the join
`[11, 12]` of the answers to the two copies node 0's writer handed out (link order) = `refAnswers`. -/
theorem C02.flow_T2_instance :
    C02.ClassT2 (List.replicate 4 .oneToOne) Uniflow.FlowG.diamond1Links C02.diamond1Sched ∧
    quiescent (runExt (initG (List.replicate 4 .oneToOne) Uniflow.FlowG.diamond1Links) C02.diamond1Sched) = true ∧
    anyPanic (runExt (initG (List.replicate 4 .oneToOne) Uniflow.FlowG.diamond1Links) C02.diamond1Sched) = false ∧
    (match refAnswers (runExt (initG (List.replicate 4 .oneToOne) Uniflow.FlowG.diamond1Links) C02.diamond1Sched),
           (runExt (initG (List.replicate 4 .oneToOne) Uniflow.FlowG.diamond1Links) C02.diamond1Sched).resp with
     | some [.pay (.slice [.atom 11, .atom 12])], [.pay (.slice [.atom 11, .atom 12])] => true
     | _, _ => false) = true := by
  refine ⟨⟨⟨4, rfl, Uniflow.FlowG.diamond1_wf⟩, ?_⟩, ?_, ?_, ?_⟩
  · intro e he
    simp only [C02.diamond1Sched, List.mem_cons, List.mem_nil_iff, or_false] at he
    rcases he with h | h | h | h | h | h | h | h <;> subst h <;> trivial
  · rfl
  · rfl
  · rfl

/-! ### class T3: one-to-one and one-to-many nodes, arbitrary forward links -/

/-- **Class T3**: every node is one-to-one or one-to-many (at most 6 out ports, so that all its writers fit
the pump `maxW`); ANY forward links (`FlowH.GraphWF3`: fan-out, fan-in, no reader twice on one writer, node
in-port 0, source linked); the schedules `FlowH.ExtT3`: the source sends, a sink answers, an action returns
one new packet (`out`), one new error packet (`err`) or – in a one-to-many node – new packets on several out
ports of which at least one exists (`many`). A request then has a LIST of derived packets; its answer is
the join of their answers in link order. Contains class T2. -/
def C02.ClassT3 (kinds : List Kind) (links : List (Nat × List Uniflow.Flow.Tgt)) (es : List Uniflow.Flow.Ext) : Prop :=
  Uniflow.FlowH.GraphWF3 kinds links ∧ ∀ e ∈ es, Uniflow.FlowH.ExtT3 kinds e

/-- class T2 is contained in class T3 -/
theorem C02.classT2_sub_T3 (kinds : List Kind) (links : List (Nat × List Uniflow.Flow.Tgt)) (es : List Uniflow.Flow.Ext)
    (h : C02.ClassT2 kinds links es) : C02.ClassT3 kinds links es := by
  obtain ⟨⟨N, hk, hwf⟩, hes⟩ := h
  subst hk
  exact ⟨Uniflow.FlowH.graphWF3_of_graphWF N links hwf,
    fun e he => Uniflow.FlowH.extT3_of_extT1 _ (fun k hk => (List.mem_replicate.mp hk).2) e (hes e he)⟩

open Uniflow.Flow in
/-- a schedule on `FlowH.forkLinks` / `FlowH.forkKinds`: node 0 is one-to-many with two out ports feeding
nodes 1 and 2, which both feed node 3's in-port; the fork returns a packet on each out port -/
def C02.forkSched : List Ext :=
  [.send (.atom 5), .release 0 (.many [some (.atom 6), some (.atom 7)]), .release 1 (.out (.atom 8)),
   .release 2 (.out (.atom 9)), .release 3 (.out (.atom 10)), .sinkAnswer 0 (some (.pay (.atom 11))),
   .release 3 (.out (.atom 12)), .sinkAnswer 0 (some (.pay (.atom 13)))]

open Uniflow.Flow in
/-- **non-vacuity of class T3**: the fork workflow with a one-to-many node is in the class, the schedule
above is a class schedule, it reaches quiescence without panic, and the one response is the join `[11, 13]`
of the answers to the two packets the fork derived (link order) = `refAnswers`. -/
theorem C02.flow_T3_instance :
    C02.ClassT3 Uniflow.FlowH.forkKinds Uniflow.FlowH.forkLinks C02.forkSched ∧
    quiescent (runExt (initG Uniflow.FlowH.forkKinds Uniflow.FlowH.forkLinks) C02.forkSched) = true ∧
    anyPanic (runExt (initG Uniflow.FlowH.forkKinds Uniflow.FlowH.forkLinks) C02.forkSched) = false ∧
    (match refAnswers (runExt (initG Uniflow.FlowH.forkKinds Uniflow.FlowH.forkLinks) C02.forkSched),
           (runExt (initG Uniflow.FlowH.forkKinds Uniflow.FlowH.forkLinks) C02.forkSched).resp with
     | some [.pay (.slice [.atom 11, .atom 13])], [.pay (.slice [.atom 11, .atom 13])] => true
     | _, _ => false) = true := by
  refine ⟨⟨Uniflow.FlowH.fork_wf, ?_⟩, ?_, ?_, ?_⟩
  · intro e he
    simp only [C02.forkSched, List.mem_cons, List.mem_nil_iff, or_false] at he
    rcases he with h | h | h | h | h | h | h | h <;> subst h
    · trivial
    · exact ⟨2, rfl, 0, .atom 6, by decide, rfl⟩
    · exact Or.inr (Or.inl rfl)
    · exact Or.inr (Or.inl rfl)
    · exact Or.inr (Or.inl rfl)
    · trivial
    · exact Or.inr (Or.inl rfl)
    · trivial
  · rfl
  · rfl
  · rfl

/-! ### class T4: T3 plus actions returning NO packet -/

/-- **Class T4** = class T3 with richer schedules (`FlowH.ExtT4`): a one-to-many action may return nothing
(`drop`) or any list of packets (`many`, possibly none of them on an existing port). Such a request derives no
packet; the node answers it with the request packet itself (`Write(nil, in)`) – at once when no earlier request
of the in-port is open, else when those are answered. Contains class T3. -/
def C02.ClassT4 (kinds : List Kind) (links : List (Nat × List Uniflow.Flow.Tgt)) (es : List Uniflow.Flow.Ext) : Prop :=
  Uniflow.FlowH.GraphWF3 kinds links ∧ ∀ e ∈ es, Uniflow.FlowH.ExtT4 kinds e

/-- class T3 is contained in class T4 -/
theorem C02.classT3_sub_T4 (kinds : List Kind) (links : List (Nat × List Uniflow.Flow.Tgt)) (es : List Uniflow.Flow.Ext)
    (h : C02.ClassT3 kinds links es) : C02.ClassT4 kinds links es :=
  ⟨h.1, fun e he => Uniflow.FlowH.extT4_of_extT3 kinds e (h.2 e he)⟩

open Uniflow.Flow in
/-- two pipelined requests on the fork workflow: the first is split (one packet on out port 0), the second's
action returns nothing – it is answered with itself, but only after the first -/
def C02.dropSched : List Ext :=
  [.send (.atom 5), .send (.atom 6), .release 0 (.many [some (.atom 7)]), .release 0 .drop,
   .release 1 (.out (.atom 8)), .release 3 (.out (.atom 9)), .sinkAnswer 0 (some (.pay (.atom 10)))]

open Uniflow.Flow in
/-- **non-vacuity of class T4**: after the fork dropped the second request (5 steps) nothing has been answered
yet – the echo waits for the first request –; at the end the responses are `10` (the sink's answer) and `6` (the
second request itself), in request order, = `refAnswers`. -/
theorem C02.flow_T4_instance :
    C02.ClassT4 Uniflow.FlowH.forkKinds Uniflow.FlowH.forkLinks C02.dropSched ∧
    (runExt (initG Uniflow.FlowH.forkKinds Uniflow.FlowH.forkLinks) (C02.dropSched.take 5)).resp = [] ∧
    quiescent (runExt (initG Uniflow.FlowH.forkKinds Uniflow.FlowH.forkLinks) C02.dropSched) = true ∧
    anyPanic (runExt (initG Uniflow.FlowH.forkKinds Uniflow.FlowH.forkLinks) C02.dropSched) = false ∧
    (match refAnswers (runExt (initG Uniflow.FlowH.forkKinds Uniflow.FlowH.forkLinks) C02.dropSched),
           (runExt (initG Uniflow.FlowH.forkKinds Uniflow.FlowH.forkLinks) C02.dropSched).resp with
     | some [.pay (.atom 10), .pay (.atom 6)], [.pay (.atom 10), .pay (.atom 6)] => true
     | _, _ => false) = true := by
  refine ⟨⟨Uniflow.FlowH.fork_wf, ?_⟩, rfl, rfl, rfl, rfl⟩
  intro e he
  simp only [C02.dropSched, List.mem_cons, List.mem_nil_iff, or_false] at he
  rcases he with h | h | h | h | h | h | h <;> subst h
  · trivial
  · trivial
  · exact Or.inr ⟨2, rfl⟩
  · exact Or.inr ⟨2, rfl⟩
  · exact Or.inr (Or.inl rfl)
  · exact Or.inr (Or.inl rfl)
  · trivial

/-! ### class T5: T4 plus many-to-one (join) nodes – all three node kinds -/

open Uniflow.Flow in
/-- the join workflow of `C02.diamondLinks` with one-to-one nodes 1 and 2: node 0 (one-to-many, 2 ports) feeds
nodes 1 and 2; node 1 feeds in-port 0, node 2 feeds in-port 1 of the two-input join node 3; node 3 → sink 0 -/
def C02.joinKinds : List Kind := [.oneToMany 2, .oneToOne, .oneToOne, .manyToOne 2]

open Uniflow.Flow in
/-- three pipelined requests; in-port 0 of the join runs THREE requests ahead (node 1 releases all three before
node 2 releases any) – three `ReadGroup` rows are open; then node 2's packets arrive one by one -/
def C02.joinSched : List Ext :=
  [.send (.atom 1), .send (.atom 2), .send (.atom 3),
   .release 0 (.many [some (.atom 11), some (.atom 12)]), .release 0 (.many [some (.atom 21), some (.atom 22)]),
   .release 0 (.many [some (.atom 31), some (.atom 32)]),
   .release 1 (.out (.atom 41)), .release 1 (.out (.atom 42)), .release 1 (.out (.atom 43)),
   .release 2 (.out (.atom 51)), .release 3 (.out (.atom 61)), .sinkAnswer 0 (some (.pay (.atom 71))),
   .release 2 (.out (.atom 52)), .release 3 (.out (.atom 62)), .sinkAnswer 0 (some (.pay (.atom 72))),
   .release 2 (.out (.atom 53)), .release 3 (.out (.atom 63)), .sinkAnswer 0 (some (.pay (.atom 73)))]

open Uniflow.Flow in
/-- **Instance for a two-input join with one input three requests ahead** (the case seeded change c02g broke:
`ReadGroup.Read` must put a packet into the OLDEST row with an empty slot). On the model the run reaches
quiescence without panic; the responses are, in request order, `[41, 71]`, `[42, 72]`, `[43, 73]` – the member
on in-port 0 that did not complete its group is answered with itself (`4i`), the member on in-port 1 that
completed the i-th (oldest open) group with the sink's answer `7i` – and they equal `refAnswers`. With "newest
row" the first packet on in-port 1 would complete the group of request 3. -/
theorem C02.join_oldest_row_instance :
    quiescent (runExt (initG C02.joinKinds C02.diamondLinks) C02.joinSched) = true ∧
    anyPanic (runExt (initG C02.joinKinds C02.diamondLinks) C02.joinSched) = false ∧
    (match refAnswers (runExt (initG C02.joinKinds C02.diamondLinks) C02.joinSched),
           (runExt (initG C02.joinKinds C02.diamondLinks) C02.joinSched).resp with
     | some [.pay (.slice [.atom 41, .atom 71]), .pay (.slice [.atom 42, .atom 72]), .pay (.slice [.atom 43, .atom 73])],
       [.pay (.slice [.atom 41, .atom 71]), .pay (.slice [.atom 42, .atom 72]), .pay (.slice [.atom 43, .atom 73])] => true
     | _, _ => false) = true := by
  refine ⟨?_, ?_, ?_⟩ <;> rfl

/-- **Class T5**: nodes of ALL THREE kinds – one-to-one, one-to-many (at most 6 out ports), many-to-one with at
most 63 in-ports –, any forward links into EXISTING in-ports (`FlowN.GraphWF5`: fan-out, fan-in, no reader twice on
one writer, source linked); the schedules `FlowN.ExtT5` = `FlowH.ExtT4` plus the actions of many-to-one nodes:
one new packet (`out`), one new error packet (`err`) or nothing (`drop`). A many-to-one node reads per in-port;
a packet that does not complete the OLDEST open group is answered with itself (in the order of its in-port), the
packet that completes it carries the action's derived packet. Contains class T4. -/
def C02.ClassT5 (kinds : List Kind) (links : List (Nat × List Uniflow.Flow.Tgt)) (es : List Uniflow.Flow.Ext) : Prop :=
  Uniflow.FlowN.GraphWF5 kinds links ∧ ∀ e ∈ es, Uniflow.FlowN.ExtT5 kinds e

open Uniflow.Flow in
/-- the invariant `FlowN.HI` – the link layer of `FlowG.GI` per reader key (node, in-port); the node relation `FlowM.JBm` (any number of
forward threads), per forward thread / in-reader the log invariant `FlowM.NLt` (owner tag `n*64+port`), every
request's reader has a thread; per reader key `(node, port)` the FIFO of the writers it owes answers to – holds in
every reachable state of class T5 -/
theorem C02.flow_invariant_T5 (kinds : List Kind) (links : List (Nat × List Tgt)) (es : List Ext)
    (hc : C02.ClassT5 kinds links es) :
    ∃ aa, Uniflow.FlowN.HI kinds links aa Uniflow.FlowInv.D0 (runExt (initG kinds links) es) :=
  Uniflow.FlowN.HIe_runExt kinds links hc.1 es _ (Uniflow.FlowN.HIe_init kinds links hc.1)

open Uniflow.Flow in
/-- **The end-to-end statement for class T5** (all three node kinds, fan-out and fan-in, join nodes) –
literally `C02.flow_answers_eq_ref_full` with the one additional hypothesis `C02.ClassT5 kinds links es`. -/
theorem C02.flow_answers_eq_ref_T5 :
    ∀ (kinds : List Kind) (links : List (Nat × List Tgt)) (es : List Ext),
    C02.FlowWF kinds links → Uniflow.Tracer.getL links srcKey ≠ [] → (∀ e ∈ es, e.fresh = true) →
    C02.ClassT5 kinds links es →
    let g := runExt (initG kinds links) es
    (∀ (i : Nat) (a : Ans), g.resp[i]? = some a → ∃ p, g.roots[i]? = some p ∧ ∃ f, refAns g.log f p = some a) ∧
    (quiescent g = true → anyPanic g = false → refAnswers g = some g.resp) := by
  intro kinds links es _ _ _ hc
  have hI := Uniflow.FlowN.HIe_runExt kinds links hc.1 es _ (Uniflow.FlowN.HIe_init kinds links hc.1)
  exact ⟨Uniflow.FlowN.HIe_safety kinds links _ hI,
    fun hq _ => Uniflow.FlowN.HIe_quiescent_ref_eq kinds links hc.1 _ hI hq⟩

/-- class T4 is contained in class T5 -/
theorem C02.classT4_sub_T5 (kinds : List Kind) (links : List (Nat × List Uniflow.Flow.Tgt)) (es : List Uniflow.Flow.Ext)
    (h : C02.ClassT4 kinds links es) : C02.ClassT5 kinds links es :=
  ⟨Uniflow.FlowN.graphWF5_of_graphWF3 kinds links h.1, fun e he => Uniflow.FlowN.extT5_of_extT4 kinds e (h.2 e he)⟩

open Uniflow.Flow in
/-- **non-vacuity of class T5**: the join workflow (`C02.joinKinds` on `C02.diamondLinks`: the two in-ports of the
many-to-one node 3 are fed by the different upstream nodes 1 and 2) is in the class and `C02.joinSched` – in-port 0
runs THREE requests ahead of in-port 1 – is a class schedule; by `C02.join_oldest_row_instance` it reaches
quiescence without panic with the responses `[41,71]`, `[42,72]`, `[43,73]` = `refAnswers`. -/
theorem C02.flow_T5_instance :
    C02.ClassT5 C02.joinKinds C02.diamondLinks C02.joinSched ∧
    quiescent (runExt (initG C02.joinKinds C02.diamondLinks) C02.joinSched) = true ∧
    anyPanic (runExt (initG C02.joinKinds C02.diamondLinks) C02.joinSched) = false ∧
    refAnswers (runExt (initG C02.joinKinds C02.diamondLinks) C02.joinSched) =
      some (runExt (initG C02.joinKinds C02.diamondLinks) C02.joinSched).resp := by
  refine ⟨⟨Uniflow.FlowN.join_wf, ?_⟩, rfl, rfl, rfl⟩
  intro e he
  simp only [C02.joinSched, List.mem_cons, List.mem_nil_iff, or_false] at he
  rcases he with h | h | h | h | h | h | h | h | h | h | h | h | h | h | h | h | h | h <;> subst h <;>
    first
    | trivial
    | exact Or.inr ⟨2, rfl⟩
    | exact Or.inr (Or.inl rfl)
    | exact Or.inr (Or.inr (Or.inr ⟨2, rfl⟩))

/-! ### class T6: T5 plus actions that return their INPUT packet -/

/-- **Class T6** = class T5 with richer schedules (`FlowN.ExtT6`): an action of ANY node kind may return its input
packet itself – `same` (`return inPck, nil`: the pass-through that most of uniflow's own nodes are) or `sames 1`
(`[inPck]` on a fork). The node then calls `Link(in, in)` (ignored by the tracer) and `Write(out, in)`: the request
packet itself is awaited on the out-writer (`RSt.direct`), no packet is derived; its answer is the join of the answers
to the copies the writer delivered (`dels` of the request id), or itself when nobody accepts. Contains class T5.
(`sames k`, `k ≥ 2` – the same packet on several out ports – is not in the class: the second `Write` of a request
that is already awaited leaves the tracer protocol `ATracer.Pre`.) -/
def C02.ClassT6 (kinds : List Kind) (links : List (Nat × List Uniflow.Flow.Tgt)) (es : List Uniflow.Flow.Ext) : Prop :=
  Uniflow.FlowN.GraphWF5 kinds links ∧ ∀ e ∈ es, Uniflow.FlowN.ExtT6 kinds e

open Uniflow.Flow in
/-- the invariant `FlowN.HI` holds in every reachable state of class T6 -/
theorem C02.flow_invariant_T6 (kinds : List Kind) (links : List (Nat × List Tgt)) (es : List Ext)
    (hc : C02.ClassT6 kinds links es) :
    ∃ aa, Uniflow.FlowN.HI kinds links aa Uniflow.FlowInv.D0 (runExt (initG kinds links) es) :=
  Uniflow.FlowN.HIe_runExt kinds links hc.1 es _ (Uniflow.FlowN.HIe_init kinds links hc.1)

open Uniflow.Flow in
/-- **The end-to-end statement for class T6** – `C02.flow_answers_eq_ref_full` with the class hypothesis
`C02.ClassT6 kinds links es` and WITHOUT its freshness hypothesis `∀ e ∈ es, e.fresh = true` (which excludes exactly
the schedules this class adds: actions returning their input packet). -/
theorem C02.flow_answers_eq_ref_T6 :
    ∀ (kinds : List Kind) (links : List (Nat × List Tgt)) (es : List Ext),
    C02.FlowWF kinds links → Uniflow.Tracer.getL links srcKey ≠ [] →
    C02.ClassT6 kinds links es →
    let g := runExt (initG kinds links) es
    (∀ (i : Nat) (a : Ans), g.resp[i]? = some a → ∃ p, g.roots[i]? = some p ∧ ∃ f, refAns g.log f p = some a) ∧
    (quiescent g = true → anyPanic g = false → refAnswers g = some g.resp) := by
  intro kinds links es _ _ hc
  have hI := Uniflow.FlowN.HIe_runExt kinds links hc.1 es _ (Uniflow.FlowN.HIe_init kinds links hc.1)
  exact ⟨Uniflow.FlowN.HIe_safety kinds links _ hI,
    fun hq _ => Uniflow.FlowN.HIe_quiescent_ref_eq kinds links hc.1 _ hI hq⟩

/-- class T5 is contained in class T6 -/
theorem C02.classT5_sub_T6 (kinds : List Kind) (links : List (Nat × List Uniflow.Flow.Tgt)) (es : List Uniflow.Flow.Ext)
    (h : C02.ClassT5 kinds links es) : C02.ClassT6 kinds links es :=
  ⟨h.1, fun e he => Uniflow.FlowN.extT6_of_extT5 kinds e (h.2 e he)⟩

open Uniflow.Flow in
/-- pass-through everywhere on the fork workflow: the fork (node 0) returns `[inPck]` (its input packet on out port 0),
node 1 and node 3 return their input packet (`same`); the sink answers; a second request pipelined behind the first -/
def C02.passSched : List Ext :=
  [.send (.atom 5), .send (.atom 6), .release 0 (.sames 1), .release 1 .same, .release 0 (.sames 1), .release 3 .same,
   .sinkAnswer 0 (some (.pay (.atom 10))), .release 1 .same, .release 3 .same, .sinkAnswer 0 none]

open Uniflow.Flow in
/-- pass-through into a join: the fork derives two new packets; nodes 1 and 2 pass theirs through (`same`); the join
node 3 returns the packet that completed the group (`same`) -/
def C02.passJoinSched : List Ext :=
  [.send (.atom 1), .release 0 (.many [some (.atom 11), some (.atom 12)]), .release 1 .same, .release 2 .same,
   .release 3 .same, .sinkAnswer 0 (some (.pay (.atom 71)))]

open Uniflow.Flow in
/-- **non-vacuity of class T6**: (1) a pass-through chain source → fork `[inPck]` → node 1 → node 3 → sink, two
requests pipelined: the responses are the sink's answers `10` and – the sink answering with the request packet –
the payload `6` that travelled unchanged through three pass-through nodes, = `refAnswers`; (2) pass-through nodes
feeding a two-input join whose action returns its input: the response `[11, 71]` = `refAnswers`. -/
theorem C02.flow_T6_instance :
    C02.ClassT6 Uniflow.FlowH.forkKinds Uniflow.FlowH.forkLinks C02.passSched ∧
    quiescent (runExt (initG Uniflow.FlowH.forkKinds Uniflow.FlowH.forkLinks) C02.passSched) = true ∧
    anyPanic (runExt (initG Uniflow.FlowH.forkKinds Uniflow.FlowH.forkLinks) C02.passSched) = false ∧
    (match refAnswers (runExt (initG Uniflow.FlowH.forkKinds Uniflow.FlowH.forkLinks) C02.passSched),
           (runExt (initG Uniflow.FlowH.forkKinds Uniflow.FlowH.forkLinks) C02.passSched).resp with
     | some [.pay (.atom 10), .pay (.atom 6)], [.pay (.atom 10), .pay (.atom 6)] => true
     | _, _ => false) = true ∧
    C02.ClassT6 C02.joinKinds C02.diamondLinks C02.passJoinSched ∧
    quiescent (runExt (initG C02.joinKinds C02.diamondLinks) C02.passJoinSched) = true ∧
    anyPanic (runExt (initG C02.joinKinds C02.diamondLinks) C02.passJoinSched) = false ∧
    (match refAnswers (runExt (initG C02.joinKinds C02.diamondLinks) C02.passJoinSched),
           (runExt (initG C02.joinKinds C02.diamondLinks) C02.passJoinSched).resp with
     | some [.pay (.slice [.atom 11, .atom 71])], [.pay (.slice [.atom 11, .atom 71])] => true
     | _, _ => false) = true := by
  refine ⟨⟨Uniflow.FlowN.graphWF5_of_graphWF3 _ _ Uniflow.FlowH.fork_wf, ?_⟩, rfl, rfl, rfl,
    ⟨Uniflow.FlowN.join_wf, ?_⟩, rfl, rfl, rfl⟩
  · intro e he
    simp only [C02.passSched, List.mem_cons, List.mem_nil_iff, or_false] at he
    rcases he with h | h | h | h | h | h | h | h | h | h <;> subst h <;>
      first
      | trivial
      | exact Or.inl rfl
  · intro e he
    simp only [C02.passJoinSched, List.mem_cons, List.mem_nil_iff, or_false] at he
    rcases he with h | h | h | h | h | h <;> subst h <;>
      first
      | trivial
      | exact Or.inr ⟨2, rfl⟩

/-! ### class T7: T6 plus actions of ANY kind returning nothing -/

/-- **Class T7** = class T6 with richer schedules (`FlowN.ExtT7`): an action of ANY node kind – also a ONE-TO-ONE
action, `return nil, nil` – may return nothing (`drop`, `sames 0`). The request is answered with itself
(`Write(nil, in)`), in the order of its in-port. For one-to-one nodes this is the behaviour since the fix of
`OneToOneNode.forward` (before it the forward goroutine dereferenced the nil packet and the process died).
And a one-to-many action may return its input packet on SEVERAL out ports (`sames k`, any `k`): since the fix
`node.derive` a node hands its tracer a COPY of a packet object the tracer already follows, so `same` is `out` and
`sames k` is `many` with the request's payload (`Flow.release`). Contains class T6. -/
def C02.ClassT7 (kinds : List Kind) (links : List (Nat × List Uniflow.Flow.Tgt)) (es : List Uniflow.Flow.Ext) : Prop :=
  Uniflow.FlowN.GraphWF5 kinds links ∧ ∀ e ∈ es, Uniflow.FlowN.ExtT7 kinds e

open Uniflow.Flow in
/-- **The end-to-end statement for class T7** – `C02.flow_answers_eq_ref_full` with the class hypothesis
`C02.ClassT7 kinds links es` and without its freshness hypothesis. -/
theorem C02.flow_answers_eq_ref_T7 :
    ∀ (kinds : List Kind) (links : List (Nat × List Tgt)) (es : List Ext),
    C02.FlowWF kinds links → Uniflow.Tracer.getL links srcKey ≠ [] →
    C02.ClassT7 kinds links es →
    let g := runExt (initG kinds links) es
    (∀ (i : Nat) (a : Ans), g.resp[i]? = some a → ∃ p, g.roots[i]? = some p ∧ ∃ f, refAns g.log f p = some a) ∧
    (quiescent g = true → anyPanic g = false → refAnswers g = some g.resp) := by
  intro kinds links es _ _ hc
  have hI := Uniflow.FlowN.HIe_runExt kinds links hc.1 es _ (Uniflow.FlowN.HIe_init kinds links hc.1)
  exact ⟨Uniflow.FlowN.HIe_safety kinds links _ hI,
    fun hq _ => Uniflow.FlowN.HIe_quiescent_ref_eq kinds links hc.1 _ hI hq⟩

/-- class T6 is contained in class T7 -/
theorem C02.classT6_sub_T7 (kinds : List Kind) (links : List (Nat × List Uniflow.Flow.Tgt)) (es : List Uniflow.Flow.Ext)
    (h : C02.ClassT6 kinds links es) : C02.ClassT7 kinds links es :=
  ⟨h.1, fun e he => Uniflow.FlowN.extT7_of_extT6 kinds e (h.2 e he)⟩

open Uniflow.Flow in
/-- on the fork workflow: the one-to-one node 1 DROPS the first request's packet (`return nil, nil`) while a second
request is pipelined behind it and passes through -/
def C02.dropOneSched : List Ext :=
  [.send (.atom 5), .send (.atom 6), .release 0 (.many [some (.atom 7)]), .release 0 (.many [some (.atom 8)]),
   .release 1 .drop, .release 1 (.out (.atom 9)), .release 3 (.out (.atom 10)),
   .sinkAnswer 0 (some (.pay (.atom 11)))]

open Uniflow.Flow in
/-- **non-vacuity of class T7**: the one-to-one node 1 drops the packet derived from the first request – the first
response is that packet's payload `7` (answered with itself) – and transforms the second (response `11`, the sink's
answer); no panic, quiescent, responses = `refAnswers`. -/
theorem C02.flow_T7_instance :
    C02.ClassT7 Uniflow.FlowH.forkKinds Uniflow.FlowH.forkLinks C02.dropOneSched ∧
    quiescent (runExt (initG Uniflow.FlowH.forkKinds Uniflow.FlowH.forkLinks) C02.dropOneSched) = true ∧
    anyPanic (runExt (initG Uniflow.FlowH.forkKinds Uniflow.FlowH.forkLinks) C02.dropOneSched) = false ∧
    (match refAnswers (runExt (initG Uniflow.FlowH.forkKinds Uniflow.FlowH.forkLinks) C02.dropOneSched),
           (runExt (initG Uniflow.FlowH.forkKinds Uniflow.FlowH.forkLinks) C02.dropOneSched).resp with
     | some [.pay (.atom 7), .pay (.atom 11)], [.pay (.atom 7), .pay (.atom 11)] => true
     | _, _ => false) = true := by
  refine ⟨⟨Uniflow.FlowN.graphWF5_of_graphWF3 _ _ Uniflow.FlowH.fork_wf, ?_⟩, rfl, rfl, rfl⟩
  intro e he
  simp only [C02.dropOneSched, List.mem_cons, List.mem_nil_iff, or_false] at he
  rcases he with h | h | h | h | h | h | h | h <;> subst h <;>
    first
    | trivial
    | exact Or.inr ⟨2, rfl⟩
    | exact Or.inr (Or.inl rfl)

open Uniflow.Flow in
/-- the fork returns `[inPck, inPck]` (its input packet on both out ports), nodes 1 and 2 and the join node 3 pass
their input through (`same`) -/
def C02.forkSameSched : List Ext :=
  [.send (.atom 1), .release 0 (.sames 2), .release 1 .same, .release 2 .same, .release 3 .same,
   .sinkAnswer 0 (some (.pay (.atom 71)))]

open Uniflow.Flow in
/-- **non-vacuity of class T7, same packet on several out ports**: a fork returning `[inPck, inPck]` into a
two-input join through pass-through nodes – since the fix `node.derive` every output is a packet of its own (a copy):
the response is the join `[1, 71]` of the packet that did not complete the group (answered with itself) and the
sink's answer, = `refAnswers`. -/
theorem C02.flow_T7_fork_same_instance :
    C02.ClassT7 C02.joinKinds C02.diamondLinks C02.forkSameSched ∧
    quiescent (runExt (initG C02.joinKinds C02.diamondLinks) C02.forkSameSched) = true ∧
    anyPanic (runExt (initG C02.joinKinds C02.diamondLinks) C02.forkSameSched) = false ∧
    (match refAnswers (runExt (initG C02.joinKinds C02.diamondLinks) C02.forkSameSched),
           (runExt (initG C02.joinKinds C02.diamondLinks) C02.forkSameSched).resp with
     | some [.pay (.slice [.atom 1, .atom 71])], [.pay (.slice [.atom 1, .atom 71])] => true
     | _, _ => false) = true := by
  refine ⟨⟨Uniflow.FlowN.join_wf, ?_⟩, rfl, rfl, rfl⟩
  intro e he
  simp only [C02.forkSameSched, List.mem_cons, List.mem_nil_iff, or_false] at he
  rcases he with h | h | h | h | h | h <;> subst h <;>
    first
    | trivial
    | exact Or.inr (Or.inr ⟨2, rfl⟩)

/-! ### classes T3 and T4 as corollaries of T5 -/

open Uniflow.Flow in
/-- the invariant of class T5 (`FlowN.HI`) holds in every reachable state of class T3 -/
theorem C02.flow_invariant_T3 (kinds : List Kind) (links : List (Nat × List Tgt)) (es : List Ext)
    (hc : C02.ClassT3 kinds links es) :
    ∃ aa, Uniflow.FlowN.HI kinds links aa Uniflow.FlowInv.D0 (runExt (initG kinds links) es) :=
  C02.flow_invariant_T5 kinds links es (C02.classT4_sub_T5 kinds links es (C02.classT3_sub_T4 kinds links es hc))

open Uniflow.Flow in
/-- **The end-to-end statement for class T3** (one-to-one and one-to-many nodes, fan-out and fan-in) –
literally `C02.flow_answers_eq_ref_full` with the one additional hypothesis `C02.ClassT3 kinds links es`. -/
theorem C02.flow_answers_eq_ref_T3 :
    ∀ (kinds : List Kind) (links : List (Nat × List Tgt)) (es : List Ext),
    C02.FlowWF kinds links → Uniflow.Tracer.getL links srcKey ≠ [] → (∀ e ∈ es, e.fresh = true) →
    C02.ClassT3 kinds links es →
    let g := runExt (initG kinds links) es
    (∀ (i : Nat) (a : Ans), g.resp[i]? = some a → ∃ p, g.roots[i]? = some p ∧ ∃ f, refAns g.log f p = some a) ∧
    (quiescent g = true → anyPanic g = false → refAnswers g = some g.resp) :=
  fun kinds links es h1 h2 h3 hc => C02.flow_answers_eq_ref_T5 kinds links es h1 h2 h3
    (C02.classT4_sub_T5 kinds links es (C02.classT3_sub_T4 kinds links es hc))

open Uniflow.Flow in
/-- **The end-to-end statement for class T4** – literally `C02.flow_answers_eq_ref_full` with the one
additional hypothesis `C02.ClassT4 kinds links es`. -/
theorem C02.flow_answers_eq_ref_T4 :
    ∀ (kinds : List Kind) (links : List (Nat × List Tgt)) (es : List Ext),
    C02.FlowWF kinds links → Uniflow.Tracer.getL links srcKey ≠ [] → (∀ e ∈ es, e.fresh = true) →
    C02.ClassT4 kinds links es →
    let g := runExt (initG kinds links) es
    (∀ (i : Nat) (a : Ans), g.resp[i]? = some a → ∃ p, g.roots[i]? = some p ∧ ∃ f, refAns g.log f p = some a) ∧
    (quiescent g = true → anyPanic g = false → refAnswers g = some g.resp) :=
  fun kinds links es h1 h2 h3 hc => C02.flow_answers_eq_ref_T5 kinds links es h1 h2 h3
    (C02.classT4_sub_T5 kinds links es hc)
