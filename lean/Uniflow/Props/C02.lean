/-
C02 — nodes answer each request once, in order, after all derived packets.

Models: `Uniflow.Tracer` (pkg/packet/tracer.go, fixed code), `Uniflow.Node` (the forward/backward
loops of the three node types as small-step programs), specification `Uniflow.NodeSpec`
(lean/Uniflow/Spec/Node.lean).  Helper lemmas: lean/Uniflow/Proofs/Node.lean.

What is proved
* `C02.node_contract_partial`   one-to-one node, fresh packets: for EVERY schedule of
  {deliver, read, action returns, Link, Write (accepted or not), downstream answer} steps – any
  number of requests in flight, answers falling anywhere between the forward thread's `Read`,
  `Link` and `Write` calls – the replies the tracer sends to the in-reader are exactly those of
  the specification machine, and the Go code's index arithmetic never panics.
* `C02.spec_flush_in_order`, `C02.spec_answer_goes_to_oldest_write`, `C02.spec_echo_when_not_accepted`
  what the specification machine's replies are: complete requests only, maximal prefix, in arrival
  order, each removed from the state as it is answered (exactly once), content = the downstream
  answer to the derived packet / the derived packet itself when nothing accepted it.
* `C02.spec_answers_in_read_order`, `C02.node_answers_in_read_order`, `C02.spec_reply_content`
  trace level: the k-th reply answers the k-th request read (replies tagged with their request in a
  ghost copy of the specification), for the specification and hence for the node model.
* `C02.tracer_quiescent_empty`  nothing in flight ⇒ all seven tracer maps are empty (one-to-one).
* `C02.pinned_tree_violates`    the pinned tree (`strict := false`) breaks the contract on a
  7-step schedule: the second pipelined request is answered with the empty packet.
* `C02.compose`                 assume/guarantee composition over a finite acyclic graph, over
  abstract contract predicates.

* `C02.tracer_refines`, `C02.tracer_quiescent_empty_general`   ALL node kinds, tracer level: for every
  sequence of tracer calls following the call protocol (`Uniflow.ATracer.Pre`) – several derived
  packets per request, several readers and writers, requests written directly, any interleaving –
  the tracer model sends exactly the abstract tracer's replies (`Uniflow.ATracer`, requests with one
  cell per derived packet, answered per reader in read order with `Join` of the cells), never
  panics, and holds exactly the abstract state (empty maps when nothing is in flight).
* `C02.node_contract_partial_all_kinds`, `C02.node_contract_one_to_many_partial`,
  `C02.node_contract_many_to_one_partial`   node level, every kind, every schedule (including
  actions that return their input): replies = abstract tracer's replies on the calls the node
  makes, no panic – under the hypothesis that those calls follow the protocol
  (`C02.node_protocol_full` is that hypothesis as an unproved `def`; `protoB` decides it per
  schedule, `C02.protocol_check_sound`). `C02.atracer_flush_in_order`: what those replies are.

* `C02.node_protocol : C02.node_protocol_full`   the node programs follow the call protocol under every
  fresh-id schedule, every kind (invariant `Uniflow.ATracer.J`, lean/Uniflow/Proofs/NodeProtocol.lean);
  hence, unconditionally, `C02.node_contract` (all kinds), `C02.node_contract_one_to_many`,
  `C02.node_contract_many_to_one`.
* `C02.answers_in_read_order_all_kinds`, `C02.reply_content_all_kinds`, `C02.reply_cells_provenance`
  statement level for every kind: each request answered once, per reader in read order; the reply is
  `Join` of the answers to the derived packets (error dominates, nothing accepted ⇒ echo).
* `C02.compose_instance_partial`, `C02.compose_chain`, `C02.compose_diamond`   `compose` instantiated with
  the concrete node contract and C01's writer contract for every finite acyclic graph; the
  end-to-end join-tree statement is not derived (see the docstring).

* Joint model (`Uniflow.Flow`, the model the C02 driver replays; lean/Uniflow/Proofs/Flow.lean):
  `C02.flow_nodes_honour_contract` every node of every reachable Flow state is a fresh-id run of the
  node model, so the node contract holds inside the joint model; `C02.flow_link_credits_oldest`,
  `C02.flow_link_in_order` the link layer credits answers to the oldest owing row and completes rows in
  order; `C02.refAns_is_join_over_tree`, `C02.refAns_stable` the reference answer (join over the ghost
  derivation tree) is as the property states it and is stable while the tree grows.

* End-to-end, class T1 (all nodes one-to-one, links a forest rooted at the linked source –
  `FlowInv.TreeWF` –, actions return one new out or error packet – `FlowInv.ExtT1`; any depth, any
  number of requests in flight, every interleaving), by the global invariant `FlowInv.FI`
  (lean/Uniflow/Proofs/FlowInv1..14.lean: per node the one-to-one spec state; per writer: pending writes
  = queued answers ++ pending rows, aligned with the node's `written` cells and the requests held by the
  linked reader, whose FIFO names the writer; every stored answer = `refAns` of its packet; owner tags
  for the distinctness of live ids across containers):
  `C02.flow_invariant_partial` the invariant holds in every reachable state;
  `C02.flow_safety_partial` at every prefix the i-th response is the reference answer of the i-th request;
  `C02.flow_quiescent_partial` at quiescence every request has exactly one response; `C02.flow_class_instance` the class is inhabited;
  `C02.deliver_copies` `Write` copies: the packet a reader's node is handed has the never-used id
  `g.next`, no live tracer entry of that node is keyed by it (packet identity does not survive a hop).

  `C02.flow_log_ordered_partial` the ghost tree is ordered (so fuel `next + 1` suffices);
  **`C02.flow_answers_eq_ref_T1`** = `C02.flow_answers_eq_ref_full` with the single extra hypothesis
  `C02.ClassT1 kinds links es`.

  class → proved end-to-end statement
  | class | hypothesis added to `flow_answers_eq_ref_full` | theorem |
  | T1: one-to-one nodes, forest of links, one new out/error packet per action | `C02.ClassT1` | `C02.flow_answers_eq_ref_T1` |
  | T2 ⊇ T1: one-to-one nodes, ANY forward links (fan-out: a writer feeding several readers, rows joined in link order; fan-in: a reader fed by several writers), one new out/error packet per action | `C02.ClassT2` | `C02.flow_answers_eq_ref_T2` (invariant `FlowG.GI`, lean/Uniflow/Proofs/FlowG1..14.lean; `C02.flow_invariant_T2`, `C02.classT1_sub_T2`, non-vacuity `C02.flow_T2_instance`) |
  | T3 ⊇ T2: one-to-one AND one-to-many nodes (a request has a list of derived packets; rows of several out-writers), any forward links, actions return one new out/error packet or – one-to-many – new packets on several out ports (≥ 1 on an existing port) | `C02.ClassT3` | `C02.flow_answers_eq_ref_T3` (invariant `FlowH.HI` over the abstract tracer state `ATracer.A`/`J` with the node log invariant `FlowH.NL`, lean/Uniflow/Proofs/FlowH1..28.lean; `C02.flow_invariant_T3`, `C02.classT2_sub_T3`, non-vacuity `C02.flow_T3_instance`) |
  | T4 ⊇ T3: as T3, and a one-to-many action may return NO packet (`drop`, or `many` with nothing on an existing port): the request is answered with itself, in order | `C02.ClassT4` | `C02.flow_answers_eq_ref_T4` (`C02.classT3_sub_T4`, non-vacuity `C02.flow_T4_instance`; lean/Uniflow/Proofs/FlowH7e.lean, FlowH29.lean) |
  | T5 ⊇ T4: ALL THREE node kinds – many-to-one (join) nodes with up to 63 in-ports, links into any existing in-port; the action of a join node returns one new packet, one new error packet or nothing. A join node's `Read` that does not complete the OLDEST open group answers the packet with itself; the packet completing the group carries the derived packet | `C02.ClassT5` | `C02.flow_answers_eq_ref_T5` (invariant `FlowN.HI`: `FlowH.HI` indexed by in-port – node relation `FlowM.JBm` for any number of forward threads, per-thread log invariant `FlowM.NLm`, owner tag `n*64+port` –, lean/Uniflow/Proofs/FlowM1..9.lean, FlowN1..21.lean; `C02.flow_invariant_T5`, `C02.classT4_sub_T5`, non-vacuity `C02.flow_T5_instance`: two-input join fed by different upstream nodes, one input three requests ahead) |

  | T6 ⊇ T5: as T5, and an action of ANY node kind may return its INPUT packet once (`same` = `return inPck, nil`, the pass-through most of uniflow's own nodes are; `sames 1` = `[inPck]`): `Link(in, in)` is ignored, `Write(out, in)` makes the request itself awaited on the out-writer (`RSt.direct`); its answer is the join over the copies the writer delivered (`dels` of the request id), or itself when nobody accepts | `C02.ClassT6` | `C02.flow_answers_eq_ref_T6` – the full statement WITHOUT its freshness hypothesis `e.fresh` – (`C02.flow_invariant_T6`, `C02.classT5_sub_T6`, non-vacuity `C02.flow_T6_instance`: a pass-through chain through a fork returning `[inPck]`, pipelined; pass-through nodes into a join returning its input; lean/Uniflow/Proofs/FlowN18s.lean, FlowN19.lean; node level: `C02.node_contract_same`, lean/Uniflow/Proofs/NodeProtocolSame.lean) |

  | T7 ⊇ T6: as T6, and (1) an action of ANY node kind – also ONE-TO-ONE, `return nil, nil` – may return nothing: the request is answered with itself; (2) a one-to-many action may return its input packet on SEVERAL out ports (`sames k`, any k) or next to new packets (`mixed`, harness `rel n m a3 = -`) | `C02.ClassT7` | `C02.flow_answers_eq_ref_T7` (`C02.classT6_sub_T7`, non-vacuity `C02.flow_T7_instance` – a one-to-one node drops the first of two pipelined requests – and `C02.flow_T7_fork_same_instance` – a fork returning `[inPck, inPck]` into a two-input join through pass-through nodes; lean/Uniflow/Proofs/FlowN19.lean) |

  Two defects of the real nodes were repaired for T7 (both found by this property's work, fix commits in /repo):
  (A) `OneToOneNode.forward` called `tracer.Write(outWriter, nil)` for an action returning `(nil, nil)`: nil
  dereference in the forward goroutine, the process died, the request was never answered. Now `Write(nil, inPck)`,
  as the other two node kinds do (`Node.program .oneToOne` = echo for an empty result; it never returns `none` any
  more, the node's `panic` flag is never set by `finish`).
  (B) an action returning its input packet next to other outputs – `[inPck, inPck]`, `[inPck, fresh]`,
  `[fresh, inPck]` – with one of the ports refusing the write: the tracer keeps ONE set of response slots per packet
  id, the echo of the refused write filled the slot of an accepted one; the requester got its own packet back at once
  and the real answer was lost; for `[fresh, inPck]` / `[inPck, fresh]` with the in packet's port refusing, the late
  answer to the fresh packet then indexed the deleted slots out of range and the process died. Repaired in the NODES
  (`node.derive`): a node never hands its tracer a packet object the tracer already follows – the in packet(s), or
  an earlier output of the same call – but a copy (readers receive copies of what is written anyway). The tracer is
  unchanged. In the model `Flow.release` allocates a new id for `same` / `sames k` / `mixed` – they are `out` /
  `many` with the request's payload –, so the joins are in link order (no arrival-order joins any more) and the class
  needs no new invariant. `Tracer.Link(p, p)` / a second `Write` of one id are no longer reachable from the nodes
  (`C02.node_contract_same`, `J_finish_same`, `RSt.direct` remain true statements about the tracer model).

  The class definitions, theorems and instances T1..T7 are in lean/Uniflow/Props/C02Flow.lean. Classes T3 and T4 are
  corollaries of T5 (their own invariant `FlowH.HI` was removed; lean/Uniflow/Proofs/FlowH1..4.lean keep the shared
  definitions and helper lemmas).

**Without a class hypothesis**: `C02.flow_answers_eq_ref_all` (lean/Uniflow/Props/C02All.lean) – every well-formed
workflow (`C02.WorkflowWF`), every schedule, every result shape of every node kind (`FlowN.prog_any`,
`FlowN.HIe_release` without a schedule hypothesis); T1 … T7 are corollaries. What it leaves out of
`C02.flow_answers_eq_ref_full` (kept as a `def`): workflows beyond the encoding bounds of `Uniflow.Flow` (1000 nodes,
62 out ports – `maxW` is 64 now –, 63 in-ports) and association lists `links` that are not well-formed (a link to a
missing in-port, an in-port twice on one out port, links under keys that are no writer) – see the headers of
Props/C02All.lean and Props/C02Flow.lean.
It is checked on every run of `bin/check C02` instead: `S1` after every step, `F…`/`M1` at the end.
The statement requires the source to be linked (a request written to an unlinked source is never
answered and has no reference answer).
The node theorems require fresh packet ids for everything an action returns, so an action
returning its input packet is covered at tracer level only (`C02.tracer_refines`, `direct` requests);
`C02.node_contract_full` (kept as a `def`) is superseded by `C02.node_contract`.
-/
import Uniflow.Proofs.Node
import Uniflow.Proofs.ATracer
import Uniflow.Proofs.NodeProtocol
import Uniflow.Proofs.NodeProtocolSame
import Uniflow.Props.C01
import Uniflow.Proofs.Flow

open Uniflow.Tracer Uniflow.Node Uniflow.NodeSpec

/-! ### the node contract -/

/-- One-to-one node, actions returning fresh packets: for every schedule (numbered with fresh
packet ids by `concr`) the node model emits exactly the replies of the specification, and neither
the tracer's slot search nor the node panics. `Uniflow.Node.run` skips steps that are not enabled, so the
quantification is over all interleavings of the forward goroutine's steps with downstream answers. -/
theorem C02.node_contract_partial (as : List AStep) :
    (Uniflow.Node.run (Uniflow.Node.mk .oneToOne) (concr 0 as)).2 = (Uniflow.NodeSpec.run {} (concr 0 as)).2 ∧
    (Uniflow.Node.run (Uniflow.Node.mk .oneToOne) (concr 0 as)).1.panic = false ∧
    (Uniflow.Node.run (Uniflow.Node.mk .oneToOne) (concr 0 as)).1.tr.panic = false := by
  obtain ⟨e, nx, r⟩ := sim_run as {} (Uniflow.Node.mk .oneToOne) 0 rel_init
  exact ⟨e, r.npanic, r.trel.panic⟩

/-- non-vacuity / sanity: a concrete pipelined schedule on which the specification (hence, by the
theorem, the fixed node) answers both requests, in order, with the downstream answers:
two requests delivered; the first is processed and written; the second is read and is inside its
action when the first's answer (atom 21) arrives – only that one reply leaves; then the second is
linked, written, answered (atom 22). -/
theorem C02.node_contract_nonvacuous :
    (match (Uniflow.Node.run (Uniflow.Node.mk .oneToOne)
        (concr 0 [.deliver (.atom 1), .deliver (.atom 2), .read, .finishOut (.atom 11), .op true, .op true,
                  .read, .answer (outW 0) (.pay (.atom 21)), .finishOut (.atom 12), .op true, .op true,
                  .answer (outW 0) (.pay (.atom 22))])).2 with
      | [Ev.reply 0 (.pay (.atom 21)), Ev.reply 0 (.pay (.atom 22))] => true
      | _ => false) = true := by rfl

/-- Reference statement for all three node kinds (NOT proved here). A schedule is valid when the
packet ids it introduces are pairwise distinct and one-to-one actions return exactly one packet. -/
def introduced : Step → List Pid
  | .deliver _ p => [p.id]
  | .finish _ (.err q) => [q.id]
  | .finish _ (.outs qs) => (cellsOf qs).map (·.id)
  | _ => []

def validFor : Kind → Step → Prop
  | .oneToOne, .finish _ (.outs qs) => ∃ q, qs = [some q]
  | _, _ => True

def repliesOn (r : Rid) : List Ev → Nat
  | [] => 0
  | .reply r' _ :: evs => (if r' = r then 1 else 0) + repliesOn r evs
  | _ :: evs => repliesOn r evs

def readsOn (r : Rid) (n : Node) : List Step → Nat
  | [] => 0
  | st :: sts =>
    match Uniflow.Node.step n st with
    | none => readsOn r n sts
    | some (n', _) => (match st with | .read r' => if r' = r then 1 else 0 | _ => 0) + readsOn r n' sts

/-- the full node contract, as far as it can be said without a per-kind specification machine:
no panic, never more replies than reads on a reader, and an empty tracer whenever every forward
thread is idle with an empty inbox and as many replies as reads have left on every reader. The
content/order part for one-to-many and many-to-one nodes is the harness oracle's statement. -/
def C02.node_contract_full : Prop :=
  ∀ (k : Kind) (sched : List Step), (sched.flatMap introduced).Nodup → (∀ st ∈ sched, validFor k st) →
    let res := Uniflow.Node.run (Uniflow.Node.mk k) sched
    res.1.panic = false ∧ res.1.tr.panic = false ∧
    (∀ r, repliesOn r res.2 ≤ readsOn r (Uniflow.Node.mk k) sched) ∧
    ((∀ th ∈ res.1.threads, th.inbox = [] ∧ (match th.pc with | .idle => True | _ => False)) →
      (∀ r, repliesOn r res.2 = readsOn r (Uniflow.Node.mk k) sched) → isEmpty res.1.tr = true)

/-! ### what the specification's replies are -/

def isDone : EReq → Bool
  | ⟨_, .done _⟩ => true
  | _ => false

def replyOf : EReq → List Ev
  | ⟨_, .done a⟩ => [.reply 0 a]
  | _ => []

/-- `flushS` (the only place the specification replies) answers exactly the maximal prefix of
complete requests: in arrival order, one reply each with that request's answer, the answered
requests leave the state, and the first request left (if any) is not complete. -/
theorem C02.spec_flush_in_order (rs : List EReq) :
    ∃ pre, rs = pre ++ (flushS rs).1 ∧ (∀ r ∈ pre, isDone r = true) ∧
      (flushS rs).2 = pre.flatMap replyOf ∧
      (∀ r rest, (flushS rs).1 = r :: rest → isDone r = false) := by
  induction rs with
  | nil => exact ⟨[], by simp [flushS], by simp, by simp [flushS], by simp [flushS]⟩
  | cons r rs ih =>
    obtain ⟨p, st⟩ := r
    cases st with
    | written q w =>
      refine ⟨[], by simp [flushS], by simp, by simp [flushS], ?_⟩
      intro r rest h; simp [flushS] at h; rw [← h.1]; rfl
    | done a =>
      obtain ⟨pre, h1, h2, h3, h4⟩ := ih
      refine ⟨⟨p, .done a⟩ :: pre, ?_, ?_, ?_, ?_⟩
      · simp only [flushS, List.cons_append]; rw [← h1]
      · intro r hr; rcases List.mem_cons.mp hr with e | hr
        · subst e; rfl
        · exact h2 r hr
      · simp only [flushS, List.flatMap_cons, replyOf, h3]; rfl
      · simpa [flushS] using h4

/-- the answer arriving on writer `w` completes the OLDEST request whose derived packet was
accepted by `w` and is still unanswered (the C01 contract read as the meaning of `answer`), with
exactly that answer, and changes nothing else. -/
theorem C02.spec_answer_goes_to_oldest_write (w : Wid) (a : Ans) (rs rs' : List EReq)
    (h : markDone w a rs = some rs') :
    ∃ pre p q post, rs = pre ++ ⟨p, .written q w⟩ :: post ∧ rs' = pre ++ ⟨p, .done a⟩ :: post ∧
      (∀ r ∈ pre, ∀ p' q', r ≠ ⟨p', .written q' w⟩) := by
  induction rs generalizing rs' with
  | nil => simp [markDone] at h
  | cons r rs ih =>
    obtain ⟨p0, st⟩ := r
    cases st with
    | written q0 w0 =>
      simp only [markDone] at h
      by_cases hw : w0 = w
      · subst hw; simp only [if_true, Option.some.injEq] at h; subst h
        exact ⟨[], p0, q0, rs, rfl, rfl, by simp⟩
      · simp only [hw, if_false] at h
        cases hm : markDone w a rs with
        | none => simp [hm] at h
        | some x =>
          simp only [hm, Option.some.injEq] at h; subst h
          obtain ⟨pre, p, q, post, e1, e2, e3⟩ := ih x hm
          refine ⟨⟨p0, .written q0 w0⟩ :: pre, p, q, post, by simp [e1], by simp [e2], ?_⟩
          intro r hr p' q'
          rcases List.mem_cons.mp hr with e | hr
          · subst e; intro he; injection he with _ h2; injection h2 with _ h3; exact hw h3
          · exact e3 r hr p' q'
    | done b =>
      simp only [markDone] at h
      cases hm : markDone w a rs with
      | none => simp [hm] at h
      | some x =>
        simp only [hm, Option.some.injEq] at h; subst h
        obtain ⟨pre, p, q, post, e1, e2, e3⟩ := ih x hm
        refine ⟨⟨p0, .done b⟩ :: pre, p, q, post, by simp [e1], by simp [e2], ?_⟩
        intro r hr p' q'
        rcases List.mem_cons.mp hr with e | hr
        · subst e; intro he; injection he with _ h2; cases h2
        · exact e3 r hr p' q'

/-- when the writer accepted nothing (no reader downstream), the request is complete at once and
its answer is the packet the action produced. -/
theorem C02.spec_echo_when_not_accepted (s : S) (p q : Pkt) (w : Wid) (hc : s.cur = .linked p q w) :
    Uniflow.NodeSpec.step s (.op 0 false) =
      some ({ s with reqs := (flushS (s.reqs ++ [⟨p.id, .done (.pay q.pay)⟩])).1, cur := .idle },
            (flushS (s.reqs ++ [⟨p.id, .done (.pay q.pay)⟩])).2) := by
  simp [Uniflow.NodeSpec.step, hc]

/-- Trace level, specification: tag every reply with the request it answers (`runT`, a ghost copy of
`run` – `untag` gives back exactly `run`'s replies). After any schedule, the requests answered so
far, in the order answered, followed by the requests still unanswered, in the order held, are
exactly the requests read, in the order read (`readLog`). So the k-th reply answers the k-th
request read, no request is answered twice, none is skipped. -/
theorem C02.spec_answers_in_read_order (as : List AStep) :
    untag (runT {} (concr 0 as)).2 = (Uniflow.NodeSpec.run {} (concr 0 as)).2 ∧
    (runT {} (concr 0 as)).2.map (·.1) ++ readsOf (runT {} (concr 0 as)).1 = readLog {} (concr 0 as) := by
  refine ⟨(runT_erase _ _).2, ?_⟩
  have := runT_order (concr 0 as) {}
  simpa [readsOf, curRead] using this

/-- The same for the node model (tracer + forward/backward loops): its replies are the answers to a
prefix of the requests read, in read order – for every schedule. -/
theorem C02.node_answers_in_read_order (as : List AStep) :
    ∃ tagged : List (Pid × Ans) , ∃ rest : List Pid,
      (Uniflow.Node.run (Uniflow.Node.mk .oneToOne) (concr 0 as)).2 = tagged.map (fun x => Ev.reply 0 x.2) ∧
      tagged.map (·.1) ++ rest = readLog {} (concr 0 as) := by
  obtain ⟨h1, h2⟩ := C02.spec_answers_in_read_order as
  refine ⟨(runT {} (concr 0 as)).2, readsOf (runT {} (concr 0 as)).1, ?_, h2⟩
  rw [(C02.node_contract_partial as).1, ← h1]; rfl

/-- a tagged reply carries the answer with which its request was completed -/
theorem C02.spec_reply_content (rs : List EReq) :
    ∀ x ∈ (flushT rs).2, (⟨x.1, .done x.2⟩ : EReq) ∈ rs := flushT_content rs

/-! ### quiescence -/

/-- When nothing is in flight (no request read and not yet answered) all seven maps of the tracer
are empty – after any schedule. -/
theorem C02.tracer_quiescent_empty (as : List AStep)
    (hq : quiescent (Uniflow.NodeSpec.run {} (concr 0 as)).1) :
    isEmpty (Uniflow.Node.run (Uniflow.Node.mk .oneToOne) (concr 0 as)).1.tr = true := by
  obtain ⟨_, nx, r⟩ := sim_run as {} (Uniflow.Node.mk .oneToOne) 0 rel_init
  exact quiescent_empty _ _ nx r hq

/-- the hypothesis is satisfiable after real work: the schedule of `node_contract_nonvacuous`
ends with nothing in flight. -/
theorem C02.tracer_quiescent_empty_nonvacuous :
    quiescent (Uniflow.NodeSpec.run {}
        (concr 0 [.deliver (.atom 1), .deliver (.atom 2), .read, .finishOut (.atom 11), .op true, .op true,
                  .read, .answer (outW 0) (.pay (.atom 21)), .finishOut (.atom 12), .op true, .op true,
                  .answer (outW 0) (.pay (.atom 22))])).1 := by
  constructor <;> rfl


/-! ### all three node kinds: the tracer refines the abstract tracer (multi-target, any interleaving)

`Uniflow.ATracer` (lean/Uniflow/Spec/ATracer.lean) is the specification of the tracer for every
node kind: requests with one cell per derived packet, complete when all cells are filled, answered
with `Join` of the cells, per reader in read order. -/

open Uniflow.ATracer in
/-- **Tracer refinement.** For EVERY sequence of tracer calls (`Read`, `Link`, `Write` accepted or
not / `Write(nil, ·)`, `Receive` with an answer) – any number of readers, writers, requests in
flight, several derived packets per request, requests written directly – that follows the call
protocol `Pre`, the tracer model (fixed code) sends exactly the replies of the abstract tracer,
its slot search never indexes out of range, `resolve` never runs out of fuel, and the abstract
tracer never meets a call it cannot interpret. This is the multi-target generalisation of the
one-to-one proof: `fillSource`'s slot search over several targets is `slot_fill`. -/
theorem C02.tracer_refines (cs : List Call) (hp : Protocol {} cs) :
    (trun {} cs).2 = (arun {} cs).2 ∧ (trun {} cs).1.panic = false ∧ (arun {} cs).1.bad = false := by
  obtain ⟨h1, h2, h3⟩ := run_refines cs {} {} trel_init inv_init hp
  exact ⟨h1, h2.panic, h3.good⟩

open Uniflow.ATracer in
/-- the tracer's maps hold exactly the abstract state after any protocol-following call sequence;
in particular with no request in flight and no write owed all seven maps are empty -/
theorem C02.tracer_quiescent_empty_general (cs : List Call) (hp : Protocol {} cs)
    (hq : (arun {} cs).1.reqs = []) (hw : (arun {} cs).1.wq = []) : isEmpty (trun {} cs).1 = true :=
  quiescent_empty_general cs hp hq hw

open Uniflow.ATracer in
/-- **Node contract, all three kinds, relative to the call protocol.** The replies of a node of ANY
kind (one-to-one, one-to-many, many-to-one with its `ReadGroup`), for every schedule of
{deliver, read, action returns (any outcome, including the input packet itself), one Link/Write
call at a time, downstream answer} steps, are exactly the abstract tracer's replies on the calls
the node makes (`callsOf`), and the tracer does not panic – provided those calls follow the
protocol.  `_partial`: the hypothesis `Protocol` (the node programs never write an unlinked packet,
never link to an answered request, use fresh ids) is NOT proved here for arbitrary schedules
(`C02.node_protocol_full` below); `protoB` decides it for any concrete schedule. -/
theorem C02.node_contract_partial_all_kinds (k : Kind) (sched : List Step)
    (hp : Protocol {} (callsOf (Uniflow.Node.mk k) sched)) :
    (Uniflow.Node.run (Uniflow.Node.mk k) sched).2 = (arun {} (callsOf (Uniflow.Node.mk k) sched)).2 ∧
    (Uniflow.Node.run (Uniflow.Node.mk k) sched).1.tr.panic = false := by
  have hc := run_calls sched (Uniflow.Node.mk k) rfl
  obtain ⟨h1, h2, _⟩ := C02.tracer_refines _ hp
  have e : (Uniflow.Node.mk k).tr = {} := rfl
  rw [e] at hc
  constructor
  · rw [← h1, hc]
  · rw [hc] at h2; exact h2

open Uniflow.ATracer in
/-- one-to-many instance (several derived packets per request; error port; `Write(nil, in)` echo) -/
theorem C02.node_contract_one_to_many_partial (nOut : Nat) (sched : List Step)
    (hp : Protocol {} (callsOf (Uniflow.Node.mk (.oneToMany nOut)) sched)) :
    (Uniflow.Node.run (Uniflow.Node.mk (.oneToMany nOut)) sched).2 =
      (arun {} (callsOf (Uniflow.Node.mk (.oneToMany nOut)) sched)).2 ∧
    (Uniflow.Node.run (Uniflow.Node.mk (.oneToMany nOut)) sched).1.tr.panic = false :=
  C02.node_contract_partial_all_kinds _ sched hp

open Uniflow.ATracer in
/-- many-to-one instance (one forward thread per in-port sharing the tracer and the `ReadGroup`) -/
theorem C02.node_contract_many_to_one_partial (nIn : Nat) (sched : List Step)
    (hp : Protocol {} (callsOf (Uniflow.Node.mk (.manyToOne nIn)) sched)) :
    (Uniflow.Node.run (Uniflow.Node.mk (.manyToOne nIn)) sched).2 =
      (arun {} (callsOf (Uniflow.Node.mk (.manyToOne nIn)) sched)).2 ∧
    (Uniflow.Node.run (Uniflow.Node.mk (.manyToOne nIn)) sched).1.tr.panic = false :=
  C02.node_contract_partial_all_kinds _ sched hp

open Uniflow.ATracer in
/-- non-vacuity, one-to-many with two out-ports: one request, two derived packets linked, the first
accepted and answered (atom 21) AFTER the second was refused by its writer (echo, atom 12): the
protocol holds (`protoB`) and the single reply is `Join [21, 12]`, a slice in port order. -/
theorem C02.node_contract_one_to_many_nonvacuous :
    protoB {} (callsOf (Uniflow.Node.mk (.oneToMany 2))
      [.deliver 0 ⟨1, .atom 1⟩, .read 0, .finish 0 (.outs [some ⟨2, .atom 11⟩, some ⟨3, .atom 12⟩]),
       .op 0 false, .op 0 false, .op 0 true, .op 0 false, .answer 1 (.pay (.atom 21))]) = true ∧
    (match (Uniflow.Node.run (Uniflow.Node.mk (.oneToMany 2))
      [.deliver 0 ⟨1, .atom 1⟩, .read 0, .finish 0 (.outs [some ⟨2, .atom 11⟩, some ⟨3, .atom 12⟩]),
       .op 0 false, .op 0 false, .op 0 true, .op 0 false, .answer 1 (.pay (.atom 21))]).2 with
      | [Ev.reply 0 (.pay (.slice [.atom 21, .atom 12]))] => true
      | _ => false) = true := by
  constructor <;> rfl

open Uniflow.ATracer in
/-- non-vacuity, many-to-one with two in-ports: the first member of a group is answered at once with
itself (echo), the member that completes the group with the answer to the action's output. -/
theorem C02.node_contract_many_to_one_nonvacuous :
    protoB {} (callsOf (Uniflow.Node.mk (.manyToOne 2))
      [.deliver 0 ⟨1, .atom 1⟩, .read 0, .op 0 false, .deliver 1 ⟨2, .atom 2⟩, .read 1,
       .finish 1 (.outs [some ⟨3, .atom 3⟩]), .op 1 false, .op 1 true, .answer 1 (.pay (.atom 9))]) = true ∧
    (match (Uniflow.Node.run (Uniflow.Node.mk (.manyToOne 2))
      [.deliver 0 ⟨1, .atom 1⟩, .read 0, .op 0 false, .deliver 1 ⟨2, .atom 2⟩, .read 1,
       .finish 1 (.outs [some ⟨3, .atom 3⟩]), .op 1 false, .op 1 true, .answer 1 (.pay (.atom 9))]).2 with
      | [Ev.reply 0 (.pay (.atom 1)), Ev.reply 1 (.pay (.atom 9))] => true
      | _ => false) = true := by
  constructor <;> rfl

open Uniflow.ATracer in
/-- the executable protocol check is sound (so `protoB … = true` may replace `Protocol` above) -/
theorem C02.protocol_check_sound (cs : List Call) (h : protoB {} cs = true) : Protocol {} cs :=
  protoB_sound cs {} h

open Uniflow.ATracer in
/-- what the abstract tracer's replies are: `flushR r` (its only source of replies) answers exactly the
maximal complete prefix of reader `r`'s requests – in read order, one reply each (`Join` of the
request's cells), the answered requests leave the state, the next one of `r` is incomplete. -/
theorem C02.atracer_flush_in_order (r : Rid) (rs : List Req) :
    ∃ pre, rs.filter (fun x => x.r = r) = pre ++ (flushR r rs).1.filter (fun x => x.r = r) ∧
      (∀ x ∈ pre, ∃ a, reply x.st = some a) ∧
      (flushR r rs).2 = pre.flatMap (replyEv r) ∧
      (∀ x rest, (flushR r rs).1.filter (fun x => x.r = r) = x :: rest → reply x.st = none) :=
  flushR_spec r rs

open Uniflow.ATracer in
/-- the remaining obligation for an unconditional theorem for every kind (NOT proved): node programs
follow the call protocol under every schedule with fresh packet ids. -/
def C02.node_protocol_full : Prop :=
  ∀ (k : Kind) (sched : List Step), (sched.flatMap introduced).Nodup → (∀ st ∈ sched, validFor k st) →
    Protocol {} (callsOf (Uniflow.Node.mk k) sched)


/-! ### the node programs follow the call protocol: unconditional node contracts for every kind -/

open Uniflow.ATracer in
/-- **The node programs follow the tracer's call protocol** under every schedule whose packet ids are
fresh (every `packet.New` is a new uuid), for every node kind – any interleaving of the forward
threads' single `Link`/`Write` calls with each other, with reads, deliveries and downstream answers.
Invariant (`Uniflow.ATracer.J`): the remaining program of each forward thread is "links then writes";
the writes' packets are exactly the currently linked cells of the thread's request followed by the
pending link targets; that request stays in the abstract state while ops remain; a counting
invariant makes inbox packets and pending link targets fresh. -/
theorem C02.node_protocol : C02.node_protocol_full := by
  intro k sched hnd _
  have e : introduced = introS := by
    funext st
    cases st with
    | finish i o => cases o <;> rfl
    | _ => rfl
  exact Uniflow.ATracer.node_protocol k sched (e ▸ hnd)

open Uniflow.ATracer in
/-- **Node contract, every kind, unconditional.** For a node of any kind and every schedule with
fresh packet ids – any number of requests in flight, answers falling anywhere between a forward
thread's `Read`, `Link` and `Write` calls – the replies sent to the in-readers are exactly the
abstract tracer's replies on the calls the node makes (each request answered once, per reader in
read order, with `Join` of the answers to the packets derived from it:
`C02.answers_in_read_order_all_kinds`, `C02.reply_content_all_kinds`), and the tracer never panics. -/
theorem C02.node_contract (k : Kind) (sched : List Step) (hnd : (sched.flatMap introduced).Nodup) :
    (Uniflow.Node.run (Uniflow.Node.mk k) sched).2 = (arun {} (callsOf (Uniflow.Node.mk k) sched)).2 ∧
    (Uniflow.Node.run (Uniflow.Node.mk k) sched).1.tr.panic = false :=
  C02.node_contract_partial_all_kinds k sched (by
    have e : introduced = introS := by
      funext st
      cases st with
      | finish i o => cases o <;> rfl
      | _ => rfl
    exact Uniflow.ATracer.node_protocol k sched (e ▸ hnd))

open Uniflow.ATracer in
/-- **Node contract when actions return their INPUT packet** (`return inPck, nil` – the pass-through most of
uniflow's own nodes are –, `return nil, inPck`, `[inPck]`): the freshness hypothesis of `C02.node_contract` is
needed only for the packets that are NEW. `introRun` collects, along the run, the ids each step introduces; a
`finish` whose result is exactly the packet its action runs on introduces none – the node then calls `Link(in, in)`
(ignored by the tracer) and `Write(out, in)`, the request itself is awaited on the out-writer. Every schedule with
fresh ids (`C02.node_contract`) is covered (`introRun` is then a sublist of `flatMap introduced`). -/
theorem C02.node_contract_same (k : Kind) (sched : List Step)
    (hnd : (introRun (Uniflow.Node.mk k) sched).Nodup) :
    (Uniflow.Node.run (Uniflow.Node.mk k) sched).2 = (arun {} (callsOf (Uniflow.Node.mk k) sched)).2 ∧
    (Uniflow.Node.run (Uniflow.Node.mk k) sched).1.tr.panic = false :=
  C02.node_contract_partial_all_kinds k sched (Uniflow.ATracer.node_protocol_same k sched hnd)

open Uniflow.ATracer in
/-- non-vacuity: a pass-through schedule – the packet with id 1 is delivered, read, RETURNED by the action, linked
to itself, written, answered with 9 – satisfies the hypothesis of `C02.node_contract_same`, not the freshness
hypothesis of `C02.node_contract` (id 1 is introduced twice), and the request is answered once, with 9 -/
theorem C02.node_contract_same_nonvacuous :
    (introRun (Uniflow.Node.mk .oneToOne)
      [.deliver 0 ⟨1, .atom 1⟩, .read 0, .finish 0 (.outs [some ⟨1, .atom 1⟩]), .op 0 true, .op 0 true,
       .answer (outW 0) (.pay (.atom 9))]).Nodup ∧
    ¬ (List.flatMap introduced
      [Step.deliver 0 ⟨1, .atom 1⟩, .read 0, .finish 0 (.outs [some ⟨1, .atom 1⟩]), .op 0 true, .op 0 true,
       .answer (outW 0) (.pay (.atom 9))]).Nodup ∧
    (match (Uniflow.Node.run (Uniflow.Node.mk .oneToOne)
      [.deliver 0 ⟨1, .atom 1⟩, .read 0, .finish 0 (.outs [some ⟨1, .atom 1⟩]), .op 0 true, .op 0 true,
       .answer (outW 0) (.pay (.atom 9))]).2 with
     | [Ev.reply 0 (.pay (.atom 9))] => true
     | _ => false) = true := by
  refine ⟨by decide, by decide, by rfl⟩

open Uniflow.ATracer in
/-- one-to-many node, unconditional (several derived packets per request, error port, echo) -/
theorem C02.node_contract_one_to_many (nOut : Nat) (sched : List Step) (hnd : (sched.flatMap introduced).Nodup) :
    (Uniflow.Node.run (Uniflow.Node.mk (.oneToMany nOut)) sched).2 =
      (arun {} (callsOf (Uniflow.Node.mk (.oneToMany nOut)) sched)).2 ∧
    (Uniflow.Node.run (Uniflow.Node.mk (.oneToMany nOut)) sched).1.tr.panic = false :=
  C02.node_contract _ sched hnd

open Uniflow.ATracer in
/-- many-to-one node with its `ReadGroup`, unconditional -/
theorem C02.node_contract_many_to_one (nIn : Nat) (sched : List Step) (hnd : (sched.flatMap introduced).Nodup) :
    (Uniflow.Node.run (Uniflow.Node.mk (.manyToOne nIn)) sched).2 =
      (arun {} (callsOf (Uniflow.Node.mk (.manyToOne nIn)) sched)).2 ∧
    (Uniflow.Node.run (Uniflow.Node.mk (.manyToOne nIn)) sched).1.tr.panic = false :=
  C02.node_contract _ sched hnd

/-! ### statement-level facts for every kind -/

open Uniflow.ATracer in
/-- **Answered exactly once, in read order, every kind.** For a node of any kind and every fresh-id
schedule there is a list `popped` of requests (each in the state it had when it was answered) such
that: the node's replies are exactly `popped`'s replies, in that order, one per request, each on the
reader the request was read on; every request in `popped` was complete; and for EVERY in-reader `r`
the requests read on `r` during the run (`readLog`, in read order) are the answered ones (in the
order answered) followed by the ones still unanswered (in the order held). So on each reader the
k-th reply answers the k-th request read, no request is answered twice or skipped. -/
theorem C02.answers_in_read_order_all_kinds (k : Kind) (sched : List Step)
    (hnd : (sched.flatMap introduced).Nodup) :
    ∃ popped : List Req,
      (Uniflow.Node.run (Uniflow.Node.mk k) sched).2 = popped.flatMap replyOfReq ∧
      (∀ x ∈ popped, ∃ b, reply x.st = some b) ∧
      ∀ r, readLog (callsOf (Uniflow.Node.mk k) sched) r =
        (popped.filter (fun x => x.r = r)).map (·.p) ++
        ((arun {} (callsOf (Uniflow.Node.mk k) sched)).1.reqs.filter (fun x => x.r = r)).map (·.p) := by
  obtain ⟨popped, h1, h2, h3⟩ := arun_answers (callsOf (Uniflow.Node.mk k) sched) {}
  refine ⟨popped, by rw [(C02.node_contract k sched hnd).1, h1], h2, ?_⟩
  intro r; have := h3 r; simpa using this

open Uniflow.ATracer in
/-- **The reply is the `Join` of the answers to the derived packets.** A request is answered only in
the state `cells cs` with at least one cell, all cells filled; the reply is `packet.Join` of the
cells' answers in link (= out-port) order. -/
theorem C02.reply_content_all_kinds (st : RSt) (a : Ans) (h : reply st = some a) :
    ∃ cs, st = .cells cs ∧ cs ≠ [] ∧ cs = (filledAns cs).map Cell.filled ∧ a = join (filledAns cs) :=
  reply_content st a h

open Uniflow.ATracer in
/-- where the cells' answers come from: (i) a write nobody accepted – no reader downstream, or
`Write(nil, in)` when the action emitted nothing – answers the written packet with itself (echo);
(ii) filling packet `k` changes exactly the open cell of `k` into `filled ans` (so an answer is
credited to the packet it was given for); (iii) with two or more derived packets an error among
their answers makes the reply an error; with exactly one the reply is that answer. -/
theorem C02.reply_cells_provenance :
    (∀ (a : A) (w : Option Wid) (k : Pid) (pay : Ans) (acc : Bool), ¬ (w.isSome = true ∧ acc = true) →
        awrite a w k pay acc = afill a k pay) ∧
    (∀ (k : Pid) (ans : Ans) (cs : List Cell), (openIds cs).Nodup → k ∈ openIds cs →
        ∃ pre c post, cs = pre ++ c :: post ∧ openIds [c] = [k] ∧ fillCell k ans cs = pre ++ Cell.filled ans :: post) ∧
    (∀ (a b : Ans) (as : List Ans) (ms : List Nat), Ans.pay (.err ms) ∈ a :: b :: as →
        ∃ ms', join (a :: b :: as) = .pay (.err ms')) ∧
    (∀ a : Ans, join [a] = a) :=
  ⟨write_refused_is_echo, fillCell_spec, join_error_dominates, join_single⟩


/-! ### the joint model (`Uniflow.Flow`: nodes + links + sinks in one process, the model the driver replays) -/

open Uniflow.ATracer Uniflow.Flow in
/-- **Every node of the joint model honours the node contract.** For every workflow (any kinds, any
links) and every schedule of the Flow machine in which actions return new packets, every node of
the state reached is the node model run on a schedule with pairwise distinct packet ids (they come
from the counter `G.next`); hence – `C02.node_protocol`, `C02.tracer_refines` – its tracer has not
panicked and holds exactly an abstract tracer state satisfying the invariant. The local guarantees of
`C02.compose_instance_partial` therefore hold inside the joint model, not only for nodes in isolation. -/
theorem C02.flow_nodes_honour_contract (kinds : List Kind) (links : List (Nat × List Tgt)) (es : List Ext)
    (hf : ∀ e ∈ es, e.fresh = true) (n : Nat) (nd : Node)
    (hn : getNode (runExt (initG kinds links) es).nodes n = some nd) :
    (∃ sched, nd = (Uniflow.Node.run (Uniflow.Node.mk nd.kind) sched).1 ∧ (sched.flatMap introduced).Nodup) ∧
    nd.tr.panic = false ∧ ∃ a : A, Uniflow.ATracer.TRel a nd.tr ∧ Inv a ∧ a.bad = false := by
  have h := runExt_ok es _ (nodesOK_init kinds links) hf n nd hn
  have e : introduced = introS := by
    funext st
    cases st with
    | finish i o => cases o <;> rfl
    | _ => rfl
  obtain ⟨h1, _, h3⟩ := histOK_contract _ nd h
  obtain ⟨sched, g1, g2, _⟩ := h
  exact ⟨⟨sched, g1, e ▸ g2⟩, h1, h3⟩

open Uniflow.Flow in
/-- The reference answer (`Uniflow.Flow.refAns`, computed from the ghost derivation log) is what the
property says: a packet nobody accepted is answered with itself; a copy delivered to a sink with the
sink's answer; an accepted write with `Join` of the answers to its copies; a request with `Join` of the
answers to the packets derived from it in link order – each only once everything below is determined. -/
theorem C02.refAns_is_join_over_tree (lg : Log) (f : Nat) (p : Pid) :
    (∀ v, aget lg.echo p = some v → refAns lg (f + 1) p = some (.pay v)) ∧
    (∀ a, aget lg.echo p = none → aget lg.sinkAns p = some a → refAns lg (f + 1) p = some a) ∧
    (∀ cs, aget lg.echo p = none → aget lg.sinkAns p = none → aget lg.dels p = some cs →
      refAns lg (f + 1) p = (allSome (cs.map (refAns lg f))).map join) ∧
    (∀ qs, aget lg.echo p = none → aget lg.sinkAns p = none → aget lg.dels p = none → aget lg.acts p = some qs →
      refAns lg (f + 1) p = (allSome (qs.map (refAns lg f))).map join) :=
  refAns_spec lg f p

open Uniflow.Flow in
/-- a determined reference answer is stable: more fuel does not change it, and neither does recording
a fact about a packet nothing was recorded about before (the derivation tree only grows at open leaves) -/
theorem C02.refAns_stable (lg lg' : Log) (k : Pid) (f : Nat) (p : Pid) (a : Ans) (h : refAns lg f p = some a) :
    refAns lg (f + 1) p = some a ∧ (LogExt lg lg' k → refAns lg' f p = some a) :=
  ⟨refAns_fuel_mono lg f p a h, fun hx => refAns_log_mono lg lg' k hx f p a h⟩

open Uniflow.Flow in
/-- **Link layer of the joint model, 1:** `Writer.receive` as the Flow model has it (`fillCol`) credits a
reader's answer to the OLDEST pending row that still owes that reader (all rows before it have that
reader's cell filled), changes nothing else, and reports whether that row is row 0; it fails only
when no row owes that reader. -/
theorem C02.flow_link_credits_oldest (col : Nat) (a : Ans) (rows : List (List (Option Ans))) (first : Bool) :
    (∀ rows' f, fillCol col a rows first = some (rows', f) →
      ∃ pre row post, rows = pre ++ row :: post ∧ (∀ r ∈ pre, cellFree r col = false) ∧
        cellFree row col = true ∧ rows' = pre ++ setCell row col a :: post ∧ f = (first && pre.isEmpty)) ∧
    (fillCol col a rows first = none → ∀ r ∈ rows, cellFree r col = false) :=
  ⟨fun rows' f h => fillCol_spec col a rows rows' first f h, fillCol_none col a rows first⟩

open Uniflow.Flow in
/-- **Link layer, 2:** the pending rows of a writer keep the column-prefix shape (in every column the
answered rows come before the owed ones) under `fillCol`; in that shape a complete row has only
complete rows before it, so emitting only row 0 strands nothing and the k-th answer a writer hands
to its node belongs to its k-th accepted write – the C01 contract (`C01.in_order`), here proved
directly for the Flow model's own (never closed, fully linked) writer rather than through
`WriterSpec`. -/
theorem C02.flow_link_in_order (col : Nat) (a : Ans) (rows rows' : List (List (Option Ans))) (first f : Bool)
    (hp : ColPrefix rows) (h : fillCol col a rows first = some (rows', f)) :
    ColPrefix rows' ∧
    ∀ pre row post, rows' = pre ++ row :: post → (∀ c, cellFree row c = false) →
      ∀ r ∈ pre, ∀ c, cellFree r c = false :=
  ⟨colPrefix_fill col a rows rows' first f hp h,
   fun pre row post hs hc => colPrefix_complete_prefix rows' (colPrefix_fill col a rows rows' first f hp h) pre row post hs hc⟩

open Uniflow.Flow in
/-- links go forward: a writer of node `n` (key `n*64+w`) or the source feeds only nodes with a larger
index / the source feeds node in-ports -/
def C02.FlowWF (kinds : List Kind) (links : List (Nat × List Tgt)) : Prop :=
  ∀ key tgts, (key, tgts) ∈ links → ∀ t ∈ tgts,
    match t with
    | .node m port => m < kinds.length ∧ (key = srcKey ∨ key / 64 < m) ∧ port < 64
    | .sink _ => True

open Uniflow.Flow in
/-- **End-to-end statement (NOT proved in general; proved for class T1: `C02.flow_safety_partial`,
`C02.flow_quiescent_partial`).** For every acyclic workflow of the three node kinds whose source is
linked and EVERY schedule of the Flow machine (fresh action results):
(safety, every prefix) the i-th response the source has received is the reference answer of its i-th
request – in particular a response exists only when every packet derived from the request, down to the
sinks, has been answered; and (at quiescence) every request has exactly one response, in request
order, equal to `refAns`.
Checked on every run of `bin/check C02`: the driver prints `refAnswers` at `end` (`F…`) – compared with the
REAL responses by the harness – and `M1` iff the model's own responses equal them. -/
def C02.flow_answers_eq_ref_full : Prop :=
  ∀ (kinds : List Kind) (links : List (Nat × List Tgt)) (es : List Ext),
    C02.FlowWF kinds links → Uniflow.Tracer.getL links srcKey ≠ [] → (∀ e ∈ es, e.fresh = true) →
    let g := runExt (initG kinds links) es
    (∀ (i : Nat) (a : Ans), g.resp[i]? = some a → ∃ p, g.roots[i]? = some p ∧ ∃ f, refAns g.log f p = some a) ∧
    (quiescent g = true → anyPanic g = false → refAnswers g = some g.resp)

open Uniflow.Flow in
/-- a concrete workflow for the instance below: a diamond – one-to-many node 0 → one-to-one nodes 1, 2 →
many-to-one node 3 → sink 0; every error port and nothing else unconnected -/
def C02.diamondLinks : List (Nat × List Tgt) :=
  [(srcKey, [.node 0 0]), (wkey 0 1, [.node 1 0]), (wkey 0 2, [.node 2 0]),
   (wkey 1 1, [.node 3 0]), (wkey 2 1, [.node 3 1]), (wkey 3 1, [.sink 0])]

open Uniflow.Flow in
/-- two pipelined requests; the second enters node 0's action while the first is still below it; node 1
fails on the second (its error port is unconnected: echo) -/
def C02.diamondSched : List Ext :=
  [.send (.atom 1), .send (.atom 2),
   .release 0 (.many [some (.atom 3), some (.atom 4)]),
   .release 1 (.out (.atom 5)),
   .release 0 (.many [some (.atom 7), some (.atom 8)]),
   .release 2 (.out (.atom 9)),
   .release 3 (.out (.atom 10)),
   .release 1 (.err (.err [11])),
   .sinkAnswer 0 (some (.pay (.atom 12))),
   .release 2 (.out (.atom 13))]

open Uniflow.Flow in
/-- **The end-to-end statement on a concrete run** (kernel-evaluated): the run above ends quiescent and
without panic, the source has received exactly two responses, in request order, and they ARE the
reference answers – `[5, 12]` (the echo of the group member that arrived first joined with the sink's
answer to the output derived from the member that completed the group) and the error `11` (an error
anywhere makes the answer an error). Non-vacuity of `C02.flow_answers_eq_ref_full`. -/
theorem C02.flow_answers_eq_ref_instance :
    quiescent (runExt (initG [.oneToMany 2, .oneToOne, .oneToOne, .manyToOne 2] C02.diamondLinks) C02.diamondSched) = true ∧
    anyPanic (runExt (initG [.oneToMany 2, .oneToOne, .oneToOne, .manyToOne 2] C02.diamondLinks) C02.diamondSched) = false ∧
    (match refAnswers (runExt (initG [.oneToMany 2, .oneToOne, .oneToOne, .manyToOne 2] C02.diamondLinks) C02.diamondSched),
           (runExt (initG [.oneToMany 2, .oneToOne, .oneToOne, .manyToOne 2] C02.diamondLinks) C02.diamondSched).resp with
     | some [.pay (.slice [.atom 5, .atom 12]), .pay (.err [11])],
       [.pay (.slice [.atom 5, .atom 12]), .pay (.err [11])] => true
     | _, _ => false) = true := by
  refine ⟨?_, ?_, ?_⟩ <;> rfl

/-! ### the pinned tree -/

/-- On the pinned tree (`strict := false`: a read packet without an entry in `receives` counts as
complete) the contract fails: two pipelined requests, the first's answer arrives while the second
is inside its action – the second is answered with the empty packet. -/
theorem C02.pinned_tree_violates :
    (match (Uniflow.Node.run (Uniflow.Node.mk .oneToOne false)
        (concr 0 [.deliver (.atom 1), .deliver (.atom 2), .read, .finishOut (.atom 11), .op true, .op true,
                  .read, .answer (outW 0) (.pay (.atom 21))])).2 with
      | [Ev.reply 0 (.pay (.atom 21)), Ev.reply 0 .empty] => true
      | _ => false) = true ∧
    (Uniflow.NodeSpec.run {}
        (concr 0 [.deliver (.atom 1), .deliver (.atom 2), .read, .finishOut (.atom 11), .op true, .op true,
                  .read, .answer (outW 0) (.pay (.atom 21))])).2.length = 1 := by
  constructor <;> rfl

/-! ### composition -/

/-- Assume/guarantee composition over a finite acyclic graph, over abstract contract predicates.
Nodes are numbered `0 … n-1` in a topological order; `feeds i k j` says writer `k` of node `i` is
linked to an in-port of node `j` (sinks and unconnected writers feed nothing and satisfy
`writerContract` outright).  `NodeOK j`: node `j` honours the node contract on its in-readers
(each request answered once, in order, with the join of the derived answers);  `WriterOK i k`:
writer `k` of node `i` honours the C01 contract towards node `i` (one response per accepted write,
in order).  If every node satisfies the node contract given its writers' contracts, and every
writer its contract given the nodes it feeds, then every node – in particular every source – does. -/
theorem C02.compose (n : Nat) (feeds : Nat → Nat → Nat → Prop)
    (NodeOK : Nat → Prop) (WriterOK : Nat → Nat → Prop)
    (acyclic : ∀ i k j, feeds i k j → i < j)
    (bounded : ∀ i k j, feeds i k j → j < n)
    (nodeContract : ∀ i, i < n → (∀ k, WriterOK i k) → NodeOK i)
    (writerContract : ∀ i k, (∀ j, feeds i k j → NodeOK j) → WriterOK i k) :
    ∀ i, i < n → NodeOK i := by
  have key : ∀ d i, i < n → n - i ≤ d → NodeOK i := by
    intro d
    induction d with
    | zero => intro i hi hd; omega
    | succ d ih =>
      intro i hi hd
      apply nodeContract i hi
      intro k
      apply writerContract
      intro j hf
      have h1 := acyclic i k j hf
      have h2 := bounded i k j hf
      exact ih j h2 (by omega)
  intro i hi
  exact key (n - i) i hi (Nat.le_refl _)


/-! ### `compose` instantiated with the concrete local contracts -/

open Uniflow.ATracer in
/-- the node contract of one node, as proved above, as a predicate (what `NodeOK i` is instantiated
with): for every fresh-id schedule of that node – i.e. for EVERY behaviour of its environment,
whatever the writers downstream answer and whenever – its replies are the abstract tracer's, the
tracer does not panic, and on every in-reader the requests are answered once, in read order. -/
def C02.NodeOKc (k : Kind) : Prop :=
  ∀ sched : List Step, (sched.flatMap introduced).Nodup →
    ((Uniflow.Node.run (Uniflow.Node.mk k) sched).2 = (arun {} (callsOf (Uniflow.Node.mk k) sched)).2 ∧
     (Uniflow.Node.run (Uniflow.Node.mk k) sched).1.tr.panic = false) ∧
    ∃ popped : List Req,
      (Uniflow.Node.run (Uniflow.Node.mk k) sched).2 = popped.flatMap replyOfReq ∧
      (∀ x ∈ popped, ∃ b, reply x.st = some b) ∧
      ∀ r, readLog (callsOf (Uniflow.Node.mk k) sched) r =
        (popped.filter (fun x => x.r = r)).map (·.p) ++
        ((arun {} (callsOf (Uniflow.Node.mk k) sched)).1.reqs.filter (fun x => x.r = r)).map (·.p)

/-- the writer contract of C01 (`C01.in_order`), as a predicate (what `WriterOK i k` is instantiated
with): for every history of a writer its responses are the specification's and the k-th response
pushed into the pump answers the k-th accepted write. -/
def C02.WriterOKc : Prop :=
  ∀ h : List Uniflow.Writer.Step,
    Uniflow.Writer.emitted (Uniflow.Writer.run h).2 = Uniflow.Writer.emitted (Uniflow.WriterSpec.run h).2 ∧
    (Uniflow.WriterSpec.run h).1.emittedIds = List.range (Uniflow.Writer.emitted (Uniflow.Writer.run h).2).length

/-- **`compose` with concrete predicates, for every finite acyclic graph of the three node kinds**
(`kind i` = kind of node `i`, `feeds i k j` = writer `k` of node `i` is linked to node `j`): every
node satisfies `C02.NodeOKc` and every edge `C02.WriterOKc`.
`_partial`: both local contracts are proved against ALL environment behaviours (the node theorem
quantifies over every schedule of answers, C01's over every history), so the assume/guarantee
antecedents of `compose` are discharged without being used. What this gives for a graph is the
conjunction of the local guarantees on every node and edge – each request answered once, in order,
with the `Join` of the answers its node received, and each writer handing the k-th response to the
k-th accepted write – i.e. the premises from which the end-to-end statement (the source's response
is the join over the whole derivation tree) follows by induction on the depth of the tree. That last
induction needs a model of the nodes and writers running together (`Uniflow.Flow` uses a simplified
writer, not C01's); it is NOT formalised here. -/
theorem C02.compose_instance_partial (n : Nat) (kind : Nat → Kind) (feeds : Nat → Nat → Nat → Prop)
    (acyclic : ∀ i k j, feeds i k j → i < j) (bounded : ∀ i k j, feeds i k j → j < n) :
    ∀ i, i < n → C02.NodeOKc (kind i) :=
  C02.compose n feeds (fun i => C02.NodeOKc (kind i)) (fun _ _ => C02.WriterOKc) acyclic bounded
    (fun i _ _ sched hnd => ⟨C02.node_contract (kind i) sched hnd, C02.answers_in_read_order_all_kinds (kind i) sched hnd⟩)
    (fun _ _ _ => C01.in_order)

/-- chains of `n` one-to-one nodes (node `i` feeds node `i+1` through its out writer) -/
theorem C02.compose_chain (n : Nat) : ∀ i, i < n → C02.NodeOKc .oneToOne :=
  C02.compose_instance_partial n (fun _ => .oneToOne) (fun i k j => k = 1 ∧ j = i + 1 ∧ j < n)
    (by intro i k j h; omega) (by intro i k j h; omega)

/-- a diamond: a one-to-many node 0 fans out to one-to-one nodes 1 and 2, joined by the many-to-one node 3 -/
theorem C02.compose_diamond : ∀ i, i < 4 →
    C02.NodeOKc (match i with | 0 => .oneToMany 2 | 3 => .manyToOne 2 | _ => .oneToOne) :=
  C02.compose_instance_partial 4 (fun i => match i with | 0 => .oneToMany 2 | 3 => .manyToOne 2 | _ => .oneToOne)
    (fun i k j => (i = 0 ∧ ((k = 1 ∧ j = 1) ∨ (k = 2 ∧ j = 2))) ∨ ((i = 1 ∨ i = 2) ∧ k = 1 ∧ j = 3))
    (by intro i k j h; omega) (by intro i k j h; omega)

/-- non-vacuity of `compose`: a diamond 0 → {1, 2} → 3 with trivially true contracts. -/
theorem C02.compose_nonvacuous :
    ∀ i, i < 4 → (fun _ => True) i :=
  C02.compose 4 (fun i _ j => (i = 0 ∧ (j = 1 ∨ j = 2)) ∨ ((i = 1 ∨ i = 2) ∧ j = 3))
    (fun _ => True) (fun _ _ => True)
    (by intro i k j h; omega) (by intro i k j h; omega) (fun _ _ _ => trivial) (fun _ _ _ => trivial)

/-! ### `Tracer.Drop` (the end of a backward loop whose writer's channel closed) -/

/-- is the event `reader.Receive(New(ErrDroppedPacket))` on reader `r`? -/
def isDroppedReply (r : Rid) : Ev → Bool
  | .reply r' (.pay (.err [0])) => r' == r
  | _ => false

/-- `Tracer.Drop(writer)` on a concrete one-to-one flight: two requests read from reader 0, each
linked to a derived packet written to (and accepted by) writer 1, no response yet.  When writer
1's channel closes, `Drop` answers both requests, in read order, with the dropped packet error and
leaves all seven maps empty – exactly what two `Receive(writer, dropped)` calls would have done
(second conjunct), had the writer pump not discarded the two responses. -/
theorem C02.drop_answers_pending :
    let t : T := (write true (link (read (write true (link (read {} 0 1) 1 11) (some 1) 11 (.pay (.atom 5)) true).1 0 2) 2 12)
                    (some 1) 12 (.pay (.atom 6)) true).1
    getL t.writes 1 = [11, 12] ∧
    ((dropW true t 1).2.map (isDroppedReply 0)) = [true, true] ∧ isEmpty (dropW true t 1).1 = true ∧
    (let r1 := receiveW true t 1 (some Ans.dropped)
     let r2 := receiveW true r1.1 1 (some Ans.dropped)
     ((r1.2 ++ r2.2).map (isDroppedReply 0)) = [true, true] ∧ isEmpty r2.1 = true) := by
  decide

/-- `Drop` on a writer nothing is pending on does nothing. -/
theorem C02.drop_nothing_pending (strict : Bool) (t : T) (w : Wid) (h : aget t.writes w = none) :
    (dropW strict t w).2 = [] ∧ (dropW strict t w).1 = { t with writes := adel t.writes w } := by
  simp [dropW, getL, h, dropLoop]
