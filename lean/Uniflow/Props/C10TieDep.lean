/-
C10 – re-statements of the function-outline ties of source files this property DEPENDS on without being anchored in
them (bin/mk_dependency_ties.py; hand-run): a source change there is reported for C10 as well.
-/
import Uniflow.Props.C12TieFn1
import Uniflow.Props.C11TieFn1

theorem C10.dep_C12_store_segment_as_modelled_1 : type_of% C12.src_store_segment_as_modelled_1 := C12.src_store_segment_as_modelled_1
theorem C10.dep_C12_store_segment_as_modelled_2 : type_of% C12.src_store_segment_as_modelled_2 := C12.src_store_segment_as_modelled_2
theorem C10.dep_C12_store_segment_as_modelled_3 : type_of% C12.src_store_segment_as_modelled_3 := C12.src_store_segment_as_modelled_3
theorem C10.dep_C11_store_executionplan_as_modelled : type_of% C11.src_store_executionplan_as_modelled := C11.src_store_executionplan_as_modelled
