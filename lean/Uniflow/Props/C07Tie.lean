/-
C07 – theorems that tie `Model/Table.lean` to the fact table regenerated from pkg/symbol/table.go
on every run (extract/table.go → Generated/TableFacts.lean); see Props/C06Tie.lean.
-/
import Uniflow.Generated.TableFacts

open Uniflow.Generated.TableFacts

/-- `unlinks` = model `unlinkOut` folded over `o.ports 3 sb.ports`, then `adel sb.id`: an absent
target is skipped (`continue`), the out-port is unlinked when both ports exist, and the reverse
references of the target's in-port are filtered with the keep-condition
`port.ID != sb.ID() || port.Port != name` – the model's `keepRef sbId name e = (e.id ≠ sbId ||
e.port ≠ name)`: an entry is dropped only when it is the freed symbol's own entry for this
out-port; an emptied list is deleted (`else` branch). -/
theorem C07.unlinks_as_modelled :
    of "unlinks" =
      [("loop", "range sb.Ports()", ""),
       ("loop", "range ports", ""),
       ("if", "id == uuid.Nil", "id = t.lookup(sb.Namespace(), port.Name)"),
       ("if", "!ok", "continue"),
       ("if", "out != nil && in != nil", "out.Unlink(in)"),
       ("if", "references == nil", "block:assign,assign"),
       ("loop", "range references[port.Port]", ""),
       ("if", "port.ID != sb.ID() || port.Port != name", "ports = append(ports, port)"),
       ("if", "len(ports) > 0", "references[port.Port] = ports else")] ∧
    sig "unlinks" = some (["sb *Symbol"], []) := by
  decide

/-- `isActivated` = model `actLoop` / `pushRefs`: a stack walk with a *local* visited set; a symbol
without node ⇒ false; a reference whose target is absent or in another namespace ⇒ false; true
when the stack drains.  Its only parameter is the symbol and it reads no table field besides
`symbols` / `namespaces` (see `C06.lookup_and_state_as_modelled`): the answer is not memoised
across calls, as the model assumes by calling it afresh for every element of `linked`. -/
theorem C07.isActivated_as_modelled :
    of "isActivated" =
      [("loop", "for len(stack) > 0", ""),
       ("if", "_, ok := visited[curr]; ok", "continue"),
       ("if", "curr.Node == nil", "return false"),
       ("loop", "range curr.Ports()", ""),
       ("loop", "range ports", ""),
       ("if", "id == uuid.Nil", "id = t.lookup(curr.Namespace(), port.Name)"),
       ("if", "!ok || next.Namespace() != curr.Namespace()", "return false"),
       ("return", "return true", "")] ∧
    sig "isActivated" = some (["sb *Symbol"], ["bool"]) := by
  decide

/-- `linked`, second pass and left-over loop = model `kahn` (+ the final filter of `linked`): pop;
skip what is already listed; for every live referrer decrement and enqueue at zero; finally append
the symbols whose count is non-zero *and that are not listed yet*
(`count != 0 && !slices.Contains(linked, sb)` – model: `p.2.2 ≠ 0 && !(out.any …)`), which is what
`C07.linked_nodup` rests on. -/
theorem C07.linked_second_pass_as_modelled :
    (of "linked").drop 6 =
      [("loop", "for len(queue) > 0", ""),
       ("if", "slices.Contains(linked, curr)", "continue"),
       ("loop", "range t.references[curr.ID()]", ""),
       ("loop", "range ports", ""),
       ("if", "id == uuid.Nil", "id = t.lookup(curr.Namespace(), port.Name)"),
       ("if", "next, ok := t.symbols[id]; ok", "block:incdec,if"),
       ("if", "degree[next] == 0", "queue = append(queue, next)"),
       ("loop", "range degree", ""),
       ("if", "count != 0 && !slices.Contains(linked, sb)", "linked = append(linked, sb)"),
       ("return", "return linked", "")] ∧
    sig "linked" = some (["sb *Symbol"], ["[]*Symbol"]) := by
  decide

/-- `Close`, the order in which it frees = model `closeOrder`: degree = number of reverse
references, start from the symbols nobody references, walk the forward references of the same
namespace decrementing, append what is left over. -/
theorem C07.close_order_as_modelled :
    (of "Close").take 13 =
      [("loop", "range t.symbols", ""),
       ("loop", "range t.references[id]", ""),
       ("loop", "range degree", ""),
       ("if", "count == 0", "queue = append(queue, sb)"),
       ("loop", "for len(queue) > 0", ""),
       ("if", "slices.Contains(symbols, curr)", "continue"),
       ("loop", "range curr.Ports()", ""),
       ("loop", "range ports", ""),
       ("if", "id == uuid.Nil", "id = t.lookup(curr.Namespace(), port.Name)"),
       ("if", "ok && next.Namespace() == curr.Namespace()", "block:incdec,if"),
       ("if", "degree[next] == 0", "queue = append(queue, next)"),
       ("loop", "range degree", ""),
       ("if", "count != 0", "symbols = append(symbols, sb)")] := by
  decide
