/-
C06 – regenerated tie over Generated/SymbolFuncs.lean (extract/funcs.go): the outline of EVERY function of the source
files named below – regenerated from /repo on every run – equals the transcript frozen here (bin/freeze_all.py, repo 7f54b88,
2026-10-01). A theorem that stops checking names the file whose code is no longer the code that was modelled; bin/check then
searches for a failing input.
-/
import Uniflow.Generated.SymbolFuncs

set_option maxRecDepth 16384 in
/-- pkg/symbol/table.go as modelled (part 3 of 4): its declarations (in source order) and the outline of each -/
theorem C06.src_symbol_table_as_modelled_3 :
    Uniflow.Generated.SymbolFuncs.o_symbol_table_Table_links = [
      "for name, ports := range sb.Ports()",
      "  out := sb.Out(name)",
      "  for _, port := range ports",
      "    id := port.ID",
      "    if id == uuid.Nil",
      "      id = t.lookup(sb.Namespace(), port.Name)",
      "    if ref, ok := t.symbols[id]; ok",
      "      if ref.Namespace() == sb.Namespace()",
      "        in := ref.In(port.Port)",
      "        if out != nil && in != nil",
      "          out.Link(in)",
      "        references := t.references[ref.ID()]",
      "        if references == nil",
      "          references = make(map[string][]spec.Port)",
      "          t.references[ref.ID()] = references",
      "        references[port.Port] = append(references[port.Port], spec.Port{ ID: sb.ID(), Name: port.Name, Port: name, })",
      "for _, ref := range t.symbols",
      "  if ref.Namespace() != sb.Namespace()",
      "    continue",
      "  for name, ports := range ref.Ports()",
      "    out := ref.Out(name)",
      "    for _, port := range ports",
      "      if (port.ID == sb.ID()) || (port.Name != \"\" && port.Name == sb.Name())",
      "        in := sb.In(port.Port)",
      "        if out != nil && in != nil",
      "          out.Link(in)",
      "        references := t.references[sb.ID()]",
      "        if references == nil",
      "          references = make(map[string][]spec.Port)",
      "          t.references[sb.ID()] = references",
      "        references[port.Port] = append(references[port.Port], spec.Port{ ID: ref.ID(), Name: port.Name, Port: name, })"
    ] ∧
    Uniflow.Generated.SymbolFuncs.o_symbol_table_Table_unlinks = [
      "for name, ports := range sb.Ports()",
      "  out := sb.Out(name)",
      "  for _, port := range ports",
      "    id := port.ID",
      "    if id == uuid.Nil",
      "      id = t.lookup(sb.Namespace(), port.Name)",
      "    ref, ok := t.symbols[id]",
      "    if !ok",
      "      continue",
      "    in := ref.In(port.Port)",
      "    if out != nil && in != nil",
      "      out.Unlink(in)",
      "    references := t.references[ref.ID()]",
      "    if references == nil",
      "      references = make(map[string][]spec.Port)",
      "      t.references[ref.ID()] = references",
      "    var ports []spec.Port",
      "    for _, port := range references[port.Port]",
      "      if port.ID != sb.ID() || port.Port != name",
      "        ports = append(ports, port)",
      "    if len(ports) > 0",
      "      references[port.Port] = ports",
      "    else",
      "      delete(references, port.Port)",
      "delete(t.references, sb.ID())"
    ] ∧
    Uniflow.Generated.SymbolFuncs.o_symbol_table_Table_linked = [
      "degree := map[*Symbol]int{}",
      "visited := map[*Symbol]struct{}{}",
      "queue := []*Symbol{sb}",
      "for len(queue) > 0",
      "  curr := queue[0]",
      "  queue = queue[1:]",
      "  if _, ok := visited[curr]; ok",
      "    continue",
      "  visited[curr] = struct{}{}",
      "  for _, ports := range t.references[curr.ID()]",
      "    for _, port := range ports",
      "      id := port.ID",
      "      if id == uuid.Nil",
      "        id = t.lookup(curr.Namespace(), port.Name)",
      "      if next, ok := t.symbols[id]; ok",
      "        degree[next]++",
      "        queue = append(queue, next)",
      "var linked []*Symbol",
      "queue = []*Symbol{sb}",
      "for len(queue) > 0",
      "  curr := queue[0]",
      "  queue = queue[1:]",
      "  if slices.Contains(linked, curr)",
      "    continue",
      "  linked = append(linked, curr)",
      "  for _, ports := range t.references[curr.ID()]",
      "    for _, port := range ports",
      "      id := port.ID",
      "      if id == uuid.Nil",
      "        id = t.lookup(curr.Namespace(), port.Name)",
      "      if next, ok := t.symbols[id]; ok",
      "        degree[next]--",
      "        if degree[next] == 0",
      "          queue = append(queue, next)",
      "for sb, count := range degree",
      "  if count != 0 && !slices.Contains(linked, sb)",
      "    linked = append(linked, sb)",
      "return linked"
    ] := by
  decide

set_option maxRecDepth 16384 in
/-- pkg/symbol/table.go as modelled (part 1 of 4): its declarations (in source order) and the outline of each -/
theorem C06.src_symbol_table_as_modelled_1 :
    Uniflow.Generated.SymbolFuncs.o_symbol_table_fn_NewTable = [
      "var loadHooks []LoadHook",
      "var unloadHooks []UnloadHook",
      "for _, opt := range opts",
      "  loadHooks = append(loadHooks, opt.LoadHooks...)",
      "  unloadHooks = append(unloadHooks, opt.UnloadHooks...)",
      "return &Table{ symbols: make(map[uuid.UUID]*Symbol), namespaces: make(map[string]map[string]uuid.UUID), references: make(map[uuid.UUID]map[string][]spec.Port), loadHooks: loadHooks, unloadHooks: unloadHooks, }"
    ] ∧
    Uniflow.Generated.SymbolFuncs.o_symbol_table_Table_AddLoadHook = [
      "t.mu.Lock()",
      "defer t.mu.Unlock()",
      "if hook == nil",
      "  return false",
      "for _, h := range t.loadHooks",
      "  if h == hook",
      "    return false",
      "t.loadHooks = append(t.loadHooks, hook)",
      "return true"
    ] ∧
    Uniflow.Generated.SymbolFuncs.o_symbol_table_Table_RemoveLoadHook = [
      "t.mu.Lock()",
      "defer t.mu.Unlock()",
      "if hook == nil",
      "  return false",
      "for i, h := range t.loadHooks",
      "  if h == hook",
      "    t.loadHooks = append(t.loadHooks[:i], t.loadHooks[i+1:]...)",
      "    return true",
      "return false"
    ] ∧
    Uniflow.Generated.SymbolFuncs.o_symbol_table_Table_AddUnloadHook = [
      "t.mu.Lock()",
      "defer t.mu.Unlock()",
      "if hook == nil",
      "  return false",
      "for _, h := range t.unloadHooks",
      "  if h == hook",
      "    return false",
      "t.unloadHooks = append(t.unloadHooks, hook)",
      "return true"
    ] ∧
    Uniflow.Generated.SymbolFuncs.o_symbol_table_Table_RemoveUnloadHook = [
      "t.mu.Lock()",
      "defer t.mu.Unlock()",
      "if hook == nil",
      "  return false",
      "for i, h := range t.unloadHooks",
      "  if h == hook",
      "    t.unloadHooks = append(t.unloadHooks[:i], t.unloadHooks[i+1:]...)",
      "    return true",
      "return false"
    ] ∧
    Uniflow.Generated.SymbolFuncs.o_symbol_table_Table_Insert = [
      "t.mu.Lock()",
      "defer t.mu.Unlock()",
      "if _, err := t.free(sb.ID()); err != nil",
      "  return err",
      "return t.insert(sb)"
    ] ∧
    Uniflow.Generated.SymbolFuncs.o_symbol_table_Table_Free = [
      "t.mu.Lock()",
      "defer t.mu.Unlock()",
      "sb, err := t.free(id)",
      "if err != nil",
      "  return false, err",
      "return sb != nil, nil"
    ] ∧
    Uniflow.Generated.SymbolFuncs.o_symbol_table_Table_Lookup = [
      "t.mu.RLock()",
      "defer t.mu.RUnlock()",
      "return t.symbols[id]"
    ] ∧
    Uniflow.Generated.SymbolFuncs.o_symbol_table_Table_Keys = [
      "t.mu.RLock()",
      "defer t.mu.RUnlock()",
      "ids := make([]uuid.UUID, 0, len(t.symbols))",
      "for id := range t.symbols",
      "  ids = append(ids, id)",
      "return ids"
    ] := by
  decide

set_option maxRecDepth 16384 in
/-- pkg/symbol/table.go as modelled (part 4 of 4): its declarations (in source order) and the outline of each -/
theorem C06.src_symbol_table_as_modelled_4 :
    Uniflow.Generated.SymbolFuncs.o_symbol_table_Table_isActivated = [
      "stack := []*Symbol{sb}",
      "visited := map[*Symbol]struct{}{}",
      "for len(stack) > 0",
      "  curr := stack[len(stack)-1]",
      "  stack = stack[:len(stack)-1]",
      "  if _, ok := visited[curr]; ok",
      "    continue",
      "  visited[curr] = struct{}{}",
      "  if curr.Node == nil",
      "    return false",
      "  for _, ports := range curr.Ports()",
      "    for _, port := range ports",
      "      id := port.ID",
      "      if id == uuid.Nil",
      "        id = t.lookup(curr.Namespace(), port.Name)",
      "      next, ok := t.symbols[id]",
      "      if !ok || next.Namespace() != curr.Namespace()",
      "        return false",
      "      stack = append(stack, next)",
      "return true"
    ] ∧
    Uniflow.Generated.SymbolFuncs.o_symbol_table_Table_exec = [
      "out := port.NewOut()",
      "defer out.Close()",
      "ports := sb.Ports()",
      "for _, port := range ports[name]",
      "  id := port.ID",
      "  if id == uuid.Nil",
      "    id = t.lookup(sb.Namespace(), port.Name)",
      "  ref, ok := t.symbols[id]",
      "  if ok && ref.Namespace() == sb.Namespace()",
      "    if in := ref.In(port.Port); in != nil",
      "      out.Link(in)",
      "payload, err := types.Marshal(sb.Spec)",
      "if err != nil",
      "  return err",
      "proc := process.New()",
      "defer proc.Exit(err)",
      "writer := out.Open(proc)",
      "defer writer.Close()",
      "outPck := packet.New(payload)",
      "backPck := packet.Send(writer, outPck)",
      "if v, ok := backPck.Payload().(types.Error); ok",
      "  err = v.Unwrap()",
      "return err"
    ] ∧
    Uniflow.Generated.SymbolFuncs.o_symbol_table_Table_lookup = [
      "if ns, ok := t.namespaces[namespace]; ok",
      "  return ns[name]",
      "return uuid.Nil"
    ] ∧
    Uniflow.Generated.SymbolFuncs.names_symbol_table = ["fn.NewTable", "Table.AddLoadHook", "Table.RemoveLoadHook", "Table.AddUnloadHook", "Table.RemoveUnloadHook", "Table.Insert", "Table.Free", "Table.Lookup", "Table.Keys", "Table.Close", "Table.insert", "Table.free", "Table.load", "Table.unload", "Table.links", "Table.unlinks", "Table.linked", "Table.isActivated", "Table.exec", "Table.lookup"] := by
  decide

