/-
C10 – the sort direction of `Find` is the codec's int decoder.

`store.Find` reads the direction of a sort field with `order := 1; _ = types.Unmarshal(o, &order)`: the operand goes
through the decoders of an `int` target of pkg/types, and an error is ignored. The store model's `dirOf`
(Model/Store.lean; `Query.refDirection` of the find specification is the same function) is tied here to the codec model
of C16 (Model/Codec.lean `leavesInt`, run by the decoder group of C17): on every well-formed operand the codec model
covers, `dirOf` is what the int decoder returns, and 1 when it returns an error.

Outside the tie, and why: `Float32` operands (the codec model leaves the float32 → int conversion unmodelled; `dirOf`
truncates like for `Float64`, checked by the C10 correspondence on ±1, ±2.5), and `Float64` operands that are NaN, ±Inf or
beyond int64 (implementation-defined in Go; `dirOf` follows amd64 – MinInt64 – and they are not generated).
-/
import Uniflow.Model.Codec
import Uniflow.Spec.FindSpec

open Uniflow.Value Uniflow.Store

/-- what the codec's int decoder makes of the operand, `1` when it does not decode (the ignored error) -/
def C10.codecDir (v : Val) : Int :=
  match Uniflow.Codec.runLeaves (Uniflow.Codec.leavesInt .native) v with
  | .ok (.int n) => n
  | _ => 1

theorem C10.digits_eq : ∀ s : Bytes, digitsOf s = Uniflow.Codec.parseDigits s
  | [] => rfl
  | _ :: _ => rfl

theorem C10.atoi_eq (s : Bytes) : atoiDir s = Uniflow.Codec.atoi s := by
  unfold atoiDir Uniflow.Codec.atoi
  split <;> simp [C10.digits_eq]

theorem C10.int_bounds (w : Width) (x : Int) (h : (Val.int w x).wf = true) :
    -9223372036854775808 ≤ x ∧ x < 9223372036854775808 := by
  cases w <;> simp only [Val.wf, Width.bits, Bool.and_eq_true] at h <;>
    (have h1 := of_decide_eq_true h.1; have h2 := of_decide_eq_true h.2; simp at h1 h2; omega)

theorem C10.uint_bounds (w : Width) (x : Nat) (h : (Val.uint w x).wf = true) : x < 18446744073709551616 := by
  cases w <;> simp only [Val.wf, Width.bits] at h <;> (have h1 := of_decide_eq_true h; simp at h1; omega)

theorem C10.inInt64_bounds {v : Int} (h : inInt64 v = true) : -9223372036854775808 ≤ v ∧ v < 9223372036854775808 := by
  unfold inInt64 minInt64 at h
  simp only [Bool.and_eq_true] at h
  exact ⟨of_decide_eq_true h.1, of_decide_eq_true h.2⟩

theorem C10.pow63 : (2 : Int) ^ 63 = 9223372036854775808 := by decide
theorem C10.pow64 : (2 : Int) ^ 64 = 18446744073709551616 := by decide

theorem C10.inInt64_eq (v : Int) : Uniflow.Codec.inInt64 v = inInt64 v := by
  unfold Uniflow.Codec.inInt64 inInt64 minInt64
  rw [C10.pow63]

/-- **The direction is the int decoder's result** (1 on an error), for every well-formed operand other than a `Float32`
and other than a `Float64` that is NaN, infinite or beyond int64. -/
theorem C10.dirOf_is_int_decoder (v : Val) (hwf : v.wf = true) (hf32 : ∀ b, v ≠ .f32 b)
    (hf64 : ∀ b, v = .f64 b → ∃ i, Uniflow.Codec.intOfF64 b = some i ∧ inInt64 i = true) :
    dirOf v = C10.codecDir v ∧ Uniflow.Query.refDirection v = C10.codecDir v := by
  refine ⟨?_, ?_⟩ <;>
  · show dirOf v = C10.codecDir v
    cases v with
    | int w x =>
      simp [C10.codecDir, Uniflow.Codec.runLeaves, Uniflow.Group.decode, Uniflow.Group.lookup, Uniflow.Group.loop,
        Uniflow.Codec.leavesInt, List.zipIdx, Uniflow.Codec.fromR, dirOf, Uniflow.Codec.wrapInt, Width.bits]
      have := C10.int_bounds w x hwf
      omega
    | uint w x =>
      simp [C10.codecDir, Uniflow.Codec.runLeaves, Uniflow.Group.decode, Uniflow.Group.lookup, Uniflow.Group.loop,
        Uniflow.Codec.leavesInt, List.zipIdx, Uniflow.Codec.fromR, dirOf, Uniflow.Codec.wrapInt, Width.bits, wrap64]
      have hx := C10.uint_bounds w x hwf
      split <;> omega
    | f64 b =>
      obtain ⟨i, hi, hr⟩ := hf64 b rfl
      have hr' : Uniflow.Codec.inInt64 i = true := by rw [C10.inInt64_eq]; exact hr
      have hb := C10.inInt64_bounds hr
      simp [C10.codecDir, Uniflow.Codec.runLeaves, Uniflow.Group.decode, Uniflow.Group.lookup, Uniflow.Group.loop,
        Uniflow.Codec.leavesInt, List.zipIdx, Uniflow.Codec.fromR, dirOf, floatDir, hi, hr, hr',
        Uniflow.Codec.wrapInt, Width.bits]
      omega
    | f32 b => exact absurd rfl (hf32 b)
    | str s =>
      simp only [dirOf, C10.atoi_eq]
      cases ha : Uniflow.Codec.atoi s with
      | none =>
        simp [C10.codecDir, Uniflow.Codec.runLeaves, Uniflow.Group.decode, Uniflow.Group.lookup, Uniflow.Group.loop,
          Uniflow.Codec.leavesInt, List.zipIdx, Uniflow.Codec.fromR, ha]
      | some n =>
        cases hin : inInt64 n with
        | false =>
          have hin' : Uniflow.Codec.inInt64 n = false := by rw [C10.inInt64_eq]; exact hin
          simp [C10.codecDir, Uniflow.Codec.runLeaves, Uniflow.Group.decode, Uniflow.Group.lookup, Uniflow.Group.loop,
            Uniflow.Codec.leavesInt, List.zipIdx, Uniflow.Codec.fromR, ha, hin', hin]
        | true =>
          have hin' : Uniflow.Codec.inInt64 n = true := by rw [C10.inInt64_eq]; exact hin
          have hb := C10.inInt64_bounds hin
          simp [C10.codecDir, Uniflow.Codec.runLeaves, Uniflow.Group.decode, Uniflow.Group.lookup, Uniflow.Group.loop,
            Uniflow.Codec.leavesInt, List.zipIdx, Uniflow.Codec.fromR, ha, hin', hin, Uniflow.Codec.wrapInt, Width.bits]
          omega
    | nil => simp [C10.codecDir, Uniflow.Codec.runLeaves, Uniflow.Group.decode, Uniflow.Group.lookup, Uniflow.Group.loop, Uniflow.Codec.leavesInt, List.zipIdx, Uniflow.Codec.fromR, dirOf]
    | bin _ => simp [C10.codecDir, Uniflow.Codec.runLeaves, Uniflow.Group.decode, Uniflow.Group.lookup, Uniflow.Group.loop, Uniflow.Codec.leavesInt, List.zipIdx, Uniflow.Codec.fromR, dirOf]
    | bool _ => simp [C10.codecDir, Uniflow.Codec.runLeaves, Uniflow.Group.decode, Uniflow.Group.lookup, Uniflow.Group.loop, Uniflow.Codec.leavesInt, List.zipIdx, Uniflow.Codec.fromR, dirOf]
    | err _ => simp [C10.codecDir, Uniflow.Codec.runLeaves, Uniflow.Group.decode, Uniflow.Group.lookup, Uniflow.Group.loop, Uniflow.Codec.leavesInt, List.zipIdx, Uniflow.Codec.fromR, dirOf]
    | slice _ => simp [C10.codecDir, Uniflow.Codec.runLeaves, Uniflow.Group.decode, Uniflow.Group.lookup, Uniflow.Group.loop, Uniflow.Codec.leavesInt, List.zipIdx, Uniflow.Codec.fromR, dirOf]
    | map _ => simp [C10.codecDir, Uniflow.Codec.runLeaves, Uniflow.Group.decode, Uniflow.Group.lookup, Uniflow.Group.loop, Uniflow.Codec.leavesInt, List.zipIdx, Uniflow.Codec.fromR, dirOf]

/-- the operands the seeded change c10f got wrong decode to negative directions: `-1.0`, `"-1"`, `Uint64(MaxUint64)`,
`-2.5`; `"abc"` and `true` do not decode (ascending); `0.0` and `"0"` decode to 0 (every pair ties) -/
theorem C10.dirOf_examples :
    dirOf (.f64 13830554455654793216) = -1 ∧ dirOf (.str [45, 49]) = -1 ∧ dirOf (.uint .w64 18446744073709551615) = -1 ∧
    dirOf (.f64 13836183955189006336) = -2 ∧ dirOf (.f32 3212836864) = -1 ∧ dirOf (.str [97, 98, 99]) = 1 ∧
    dirOf (.bool true) = 1 ∧ dirOf .nil = 1 ∧ dirOf (.f64 0) = 0 ∧ dirOf (.str [48]) = 0 := by
  decide
