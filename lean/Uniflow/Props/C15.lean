/-
C15 – maps are persistent dictionaries: correct lookups, snapshots never change.

Statement (properties.jsonl): for any sequence of set, delete and clear operations – including keys whose
hashes collide – lookups, length, key/value listings and iteration agree with a reference dictionary keyed by
value equality. An immutable map, and any earlier snapshot of a map, is never altered by operations performed
on maps derived from it.

The theorems are about `Uniflow.MapHeap` (Model/MapHeap.lean), the transcription of pkg/types/map.go **after**
the repair 8820110 (`mutableMap.Set` overwrote a key in the bucket array shared with the source map and left the
old value in the result; witness corpus/C15/01-set-overwrite.ops).

What is proved, for tables/heaps of any size and any keys (the key hash is whatever `Value.hash` says – nothing
assumes it injective, so colliding keys are covered; the proofs rest on the C14 laws `cmp_antisymm`, `cmp_T3`,
`cmp_zero_iff_equal`, `equal_hash`):

* `search_correct`   the binary search of Has/Get/Set/Delete is correct on a sorted bucket and never indexes out of range;
* `buckets_sorted`   the table invariant (one entry per hash, buckets strictly sorted by Compare, non-empty, keys filed
                     under their own hash) holds in every table of every heap reachable by any program of
                     Set/Delete/Clear/Mutable/Immutable steps, and no step panics;
* `map_refines_partial`  each of Get/Has, Set, Delete acts on the set of pairs a table holds exactly as the dictionary
                     operation keyed by `Equal` (at most one pair per Equal-class; Set keeps the stored key), and
                     Len / Keys-Values-Pairs / Range list exactly those pairs;
* `snapshot_stable`  no program over handles derived from an immutable map changes any table that existed before
                     (in particular the snapshot's own), whatever else the heap contains.

`map_refines_full` (kept as a `def … : Prop`, not proved here): the same as one statement over whole operation
histories against the association list `Uniflow.Dict`. It follows from `map_refines_partial` by induction over the
history together with the membership characterisation of `Dict.set/delete` on duplicate-free lists; that last
bookkeeping step is what is missing.

Reading of "derived from" (DESIGN.md §7 row 26): `mutableMap.Immutable()` returns a view of the *same* Go map, so
writes through the source mutable map show through it. The source is not derived from the view; `snapshot_stable`
quantifies over programs on handles derived from the snapshot, exactly as the statement does.
-/
import Uniflow.Proofs.MapHeap
import Uniflow.Spec.Dict

open Uniflow.Value Uniflow.MapHeap

/-- Binary search on a sorted bucket: `found i p` means `p` is at index `i` and compares equal to the key; `absent lo` means
everything before `lo` is smaller and everything from `lo` on is greater (so the key is absent and `lo` is the
insertion point); it never indexes out of range. -/
theorem C15.search_correct (b : Bucket) (key : Val) (hs : BSorted b) : SROk b key (search b key) :=
  search_ok b key hs

theorem C15.search_correct_nonvacuous :
    BSorted [(Val.int .native 1, Val.str [120]), (Val.int .w64 1, Val.str [121]), (Val.str [1,0,0,0,0,0,0,0], Val.nil)] := by
  unfold BSorted; simp only [List.pairwise_cons]; decide

/-- The empty Go map satisfies the table invariant. -/
theorem C15.inv_empty : TInv [] := tinv_nil

/-- `buckets_sorted`: starting from any heap whose tables satisfy the invariant (e.g. the empty heap), after any program of
map operations on any handles every table still satisfies it. -/
theorem C15.buckets_sorted (hp : Heap) (D : List Handle) (prog : List (Nat × Op)) (hi : HeapInv hp) :
    HeapInv (runDerived hp D prog).1 :=
  runDerived_inv prog hp D hi

/-- No map operation panics (index out of range in the search) on a well-formed heap; it returns a map, or the handle was dangling. -/
theorem C15.no_panic (hp : Heap) (hi : HeapInv hp) (h : Handle) (op : Op) :
    (∃ hp' h' same, hp.apply h op = .ok hp' h' same ∧ HeapInv hp') ∨ hp.apply h op = .bad :=
  apply_inv hi h op

theorem C15.buckets_sorted_nonvacuous :
    HeapInv { tables := [[(hash (Val.int .native 1), [(Val.int .native 1, Val.str [120]), (Val.int .w64 1, Val.str [121])])]], objs := [0] } := by
  intro t ht
  simp only [List.mem_singleton] at ht
  subst ht
  refine ⟨by simp [Uniq], ?_⟩
  intro e he
  simp only [List.mem_singleton] at he
  subst he
  refine ⟨by unfold BSorted; simp only [List.pairwise_cons]; decide, by simp, ?_⟩
  intro p hp
  simp only [List.mem_cons, List.not_mem_nil, or_false] at hp
  rcases hp with rfl | rfl <;> rfl

/-- Dictionary laws, one step at a time, on the set of pairs `Holds t` of a well-formed table:
(1) Get/Has: a miss means no held key is Equal to the key; a hit returns the value of the one held pair whose key is Equal;
(2) Set: succeeds, keeps the invariant, removes the pairs whose key is Equal to the key and adds `(k0, val)` with `k0` Equal to the key;
(3) Delete: succeeds, keeps the invariant, removes exactly the pairs whose key is Equal to the key;
(4) Len counts, and Keys/Values/Pairs and Range list, exactly the held pairs (Range as a permutation: ascending hash order). -/
theorem C15.map_refines_partial (t : Table) (hi : TInv t) (key val : Val) :
    ((tLook t key = .miss ∧ ∀ q, Holds t q → equal q.1 key = false) ∨
      (∃ k0 v, tLook t key = .hit v ∧ Holds t (k0, v) ∧ equal k0 key = true ∧
        ∀ q, Holds t q → q ≠ (k0, v) → equal q.1 key = false)) ∧
    (∃ t' k0, tSet t key val = some t' ∧ TInv t' ∧ equal k0 key = true ∧
      ∀ q, Holds t' q ↔ (Holds t q ∧ equal q.1 key = false) ∨ q = (k0, val)) ∧
    (∃ t', tDelete t key = some t' ∧ TInv t' ∧ ∀ q, Holds t' q ↔ Holds t q ∧ equal q.1 key = false) ∧
    (tLen t = (tPairs t).length ∧ (∀ q, q ∈ tPairs t ↔ Holds t q) ∧
      (∀ q, q ∈ tRange t ↔ Holds t q) ∧ (tRange t).length = tLen t) := by
  refine ⟨tLook_spec hi key, tSet_spec hi key val, tDelete_spec hi key, tLen_eq t, fun q => mem_tPairs, ?_, ?_⟩
  · intro q
    unfold tRange
    rw [mem_tPairs]
    exact holds_perm (sortByHash_perm t) q
  · unfold tRange
    rw [← tLen_eq, tLen_perm (sortByHash_perm t)]

/-- The full statement: whole histories against the association-list dictionary (not proved, see the header). -/
def C15.map_refines_full : Prop :=
  ∀ ops : List (Bool × Val × Val),   -- (true, k, v) = Set k v ; (false, k, _) = Delete k
    let run := ops.foldl (fun (s : Option Table × Uniflow.Dict.Dict) o =>
      match s.1 with
      | none => (none, s.2)
      | some t => if o.1 then (tSet t o.2.1 o.2.2, Uniflow.Dict.set s.2 o.2.1 o.2.2)
                  else (tDelete t o.2.1, Uniflow.Dict.delete s.2 o.2.1)) (some [], [])
    ∃ t, run.1 = some t ∧ tLen t = run.2.length ∧
      ∀ k, (match tLook t k with | .hit v => some v | _ => none) = Uniflow.Dict.get run.2 k

/-- `snapshot_stable`: run any program on the handles derived from the immutable map `imm t` (Set, Delete, Clear, Mutable,
Immutable and everything those return, transitively). Every table that existed before – the snapshot's own in
particular – is unchanged, whatever the rest of the heap looks like (other maps, mutable maps sharing tables, …). -/
theorem C15.snapshot_stable (hp : Heap) (t : Nat) (prog : List (Nat × Op)) :
    ∀ a, a < hp.tables.length → (runDerived hp [.imm t] prog).1.tables[a]? = hp.tables[a]? := by
  have h := runDerived_frame (hp0 := hp) prog hp [.imm t] (Frame.refl hp) (by
    intro h hh; simp only [List.mem_singleton] at hh; subst hh; trivial)
  exact h.1.old

/-- … so the snapshot reads the same table as before. -/
theorem C15.snapshot_reads_same (hp : Heap) (t : Nat) (ht : t < hp.tables.length) (prog : List (Nat × Op)) :
    (runDerived hp [.imm t] prog).1.tableOf (.imm t) = hp.tableOf (.imm t) := by
  have h := runDerived_frame (hp0 := hp) prog hp [.imm t] (Frame.refl hp) (by
    intro h hh; simp only [List.mem_singleton] at hh; subst hh; trivial)
  have hlen := h.1.tlen
  have hold := h.1.old t ht
  unfold Heap.tableOf Heap.addrOf
  have h1 : t < (runDerived hp [.imm t] prog).1.tables.length := by omega
  simp only [h1, ht, ite_true, Option.bind_some]
  exact hold

/-- The same for any set of starting handles that cannot write an old table: immutable maps, and mutable maps created later. -/
theorem C15.snapshot_stable_general (hp0 hp : Heap) (D : List Handle) (prog : List (Nat × Op))
    (f : Frame hp0 hp) (hD : ∀ h ∈ D, Derivable hp0 h) :
    ∀ a, a < hp0.tables.length → (runDerived hp D prog).1.tables[a]? = hp0.tables[a]? :=
  (runDerived_frame prog hp D f hD).1.old

/-- non-vacuity: a snapshot of a one-entry map, a program that derives a mutable copy, overwrites the key there, clears it,
and also sets the key on the snapshot itself – the program really runs (5 derived handles) and table 0 is intact. -/
theorem C15.snapshot_stable_nonvacuous :
    ((runDerived { tables := [[(hash (Val.str [97]), [(Val.str [97], Val.int .native 1)])]], objs := [] } [.imm 0]
      [(0, .mutable), (1, .set (.str [97]) (.int .native 2)), (1, .clear),
       (0, .set (.str [97]) (.int .native 3)), (0, .delete (.str [97]))]).2.length = 6) ∧
    ((runDerived { tables := [[(hash (Val.str [97]), [(Val.str [97], Val.int .native 1)])]], objs := [] } [.imm 0]
      [(0, .mutable), (1, .set (.str [97]) (.int .native 2)), (1, .clear),
       (0, .set (.str [97]) (.int .native 3)), (0, .delete (.str [97]))]).1.tables.length = 5) := by
  decide
