/-
C15 – maps are persistent dictionaries: correct lookups, snapshots never change.

Statement (properties.jsonl): for any sequence of set, delete and clear operations – including keys whose
hashes collide – lookups, length, key/value listings and iteration agree with a reference dictionary keyed by
value equality. An immutable map, and any earlier snapshot of a map, is never altered by operations performed
on maps derived from it.

The theorems are about `Uniflow.MapHeap` (Model/MapHeap.lean), the transcription of pkg/types/map.go **after**
the repair "fix: mutableMap.Set overwrites the key in the copied bucket, not in the shared one" (the pinned `Set`
overwrote a key in the bucket array shared with the source map and left the old value in the result; witness
corpus/C15/01-set-overwrite.ops, and `C15.pinned_set_changes_snapshot` below).

The model has two layers. The heap stores what Go stores: bucket arrays, Go maps `hash ↦ reference to a bucket array`
(`ATable`), and mutableMap objects, all addressed; `immutableMap.mutable()` copies the Go map and shares the arrays.
A by-value `Table` is the *content* of a Go map (`resolve`), and `tLook/tSet/tDelete/…` are the methods read at the
content level. `apply_ok` (C15.no_panic) proves that every heap operation has exactly the content-level effect `cstep`.

What is proved, for heaps of any size and any keys (the key hash is whatever `Value.hash` says – nothing assumes it
injective, so colliding keys are covered; the proofs rest on the C14 laws `cmp_antisymm`, `cmp_T3`,
`cmp_zero_iff_equal`, `equal_hash`):

* `search_correct`   the binary search of Has/Get/Set/Delete is correct on a sorted bucket, never out of range;
* `buckets_sorted`   every Go map of every heap reachable by any program of Set/Delete/Clear/Mutable/Immutable steps on any
                     handles resolves (no dangling bucket reference) to a content with one entry per hash and strictly
                     sorted, non-empty buckets holding keys of that hash;
* `no_panic`         every operation on a handle that has a content returns, keeps the invariant, and the returned map's
                     content is `cstep` of the receiver's content;
* `map_refines`      (`= map_refines_full`) whole Set/Delete/Clear histories from the empty map agree with the association
                     list `Uniflow.Dict`: Get/Has, Len, Keys/Values/Pairs (as a permutation) and Range (as a permutation);
* `handle_refines`   the same from **any** handle of **any** well-formed heap, for histories that also contain Mutable and
                     Immutable, each operation acting on the map the previous one returned (an immutable map keeps its stored
                     value when asked to store an Equal one);
* `map_refines_partial`  the single-step dictionary laws on the set of pairs a content holds;
* `snapshot_stable`  no program over handles derived from an immutable map changes what that map – or any other immutable
                     handle that had a content before – reads, whatever else the heap contains;
* `pinned_set_changes_snapshot`  with the pinned `Set` rule the same three-step program does change the snapshot.

Reading of "derived from" (DESIGN.md §7 row 26): `mutableMap.Immutable()` returns a view of the *same* Go map, so
writes through the source mutable map show through it. The source is not derived from the view; `snapshot_stable`
quantifies over programs on handles derived from the snapshot, exactly as the statement does.
-/
import Uniflow.Proofs.MapHeapStore

open Uniflow.Value Uniflow.MapHeap

/-- Binary search on a sorted bucket: `found i p` means `p` is at index `i` and compares equal to the key; `absent lo` means
everything before `lo` is smaller and everything from `lo` on is greater (so the key is absent and `lo` is the
insertion point); it never indexes out of range. -/
theorem C15.search_correct (b : Bucket) (key : Val) (hs : BSorted b) : SROk b key (search b key) :=
  search_ok b key hs

theorem C15.search_correct_nonvacuous :
    BSorted [(Val.int .native 1, Val.str [120]), (Val.int .w64 1, Val.str [121]), (Val.str [1,0,0,0,0,0,0,0], Val.nil)] := by
  unfold BSorted; simp only [List.pairwise_cons]; decide

/-- The empty Go map satisfies the table invariant. -/
theorem C15.inv_empty : TInv [] := tinv_nil

/-- `buckets_sorted`: starting from any heap satisfying the invariant (e.g. the empty heap), after any program of map
operations on any handles (dangling ones included) every Go map still resolves to a well-formed content. -/
theorem C15.buckets_sorted (hp : Heap) (D : List Handle) (prog : List (Nat × Op)) (hi : HeapInv hp) :
    HeapInv (runDerived hp D prog).1 :=
  runDerived_inv prog hp D hi

/-- No map operation panics on a handle that has a content in a well-formed heap: it returns a map, the heap stays well formed,
the returned map contains `cstep` of what the receiver contained, and is of the kind the method promises. -/
theorem C15.no_panic (hp : Heap) (hi : HeapInv hp) (h : Handle) (T : Table) (hc : hp.content h = some T) (op : Op) :
    ∃ hp' h' same, hp.apply h op = .ok hp' h' same ∧ HeapInv hp' ∧
      hp'.content h' = cstep h.isMut T op ∧ h'.isMut = kindAfter h.isMut op :=
  apply_ok hi hc op

/-- a heap with one Go map whose only bucket array holds two colliding keys satisfies the invariant -/
theorem C15.buckets_sorted_nonvacuous :
    HeapInv { buckets := [[(Val.int .native 1, Val.str [120]), (Val.int .w64 1, Val.str [121])]],
              tables := [[(hash (Val.int .native 1), 0)]], objs := [0] } := by
  intro t ht
  simp only [List.mem_singleton] at ht
  subst ht
  refine ⟨[(hash (Val.int .native 1), [(Val.int .native 1, Val.str [120]), (Val.int .w64 1, Val.str [121])])], rfl, ?_⟩
  refine ⟨by simp [Uniq], ?_⟩
  intro e he
  simp only [List.mem_singleton] at he
  subst he
  refine ⟨by unfold BSorted; simp only [List.pairwise_cons]; decide, by simp, ?_⟩
  intro p hp
  simp only [List.mem_cons, List.not_mem_nil, or_false] at hp
  rcases hp with rfl | rfl <;> rfl

/-- Dictionary laws, one step at a time, on the set of pairs `Holds t` of a well-formed content:
(1) Get/Has: a miss means no held key is Equal to the key; a hit returns the value of the one held pair whose key is Equal;
(2) Set: succeeds, keeps the invariant, removes the pairs whose key is Equal to the key and adds `(k0, val)`, where `k0` is the
    stored Equal key if there is one and the new key otherwise;
(3) Delete: succeeds, keeps the invariant, removes exactly the pairs whose key is Equal to the key;
(4) Len counts, and Keys/Values/Pairs and Range list, exactly the held pairs. -/
theorem C15.map_refines_partial (t : Table) (hi : TInv t) (key val : Val) :
    ((tLook t key = .miss ∧ ∀ q, Holds t q → equal q.1 key = false) ∨
      (∃ k0 v, tLook t key = .hit v ∧ Holds t (k0, v) ∧ equal k0 key = true ∧
        ∀ q, Holds t q → q ≠ (k0, v) → equal q.1 key = false)) ∧
    (∃ t' k0, tSet t key val = some t' ∧ TInv t' ∧ equal k0 key = true ∧
      ((k0 = key ∧ ∀ q, Holds t q → equal q.1 key = false) ∨ ∃ v0, Holds t (k0, v0)) ∧
      ∀ q, Holds t' q ↔ (Holds t q ∧ equal q.1 key = false) ∨ q = (k0, val)) ∧
    (∃ t', tDelete t key = some t' ∧ TInv t' ∧ ∀ q, Holds t' q ↔ Holds t q ∧ equal q.1 key = false) ∧
    (tLen t = (tPairs t).length ∧ (∀ q, q ∈ tPairs t ↔ Holds t q) ∧
      (∀ q, q ∈ tRange t ↔ Holds t q) ∧ (tRange t).length = tLen t) := by
  refine ⟨tLook_spec hi key, tSet_spec hi key val, tDelete_spec hi key, tLen_eq t, fun q => mem_tPairs, ?_, ?_⟩
  · intro q
    unfold tRange
    rw [mem_tPairs]
    exact holds_perm (sortByHash_perm t) q
  · unfold tRange
    rw [← tLen_eq, tLen_perm (sortByHash_perm t)]

/-! ### whole histories against the reference dictionary -/

/-- the operations of the statement -/
inductive C15.HOp
  | set (k v : Val) | delete (k : Val) | clear

/-- one step on the content of a (mutable) map -/
def C15.HOp.onTable (T : Table) : C15.HOp → Option Table
  | .set k v => tSet T k v
  | .delete k => tDelete T k
  | .clear => some []

/-- the same step on the reference dictionary -/
def C15.HOp.onDict (d : Uniflow.Dict.Dict) : C15.HOp → Uniflow.Dict.Dict
  | .set k v => Uniflow.Dict.set d k v
  | .delete k => Uniflow.Dict.delete d k
  | .clear => []

def C15.runTable (T : Table) : List C15.HOp → Option Table
  | [] => some T
  | op :: rest => (op.onTable T).bind fun T' => C15.runTable T' rest

def C15.runDict (d : Uniflow.Dict.Dict) : List C15.HOp → Uniflow.Dict.Dict
  | [] => d
  | op :: rest => C15.runDict (op.onDict d) rest

/-- what "agrees with the reference dictionary" means for a content `T` and an association list `d`:
Get/Has never panic and return what `Dict.get` returns; Len is the length; Keys/Values/Pairs list a permutation of `d`;
Range lists a permutation of `d`. -/
def C15.Agrees (T : Table) (d : Uniflow.Dict.Dict) : Prop :=
  (∀ k, tLook T k ≠ .panic ∧ (tLook T k).toOption = Uniflow.Dict.get d k) ∧
  tLen T = d.length ∧ (tPairs T).Perm d ∧ (tRange T).Perm d

/-- The full statement: every Set/Delete/Clear history from the empty map runs without panic, keeps the table invariant, and the
resulting content agrees with the history run on the association list `Uniflow.Dict`. -/
def C15.map_refines_full : Prop :=
  ∀ ops : List C15.HOp, ∃ T, C15.runTable [] ops = some T ∧ TInv T ∧ C15.Agrees T (C15.runDict [] ops)

theorem C15.agrees_of_rep {T : Table} {d : Uniflow.Dict.Dict} (h : Rep T d) : C15.Agrees T d :=
  ⟨fun k => rep_look h k, rep_len h, rep_perm h, rep_range h⟩

/-- histories from any content that represents a dictionary -/
theorem C15.history_refines : ∀ (ops : List C15.HOp) (T : Table) (d : Uniflow.Dict.Dict), Rep T d →
    ∃ T', C15.runTable T ops = some T' ∧ Rep T' (C15.runDict d ops)
  | [], T, d, h => ⟨T, rfl, h⟩
  | op :: rest, T, d, h => by
    have hstep : ∃ T1, op.onTable T = some T1 ∧ Rep T1 (op.onDict d) := by
      cases op with
      | set k v => exact rep_set h k v
      | delete k => exact rep_delete h k
      | clear => exact ⟨[], rfl, rep_nil⟩
    obtain ⟨T1, h1, hr1⟩ := hstep
    obtain ⟨T', h2, hr2⟩ := C15.history_refines rest T1 _ hr1
    exact ⟨T', by simp only [C15.runTable, h1, Option.bind_some]; exact h2, hr2⟩

theorem C15.map_refines : C15.map_refines_full := by
  intro ops
  obtain ⟨T, h1, h2⟩ := C15.history_refines ops [] [] rep_nil
  exact ⟨T, h1, h2.1, C15.agrees_of_rep h2⟩

/-- The same from **any handle of the heap model**: in a well-formed heap, take any handle `h` whose content `T` represents a
dictionary `d` (any content of a well-formed heap represents its own pair list, see `handle_refines_nonvacuous`). Any history
of Set/Delete/Clear/Mutable/Immutable, each applied to the map returned by the previous one, runs to the end, keeps the heap
well formed, and the content of the last map agrees with `Dict.run` of the same history (which keeps the stored value when an
immutable map is asked to store an Equal one, as `immutableMap.Set` does). -/
theorem C15.handle_refines (hp : Heap) (hi : HeapInv hp) (h : Handle) (T : Table) (d : Uniflow.Dict.Dict)
    (hc : hp.content h = some T) (hr : Rep T d) (ops : List Op) :
    ∃ hp' h' T', runChain hp h ops = some (hp', h') ∧ HeapInv hp' ∧ hp'.content h' = some T' ∧
      h'.isMut = (Uniflow.Dict.run h.isMut d (ops.map toDOp)).1 ∧
      C15.Agrees T' (Uniflow.Dict.run h.isMut d (ops.map toDOp)).2 := by
  obtain ⟨hp', h', T', h1, h2, h3, h4, h5⟩ := chain_refines ops hi hc hr
  exact ⟨hp', h', T', h1, h2, h3, h4, C15.agrees_of_rep h5⟩

/-- the hypothesis `Rep T d` of `handle_refines` is always available: a well-formed content represents its own pair list -/
theorem C15.handle_refines_nonvacuous (T : Table) (hi : TInv T) : Rep T (tPairs T) :=
  ⟨hi, pairs_nodup hi, fun _ => mem_tPairs.symm⟩

/-! ### snapshots -/

/-- `snapshot_stable`: run any program on the handles derived from the immutable map `imm t` (Set, Delete, Clear, Mutable,
Immutable and everything those return, transitively). The snapshot reads exactly the content it read before, whatever the
rest of the heap looks like (other maps, mutable maps sharing its Go map or its bucket arrays, …). -/
theorem C15.snapshot_stable (hp : Heap) (t : Nat) (T : Table) (hc : hp.content (.imm t) = some T)
    (prog : List (Nat × Op)) : (runDerived hp [.imm t] prog).1.content (.imm t) = some T := by
  have h := runDerived_frame (hp0 := hp) prog hp [.imm t] (Frame.refl hp) (by
    intro h hh; simp only [List.mem_singleton] at hh; subst hh; trivial)
  exact h.1.content_imm hc

/-- The same for any set of starting handles that cannot write an old Go map (immutable maps, and mutable maps created later),
and for every immutable handle `s` that had a content: old Go maps and old bucket arrays are never written. -/
theorem C15.snapshot_stable_general (hp0 hp : Heap) (D : List Handle) (prog : List (Nat × Op))
    (f : Frame hp0 hp) (hD : ∀ h ∈ D, Derivable hp0 h) (s : Nat) (T : Table) (hc : hp0.content (.imm s) = some T) :
    (runDerived hp D prog).1.content (.imm s) = some T :=
  (runDerived_frame prog hp D f hD).1.content_imm hc

/-- the witness program of `pinned_set_changes_snapshot`: `s := NewMap().Set("a", 1)`, `m := s.Mutable()`, `m.Set("a", 2)`
with the fixed or the pinned `mutableMap.Set`; answers (does `s` still read 1 under "a"?, does `m` read 2 under "a"?) -/
def C15.witness (pinned : Bool) : Option (Bool × Bool) :=
  match (({} : Heap).newImm.1).set ({} : Heap).newImm.2 (.str [97]) (.int .native 1) with
  | .ok hp2 s _ =>
    match hp2.mutable s with
    | .ok hp3 m _ =>
      match (if pinned then hp3.setPinned m (.str [97]) (.int .native 2) else hp3.set m (.str [97]) (.int .native 2)) with
      | .ok hp4 m' _ => some (hp4.reads s (.str [97]) (.int .native 1), hp4.reads m' (.str [97]) (.int .native 2))
      | _ => none
    | _ => none
  | _ => none

/-- non-vacuity of `snapshot_stable` and the defect it excludes: with the repaired `Set` the snapshot keeps reading 1 and the
derived map reads 2; with the **pinned** `Set` (write into the shared bucket array, install a copy of the old content)
the snapshot reads 2 and the derived map still reads 1. -/
theorem C15.pinned_set_changes_snapshot :
    C15.witness false = some (true, true) ∧ C15.witness true = some (false, false) := by
  decide

/-- … and at the level of the rule: on a bucket heap with one shared array the pinned rule overwrites that array in place. -/
theorem C15.pinned_rule_writes_shared_bucket :
    (aSetPinned [[(Val.str [97], Val.int .native 1)]] [(hash (Val.str [97]), 0)] (.str [97]) (.int .native 2)).map
        (fun r => r.1.length) = some 2 ∧
    (aSet [[(Val.str [97], Val.int .native 1)]] [(hash (Val.str [97]), 0)] (.str [97]) (.int .native 2)).map
        (fun r => (r.1.length, (r.1[0]?).map (fun b => b.map (fun p => equal p.2 (.int .native 1))))) = some (2, some [true]) ∧
    (aSetPinned [[(Val.str [97], Val.int .native 1)]] [(hash (Val.str [97]), 0)] (.str [97]) (.int .native 2)).map
        (fun r => (r.1[0]?).map (fun b => b.map (fun p => equal p.2 (.int .native 1)))) = some (some [false]) := by
  decide
