/-
C09 – regenerated tie over Generated/RuntimeFuncs.lean (extract/funcs.go): the outline of EVERY function of the source
files named below – regenerated from /repo on every run – equals the transcript frozen here (bin/freeze_all.py, repo 7f54b88,
2026-10-01). A theorem that stops checking names the file whose code is no longer the code that was modelled; bin/check then
searches for a failing input.
-/
import Uniflow.Generated.RuntimeFuncs

set_option maxRecDepth 16384 in
/-- pkg/runtime/runtime.go as modelled (part 1 of 2): its declarations (in source order) and the outline of each -/
theorem C09.src_runtime_runtime_as_modelled_1 :
    Uniflow.Generated.RuntimeFuncs.o_runtime_runtime_fn_New = [
      "if config.Namespace == \"\"",
      "  config.Namespace = meta.DefaultNamespace",
      "if config.Hook == nil",
      "  config.Hook = hook.New()",
      "if config.Scheme == nil",
      "  config.Scheme = scheme.New()",
      "if config.SpecStore == nil",
      "  config.SpecStore = store.New()",
      "if config.ValueStore == nil",
      "  config.ValueStore = store.New()",
      "config.Hook.AddLoadHook(symbol.LoadListenerHook(config.Hook))",
      "config.Hook.AddUnloadHook(symbol.UnloadListenerHook(config.Hook))",
      "symbolTable := symbol.NewTable(symbol.TableOption{ LoadHooks: []symbol.LoadHook{config.Hook}, UnloadHooks: []symbol.UnloadHook{config.Hook}, })",
      "return &Runtime{ namespace: config.Namespace, environment: config.Environment, scheme: config.Scheme, specStore: config.SpecStore, valueStore: config.ValueStore, symbolTable: symbolTable, }"
    ] ∧
    Uniflow.Generated.RuntimeFuncs.o_runtime_runtime_Runtime_Load = [
      "r.loadMu.Lock()",
      "defer r.loadMu.Unlock()",
      "return r.load(ctx, filter)"
    ] ∧
    Uniflow.Generated.RuntimeFuncs.o_runtime_runtime_Runtime_load = [
      "if filter == nil",
      "  filter = map[string]any{meta.KeyNamespace: r.namespace}",
      "else",
      "  filter = map[string]any{\"$and\": []any{filter, map[string]any{meta.KeyNamespace: r.namespace}}}",
      "cursor, err := r.specStore.Find(ctx, filter)",
      "if err != nil",
      "  return err",
      "var specs []*spec.Unstructured",
      "if err := cursor.All(ctx, &specs); err != nil",
      "  return err",
      "var filters []any",
      "for _, sp := range specs",
      "  for _, val := range sp.GetEnv()",
      "    if val.ID != uuid.Nil",
      "      filters = append(filters, map[string]any{value.KeyNamespace: sp.GetNamespace(), value.KeyID: val.ID})",
      "    else",
      "      if val.Name != \"\"",
      "        filters = append(filters, map[string]any{value.KeyNamespace: sp.GetNamespace(), value.KeyName: val.Name})",
      "var values []*value.Value",
      "if len(filters) > 0",
      "  cursor, err = r.valueStore.Find(ctx, map[string]any{\"$or\": filters})",
      "  if err != nil",
      "    return err",
      "  if err := cursor.All(ctx, &values); err != nil",
      "    return err",
      "if len(r.environment) > 0",
      "  values = append(values, &value.Value{Data: r.environment})",
      "verifYield()",
      "var symbols []*symbol.Symbol",
      "var errs []error",
      "for _, unstructured := range specs",
      "  sp := spec.Spec(unstructured)",
      "  if err := unstructured.Bind(values...); err != nil",
      "    errs = append(errs, err)",
      "  else",
      "    if err := unstructured.Build(); err != nil",
      "      errs = append(errs, err)",
      "    else",
      "      if decode, err := r.scheme.Decode(unstructured); err != nil",
      "        errs = append(errs, err)",
      "      else",
      "        sp = decode",
      "  sb := r.symbolTable.Lookup(sp.GetID())",
      "  if sb == nil || !reflect.DeepEqual(sb.Spec, unstructured)",
      "    var n node.Node",
      "    if sp != unstructured",
      "      if n, err = r.scheme.Compile(sp); err != nil",
      "        errs = append(errs, err)",
      "    sb = &symbol.Symbol{Spec: unstructured, Node: n}",
      "    if err := r.symbolTable.Insert(sb); err != nil",
      "      errs = append(errs, err)",
      "  symbols = append(symbols, sb)",
      "for _, id := range r.symbolTable.Keys()",
      "  sb := r.symbolTable.Lookup(id)",
      "  if sb == nil",
      "    continue",
      "  local := store.New()",
      "  if err := local.Insert(ctx, []any{sb.Spec}); err != nil",
      "    errs = append(errs, err)",
      "    continue",
      "  cursor, err := local.Find(ctx, filter)",
      "  if err != nil",
      "    errs = append(errs, err)",
      "    continue",
      "  if !cursor.Next(ctx)",
      "    _ = cursor.Close(ctx)",
      "    continue",
      "  _ = cursor.Close(ctx)",
      "  ok := false",
      "  for _, s := range symbols",
      "    if s.ID() == id",
      "      ok = true",
      "      break",
      "  if !ok",
      "    if _, err := r.symbolTable.Free(id); err != nil",
      "      errs = append(errs, err)",
      "return errors.Join(errs...)"
    ] := by
  decide

set_option maxRecDepth 16384 in
/-- pkg/scheme/scheme.go as modelled: its declarations (in source order) and the outline of each -/
theorem C09.src_scheme_scheme_as_modelled :
    Uniflow.Generated.RuntimeFuncs.o_scheme_scheme_fn_New = [
      "return &Scheme{ types: make(map[string]reflect.Type), codecs: make(map[string]Codec), validate: validator.New(validator.WithRequiredStructEnabled()), }"
    ] ∧
    Uniflow.Generated.RuntimeFuncs.o_scheme_scheme_Scheme_Kinds = [
      "s.mu.RLock()",
      "defer s.mu.RUnlock()",
      "kinds := make([]string, 0, len(s.types))",
      "for kind := range s.types",
      "  kinds = append(kinds, kind)",
      "for kind := range s.codecs",
      "  if !slices.Contains(kinds, kind)",
      "    kinds = append(kinds, kind)",
      "return kinds"
    ] ∧
    Uniflow.Generated.RuntimeFuncs.o_scheme_scheme_Scheme_AddKnownType = [
      "s.mu.Lock()",
      "defer s.mu.Unlock()",
      "if sp == nil",
      "  return false",
      "if _, ok := s.types[kind]; ok",
      "  return false",
      "s.types[kind] = reflect.TypeOf(sp)",
      "return true"
    ] ∧
    Uniflow.Generated.RuntimeFuncs.o_scheme_scheme_Scheme_RemoveKnownType = [
      "s.mu.Lock()",
      "defer s.mu.Unlock()",
      "if _, ok := s.types[kind]; !ok",
      "  return false",
      "delete(s.types, kind)",
      "return true"
    ] ∧
    Uniflow.Generated.RuntimeFuncs.o_scheme_scheme_Scheme_KnownType = [
      "s.mu.RLock()",
      "defer s.mu.RUnlock()",
      "return s.types[kind]"
    ] ∧
    Uniflow.Generated.RuntimeFuncs.o_scheme_scheme_Scheme_AddCodec = [
      "s.mu.Lock()",
      "defer s.mu.Unlock()",
      "if _, ok := s.codecs[kind]; ok",
      "  return false",
      "s.codecs[kind] = codec",
      "return true"
    ] ∧
    Uniflow.Generated.RuntimeFuncs.o_scheme_scheme_Scheme_RemoveCodec = [
      "s.mu.Lock()",
      "defer s.mu.Unlock()",
      "if _, ok := s.codecs[kind]; !ok",
      "  return false",
      "delete(s.codecs, kind)",
      "return true"
    ] ∧
    Uniflow.Generated.RuntimeFuncs.o_scheme_scheme_Scheme_Codec = [
      "s.mu.RLock()",
      "defer s.mu.RUnlock()",
      "return s.codecs[kind]"
    ] ∧
    Uniflow.Generated.RuntimeFuncs.o_scheme_scheme_Scheme_Decode = [
      "s.mu.RLock()",
      "defer s.mu.RUnlock()",
      "typ, ok := s.types[sp.GetKind()]",
      "if !ok",
      "  return sp, nil",
      "value := reflect.New(typ).Elem()",
      "if value.Kind() == reflect.Pointer",
      "  value.Set(reflect.New(typ.Elem()))",
      "structured, ok := value.Interface().(spec.Spec)",
      "if !ok",
      "  return sp, nil",
      "if err := spec.As(sp, structured); err != nil",
      "  return nil, err",
      "if structured.GetID() == uuid.Nil",
      "  structured.SetID(uuid.Must(uuid.NewV7()))",
      "if err := s.validate.Struct(structured); err != nil",
      "  return nil, errors.WithMessage(encoding.ErrUnsupportedValue, err.Error())",
      "return structured, nil"
    ] ∧
    Uniflow.Generated.RuntimeFuncs.o_scheme_scheme_Scheme_Compile = [
      "s.mu.RLock()",
      "defer s.mu.RUnlock()",
      "cdc := s.Codec(sp.GetKind())",
      "if cdc == nil",
      "  return nil, errors.WithStack(encoding.ErrUnsupportedType)",
      "return cdc.Compile(sp)"
    ] ∧
    Uniflow.Generated.RuntimeFuncs.names_scheme_scheme = ["fn.New", "Scheme.Kinds", "Scheme.AddKnownType", "Scheme.RemoveKnownType", "Scheme.KnownType", "Scheme.AddCodec", "Scheme.RemoveCodec", "Scheme.Codec", "Scheme.Decode", "Scheme.Compile"] := by
  decide

set_option maxRecDepth 16384 in
/-- pkg/runtime/runtime.go as modelled (part 2 of 2): its declarations (in source order) and the outline of each -/
theorem C09.src_runtime_runtime_as_modelled_2 :
    Uniflow.Generated.RuntimeFuncs.o_runtime_runtime_Runtime_Watch = [
      "r.mu.Lock()",
      "defer r.mu.Unlock()",
      "if r.specStream != nil",
      "  if err := r.specStream.Close(ctx); err != nil",
      "    return err",
      "specStream, err := r.specStore.Watch(ctx, map[string]any{spec.KeyNamespace: r.namespace})",
      "if err != nil",
      "  return err",
      "r.specStream = specStream",
      "if r.valueStream != nil",
      "  if err := r.valueStream.Close(ctx); err != nil",
      "    return err",
      "valueStream, err := r.valueStore.Watch(ctx, map[string]any{value.KeyNamespace: r.namespace})",
      "if err != nil",
      "  return err",
      "r.valueStream = valueStream",
      "return nil"
    ] ∧
    Uniflow.Generated.RuntimeFuncs.o_runtime_runtime_Runtime_Reconcile = [
      "r.mu.RLock()",
      "specStream := r.specStream",
      "valueStream := r.valueStream",
      "r.mu.RUnlock()",
      "if specStream == nil || valueStream == nil",
      "  return nil",
      "g, _ := errgroup.WithContext(ctx)",
      "g.Go(func#1)",
      "func#1() error",
      "  for specStream.Next(ctx)",
      "    var event store.Event",
      "    if err := specStream.Decode(&event); err != nil",
      "      return err",
      "    _ = r.Load(ctx, map[string]any{spec.KeyID: event.ID})",
      "  return nil",
      "g.Go(func#2)",
      "func#2() error",
      "  for valueStream.Next(ctx)",
      "    var event store.Event",
      "    if err := valueStream.Decode(&event); err != nil",
      "      return err",
      "    if err := r.reload(ctx, event.ID); err != nil",
      "      return err",
      "  return nil",
      "return g.Wait()"
    ] ∧
    Uniflow.Generated.RuntimeFuncs.o_runtime_runtime_Runtime_reload = [
      "r.loadMu.Lock()",
      "defer r.loadMu.Unlock()",
      "cursor, err := r.valueStore.Find(ctx, map[string]any{value.KeyID: id})",
      "if err != nil",
      "  return err",
      "var values []*value.Value",
      "if err := cursor.All(ctx, &values); err != nil",
      "  return err",
      "values = append(values, &value.Value{ID: id})",
      "var filters []any",
      "for _, id := range r.symbolTable.Keys()",
      "  if sb := r.symbolTable.Lookup(id); sb != nil",
      "    unstructured := &spec.Unstructured{}",
      "    if err := spec.As(sb.Spec, unstructured); err != nil",
      "      return err",
      "    else",
      "      if unstructured.IsBound(values...)",
      "        filters = append(filters, map[string]any{spec.KeyID: id})",
      "if len(filters) > 0",
      "  _ = r.load(ctx, map[string]any{\"$or\": filters})",
      "return nil"
    ] ∧
    Uniflow.Generated.RuntimeFuncs.o_runtime_runtime_Runtime_Close = [
      "r.mu.Lock()",
      "defer r.mu.Unlock()",
      "if r.specStream != nil",
      "  if err := r.specStream.Close(ctx); err != nil",
      "    return err",
      "  r.specStream = nil",
      "if r.valueStream != nil",
      "  if err := r.valueStream.Close(ctx); err != nil",
      "    return err",
      "  r.valueStream = nil",
      "return r.symbolTable.Close()"
    ] ∧
    Uniflow.Generated.RuntimeFuncs.names_runtime_runtime = ["fn.New", "Runtime.Load", "Runtime.load", "Runtime.Watch", "Runtime.Reconcile", "Runtime.reload", "Runtime.Close"] := by
  decide

