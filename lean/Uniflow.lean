import Uniflow.Driver.Core
import Uniflow.Model.Group
import Uniflow.Props.C17
import Uniflow.Driver.C17
