/-
Model driver: `drv <property>` reads operation lines on stdin and prints the model's
answer for each, one line per line. `reset` restores the property's initial state.
-/
import Uniflow.Driver.Core
import Uniflow.Driver.C13
import Uniflow.Driver.C17

open Uniflow.Driver

def handlers : List (String × Handler) :=
  [ ("c13", C13.handler),
    ("c17", C17.handler) ]

partial def loop (h : Handler) (inp out : IO.FS.Stream) (st : h.σ) : IO Unit := do
  let line ← inp.getLine
  if line.isEmpty then return ()
  let toks := tokens (line.trimAscii.toString)
  match toks with
  | ["reset"] =>
    out.putStrLn "ok"
    loop h inp out h.init
  | _ =>
    let (st', o) := h.step st toks
    out.putStrLn o
    loop h inp out st'

def main (args : List String) : IO UInt32 := do
  match args with
  | [p] =>
    match handlers.lookup p with
    | some h =>
      let out ← IO.getStdout
      loop h (← IO.getStdin) out h.init
      out.flush
      return 0
    | none => IO.eprintln s!"unknown property {p}"; return 2
  | _ => IO.eprintln "usage: drv <property>"; return 2
