package main

// Shared helpers of the structural fact extractors join.go / writer.go / process.go / store.go.
//
// outline(fd) renders the body of a function as a flat list of lines, one per statement, two spaces of
// indentation per nesting level – the *structure* of the function with comments, blank lines and layout
// removed:
//
//	if <init>; <cond>            the then-branch follows one level deeper
//	else                         the else-branch (a block or another `if`) follows one level deeper
//	for <cond> | for <init>; <cond>; <post> | for k, v := range x | for range x | for
//	switch <tag> / case a, b / default      select / case <comm> / default
//	every other statement: its source text on one line (go/printer, white space collapsed)
//
// A function literal inside a statement is printed as `func#k` and its body follows the statement as
//
//	func#k(<params>)
//	  <body, one level deeper>
//
// so that closures (the pump goroutine of NewWriter, the B-tree visitors of segment.go, the wait-done hook
// of Process.Fork) are part of the outline. The Lean side compares such a list with a literal list by `decide`.
//
// Besides the outline, small classifiers turn the statements a model transcribes 1:1 into flat data (a
// comparison `len(x) OP n` as (x, OP, n); a pop `x := s[0]; s = s[1:]` as (index, low bound); a loop as
// (kind, header, has continue, has break, has return)) so that a theorem can *interpret* them and compare
// the interpretation with the model's definition for all inputs.

import (
	"bytes"
	"fmt"
	"go/ast"
	"go/printer"
	"go/token"
	"path/filepath"
	"strconv"
	"strings"

	"golang.org/x/tools/go/ast/astutil"
	"golang.org/x/tools/go/packages"
)

// srcFile is one parsed file of a loaded package.
type srcFile struct {
	fset *token.FileSet
	file *ast.File
}

// findFile returns the syntax tree of <pkgName>/<base> (nil when absent).
func findFile(ps []*packages.Package, pkgName, base string) *srcFile {
	for _, p := range ps {
		if p.Name != pkgName {
			continue
		}
		for _, f := range p.Syntax {
			if filepath.Base(p.Fset.Position(f.Pos()).Filename) == base {
				return &srcFile{fset: p.Fset, file: f}
			}
		}
	}
	return nil
}

// recvName returns the receiver's type name of a method declaration ("" for a function).
func recvName(fd *ast.FuncDecl) string {
	if fd.Recv == nil || len(fd.Recv.List) == 0 {
		return ""
	}
	t := fd.Recv.List[0].Type
	if s, ok := t.(*ast.StarExpr); ok {
		t = s.X
	}
	if ix, ok := t.(*ast.IndexExpr); ok {
		t = ix.X
	}
	if id, ok := t.(*ast.Ident); ok {
		return id.Name
	}
	return ""
}

// funcDecl finds `func (recv) name` (recv == "" for a plain function).
func (s *srcFile) funcDecl(recv, name string) *ast.FuncDecl {
	if s == nil {
		return nil
	}
	for _, d := range s.file.Decls {
		if fd, ok := d.(*ast.FuncDecl); ok && fd.Body != nil && fd.Name.Name == name && recvName(fd) == recv {
			return fd
		}
	}
	return nil
}

// methodNames lists the methods declared on recv in this file, in source order.
func (s *srcFile) methodNames(recv string) []string {
	var r []string
	if s == nil {
		return r
	}
	for _, d := range s.file.Decls {
		if fd, ok := d.(*ast.FuncDecl); ok && recvName(fd) == recv {
			r = append(r, fd.Name.Name)
		}
	}
	return r
}

type outliner struct {
	fset  *token.FileSet
	lines []string
	nlit  int
}

func oneLine(s string) string { return strings.Join(strings.Fields(s), " ") }

// text prints a node on one line; function literals directly inside it are replaced by `func#k` and returned.
func (o *outliner) text(n ast.Node) (string, []*ast.FuncLit) {
	if n == nil {
		return "", nil
	}
	var lits []*ast.FuncLit
	var stand []*ast.Ident
	// replace (outermost) function literals by identifiers, print, and put them back
	res := astutil.Apply(n, func(c *astutil.Cursor) bool {
		if fl, ok := c.Node().(*ast.FuncLit); ok && c.Node() != n {
			o.nlit++
			id := &ast.Ident{Name: "func#" + strconv.Itoa(o.nlit), NamePos: fl.Pos()}
			lits = append(lits, fl)
			stand = append(stand, id)
			c.Replace(id)
			return false
		}
		return true
	}, nil)
	var b bytes.Buffer
	txt := "?"
	if err := printer.Fprint(&b, o.fset, res); err == nil {
		txt = oneLine(b.String())
	}
	astutil.Apply(res, func(c *astutil.Cursor) bool {
		if id, ok := c.Node().(*ast.Ident); ok {
			for i, s := range stand {
				if s == id {
					c.Replace(lits[i])
					return false
				}
			}
		}
		return true
	}, nil)
	return txt, lits
}

func (o *outliner) emit(depth int, s string) {
	o.lines = append(o.lines, strings.Repeat("  ", depth)+s)
}

// line emits the text of a simple statement / header built from the given nodes and then the bodies of the
// function literals that occurred in them.
func (o *outliner) line(depth int, format string, nodes ...ast.Node) {
	first := o.nlit
	args := make([]any, len(nodes))
	var all []*ast.FuncLit
	for i, n := range nodes {
		t, lits := o.text(n)
		args[i] = t
		all = append(all, lits...)
	}
	o.emit(depth, fmt.Sprintf(format, args...))
	for i, fl := range all {
		p, _ := o.text(fl.Type)
		o.emit(depth, fmt.Sprintf("func#%d%s", first+i+1, strings.TrimPrefix(p, "func")))
		o.block(depth+1, fl.Body.List)
	}
}

func (o *outliner) block(depth int, list []ast.Stmt) {
	for _, s := range list {
		o.stmt(depth, s)
	}
}

func isNilNode(n ast.Node) bool {
	if n == nil {
		return true
	}
	switch v := n.(type) {
	case ast.Stmt:
		return v == nil
	case ast.Expr:
		return v == nil
	}
	return false
}

func (o *outliner) stmt(depth int, s ast.Stmt) {
	switch v := s.(type) {
	case *ast.BlockStmt:
		o.emit(depth, "{")
		o.block(depth+1, v.List)
	case *ast.IfStmt:
		if v.Init != nil {
			o.line(depth, "if %s; %s", v.Init, v.Cond)
		} else {
			o.line(depth, "if %s", v.Cond)
		}
		o.block(depth+1, v.Body.List)
		if v.Else != nil {
			o.emit(depth, "else")
			if b, ok := v.Else.(*ast.BlockStmt); ok {
				o.block(depth+1, b.List)
			} else {
				o.stmt(depth+1, v.Else)
			}
		}
	case *ast.ForStmt:
		switch {
		case v.Init == nil && v.Post == nil && v.Cond == nil:
			o.emit(depth, "for")
		case v.Init == nil && v.Post == nil:
			o.line(depth, "for %s", v.Cond)
		default:
			var parts [3]string
			var lits []ast.Node
			_ = lits
			if v.Init != nil {
				parts[0], _ = o.text(v.Init)
			}
			if v.Cond != nil {
				parts[1], _ = o.text(v.Cond)
			}
			if v.Post != nil {
				parts[2], _ = o.text(v.Post)
			}
			o.emit(depth, "for "+parts[0]+"; "+parts[1]+"; "+parts[2])
		}
		o.block(depth+1, v.Body.List)
	case *ast.RangeStmt:
		hdr := "for "
		if v.Key != nil {
			k, _ := o.text(v.Key)
			hdr += k
			if v.Value != nil {
				val, _ := o.text(v.Value)
				hdr += ", " + val
			}
			hdr += " " + v.Tok.String() + " "
		}
		o.line(depth, hdr+"range %s", v.X)
		o.block(depth+1, v.Body.List)
	case *ast.SwitchStmt:
		hdr := "switch"
		if v.Init != nil {
			t, _ := o.text(v.Init)
			hdr += " " + t + ";"
		}
		if v.Tag != nil {
			t, _ := o.text(v.Tag)
			hdr += " " + t
		}
		o.emit(depth, hdr)
		o.clauses(depth+1, v.Body.List)
	case *ast.TypeSwitchStmt:
		hdr := "switch"
		if v.Init != nil {
			t, _ := o.text(v.Init)
			hdr += " " + t + ";"
		}
		t, _ := o.text(v.Assign)
		o.emit(depth, hdr+" "+t)
		o.clauses(depth+1, v.Body.List)
	case *ast.SelectStmt:
		o.emit(depth, "select")
		o.clauses(depth+1, v.Body.List)
	case *ast.LabeledStmt:
		o.emit(depth, v.Label.Name+":")
		o.stmt(depth, v.Stmt)
	case *ast.EmptyStmt:
	default:
		o.line(depth, "%s", s)
	}
}

func (o *outliner) clauses(depth int, list []ast.Stmt) {
	for _, c := range list {
		switch cc := c.(type) {
		case *ast.CaseClause:
			if cc.List == nil {
				o.emit(depth, "default")
			} else {
				parts := make([]string, len(cc.List))
				for i, e := range cc.List {
					parts[i], _ = o.text(e)
				}
				o.emit(depth, "case "+strings.Join(parts, ", "))
			}
			o.block(depth+1, cc.Body)
		case *ast.CommClause:
			if cc.Comm == nil {
				o.emit(depth, "default")
			} else {
				o.line(depth, "case %s", cc.Comm)
			}
			o.block(depth+1, cc.Body)
		}
	}
}

// outlineOf renders the body of fd (nil: the single line "<missing>").
func outlineOf(fset *token.FileSet, fd *ast.FuncDecl) []string {
	if fd == nil || fd.Body == nil {
		return []string{"<missing>"}
	}
	o := &outliner{fset: fset}
	o.block(0, fd.Body.List)
	return o.lines
}

// outlineStmts renders a statement list.
func outlineStmts(fset *token.FileSet, list []ast.Stmt) []string {
	o := &outliner{fset: fset}
	o.block(0, list)
	if o.lines == nil {
		return []string{}
	}
	return o.lines
}

// exprText prints an expression on one line (function literals stay as `func#k`).
func exprText(fset *token.FileSet, n ast.Node) string {
	if isNilNode(n) {
		return ""
	}
	o := &outliner{fset: fset}
	t, _ := o.text(n)
	return t
}

// ---------------------------------------------------------------------------- Lean rendering

func leanStr(s string) string {
	var b strings.Builder
	b.WriteByte('"')
	for _, r := range s {
		switch {
		case r == '"':
			b.WriteString("\\\"")
		case r == '\\':
			b.WriteString("\\\\")
		case r == '\n':
			b.WriteString("\\n")
		case r == '\t':
			b.WriteString("\\t")
		case r < 0x20 || r == 0x7f:
			fmt.Fprintf(&b, "\\x%02x", r)
		default:
			b.WriteRune(r)
		}
	}
	b.WriteByte('"')
	return b.String()
}

func leanStrList(xs []string) string {
	if len(xs) == 0 {
		return "[]"
	}
	q := make([]string, len(xs))
	for i, x := range xs {
		q[i] = "  " + leanStr(x)
	}
	return "[\n" + strings.Join(q, ",\n") + "\n]"
}

func leanStrListInline(xs []string) string {
	q := make([]string, len(xs))
	for i, x := range xs {
		q[i] = leanStr(x)
	}
	return "[" + strings.Join(q, ", ") + "]"
}

func leanBool(b bool) string {
	if b {
		return "true"
	}
	return "false"
}

// defOutline writes `def <name> : List String := [...]` with a doc comment.
func defOutline(b *strings.Builder, doc, name string, lines []string) {
	fmt.Fprintf(b, "/-- %s -/\ndef %s : List String := %s\n\n", doc, name, leanStrList(lines))
}

// ---------------------------------------------------------------------------- classifiers

// lenCmp classifies `len(<ident>) OP <int literal>` (also with a selector operand such as `len(w.receives)`):
// (operand text, OP, n, true).
func lenCmp(fset *token.FileSet, e ast.Expr) (string, string, int, bool) {
	b, ok := e.(*ast.BinaryExpr)
	if !ok {
		return "", "", 0, false
	}
	c, ok := b.X.(*ast.CallExpr)
	if !ok || len(c.Args) != 1 {
		return "", "", 0, false
	}
	if f, ok := c.Fun.(*ast.Ident); !ok || f.Name != "len" {
		return "", "", 0, false
	}
	lit, ok := b.Y.(*ast.BasicLit)
	if !ok || lit.Kind != token.INT {
		return "", "", 0, false
	}
	n, err := strconv.Atoi(lit.Value)
	if err != nil {
		return "", "", 0, false
	}
	switch b.Op {
	case token.EQL, token.NEQ, token.LSS, token.LEQ, token.GTR, token.GEQ:
		return exprText(fset, c.Args[0]), b.Op.String(), n, true
	}
	return "", "", 0, false
}

// loopInfo describes a `for` statement: its kind ("for", "range", "if" when the statement is an `if` where a
// loop was expected, "none"), its header text, and whether its body (not descending into nested loops for
// continue/break, nor into function literals) contains continue / break / return statements.
type loopInfo struct {
	kind, header       string
	cont, brk, ret     bool
	bodyLen            int
	body               []ast.Stmt
	rangeKey, rangeVal string
}

func scanJumps(list []ast.Stmt, inner bool, li *loopInfo) {
	for _, s := range list {
		ast.Inspect(s, func(n ast.Node) bool {
			switch v := n.(type) {
			case *ast.FuncLit:
				return false
			case *ast.ForStmt:
				if v.Body != nil {
					scanJumps(v.Body.List, true, li)
				}
				return false
			case *ast.RangeStmt:
				if v.Body != nil {
					scanJumps(v.Body.List, true, li)
				}
				return false
			case *ast.SwitchStmt, *ast.TypeSwitchStmt, *ast.SelectStmt:
				// a `break` inside leaves the switch/select, a `continue` still belongs to the loop
				var body *ast.BlockStmt
				switch w := v.(type) {
				case *ast.SwitchStmt:
					body = w.Body
				case *ast.TypeSwitchStmt:
					body = w.Body
				case *ast.SelectStmt:
					body = w.Body
				}
				for _, c := range body.List {
					var stmts []ast.Stmt
					switch cc := c.(type) {
					case *ast.CaseClause:
						stmts = cc.Body
					case *ast.CommClause:
						stmts = cc.Body
					}
					sub := &loopInfo{}
					scanJumps(stmts, inner, sub)
					li.cont = li.cont || sub.cont
					li.ret = li.ret || sub.ret
					// unlabeled break: belongs to the switch; labeled breaks are reported as break
				}
				return false
			case *ast.BranchStmt:
				if v.Tok == token.CONTINUE && (!inner || v.Label != nil) {
					li.cont = true
				}
				if v.Tok == token.BREAK && (!inner || v.Label != nil) {
					li.brk = true
				}
				if v.Tok == token.GOTO {
					li.brk = true
				}
			case *ast.ReturnStmt:
				li.ret = true
			}
			return true
		})
	}
}

func loopOf(fset *token.FileSet, s ast.Stmt) loopInfo {
	li := loopInfo{kind: "none"}
	switch v := s.(type) {
	case *ast.ForStmt:
		li.kind = "for"
		if v.Init != nil || v.Post != nil {
			li.kind = "for3"
			li.header = exprText(fset, v.Init) + "; " + exprText(fset, v.Cond) + "; " + exprText(fset, v.Post)
		} else {
			li.header = exprText(fset, v.Cond)
		}
		li.body = v.Body.List
	case *ast.RangeStmt:
		li.kind = "range"
		li.header = exprText(fset, v.X)
		li.rangeKey = exprText(fset, v.Key)
		li.rangeVal = exprText(fset, v.Value)
		li.body = v.Body.List
	case *ast.IfStmt:
		li.kind = "if"
		li.header = exprText(fset, v.Cond)
		li.body = v.Body.List
	default:
		return li
	}
	li.bodyLen = len(li.body)
	scanJumps(li.body, false, &li)
	return li
}

// popFacts classifies the FIFO pop idiom on the slice named s inside a statement list: the index read
// (`s[i]` in any expression other than a slicing of s) and the re-slicing `s = s[lo:]`.
// index / low are -1 when absent or not integer literals; other is true when s is assigned in any other way.
type popInfo struct {
	index, low int
	highGiven  bool
	other      []string
}

func intLit(e ast.Expr) int {
	if l, ok := e.(*ast.BasicLit); ok && l.Kind == token.INT {
		if n, err := strconv.Atoi(l.Value); err == nil {
			return n
		}
	}
	return -1
}

func popOf(fset *token.FileSet, list []ast.Stmt, s string) popInfo {
	pi := popInfo{index: -1, low: -1}
	for _, st := range list {
		ast.Inspect(st, func(n ast.Node) bool {
			switch v := n.(type) {
			case *ast.FuncLit:
				return false
			case *ast.AssignStmt:
				for i, l := range v.Lhs {
					if exprText(fset, l) != s {
						continue
					}
					if len(v.Rhs) == len(v.Lhs) {
						if sl, ok := v.Rhs[i].(*ast.SliceExpr); ok && exprText(fset, sl.X) == s && v.Tok == token.ASSIGN {
							pi.low = intLit(sl.Low)
							pi.highGiven = sl.High != nil || sl.Max != nil
							continue
						}
					}
					pi.other = append(pi.other, exprText(fset, v))
				}
			case *ast.IndexExpr:
				if exprText(fset, v.X) == s {
					pi.index = intLit(v.Index)
				}
			}
			return true
		})
	}
	return pi
}

// ---------------------------------------------------------------------------- more rendering helpers

const loopStructure = "structure Loop where\n  kind : String\n  header : String\n  vars : String\n  hasContinue : Bool\n  hasBreak : Bool\n  hasReturn : Bool\n  body : List String\n  deriving DecidableEq, Repr\n\n"

const popStructure = "/-- the FIFO pop idiom on a slice `s`: the literal index read (`s[index]`), the literal low bound of the\nre-slicing `s = s[low:]` (999 = absent / not a literal), whether the re-slicing gives a high bound, and every other\nassignment to `s` in the same statements -/\nstructure Pop where\n  index : Nat\n  low : Nat\n  highGiven : Bool\n  other : List String\n  deriving DecidableEq, Repr\n\n"

func (li loopInfo) lean(fset *token.FileSet) string {
	vars := ""
	if li.kind == "range" && (li.rangeKey != "" || li.rangeVal != "") {
		vars = li.rangeKey + "," + li.rangeVal
	}
	return fmt.Sprintf("{ kind := %s, header := %s, vars := %s, hasContinue := %s, hasBreak := %s, hasReturn := %s, body := %s }",
		leanStr(li.kind), leanStr(li.header), leanStr(vars), leanBool(li.cont), leanBool(li.brk), leanBool(li.ret),
		leanStrListInline(outlineStmts(fset, li.body)))
}

func natOr999(n int) int {
	if n < 0 {
		return 999
	}
	return n
}

func (pi popInfo) lean() string {
	return fmt.Sprintf("{ index := %d, low := %d, highGiven := %s, other := %s }", natOr999(pi.index), natOr999(pi.low), leanBool(pi.highGiven), leanStrListInline(pi.other))
}

func leanPairs(ps [][2]string) string {
	if len(ps) == 0 {
		return "[]"
	}
	q := make([]string, len(ps))
	for i, p := range ps {
		q[i] = fmt.Sprintf("  (%s, %s)", leanStr(p[0]), leanStr(p[1]))
	}
	return "[\n" + strings.Join(q, ",\n") + "\n]"
}

// guardsOf lists the top-level early exits `if <cond> { …; return <results> }` (no else) of a statement list, in
// order: (condition, what the branch does – its statements joined by "; ").
func guardsOf(fset *token.FileSet, list []ast.Stmt) [][2]string {
	var r [][2]string
	for _, s := range list {
		ifs, ok := s.(*ast.IfStmt)
		if !ok || ifs.Else != nil || len(ifs.Body.List) == 0 {
			continue
		}
		if _, ok := ifs.Body.List[len(ifs.Body.List)-1].(*ast.ReturnStmt); !ok {
			continue
		}
		cond := exprText(fset, ifs.Cond)
		if ifs.Init != nil {
			cond = exprText(fset, ifs.Init) + "; " + cond
		}
		r = append(r, [2]string{cond, strings.Join(outlineStmts(fset, ifs.Body.List), "; ")})
	}
	return r
}

// heads lists the first line of every top-level statement (the order of the steps of a function).
func heads(fset *token.FileSet, list []ast.Stmt) []string {
	r := []string{}
	for _, s := range list {
		l := outlineStmts(fset, []ast.Stmt{s})
		if len(l) > 0 {
			r = append(r, l[0])
		}
	}
	return r
}

// findStmt returns the first statement (pre-order, not descending into function literals unless lits is set)
// for which pred holds.
func findStmt(list []ast.Stmt, lits bool, pred func(ast.Stmt) bool) ast.Stmt {
	var found ast.Stmt
	for _, s := range list {
		if found != nil {
			break
		}
		ast.Inspect(s, func(n ast.Node) bool {
			if found != nil {
				return false
			}
			if _, ok := n.(*ast.FuncLit); ok && !lits {
				return false
			}
			if st, ok := n.(ast.Stmt); ok && pred(st) {
				found = st
				return false
			}
			return true
		})
	}
	return found
}

func bodyOf(fd *ast.FuncDecl) []ast.Stmt {
	if fd == nil || fd.Body == nil {
		return nil
	}
	return fd.Body.List
}

// joinLines joins outline lines into one string, dropping the indentation.
func joinLines(lines []string) string {
	t := make([]string, len(lines))
	for i, l := range lines {
		t[i] = strings.TrimSpace(l)
	}
	return strings.Join(t, "; ")
}
