// Command extract regenerates lean/Uniflow/Generated/*.lean from the repository's current
// source: small fact tables that Lean theorems are re-checked against on every run.
//
//	extract <repo dir> <out dir>
//
// Locks.lean: for every struct type of the C20 anchor files that owns a mutex, every read and
// write of each of its fields in each of its methods together with the set of that object's
// mutexes held at that point (intra-procedural, flow-sensitive walk; private helpers inherit
// the locks held at *all* their call sites, computed as a fixpoint), the calls made while a
// lock is held, and the lock-order edges between modelled objects.
package main

import (
	"fmt"
	"go/ast"
	"go/token"
	"go/types"
	"os"
	"path/filepath"
	"sort"
	"strings"

	"golang.org/x/tools/go/packages"
)

var anchorFiles = map[string]bool{
	"pkg/symbol/table.go": true, "pkg/store/store.go": true, "pkg/store/segment.go": true, "pkg/store/stream.go": true,
	"pkg/process/process.go": true, "pkg/process/local.go": true, "pkg/port/inport.go": true, "pkg/port/outport.go": true,
	"pkg/packet/reader.go": true, "pkg/packet/writer.go": true, "pkg/packet/tracer.go": true, "pkg/runtime/agent.go": true,
	"pkg/types/map.go": true, "pkg/encoding/assembler.go": true, "pkg/encoding/group.go": true,
}

var pkgs = []string{"./pkg/symbol", "./pkg/store", "./pkg/process", "./pkg/port", "./pkg/packet", "./pkg/runtime", "./pkg/types", "./pkg/encoding", "./pkg/template", "./pkg/spec", "./pkg/value", "./pkg/node", "./pkg/hook", "./pkg/scheme"}

func main() {
	if len(os.Args) != 3 {
		fmt.Fprintln(os.Stderr, "usage: extract <repo> <outdir>")
		os.Exit(2)
	}
	repo, out := os.Args[1], os.Args[2]
	cfg := &packages.Config{Mode: packages.NeedName | packages.NeedFiles | packages.NeedSyntax | packages.NeedTypes | packages.NeedTypesInfo | packages.NeedImports | packages.NeedDeps,
		Dir: repo, BuildFlags: []string{"-tags=verif"}, Env: append(os.Environ(), "GOFLAGS=-mod=mod", "GOPROXY=off", "GOSUMDB=off", "GOWORK=off")}
	ps, err := packages.Load(cfg, pkgs...)
	if err != nil {
		fmt.Fprintln(os.Stderr, "load:", err)
		os.Exit(1)
	}
	bad := false
	for _, p := range ps {
		for _, e := range p.Errors {
			fmt.Fprintln(os.Stderr, "package error:", e)
			bad = true
		}
	}
	if bad {
		os.Exit(1)
	}
	if err := os.MkdirAll(out, 0o755); err != nil {
		panic(err)
	}
	genLocks(repo, out, ps)
	genKinds(repo, out, ps)
	genDecoders(repo, out, ps)
	genLifecycle(repo, out, ps)
	genOps(repo, out, ps)
	genTableFacts(repo, out, ps)
	genJoin(repo, out, ps)
	genWriter(repo, out, ps)
	genProcess(repo, out, ps)
	genStore(repo, out, ps)
	genRuntimeFacts(repo, out, ps)
	genBuckets(repo, out, ps)
	genFuncFacts(repo, out, ps)
}

// ---------------------------------------------------------------------------- lock facts

type lockRef struct {
	name string // field name of the mutex in its owner
	excl bool
}

type held map[string]bool // lock field name -> exclusive?

func (h held) clone() held {
	n := held{}
	for k, v := range h {
		n[k] = v
	}
	return n
}

func intersect(a, b held) held {
	n := held{}
	for k, v := range a {
		if w, ok := b[k]; ok {
			n[k] = v && w
		}
	}
	return n
}

type access struct {
	typ, meth, field string
	write            bool
	h                held
	pos              string
	async            bool
}

type callFact struct {
	typ, meth string
	h         held
	callee    string // "T.m" for a static method of a modelled type, "dyn:<iface type>.<m>" for a dynamic call
	dynamic   bool
	passesFn  bool   // a func literal / func value / hook interface is passed
	via       string // receiver expression of the call (e.g. "p.parent"), "recv" for a call on the receiver itself
	pos       string
}

type acquireFact struct {
	typ, meth, lock string
	excl            bool
	h               held
	pos             string
}

type structInfo struct {
	name    string
	pkg     *packages.Package
	named   *types.Named
	st      *types.Struct
	mutexes []string
	fields  []fieldInfo
}

type fieldInfo struct {
	name, kind string // kind: mutex | sync | chan | plain
}

type methodInfo struct {
	owner *structInfo
	decl  *ast.FuncDecl
	recv  *types.Var
	name  string
	calls []internalCall // calls to methods of the same receiver
}

type internalCall struct {
	callee string
	h      held
	async  bool
}

type walker struct {
	pkg       *packages.Package
	owner     *structInfo
	meth      *methodInfo
	recv      types.Object
	entry     held
	accesses  *[]access
	calls     *[]callFact
	acquires  *[]acquireFact
	structs   map[string]*structInfo // by qualified name
	fset      *token.FileSet
	recording bool
	// slice snapshots: local variables that alias the backing array of a slice held in a field
	aliases map[types.Object]string
	snaps   *[]sliceFact // an alias read while no mutex of the object is held
	inplace *[]sliceFact // an element of the field's backing array overwritten in place
	// pointer elements of container fields: locals that hold an element taken out of a container
	// field (range value, index, map lookup), the writes made through them, and the element types
	// that leave the object (returned by an exported method / passed to code outside the modelled objects)
	elemOf     map[types.Object]string
	elemWrites *[]elemWrite
	published  *[]publishedElem
	syncOps    *[]syncOp
}

// elemWrite: in method meth of typ, field `written` of a struct of type elem is assigned through a
// pointer that was taken out of the container held in field `field`.
type elemWrite struct {
	typ, meth, field, elem, written, pos string
}

// publishedElem: pointers to elem leave the modelled object typ (how: "returned by M" / "passed to C").
type publishedElem struct {
	typ, elem, how string
}

// syncOp: a method of a sync object held in a field (WaitGroup, Cond, Once, Map, atomics) is called.
type syncOp struct {
	typ, meth, field, kind, op string
	h                          held
	pos                        string
}

// sliceFact names a slice-typed field (or a map-of-slices field) of a modelled type.
type sliceFact struct {
	typ, meth, field, pos string
}

func qual(n *types.Named) string { return n.Obj().Pkg().Name() + "." + n.Obj().Name() }

func isMutex(t types.Type) bool {
	if p, ok := t.(*types.Pointer); ok {
		t = p.Elem()
	}
	n, ok := t.(*types.Named)
	if !ok || n.Obj().Pkg() == nil {
		return false
	}
	return n.Obj().Pkg().Path() == "sync" && (n.Obj().Name() == "Mutex" || n.Obj().Name() == "RWMutex")
}

func fieldKind(t types.Type) string {
	if isMutex(t) {
		return "mutex"
	}
	u := t
	if p, ok := u.(*types.Pointer); ok {
		u = p.Elem()
	}
	if n, ok := u.(*types.Named); ok && n.Obj().Pkg() != nil {
		switch n.Obj().Pkg().Path() {
		case "sync", "sync/atomic":
			return "sync"
		}
	}
	if _, ok := t.Underlying().(*types.Chan); ok {
		return "chan"
	}
	return "plain"
}

func namedOf(t types.Type) *types.Named {
	for {
		switch x := t.(type) {
		case *types.Pointer:
			t = x.Elem()
		case *types.Alias:
			t = types.Unalias(x)
		case *types.Named:
			return x.Origin()
		default:
			return nil
		}
	}
}

func genLocks(repo, out string, ps []*packages.Package) {
	structs := map[string]*structInfo{}
	var order []string
	var methods []*methodInfo
	for _, p := range ps {
		for _, f := range p.Syntax {
			rel, _ := filepath.Rel(repo, p.Fset.Position(f.Pos()).Filename)
			if !anchorFiles[filepath.ToSlash(rel)] {
				continue
			}
			for _, d := range f.Decls {
				gd, ok := d.(*ast.GenDecl)
				if !ok || gd.Tok != token.TYPE {
					continue
				}
				for _, s := range gd.Specs {
					ts := s.(*ast.TypeSpec)
					obj, _ := p.TypesInfo.Defs[ts.Name].(*types.TypeName)
					if obj == nil {
						continue
					}
					named, ok := obj.Type().(*types.Named)
					if !ok {
						continue
					}
					st, ok := named.Underlying().(*types.Struct)
					if !ok {
						continue
					}
					si := &structInfo{name: qual(named), pkg: p, named: named, st: st}
					for i := 0; i < st.NumFields(); i++ {
						fk := fieldKind(st.Field(i).Type())
						si.fields = append(si.fields, fieldInfo{st.Field(i).Name(), fk})
						if fk == "mutex" {
							si.mutexes = append(si.mutexes, st.Field(i).Name())
						}
					}
					if len(si.mutexes) == 0 {
						continue
					}
					structs[si.name] = si
					order = append(order, si.name)
				}
			}
		}
	}
	sort.Strings(order)
	// methods of the modelled structs (anywhere in their package, test files are not loaded)
	for _, p := range ps {
		for _, f := range p.Syntax {
			fn := p.Fset.Position(f.Pos()).Filename
			if strings.HasSuffix(fn, "_test.go") || strings.Contains(filepath.Base(fn), "verif_") {
				continue
			}
			for _, d := range f.Decls {
				fd, ok := d.(*ast.FuncDecl)
				if !ok || fd.Recv == nil || fd.Body == nil || len(fd.Recv.List) == 0 {
					continue
				}
				var recvObj *types.Var
				if len(fd.Recv.List[0].Names) > 0 {
					recvObj, _ = p.TypesInfo.Defs[fd.Recv.List[0].Names[0]].(*types.Var)
				}
				fobj, _ := p.TypesInfo.Defs[fd.Name].(*types.Func)
				if fobj == nil {
					continue
				}
				sig := fobj.Type().(*types.Signature)
				n := namedOf(sig.Recv().Type())
				if n == nil {
					continue
				}
				si, ok := structs[qual(n)]
				if !ok {
					continue
				}
				methods = append(methods, &methodInfo{owner: si, decl: fd, recv: recvObj, name: fd.Name.Name})
			}
		}
	}
	sort.Slice(methods, func(i, j int) bool {
		if methods[i].owner.name != methods[j].owner.name {
			return methods[i].owner.name < methods[j].owner.name
		}
		return methods[i].name < methods[j].name
	})
	// fixpoint for "held on entry" of private methods
	entry := map[string]held{}
	all := func(si *structInfo) held {
		h := held{}
		for _, m := range si.mutexes {
			h[m] = true
		}
		return h
	}
	called := map[string]bool{}
	// first pass to find which private methods are called internally at all
	var snaps, inplace []sliceFact
	var elemWrites []elemWrite
	var published []publishedElem
	var syncOps []syncOp
	run := func(record bool) ([]access, []callFact, []acquireFact) {
		var accs []access
		var calls []callFact
		var acqs []acquireFact
		snaps, inplace = nil, nil
		elemWrites, published, syncOps = nil, nil, nil
		for _, m := range methods {
			m.calls = nil
			key := m.owner.name + "." + m.name
			e := entry[key]
			if e == nil {
				e = held{}
			}
			w := &walker{pkg: m.owner.pkg, owner: m.owner, meth: m, recv: m.recv, entry: e, accesses: &accs, calls: &calls, acquires: &acqs, structs: structs, fset: m.owner.pkg.Fset, recording: record,
				aliases: map[types.Object]string{}, snaps: &snaps, inplace: &inplace,
				elemOf: map[types.Object]string{}, elemWrites: &elemWrites, published: &published, syncOps: &syncOps}
			w.publishResults()
			w.block(m.decl.Body.List, e.clone(), false)
		}
		return accs, calls, acqs
	}
	run(false)
	for _, m := range methods {
		for _, c := range m.calls {
			called[m.owner.name+"."+c.callee] = true
		}
	}
	for _, m := range methods {
		key := m.owner.name + "." + m.name
		if !ast.IsExported(m.name) && called[key] {
			entry[key] = all(m.owner) // top
		} else {
			entry[key] = held{}
		}
	}
	for iter := 0; iter < 20; iter++ {
		run(false)
		next := map[string]held{}
		for _, m := range methods {
			for _, c := range m.calls {
				key := m.owner.name + "." + c.callee
				h := c.h
				if c.async {
					h = held{}
				}
				if cur, ok := next[key]; ok {
					next[key] = intersect(cur, h)
				} else {
					next[key] = h.clone()
				}
			}
		}
		changed := false
		for _, m := range methods {
			key := m.owner.name + "." + m.name
			if ast.IsExported(m.name) || !called[key] {
				continue
			}
			n := next[key]
			if n == nil {
				n = held{}
			}
			if !sameHeld(n, entry[key]) {
				entry[key] = n
				changed = true
			}
		}
		if !changed {
			break
		}
	}
	accs, calls, acqs := run(true)

	// which methods acquire which own locks (directly or through internal calls), and which may call out dynamically
	acquiresOf := map[string]map[string]bool{}
	for _, a := range acqs {
		k := a.typ + "." + a.meth
		if acquiresOf[k] == nil {
			acquiresOf[k] = map[string]bool{}
		}
		acquiresOf[k][a.typ+"."+a.lock] = true
	}
	dynOf := map[string]bool{}
	staticCalls := map[string][]string{}
	for _, c := range calls {
		k := c.typ + "." + c.meth
		if c.dynamic {
			dynOf[k] = true
		} else {
			staticCalls[k] = append(staticCalls[k], c.callee)
		}
	}
	// all static calls (also those not under lock) are needed for transitivity: collect separately
	allCalls := collectAllStaticCalls(methods, structs)
	for k, v := range allCalls.static {
		staticCalls[k] = append(staticCalls[k], v...)
	}
	for k := range allCalls.dynamic {
		dynOf[k] = true
	}
	for iter := 0; iter < 30; iter++ {
		changed := false
		for k, cs := range staticCalls {
			for _, c := range cs {
				for l := range acquiresOf[c] {
					if acquiresOf[k] == nil {
						acquiresOf[k] = map[string]bool{}
					}
					if !acquiresOf[k][l] {
						acquiresOf[k][l] = true
						changed = true
					}
				}
				if dynOf[c] && !dynOf[k] {
					dynOf[k] = true
					changed = true
				}
			}
		}
		if !changed {
			break
		}
	}

	// ------------------------------------------------------------------ emit
	var b strings.Builder
	b.WriteString("/-\nGENERATED by /verif/extract from the repository's current source. Do not edit.\n")
	b.WriteString("Lock facts for the struct types of the C20 anchor files that own a mutex.\n-/\n")
	b.WriteString("namespace Uniflow.Generated.Locks\n\n")
	b.WriteString("structure Access where\n  typ : String\n  meth : String\n  field : String\n  write : Bool\n  held : List String      -- own mutexes held (shared or exclusive)\n  heldExcl : List String  -- own mutexes held exclusively\n  deriving Repr, DecidableEq\n\n")
	b.WriteString("structure FieldInfo where\n  typ : String\n  name : String\n  kind : String   -- mutex | sync | chan | plain\n  writtenOutsideCtor : Bool\n  deriving Repr, DecidableEq\n\n")
	b.WriteString("structure CallUnderLock where\n  typ : String\n  meth : String\n  held : List String       -- qualified own mutexes held at the call (may be empty)\n  heldExcl : List String\n  via : String             -- receiver expression: recv | recv.<field> | <local>\n  callee : String\n  calleeTyp : String       -- owning type of a static callee, \"\" for dynamic calls\n  valueIface : Bool        -- dynamic call through a value-level interface (types.*, context.*, hash.*, type parameter)\n  heldStr : String         -- held, comma separated\n  dynamic : Bool       -- call through an interface / func value (user hook)\n  passesFn : Bool      -- passes a func literal, func value or hook to the callee\n  calleeAcquires : List (String × String)   -- (owning type, qualified mutex)\n  calleeMayCallOut : Bool\n  deriving Repr, DecidableEq\n\n")
	// fields
	written := map[string]bool{}
	for _, a := range accs {
		if a.write {
			written[a.typ+"."+a.field] = true
		}
	}
	b.WriteString("def fields : List FieldInfo := [\n")
	first := true
	for _, n := range order {
		for _, f := range structs[n].fields {
			if !first {
				b.WriteString(",\n")
			}
			first = false
			fmt.Fprintf(&b, "  ⟨%q, %q, %q, %v⟩", n, f.name, f.kind, written[n+"."+f.name])
		}
	}
	b.WriteString("\n]\n\n")
	sort.SliceStable(accs, func(i, j int) bool {
		if accs[i].typ != accs[j].typ {
			return accs[i].typ < accs[j].typ
		}
		if accs[i].field != accs[j].field {
			return accs[i].field < accs[j].field
		}
		return accs[i].meth < accs[j].meth
	})
	// de-duplicate identical facts
	seen := map[string]bool{}
	byType := map[string][]access{}
	for _, a := range accs {
		k := fmt.Sprint(a.typ, a.meth, a.field, a.write, heldList(a.h, false), heldList(a.h, true))
		if seen[k] {
			continue
		}
		seen[k] = true
		byType[a.typ] = append(byType[a.typ], a)
	}
	var defNames []string
	for _, n := range order {
		dn := "accesses_" + strings.ReplaceAll(n, ".", "_")
		defNames = append(defNames, dn)
		fmt.Fprintf(&b, "def %s : List Access := [\n", dn)
		for i, a := range byType[n] {
			if i > 0 {
				b.WriteString(",\n")
			}
			fmt.Fprintf(&b, "  ⟨%q, %q, %q, %v, %s, %s⟩ /- %s -/", a.typ, a.meth, a.field, a.write, leanList(heldList(a.h, false)), leanList(heldList(a.h, true)), a.pos)
		}
		b.WriteString("\n]\n\n")
	}
	fmt.Fprintf(&b, "def accesses : List Access := %s\n\n", strings.Join(defNames, " ++ "))
	b.WriteString("/-- Every call from a method of a modelled type to a method of a modelled type, to a hook list, or through an interface / func value, with the caller's own mutexes held at that point. -/\ndef calls : List CallUnderLock := [\n")
	cseen := map[string]bool{}
	firstc := true
	sort.SliceStable(calls, func(i, j int) bool {
		if calls[i].typ != calls[j].typ {
			return calls[i].typ < calls[j].typ
		}
		if calls[i].meth != calls[j].meth {
			return calls[i].meth < calls[j].meth
		}
		return calls[i].callee < calls[j].callee
	})
	for _, c := range calls {
		var acq []string
		for l := range acquiresOf[c.callee] {
			acq = append(acq, l)
		}
		sort.Strings(acq)
		k := fmt.Sprint(c.typ, c.meth, heldList(c.h, false), heldList(c.h, true), c.via, c.callee, c.dynamic, c.passesFn)
		if cseen[k] {
			continue
		}
		cseen[k] = true
		if !firstc {
			b.WriteString(",\n")
		}
		firstc = false
		var hq, hx []string
		for _, l := range heldList(c.h, false) {
			hq = append(hq, c.typ+"."+l)
		}
		for _, l := range heldList(c.h, true) {
			hx = append(hx, c.typ+"."+l)
		}
		calleeTyp := ""
		if !strings.HasPrefix(c.callee, "dyn:") {
			if i := strings.LastIndex(c.callee, "."); i > 0 {
				calleeTyp = c.callee[:i]
			}
		}
		valueIface := false
		for _, pfx := range []string{"dyn:types.", "dyn:context.", "dyn:hash.", "dyn:typeparam."} {
			if strings.HasPrefix(c.callee, pfx) {
				valueIface = true
			}
		}
		var acqPairs []string
		for _, l := range acq {
			acqPairs = append(acqPairs, fmt.Sprintf("(%q, %q)", l[:strings.LastIndex(l, ".")], l))
		}
		fmt.Fprintf(&b, "  ⟨%q, %q, %s, %s, %q, %q, %q, %v, %q, %v, %v, [%s], %v⟩ /- %s -/", c.typ, c.meth, leanList(hq), leanList(hx), c.via, c.callee, calleeTyp, valueIface, strings.Join(hq, ","), c.dynamic, c.passesFn, strings.Join(acqPairs, ", "), dynOf[c.callee], c.pos)
	}
	b.WriteString("\n]\n\n")
	b.WriteString("structure Acquire where\n  typ : String\n  meth : String\n  lock : String\n  excl : Bool\n  held : List String   -- own mutexes already held when this one is taken\n  deriving Repr, DecidableEq\n\n")
	b.WriteString("def acquires : List Acquire := [\n")
	aseen := map[string]bool{}
	firsta := true
	for _, a := range acqs {
		k := fmt.Sprint(a.typ, a.meth, a.lock, a.excl, heldList(a.h, false))
		if aseen[k] {
			continue
		}
		aseen[k] = true
		if !firsta {
			b.WriteString(",\n")
		}
		firsta = false
		fmt.Fprintf(&b, "  ⟨%q, %q, %q, %v, %s⟩ /- %s -/", a.typ, a.meth, a.lock, a.excl, leanList(heldList(a.h, false)), a.pos)
	}
	b.WriteString("\n]\n\n")
	// number of lock acquisition sites per method: the step granularity the small-step models assume
	b.WriteString("/-- (type, method, mutex, number of Lock/RLock call sites in the method): one critical section per\nacquisition site. The small-step models take each critical section as one atomic step; the property\nfiles pin the counts they rely on. -/\ndef acquireSites : List (String × String × String × Nat) := [\n")
	cnt := map[string]int{}
	var ckeys []string
	for _, a := range acqs {
		k := a.typ + "|" + a.meth + "|" + a.lock
		if cnt[k] == 0 {
			ckeys = append(ckeys, k)
		}
		cnt[k]++
	}
	sort.Strings(ckeys)
	for i, k := range ckeys {
		parts := strings.Split(k, "|")
		if i > 0 {
			b.WriteString(",\n")
		}
		fmt.Fprintf(&b, "  (%q, %q, %q, %d)", parts[0], parts[1], parts[2], cnt[k])
	}
	b.WriteString("\n]\n\n")
	// slice snapshots and in-place element writes
	emitSlice := func(name, doc string, fs []sliceFact) int {
		b.WriteString("/-- " + doc + " -/\n")
		b.WriteString("def " + name + " : List (String × String × String) := [\n")
		seenS := map[string]bool{}
		first := true
		sort.SliceStable(fs, func(i, j int) bool {
			if fs[i].typ != fs[j].typ {
				return fs[i].typ < fs[j].typ
			}
			if fs[i].meth != fs[j].meth {
				return fs[i].meth < fs[j].meth
			}
			return fs[i].field < fs[j].field
		})
		for _, f := range fs {
			k := f.typ + "|" + f.meth + "|" + f.field
			if seenS[k] {
				continue
			}
			seenS[k] = true
			if !first {
				b.WriteString(",\n")
			}
			first = false
			fmt.Fprintf(&b, "  (%q, %q, %q) /- %s -/", f.typ, f.meth, f.field, f.pos)
		}
		b.WriteString("\n]\n\n")
		return len(seenS)
	}
	nsnap := emitSlice("sliceSnapshots", "(type, method, field): a local alias of the slice held in the field (`x := recv.f`, `x := recv.m[k]`) is read while no mutex of the object is held – the backing array has escaped the critical section.", snaps)
	ninpl := emitSlice("sliceInPlaceWrites", "(type, method, field): an element of the backing array of the slice held in the field is overwritten in place (`s[i] = v`, `append(s[:i], …)`), directly or through a local alias.", inplace)
	// --- pointer elements that leave the object, and writes through element pointers
	{
		b.WriteString("/-- (type, element struct, how): pointers to the element struct leave the modelled object – returned by an\nexported method (possibly inside a slice or map) or passed to code outside the modelled objects (hook lists,\nwatchers, listeners, func values). -/\n")
		b.WriteString("def publishedElems : List (String × String × String) := [\n")
		sort.SliceStable(published, func(i, j int) bool {
			a, c := published[i], published[j]
			return a.typ+"|"+a.elem+"|"+a.how < c.typ+"|"+c.elem+"|"+c.how
		})
		seenP := map[string]bool{}
		first := true
		for _, p := range published {
			k := p.typ + "|" + p.elem + "|" + p.how
			if seenP[k] {
				continue
			}
			seenP[k] = true
			if !first {
				b.WriteString(",\n")
			}
			first = false
			fmt.Fprintf(&b, "  (%q, %q, %q)", p.typ, p.elem, p.how)
		}
		b.WriteString("\n]\n\n")
		b.WriteString("/-- (type, method, container field, element struct, written field): a field of an element struct is assigned\nthrough a pointer that was taken out of the container held in the field (range value, index, map lookup).\n`*` = the whole struct is overwritten. -/\n")
		b.WriteString("def elemWrites : List (String × String × String × String × String) := [\n")
		sort.SliceStable(elemWrites, func(i, j int) bool {
			a, c := elemWrites[i], elemWrites[j]
			return a.typ+"|"+a.meth+"|"+a.field+"|"+a.elem+"|"+a.written < c.typ+"|"+c.meth+"|"+c.field+"|"+c.elem+"|"+c.written
		})
		seenW := map[string]bool{}
		first = true
		for _, e := range elemWrites {
			k := e.typ + "|" + e.meth + "|" + e.field + "|" + e.elem + "|" + e.written
			if seenW[k] {
				continue
			}
			seenW[k] = true
			if !first {
				b.WriteString(",\n")
			}
			first = false
			fmt.Fprintf(&b, "  (%q, %q, %q, %q, %q) /- %s -/", e.typ, e.meth, e.field, e.elem, e.written, e.pos)
		}
		b.WriteString("\n]\n\n")
		// --- operations on sync objects held in fields
		b.WriteString("structure SyncOp where\n  typ : String\n  meth : String\n  field : String\n  kind : String   -- sync.WaitGroup | sync.Cond | sync.Map | atomic.Uint32 | …\n  op : String     -- Add | Done | Wait | Signal | Broadcast | Load | Store | …\n  held : List String\n  heldExcl : List String\n  deriving Repr, DecidableEq\n\n")
		b.WriteString("def syncOps : List SyncOp := [\n")
		sort.SliceStable(syncOps, func(i, j int) bool {
			a, c := syncOps[i], syncOps[j]
			return a.typ+"|"+a.meth+"|"+a.field+"|"+a.op+"|"+a.pos < c.typ+"|"+c.meth+"|"+c.field+"|"+c.op+"|"+c.pos
		})
		seenO := map[string]bool{}
		first = true
		for _, o := range syncOps {
			k := fmt.Sprint(o.typ, o.meth, o.field, o.op, heldList(o.h, false), heldList(o.h, true))
			if seenO[k] {
				continue
			}
			seenO[k] = true
			if !first {
				b.WriteString(",\n")
			}
			first = false
			fmt.Fprintf(&b, "  ⟨%q, %q, %q, %q, %q, %s, %s⟩ /- %s -/", o.typ, o.meth, o.field, o.kind, o.op, leanList(heldList(o.h, false)), leanList(heldList(o.h, true)), o.pos)
		}
		b.WriteString("\n]\n\n")
		// --- method table (the stress harness reports which exported methods its workloads reach)
		b.WriteString("/-- (type, method, exported, file, line of the declaration) of every method of the modelled types. -/\n")
		b.WriteString("def methodTable : List (String × String × Bool × String × Nat) := [\n")
		for i, m := range methods {
			pos := m.owner.pkg.Fset.Position(m.decl.Pos())
			rel, _ := filepath.Rel(repo, pos.Filename)
			if i > 0 {
				b.WriteString(",\n")
			}
			fmt.Fprintf(&b, "  (%q, %q, %v, %q, %d)", m.owner.name, m.name, ast.IsExported(m.name), filepath.ToSlash(rel), pos.Line)
		}
		b.WriteString("\n]\n\n")
	}
	// entry assumptions, for the record
	b.WriteString("/-- Locks a private helper may assume held on entry: the intersection over all its call sites. -/\n")
	b.WriteString("def heldOnEntry : List (String × List String) := [\n")
	firste := true
	for _, m := range methods {
		key := m.owner.name + "." + m.name
		if len(entry[key]) == 0 {
			continue
		}
		if !firste {
			b.WriteString(",\n")
		}
		firste = false
		fmt.Fprintf(&b, "  (%q, %s)", key, leanList(heldList(entry[key], false)))
	}
	b.WriteString("\n]\n\nend Uniflow.Generated.Locks\n")
	if err := os.WriteFile(filepath.Join(out, "Locks.lean"), []byte(b.String()), 0o644); err != nil {
		panic(err)
	}
	fmt.Printf("Locks.lean: %d types, %d methods, %d access facts, %d acquisitions, %d calls under lock, %d slice snapshots, %d in-place slice writes, %d writes through element pointers, %d sync-object operations\n", len(order), len(methods), len(seen), len(aseen), len(cseen), nsnap, ninpl, len(elemWrites), len(syncOps))
}

func sameHeld(a, b held) bool {
	if len(a) != len(b) {
		return false
	}
	for k, v := range a {
		if w, ok := b[k]; !ok || w != v {
			return false
		}
	}
	return true
}

func heldList(h held, exclOnly bool) []string {
	var out []string
	for k, v := range h {
		if !exclOnly || v {
			out = append(out, k)
		}
	}
	sort.Strings(out)
	return out
}

func leanList(xs []string) string {
	q := make([]string, len(xs))
	for i, x := range xs {
		q[i] = fmt.Sprintf("%q", x)
	}
	return "[" + strings.Join(q, ", ") + "]"
}

// ---- the flow-sensitive walk

func (w *walker) pos(n ast.Node) string {
	p := w.fset.Position(n.Pos())
	return fmt.Sprintf("%s:%d", filepath.Base(p.Filename), p.Line)
}

// lockCall recognises recv.<mutex>.Lock/RLock/Unlock/RUnlock().
func (w *walker) lockCall(e ast.Expr) (lock string, op string, ok bool) {
	c, isCall := e.(*ast.CallExpr)
	if !isCall {
		return
	}
	sel, isSel := c.Fun.(*ast.SelectorExpr)
	if !isSel {
		return
	}
	switch sel.Sel.Name {
	case "Lock", "RLock", "Unlock", "RUnlock":
	default:
		return
	}
	inner, isSel2 := sel.X.(*ast.SelectorExpr)
	if !isSel2 {
		return
	}
	id, isId := inner.X.(*ast.Ident)
	if !isId || w.recv == nil || w.pkg.TypesInfo.Uses[id] != w.recv {
		return
	}
	tv, has := w.pkg.TypesInfo.Types[inner]
	if !has || !isMutex(tv.Type) {
		return
	}
	return inner.Sel.Name, sel.Sel.Name, true
}

func (w *walker) block(stmts []ast.Stmt, h held, async bool) (held, bool) {
	for _, s := range stmts {
		var term bool
		h, term = w.stmt(s, h, async)
		if term {
			return h, true
		}
	}
	return h, false
}

func (w *walker) stmt(s ast.Stmt, h held, async bool) (held, bool) {
	switch x := s.(type) {
	case nil:
		return h, false
	case *ast.ExprStmt:
		if lock, op, ok := w.lockCall(x.X); ok {
			switch op {
			case "Lock", "RLock":
				if w.recording {
					*w.acquires = append(*w.acquires, acquireFact{w.owner.name, w.meth.name, lock, op == "Lock", h.clone(), w.pos(x)})
				}
				h = h.clone()
				h[lock] = op == "Lock"
			default:
				h = h.clone()
				delete(h, lock)
			}
			return h, false
		}
		w.expr(x.X, h, false, async)
		if c, ok := x.X.(*ast.CallExpr); ok {
			if id, ok := c.Fun.(*ast.Ident); ok && id.Name == "panic" {
				return h, true
			}
		}
		return h, false
	case *ast.DeferStmt:
		if _, _, ok := w.lockCall(x.Call); ok {
			return h, false // released (or re-acquired) at function exit: the lock state of the remaining body is unchanged
		}
		if fl, ok := x.Call.Fun.(*ast.FuncLit); ok {
			// deferred closure: runs at exit; conservatively analysed with the locks held now
			w.block(fl.Body.List, h.clone(), async)
			for _, a := range x.Call.Args {
				w.expr(a, h, false, async)
			}
			return h, false
		}
		w.expr(x.Call, h, false, async)
		return h, false
	case *ast.GoStmt:
		for _, a := range x.Call.Args {
			w.expr(a, h, false, async)
		}
		if fl, ok := x.Call.Fun.(*ast.FuncLit); ok {
			w.block(fl.Body.List, held{}, true)
		} else {
			// go recv.m(...): the callee runs without our locks
			w.callExpr(x.Call, held{}, true)
		}
		return h, false
	case *ast.AssignStmt:
		for _, r := range x.Rhs {
			w.expr(r, h, false, async)
		}
		for _, l := range x.Lhs {
			w.expr(l, h, true, async)
		}
		if len(x.Lhs) == 2 && len(x.Rhs) == 1 { // v, ok := recv.m[k]
			if id, ok := x.Lhs[0].(*ast.Ident); ok {
				obj := w.pkg.TypesInfo.Defs[id]
				if obj == nil {
					obj = w.pkg.TypesInfo.Uses[id]
				}
				if obj != nil {
					if f := w.sliceBase(x.Rhs[0]); f != "" {
						w.aliases[obj] = f
					} else {
						delete(w.aliases, obj)
					}
				}
			}
		}
		if len(x.Lhs) == len(x.Rhs) {
			for i, r := range x.Rhs {
				id, ok := x.Lhs[i].(*ast.Ident)
				if !ok {
					continue
				}
				obj := w.pkg.TypesInfo.Defs[id]
				if obj == nil {
					obj = w.pkg.TypesInfo.Uses[id]
				}
				if obj == nil {
					continue
				}
				if f := w.sliceBase(r); f != "" {
					w.aliases[obj] = f // x := recv.f  /  x := recv.m[k]  /  x := otherAlias
				} else {
					delete(w.aliases, obj)
				}
			}
		}
		// element pointers taken out of a container field, and writes through them
		w.elemAssign(x.Lhs, x.Rhs)
		for _, l := range x.Lhs {
			w.elemWriteThrough(l)
		}
		for _, l := range x.Lhs {
			// S[i] = v overwrites an element of S's backing array
			if ix, ok := l.(*ast.IndexExpr); ok {
				if tv, ok := w.pkg.TypesInfo.Types[ix.X]; ok && tv.Type != nil {
					if _, isSlice := tv.Type.Underlying().(*types.Slice); isSlice {
						if f := w.sliceBase(ix.X); f != "" {
							w.sliceNote(w.inplace, f, l)
						}
					}
				}
			}
		}
		return h, false
	case *ast.IncDecStmt:
		w.expr(x.X, h, true, async)
		w.elemWriteThrough(x.X)
		return h, false
	case *ast.SendStmt:
		w.expr(x.Chan, h, false, async)
		w.expr(x.Value, h, false, async)
		return h, false
	case *ast.DeclStmt:
		if gd, ok := x.Decl.(*ast.GenDecl); ok {
			for _, sp := range gd.Specs {
				if vs, ok := sp.(*ast.ValueSpec); ok {
					for _, v := range vs.Values {
						w.expr(v, h, false, async)
					}
				}
			}
		}
		return h, false
	case *ast.ReturnStmt:
		for _, r := range x.Results {
			w.expr(r, h, false, async)
			// an exported method that returns the slice held in a field (or a local alias of it) hands the
			// backing array to its caller: it has left the critical section (added after seeded change c20b)
			if w.meth != nil && ast.IsExported(w.meth.name) && !async {
				if f := w.sliceBase(r); f != "" {
					w.sliceNote(w.snaps, f, r)
				}
			}
		}
		return h, true
	case *ast.BranchStmt:
		return h, x.Tok == token.GOTO // break/continue: stay conservative, treat as fallthrough of the enclosing loop
	case *ast.BlockStmt:
		return w.block(x.List, h, async)
	case *ast.LabeledStmt:
		return w.stmt(x.Stmt, h, async)
	case *ast.IfStmt:
		h, _ = w.stmt(x.Init, h, async)
		w.expr(x.Cond, h, false, async)
		h1, t1 := w.block(x.Body.List, h.clone(), async)
		h2, t2 := h, false
		if x.Else != nil {
			h2, t2 = w.stmt(x.Else, h.clone(), async)
		}
		switch {
		case t1 && t2:
			return h, true
		case t1:
			return h2, false
		case t2:
			return h1, false
		}
		return intersect(h1, h2), false
	case *ast.ForStmt:
		h, _ = w.stmt(x.Init, h, async)
		if x.Cond != nil {
			w.expr(x.Cond, h, false, async)
		}
		hb, _ := w.block(x.Body.List, h.clone(), async)
		w.stmt(x.Post, hb, async)
		return intersect(h, hb), false
	case *ast.RangeStmt:
		w.expr(x.X, h, false, async)
		if f := w.containerOf(x.X); f != "" {
			for _, kv := range []ast.Expr{x.Key, x.Value} {
				if id, ok := kv.(*ast.Ident); ok && id.Name != "_" {
					obj := w.pkg.TypesInfo.Defs[id]
					if obj == nil {
						obj = w.pkg.TypesInfo.Uses[id]
					}
					if obj != nil && ptrStruct(obj.Type()) != "" {
						w.elemOf[obj] = f
					}
				}
			}
		}
		hb, _ := w.block(x.Body.List, h.clone(), async)
		return intersect(h, hb), false
	case *ast.SwitchStmt:
		h, _ = w.stmt(x.Init, h, async)
		if x.Tag != nil {
			w.expr(x.Tag, h, false, async)
		}
		return w.clauses(x.Body.List, h, async, false)
	case *ast.TypeSwitchStmt:
		h, _ = w.stmt(x.Init, h, async)
		h, _ = w.stmt(x.Assign, h, async)
		return w.clauses(x.Body.List, h, async, false)
	case *ast.SelectStmt:
		return w.clauses(x.Body.List, h, async, true)
	}
	return h, false
}

func (w *walker) clauses(list []ast.Stmt, h held, async bool, isSelect bool) (held, bool) {
	var res held
	hasDefault := false
	allTerm := true
	for _, c := range list {
		var body []ast.Stmt
		switch cc := c.(type) {
		case *ast.CaseClause:
			for _, e := range cc.List {
				w.expr(e, h, false, async)
			}
			if cc.List == nil {
				hasDefault = true
			}
			body = cc.Body
		case *ast.CommClause:
			if cc.Comm == nil {
				hasDefault = true
			} else {
				w.stmt(cc.Comm, h, async)
			}
			body = cc.Body
		}
		hb, t := w.block(body, h.clone(), async)
		if !t {
			allTerm = false
			if res == nil {
				res = hb
			} else {
				res = intersect(res, hb)
			}
		}
	}
	if isSelect {
		hasDefault = true // a select always takes one of its clauses
	}
	if !hasDefault {
		allTerm = false
		if res == nil {
			res = h
		} else {
			res = intersect(res, h)
		}
	}
	if allTerm && len(list) > 0 {
		return h, true
	}
	if res == nil {
		res = h
	}
	return res, false
}

// expr records field accesses (through the receiver) and calls.
func (w *walker) expr(e ast.Expr, h held, write bool, async bool) {
	switch x := e.(type) {
	case nil:
	case *ast.Ident:
		if f, ok := w.aliases[w.pkg.TypesInfo.Uses[x]]; ok && (async || len(h) == 0) {
			w.sliceNote(w.snaps, f, x)
		}
	case *ast.SelectorExpr:
		if id, ok := x.X.(*ast.Ident); ok && w.recv != nil && w.pkg.TypesInfo.Uses[id] == w.recv {
			if sel, ok := w.pkg.TypesInfo.Selections[x]; ok && sel.Kind() == types.FieldVal {
				w.access(x.Sel.Name, write, h, x, async)
				return
			}
		}
		w.expr(x.X, h, false, async)
	case *ast.IndexExpr:
		// recv.m[k] = v  writes the container held in the field
		w.expr(x.X, h, write, async)
		w.expr(x.Index, h, false, async)
	case *ast.SliceExpr:
		w.expr(x.X, h, write, async)
		w.expr(x.Low, h, false, async)
		w.expr(x.High, h, false, async)
		w.expr(x.Max, h, false, async)
	case *ast.StarExpr:
		w.expr(x.X, h, write, async)
	case *ast.ParenExpr:
		w.expr(x.X, h, write, async)
	case *ast.UnaryExpr:
		w.expr(x.X, h, x.Op == token.AND, async) // &recv.f escapes: count as a write
	case *ast.BinaryExpr:
		w.expr(x.X, h, false, async)
		w.expr(x.Y, h, false, async)
	case *ast.KeyValueExpr:
		w.expr(x.Key, h, false, async)
		w.expr(x.Value, h, false, async)
	case *ast.CompositeLit:
		for _, el := range x.Elts {
			w.expr(el, h, false, async)
		}
	case *ast.TypeAssertExpr:
		w.expr(x.X, h, false, async)
	case *ast.FuncLit:
		// a closure that is not called on the spot: stored or registered → runs later, elsewhere
		w.block(x.Body.List, held{}, true)
	case *ast.CallExpr:
		w.callExpr(x, h, async)
	}
}

var syncCallbackTakers = map[string]bool{"Range": true, "Ascend": true, "AscendGreaterOrEqual": true, "AscendLessThan": true, "AscendRange": true,
	"Descend": true, "DescendLessOrEqual": true, "DescendGreaterThan": true, "DescendRange": true, "Map": true, "Filter": true, "ForEach": true,
	"Slice": true, "SliceStable": true, "SortFunc": true, "Do": true, "Uniq": true, "UniqBy": true, "ContainsBy": true, "Reduce": true, "FilterMap": true}

func (w *walker) callExpr(c *ast.CallExpr, h held, async bool) {
	// builtins that write their first argument
	if id, ok := c.Fun.(*ast.Ident); ok {
		switch id.Name {
		case "append":
			// append(S[:i], …) with a two-index slice writes into S's backing array
			if len(c.Args) > 1 {
				if sl, ok := c.Args[0].(*ast.SliceExpr); ok && !sl.Slice3 && sl.High != nil {
					if f := w.sliceBase(sl.X); f != "" {
						w.sliceNote(w.inplace, f, c)
					}
				}
			}
		case "delete", "clear":
			if len(c.Args) > 0 {
				w.expr(c.Args[0], h, true, async)
			}
			for _, a := range c.Args[1:] {
				w.expr(a, h, false, async)
			}
			return
		case "close":
			for _, a := range c.Args {
				w.expr(a, h, false, async)
			}
			return
		}
	}
	// immediately invoked closure
	if fl, ok := c.Fun.(*ast.FuncLit); ok {
		w.block(fl.Body.List, h.clone(), async)
		for _, a := range c.Args {
			w.expr(a, h, false, async)
		}
		return
	}
	calleeName := ""
	if sel, ok := c.Fun.(*ast.SelectorExpr); ok {
		calleeName = sel.Sel.Name
	} else if id, ok := c.Fun.(*ast.Ident); ok {
		calleeName = id.Name
	}
	passesFn := false
	for _, a := range c.Args {
		if fl, ok := a.(*ast.FuncLit); ok {
			passesFn = true
			if syncCallbackTakers[calleeName] {
				w.block(fl.Body.List, h.clone(), async) // runs synchronously under our locks
			} else {
				w.block(fl.Body.List, held{}, true)
			}
			continue
		}
		if tv, ok := w.pkg.TypesInfo.Types[a]; ok && tv.Type != nil {
			if _, isSig := tv.Type.Underlying().(*types.Signature); isSig {
				passesFn = true
			} else if n := namedOf(tv.Type); n != nil && strings.Contains(n.Obj().Name(), "Hook") {
				passesFn = true
			}
		}
		// conversions such as ExitFunc(func…){…}) wrap a literal
		if cc, ok := a.(*ast.CallExpr); ok && len(cc.Args) == 1 {
			if fl, ok := cc.Args[0].(*ast.FuncLit); ok {
				passesFn = true
				w.block(fl.Body.List, held{}, true)
				continue
			}
		}
		w.expr(a, h, false, async)
	}
	// a method of a sync object held in a field of the receiver: recv.f.Wait(), recv.f.Add(1), …
	if f, ok := c.Fun.(*ast.SelectorExpr); ok {
		if fs, ok := f.X.(*ast.SelectorExpr); ok {
			if id, ok := fs.X.(*ast.Ident); ok && w.recv != nil && w.pkg.TypesInfo.Uses[id] == w.recv {
				if sel, ok := w.pkg.TypesInfo.Selections[fs]; ok && sel.Kind() == types.FieldVal && fieldKind(sel.Type()) == "sync" {
					if w.recording {
						kind := "sync"
						if n := namedOf(sel.Type()); n != nil && n.Obj().Pkg() != nil {
							kind = n.Obj().Pkg().Name() + "." + n.Obj().Name()
						}
						*w.syncOps = append(*w.syncOps, syncOp{w.owner.name, w.meth.name, fs.Sel.Name, kind, f.Sel.Name, h.clone(), w.pos(c)})
					}
				}
			}
		}
	}
	// classify the callee
	switch f := c.Fun.(type) {
	case *ast.SelectorExpr:
		// method call on the receiver itself → internal call
		if id, ok := f.X.(*ast.Ident); ok && w.recv != nil && w.pkg.TypesInfo.Uses[id] == w.recv {
			if sel, ok := w.pkg.TypesInfo.Selections[f]; ok && sel.Kind() == types.MethodVal {
				w.meth.calls = append(w.meth.calls, internalCall{f.Sel.Name, h.clone(), async})
				w.recordCall(c, h, w.owner.name+"."+f.Sel.Name, false, passesFn)
				return
			}
		}
		if sel, ok := w.pkg.TypesInfo.Selections[f]; ok && sel.Kind() == types.MethodVal {
			recvT := sel.Recv()
			if _, isIface := recvT.Underlying().(*types.Interface); isIface {
				w.expr(f.X, h, false, async)
				in := "iface"
				if n := namedOf(recvT); n != nil && n.Obj().Pkg() != nil {
					in = n.Obj().Pkg().Name() + "." + n.Obj().Name()
				} else if tp, ok := recvT.(*types.TypeParam); ok {
					in = "typeparam." + tp.Obj().Name()
				}
				w.recordCall(c, h, "dyn:"+in+"."+f.Sel.Name, true, passesFn)
				w.publishArgs(c, "dyn:"+in+"."+f.Sel.Name)
				return
			}
			if n := namedOf(recvT); n != nil && n.Obj().Pkg() != nil {
				q := qual(n)
				w.expr(f.X, h, false, async)
				if _, modelled := w.structs[q]; modelled {
					w.recordCall(c, h, q+"."+f.Sel.Name, false, passesFn)
				} else if strings.HasPrefix(n.Obj().Pkg().Path(), "github.com/siyul-park/uniflow") {
					// a method of a non-modelled uniflow type (hook lists etc.): may run user code
					w.recordCall(c, h, q+"."+f.Sel.Name, strings.Contains(n.Obj().Name(), "Hook") || strings.Contains(n.Obj().Name(), "Listener"), passesFn)
					w.publishArgs(c, q+"."+f.Sel.Name)
				}
				return
			}
		}
		w.expr(f.X, h, false, async)
	case *ast.Ident:
		if obj := w.pkg.TypesInfo.Uses[f]; obj != nil {
			if v, ok := obj.(*types.Var); ok {
				if _, isSig := v.Type().Underlying().(*types.Signature); isSig {
					w.recordCall(c, h, "dyn:func."+f.Name, true, passesFn)
					w.publishArgs(c, "dyn:func."+f.Name)
				}
			}
		}
	default:
		w.expr(c.Fun, h, false, async)
	}
}

// sliceBase returns the field whose backing array the slice expression e denotes: recv.f with a
// slice type, recv.m[k] with m a map of slices, or a local alias of one of these ("" otherwise).
func (w *walker) sliceBase(e ast.Expr) string {
	for {
		p, ok := e.(*ast.ParenExpr)
		if !ok {
			break
		}
		e = p.X
	}
	recvField := func(x ast.Expr) (string, types.Type) {
		sel, ok := x.(*ast.SelectorExpr)
		if !ok {
			return "", nil
		}
		id, ok := sel.X.(*ast.Ident)
		if !ok || w.recv == nil || w.pkg.TypesInfo.Uses[id] != w.recv {
			return "", nil
		}
		s, ok := w.pkg.TypesInfo.Selections[sel]
		if !ok || s.Kind() != types.FieldVal {
			return "", nil
		}
		return sel.Sel.Name, s.Type()
	}
	switch x := e.(type) {
	case *ast.Ident:
		return w.aliases[w.pkg.TypesInfo.Uses[x]]
	case *ast.SelectorExpr:
		if f, t := recvField(x); f != "" {
			if _, ok := t.Underlying().(*types.Slice); ok {
				return f
			}
		}
	case *ast.IndexExpr:
		if f, t := recvField(x.X); f != "" {
			if m, ok := t.Underlying().(*types.Map); ok {
				if _, ok := m.Elem().Underlying().(*types.Slice); ok {
					return f
				}
			}
		}
	}
	return ""
}

// ptrStruct returns the qualified name of U when t is *U with U a named struct type ("" otherwise).
func ptrStruct(t types.Type) string {
	p, ok := types.Unalias(t).(*types.Pointer)
	if !ok {
		return ""
	}
	n, ok := types.Unalias(p.Elem()).(*types.Named)
	if !ok || n.Obj().Pkg() == nil {
		return ""
	}
	if _, ok := n.Underlying().(*types.Struct); !ok {
		return ""
	}
	return qual(n.Origin())
}

// ptrStructsIn lists the *U element types reachable through slices, arrays and maps of t.
func ptrStructsIn(t types.Type, depth int) []string {
	if depth > 4 {
		return nil
	}
	if u := ptrStruct(t); u != "" {
		return []string{u}
	}
	switch x := types.Unalias(t).Underlying().(type) {
	case *types.Slice:
		return ptrStructsIn(x.Elem(), depth+1)
	case *types.Array:
		return ptrStructsIn(x.Elem(), depth+1)
	case *types.Map:
		return append(ptrStructsIn(x.Key(), depth+1), ptrStructsIn(x.Elem(), depth+1)...)
	case *types.Chan:
		return ptrStructsIn(x.Elem(), depth+1)
	}
	return nil
}

// recvFieldOf returns the field name when e is recv.f (any type).
func (w *walker) recvFieldOf(e ast.Expr) string {
	sel, ok := e.(*ast.SelectorExpr)
	if !ok {
		return ""
	}
	id, ok := sel.X.(*ast.Ident)
	if !ok || w.recv == nil || w.pkg.TypesInfo.Uses[id] != w.recv {
		return ""
	}
	if s, ok := w.pkg.TypesInfo.Selections[sel]; !ok || s.Kind() != types.FieldVal {
		return ""
	}
	return sel.Sel.Name
}

// containerOf returns the container field an expression denotes (or is part of): recv.f,
// recv.f[k] (map of slices / slice of slices), a local slice alias of a field.
func (w *walker) containerOf(e ast.Expr) string {
	for {
		p, ok := e.(*ast.ParenExpr)
		if !ok {
			break
		}
		e = p.X
	}
	if f := w.recvFieldOf(e); f != "" {
		if tv, ok := w.pkg.TypesInfo.Types[e]; ok && tv.Type != nil {
			switch tv.Type.Underlying().(type) {
			case *types.Slice, *types.Map, *types.Array:
				return f
			}
		}
		return ""
	}
	if f := w.sliceBase(e); f != "" {
		return f
	}
	if ix, ok := e.(*ast.IndexExpr); ok {
		return w.containerOf(ix.X)
	}
	if sl, ok := e.(*ast.SliceExpr); ok {
		return w.containerOf(sl.X)
	}
	return ""
}

// elemSource returns the container field when e is an element taken out of a container field
// (recv.f[k], recv.f[k][i], alias[i]) or a local that already holds such an element.
func (w *walker) elemSource(e ast.Expr) string {
	for {
		p, ok := e.(*ast.ParenExpr)
		if !ok {
			break
		}
		e = p.X
	}
	switch x := e.(type) {
	case *ast.Ident:
		return w.elemOf[w.pkg.TypesInfo.Uses[x]]
	case *ast.IndexExpr:
		return w.containerOf(x.X)
	}
	return ""
}

func (w *walker) elemAssign(lhs, rhs []ast.Expr) {
	set := func(l, r ast.Expr) {
		id, ok := l.(*ast.Ident)
		if !ok || id.Name == "_" {
			return
		}
		obj := w.pkg.TypesInfo.Defs[id]
		if obj == nil {
			obj = w.pkg.TypesInfo.Uses[id]
		}
		if obj == nil {
			return
		}
		if f := w.elemSource(r); f != "" && ptrStruct(obj.Type()) != "" {
			w.elemOf[obj] = f
		} else {
			delete(w.elemOf, obj)
		}
	}
	if len(lhs) == 2 && len(rhs) == 1 {
		set(lhs[0], rhs[0])
		return
	}
	if len(lhs) == len(rhs) {
		for i := range lhs {
			set(lhs[i], rhs[i])
		}
	}
}

// elemWriteThrough records l when it assigns a field of (or the whole of) a struct reached through
// a pointer that was taken out of a container field: x.F = v, x.F.G = v, *x = v, recv.f[k].F = v.
func (w *walker) elemWriteThrough(l ast.Expr) {
	if !w.recording {
		return
	}
	written := ""
	base := l
	switch x := l.(type) {
	case *ast.StarExpr:
		base, written = x.X, "*"
	case *ast.SelectorExpr:
		// walk down to the innermost selector whose operand is a pointer
		cur := x
		for {
			if tv, ok := w.pkg.TypesInfo.Types[cur.X]; ok && tv.Type != nil && ptrStruct(tv.Type) != "" {
				base, written = cur.X, cur.Sel.Name
				break
			}
			next, ok := cur.X.(*ast.SelectorExpr)
			if !ok {
				return
			}
			cur = next
		}
	default:
		return
	}
	f := w.elemSource(base)
	if f == "" {
		return
	}
	tv, ok := w.pkg.TypesInfo.Types[base]
	if !ok || tv.Type == nil {
		return
	}
	u := ptrStruct(tv.Type)
	if u == "" {
		return
	}
	*w.elemWrites = append(*w.elemWrites, elemWrite{w.owner.name, w.meth.name, f, u, written, w.pos(l)})
}

// publishArgs: pointers to structs passed to code outside the modelled objects (hooks, watchers,
// listeners, func values) have left the object.
func (w *walker) publishArgs(c *ast.CallExpr, callee string) {
	if !w.recording {
		return
	}
	for _, a := range c.Args {
		if tv, ok := w.pkg.TypesInfo.Types[a]; ok && tv.Type != nil {
			for _, u := range ptrStructsIn(tv.Type, 0) {
				*w.published = append(*w.published, publishedElem{w.owner.name, u, "passed to " + callee})
			}
		}
	}
}

// publishResults: pointers to structs returned by an exported method have left the object.
func (w *walker) publishResults() {
	if !w.recording || w.meth == nil || !ast.IsExported(w.meth.name) || w.meth.decl.Type.Results == nil {
		return
	}
	for _, r := range w.meth.decl.Type.Results.List {
		if tv, ok := w.pkg.TypesInfo.Types[r.Type]; ok && tv.Type != nil {
			for _, u := range ptrStructsIn(tv.Type, 0) {
				*w.published = append(*w.published, publishedElem{w.owner.name, u, "returned by " + w.meth.name})
			}
		}
	}
}

func (w *walker) sliceNote(to *[]sliceFact, field string, n ast.Node) {
	if !w.recording || to == nil {
		return
	}
	*to = append(*to, sliceFact{w.owner.name, w.meth.name, field, w.pos(n)})
}

func exprStr(e ast.Expr) string {
	switch x := e.(type) {
	case *ast.Ident:
		return x.Name
	case *ast.SelectorExpr:
		return exprStr(x.X) + "." + x.Sel.Name
	case *ast.CallExpr:
		return exprStr(x.Fun) + "()"
	case *ast.IndexExpr:
		return exprStr(x.X) + "[]"
	}
	return "?"
}

func (w *walker) recordCall(c *ast.CallExpr, h held, callee string, dynamic, passesFn bool) {
	if !w.recording {
		return
	}
	via := "?"
	if sel, ok := c.Fun.(*ast.SelectorExpr); ok {
		via = exprStr(sel.X)
		if id, ok := sel.X.(*ast.Ident); ok && w.recv != nil && w.pkg.TypesInfo.Uses[id] == w.recv {
			via = "recv"
		} else if w.recv != nil {
			// normalise the receiver's own name to "recv"
			if strings.HasPrefix(via, w.recv.Name()+".") {
				via = "recv." + strings.TrimPrefix(via, w.recv.Name()+".")
			}
		}
	}
	*w.calls = append(*w.calls, callFact{w.owner.name, w.meth.name, h.clone(), callee, dynamic, passesFn, via, w.pos(c)})
}

func (w *walker) access(field string, write bool, h held, n ast.Node, async bool) {
	if !w.recording {
		return
	}
	*w.accesses = append(*w.accesses, access{w.owner.name, w.meth.name, field, write, h.clone(), w.pos(n), async})
}

type allCallsT struct {
	static  map[string][]string
	dynamic map[string]bool
}

// collectAllStaticCalls gathers, for every method of a modelled type, the methods of modelled
// types it calls anywhere in its body (locks held or not) and whether it contains a dynamic call.
func collectAllStaticCalls(methods []*methodInfo, structs map[string]*structInfo) allCallsT {
	res := allCallsT{static: map[string][]string{}, dynamic: map[string]bool{}}
	for _, m := range methods {
		key := m.owner.name + "." + m.name
		info := m.owner.pkg.TypesInfo
		ast.Inspect(m.decl.Body, func(n ast.Node) bool {
			c, ok := n.(*ast.CallExpr)
			if !ok {
				return true
			}
			switch f := c.Fun.(type) {
			case *ast.SelectorExpr:
				if sel, ok := info.Selections[f]; ok && sel.Kind() == types.MethodVal {
					if _, isIface := sel.Recv().Underlying().(*types.Interface); isIface {
						res.dynamic[key] = true
					} else if nn := namedOf(sel.Recv()); nn != nil && nn.Obj().Pkg() != nil {
						q := qual(nn)
						if _, ok := structs[q]; ok {
							res.static[key] = append(res.static[key], q+"."+f.Sel.Name)
						} else if strings.Contains(nn.Obj().Name(), "Hook") || strings.Contains(nn.Obj().Name(), "Listener") {
							res.dynamic[key] = true
						}
					}
				}
			case *ast.Ident:
				if v, ok := info.Uses[f].(*types.Var); ok {
					if _, isSig := v.Type().Underlying().(*types.Signature); isSig {
						res.dynamic[key] = true
					}
				}
			}
			return true
		})
	}
	return res
}

// ---------------------------------------------------------------------------- kinds

func genKinds(repo, out string, ps []*packages.Package) {
	for _, p := range ps {
		if p.Name != "types" {
			continue
		}
		type kv struct {
			name string
			val  string
		}
		var ks []kv
		sc := p.Types.Scope()
		for _, n := range sc.Names() {
			c, ok := sc.Lookup(n).(*types.Const)
			if !ok || !strings.HasPrefix(n, "Kind") {
				continue
			}
			if nn, ok := c.Type().(*types.Named); !ok || nn.Obj().Name() != "Kind" {
				continue
			}
			ks = append(ks, kv{n, c.Val().ExactString()})
		}
		sort.Slice(ks, func(i, j int) bool {
			if len(ks[i].val) != len(ks[j].val) {
				return len(ks[i].val) < len(ks[j].val)
			}
			return ks[i].val < ks[j].val
		})
		var b strings.Builder
		b.WriteString("/-\nGENERATED by /verif/extract from /repo/pkg/types (the `Kind` constants of value.go). Do not edit:\n")
		b.WriteString("regenerated on every build. Every `Compare` method falls back to `compare(x.Kind(), KindOf(other))`\n")
		b.WriteString("when the other value is of another kind, so these numbers *are* the cross-kind order.\n")
		b.WriteString("`Uniflow.Value.Val.rank` reads them from here; `distinct` is re-proved on every build.\n-/\n")
		b.WriteString("namespace Uniflow.Generated.Kinds\n\n")
		lname := func(n string) string {
			n = strings.TrimPrefix(n, "Kind")
			return strings.ToLower(n)
		}
		for _, k := range ks {
			fmt.Fprintf(&b, "@[simp] def %s : Nat := %s\n", lname(k.name), k.val)
		}
		b.WriteString("\n/-- The table in source order (name of the Go constant, its value). -/\ndef table : List (String × Nat) :=\n  [ ")
		for i, k := range ks {
			if i > 0 {
				b.WriteString(",\n    ")
			}
			fmt.Fprintf(&b, "(%q, %s)", k.name, lname(k.name))
		}
		b.WriteString(" ]\n\n/-- Kind numbers are pairwise distinct and `KindUnknown` (the kind of the nil value) is the least. -/\n")
		fmt.Fprintf(&b, "theorem distinct : (table.map Prod.snd).Nodup ∧ table.length = %d ∧ ∀ p ∈ table, unknown ≤ p.2 := by\n  decide\n\nend Uniflow.Generated.Kinds\n", len(ks))
		_ = os.WriteFile(filepath.Join(out, "Kinds.lean"), []byte(b.String()), 0o644)
		fmt.Printf("Kinds.lean: %d kinds\n", len(ks))
	}
}

// ---------------------------------------------------------------------------- decoder guards

// genDecoders records, for every `encoding.DecodeFunc(func(source Value, target unsafe.Pointer) error {…})`
// literal of pkg/types, the shape that makes its "unsupported type" verdict a function of the
// source's dynamic type alone: the body is `if s, ok := source.(K); ok { … } return …ErrUnsupportedType`
// (or a type switch), and ErrUnsupportedType is not mentioned inside the guarded branch.
func genDecoders(repo, out string, ps []*packages.Package) {
	type fact struct {
		fn, pos, guard    string
		unsupportedInside bool
		delegates         bool
		tailUnsupported   bool
	}
	var facts []fact
	for _, p := range ps {
		if p.Name != "types" {
			continue
		}
		for _, f := range p.Syntax {
			fname := p.Fset.Position(f.Pos()).Filename
			if strings.HasSuffix(fname, "_test.go") || strings.Contains(filepath.Base(fname), "verif_") {
				continue
			}
			for _, d := range f.Decls {
				fd, ok := d.(*ast.FuncDecl)
				if !ok || fd.Body == nil || !strings.HasSuffix(fd.Name.Name, "Decoder") && !strings.Contains(fd.Name.Name, "DecoderWith") {
					continue
				}
				ast.Inspect(fd.Body, func(n ast.Node) bool {
					c, ok := n.(*ast.CallExpr)
					if !ok || len(c.Args) != 1 {
						return true
					}
					sel, ok := c.Fun.(*ast.SelectorExpr)
					if !ok || sel.Sel.Name != "DecodeFunc" {
						return true
					}
					fl, ok := c.Args[0].(*ast.FuncLit)
					if !ok || len(fl.Type.Params.List) == 0 || len(fl.Type.Params.List[0].Names) == 0 {
						return true
					}
					src := fl.Type.Params.List[0].Names[0].Name
					pos := p.Fset.Position(fl.Pos())
					ft := fact{fn: fd.Name.Name, pos: fmt.Sprintf("%s:%d", filepath.Base(pos.Filename), pos.Line), guard: "none"}
					mentions := func(n ast.Node, name string) bool {
						found := false
						ast.Inspect(n, func(m ast.Node) bool {
							if id, ok := m.(*ast.Ident); ok && id.Name == name {
								found = true
							}
							return !found
						})
						return found
					}
					callsDecode := func(n ast.Node) bool {
						found := false
						ast.Inspect(n, func(m ast.Node) bool {
							if ce, ok := m.(*ast.CallExpr); ok {
								if se, ok := ce.Fun.(*ast.SelectorExpr); ok && (se.Sel.Name == "Decode" || se.Sel.Name == "Compile" || se.Sel.Name == "Unmarshal") {
									found = true
								}
							}
							return !found
						})
						return found
					}
					stmts := fl.Body.List
					if len(stmts) >= 1 {
						switch st := stmts[0].(type) {
						case *ast.IfStmt:
							if as, ok := st.Init.(*ast.AssignStmt); ok && len(as.Rhs) == 1 {
								if ta, ok := as.Rhs[0].(*ast.TypeAssertExpr); ok {
									if id, ok := ta.X.(*ast.Ident); ok && id.Name == src && st.Else == nil {
										ft.guard = "assert:" + exprStr(ta.Type)
										ft.unsupportedInside = mentions(st.Body, "ErrUnsupportedType")
										ft.delegates = callsDecode(st.Body)
									}
								}
							}
						case *ast.TypeSwitchStmt:
							ft.guard = "switch"
							ft.unsupportedInside = false
							for _, cl := range st.Body.List {
								cc := cl.(*ast.CaseClause)
								if cc.List != nil && mentions(cc, "ErrUnsupportedType") {
									ft.unsupportedInside = true
								}
							}
							ft.delegates = callsDecode(st.Body)
						}
					}
					if len(stmts) >= 1 {
						if rs, ok := stmts[len(stmts)-1].(*ast.ReturnStmt); ok {
							ft.tailUnsupported = mentions(rs, "ErrUnsupportedType")
						}
					}
					if ft.guard == "none" {
						ft.delegates = callsDecode(fl.Body)
						ft.unsupportedInside = mentions(fl.Body, "ErrUnsupportedType")
					}
					facts = append(facts, ft)
					return true
				})
			}
		}
	}
	sort.Slice(facts, func(i, j int) bool { return facts[i].pos < facts[j].pos })
	var b strings.Builder
	b.WriteString("/-\nGENERATED by /verif/extract from pkg/types: the shape of every leaf decoder\n(`encoding.DecodeFunc(func(source Value, target unsafe.Pointer) error {…})`). Do not edit.\n-/\n")
	b.WriteString("namespace Uniflow.Generated.Decoders\n\nstructure DecoderShape where\n  fn : String                 -- enclosing constructor (newStringDecoder …)\n  pos : String\n  guard : String              -- assert:<source kind> | switch | none\n  unsupportedInside : Bool    -- ErrUnsupportedType mentioned inside the guarded branch\n  delegates : Bool            -- calls another decoder (Decode / Compile / Unmarshal) inside\n  tailUnsupported : Bool      -- falls through to `return …ErrUnsupportedType`\n  deriving Repr, DecidableEq\n\ndef shapes : List DecoderShape := [\n")
	for i, ft := range facts {
		if i > 0 {
			b.WriteString(",\n")
		}
		fmt.Fprintf(&b, "  ⟨%q, %q, %q, %v, %v, %v⟩", ft.fn, ft.pos, ft.guard, ft.unsupportedInside, ft.delegates, ft.tailUnsupported)
	}
	b.WriteString("\n]\n\nend Uniflow.Generated.Decoders\n")
	_ = os.WriteFile(filepath.Join(out, "Decoders.lean"), []byte(b.String()), 0o644)
	fmt.Printf("Decoders.lean: %d decoder shapes\n", len(facts))
}

// ---------------------------------------------------------------------------- lifecycle order

// genLifecycle records the order of the lifecycle calls inside (*Table).load and (*Table).unload
// and the direction in which each walks the `linked` list.
func genLifecycle(repo, out string, ps []*packages.Package) {
	var b strings.Builder
	b.WriteString("/-\nGENERATED by /verif/extract from pkg/symbol/table.go: the call order inside (*Table).load / unload.\nDo not edit.\n-/\nnamespace Uniflow.Generated.Lifecycle\n\n")
	n := 0
	for _, p := range ps {
		if p.Name != "symbol" {
			continue
		}
		for _, f := range p.Syntax {
			for _, d := range f.Decls {
				fd, ok := d.(*ast.FuncDecl)
				if !ok || fd.Recv == nil || fd.Body == nil || (fd.Name.Name != "load" && fd.Name.Name != "unload") {
					continue
				}
				dir := "none"
				var calls []string
				ast.Inspect(fd.Body, func(nd ast.Node) bool {
					switch x := nd.(type) {
					case *ast.RangeStmt:
						if dir == "none" {
							dir = "forward"
						}
					case *ast.ForStmt:
						if dir == "none" {
							dir = "forward"
							if inc, ok := x.Post.(*ast.IncDecStmt); ok && inc.Tok == token.DEC {
								dir = "reverse"
							}
						}
					case *ast.CallExpr:
						if sel, ok := x.Fun.(*ast.SelectorExpr); ok {
							switch sel.Sel.Name {
							case "exec":
								if len(x.Args) == 2 {
									calls = append(calls, "exec:"+exprStr(x.Args[1]))
								}
							case "Load", "Unload":
								calls = append(calls, "hooks:"+exprStr(sel.X)+"."+sel.Sel.Name)
							case "linked", "isActivated":
								calls = append(calls, sel.Sel.Name)
							}
						}
					}
					return true
				})
				fmt.Fprintf(&b, "def %sDirection : String := %q\ndef %sCalls : List String := %s\n\n", fd.Name.Name, dir, fd.Name.Name, leanList2(calls))
				n++
			}
		}
	}
	b.WriteString("end Uniflow.Generated.Lifecycle\n")
	_ = os.WriteFile(filepath.Join(out, "Lifecycle.lean"), []byte(b.String()), 0o644)
	fmt.Printf("Lifecycle.lean: %d functions\n", n)
}

func leanList2(xs []string) string {
	q := make([]string, len(xs))
	for i, x := range xs {
		q[i] = fmt.Sprintf("%q", x)
	}
	return "[" + strings.Join(q, ", ") + "]"
}
