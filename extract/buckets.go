package main

// Generated/MapBuckets.lean: how pkg/types/map.go writes the buckets of its maps.
//
// A map value is `value map[uint64][][2]Value`: one sorted slice of pairs ("bucket") per hash.
// Immutable maps are copy-on-write per bucket: `immutableMap.mutable()` copies only the outer Go
// map, so a derived map's buckets SHARE their backing arrays with the map it was derived from –
// which other goroutines read without any lock. The lock tables cannot see this alias (it is
// structural, not a local variable that leaves a critical section). What can be read off the
// source, for every method of a struct of map.go that has a map-of-slices field f:
//
//   - bucketAssigns:  every `recv.f[k] = <expr>` with the class of <expr>:
//     "fresh" (a local that is only ever assigned `make(…)`/a composite literal, a direct
//     `make(…)`, or `append(x[:i:i], …)` whose full-slice expression forces a new array), or
//     "call:<callee>" / "alias" / "other";
//   - bucketInPlace:  every write INTO a bucket – `b[i] = v`, `b[i][j] = v`, `copy(b…, …)`,
//     `append(b, …)`/`append(b[:i], …)` without a full-slice expression, and the mutating
//     functions of package slices (Insert, Delete, Replace, …) – where b is `recv.f[k]` or a local
//     that was assigned from it.
//
// Props/C20.lean pins: every assignment is "fresh" and nothing is written in place.

import (
	"fmt"
	"go/ast"
	"go/token"
	"go/types"
	"os"
	"path/filepath"
	"sort"
	"strings"

	"golang.org/x/tools/go/packages"
)

var slicesMutators = map[string]bool{"Insert": true, "Delete": true, "DeleteFunc": true, "Replace": true, "Reverse": true,
	"Sort": true, "SortFunc": true, "SortStableFunc": true, "Compact": true, "CompactFunc": true, "Clip": false, "Grow": false}

type bucketFact struct {
	typ, meth, field, what, pos string
}

func genBuckets(repo, out string, ps []*packages.Package) {
	const file = "pkg/types/map.go"
	var assigns, inplace []bucketFact
	ntypes, nmeth := 0, 0
	for _, p := range ps {
		for _, f := range p.Syntax {
			rel, _ := filepath.Rel(repo, p.Fset.Position(f.Pos()).Filename)
			if filepath.ToSlash(rel) != file {
				continue
			}
			// struct types of the file with a map-of-slices field
			bucketFields := map[string]map[string]bool{} // type name -> field names
			for _, d := range f.Decls {
				gd, ok := d.(*ast.GenDecl)
				if !ok || gd.Tok != token.TYPE {
					continue
				}
				for _, s := range gd.Specs {
					ts := s.(*ast.TypeSpec)
					obj, _ := p.TypesInfo.Defs[ts.Name].(*types.TypeName)
					if obj == nil {
						continue
					}
					st, ok := obj.Type().Underlying().(*types.Struct)
					if !ok {
						continue
					}
					for i := 0; i < st.NumFields(); i++ {
						if m, ok := st.Field(i).Type().Underlying().(*types.Map); ok {
							if _, ok := m.Elem().Underlying().(*types.Slice); ok {
								if bucketFields[obj.Name()] == nil {
									bucketFields[obj.Name()] = map[string]bool{}
									ntypes++
								}
								bucketFields[obj.Name()][st.Field(i).Name()] = true
							}
						}
					}
				}
			}
			for _, d := range f.Decls {
				fd, ok := d.(*ast.FuncDecl)
				if !ok || fd.Recv == nil || fd.Body == nil || len(fd.Recv.List) == 0 || len(fd.Recv.List[0].Names) == 0 {
					continue
				}
				recvObj := p.TypesInfo.Defs[fd.Recv.List[0].Names[0]]
				if recvObj == nil {
					continue
				}
				n := namedOf(recvObj.Type())
				if n == nil || bucketFields[n.Obj().Name()] == nil {
					continue
				}
				nmeth++
				typ := "types." + n.Obj().Name()
				fields := bucketFields[n.Obj().Name()]
				pos := func(nd ast.Node) string {
					ps := p.Fset.Position(nd.Pos())
					return fmt.Sprintf("%s:%d", filepath.Base(ps.Filename), ps.Line)
				}
				// recv.f[k]  →  f
				bucketExpr := func(e ast.Expr) string {
					ix, ok := e.(*ast.IndexExpr)
					if !ok {
						return ""
					}
					sel, ok := ix.X.(*ast.SelectorExpr)
					if !ok {
						return ""
					}
					id, ok := sel.X.(*ast.Ident)
					if !ok || p.TypesInfo.Uses[id] != recvObj || !fields[sel.Sel.Name] {
						return ""
					}
					return sel.Sel.Name
				}
				// locals assigned from a bucket, and what every local is assigned
				alias := map[types.Object]string{}
				localRhs := map[types.Object][]ast.Expr{}
				note := func(l, r ast.Expr) {
					id, ok := l.(*ast.Ident)
					if !ok || id.Name == "_" {
						return
					}
					obj := p.TypesInfo.Defs[id]
					if obj == nil {
						obj = p.TypesInfo.Uses[id]
					}
					if obj == nil {
						return
					}
					localRhs[obj] = append(localRhs[obj], r)
					if fl := bucketExpr(r); fl != "" {
						alias[obj] = fl
					}
				}
				ast.Inspect(fd.Body, func(nd ast.Node) bool {
					switch x := nd.(type) {
					case *ast.AssignStmt:
						if len(x.Lhs) == len(x.Rhs) {
							for i := range x.Lhs {
								note(x.Lhs[i], x.Rhs[i])
							}
						} else if len(x.Rhs) == 1 && len(x.Lhs) == 2 {
							note(x.Lhs[0], x.Rhs[0])
						}
					case *ast.RangeStmt:
						// for _, b := range recv.f: b is a bucket
						if sel, ok := x.X.(*ast.SelectorExpr); ok {
							if id, ok := sel.X.(*ast.Ident); ok && p.TypesInfo.Uses[id] == recvObj && fields[sel.Sel.Name] {
								if v, ok := x.Value.(*ast.Ident); ok && v.Name != "_" {
									if obj := p.TypesInfo.Defs[v]; obj != nil {
										alias[obj] = sel.Sel.Name
									}
								}
							}
						}
					}
					return true
				})
				// the bucket a slice expression is (part of): recv.f[k], an alias, or a re-slice of these
				var baseOf func(e ast.Expr) string
				baseOf = func(e ast.Expr) string {
					switch x := e.(type) {
					case *ast.ParenExpr:
						return baseOf(x.X)
					case *ast.Ident:
						return alias[p.TypesInfo.Uses[x]]
					case *ast.SliceExpr:
						return baseOf(x.X)
					case *ast.IndexExpr:
						if fl := bucketExpr(x); fl != "" {
							return fl
						}
					}
					return ""
				}
				isMake := func(e ast.Expr) bool {
					switch x := e.(type) {
					case *ast.CompositeLit:
						return true
					case *ast.CallExpr:
						if id, ok := x.Fun.(*ast.Ident); ok && id.Name == "make" {
							return true
						}
					}
					return false
				}
				classify := func(e ast.Expr) string {
					switch x := e.(type) {
					case *ast.Ident:
						obj := p.TypesInfo.Uses[x]
						if alias[obj] != "" {
							return "alias"
						}
						rs := localRhs[obj]
						if len(rs) == 0 {
							return "other"
						}
						for _, r := range rs {
							if !isMake(r) {
								return "other"
							}
						}
						return "fresh"
					case *ast.CallExpr:
						if isMake(x) {
							return "fresh"
						}
						if id, ok := x.Fun.(*ast.Ident); ok && id.Name == "append" && len(x.Args) > 0 {
							if sl, ok := x.Args[0].(*ast.SliceExpr); ok && sl.Slice3 && exprText(p.Fset, sl.High) == exprText(p.Fset, sl.Max) {
								return "fresh"
							}
							return "call:append"
						}
						return "call:" + exprText(p.Fset, x.Fun)
					case *ast.CompositeLit:
						return "fresh"
					}
					return "other"
				}
				ast.Inspect(fd.Body, func(nd ast.Node) bool {
					switch x := nd.(type) {
					case *ast.AssignStmt:
						for i, l := range x.Lhs {
							if fl := bucketExpr(l); fl != "" && i < len(x.Rhs) {
								assigns = append(assigns, bucketFact{typ, fd.Name.Name, fl, classify(x.Rhs[i]), pos(l)})
								continue
							}
							// b[i] = v / b[i][j] = v
							cur := l
							for {
								ix, ok := cur.(*ast.IndexExpr)
								if !ok {
									break
								}
								if fl := baseOf(ix.X); fl != "" && bucketExpr(ix) == "" {
									inplace = append(inplace, bucketFact{typ, fd.Name.Name, fl, "index assignment " + exprText(p.Fset, l), pos(l)})
									break
								}
								cur = ix.X
							}
						}
					case *ast.CallExpr:
						switch fn := x.Fun.(type) {
						case *ast.Ident:
							if len(x.Args) == 0 {
								break
							}
							if fn.Name == "copy" {
								if fl := baseOf(x.Args[0]); fl != "" {
									inplace = append(inplace, bucketFact{typ, fd.Name.Name, fl, "copy into the bucket", pos(x)})
								}
							}
							if fn.Name == "append" {
								if sl, ok := x.Args[0].(*ast.SliceExpr); ok && sl.Slice3 && exprText(p.Fset, sl.High) == exprText(p.Fset, sl.Max) {
									break
								}
								if fl := baseOf(x.Args[0]); fl != "" {
									inplace = append(inplace, bucketFact{typ, fd.Name.Name, fl, "append to the bucket", pos(x)})
								}
							}
						case *ast.SelectorExpr:
							if pk, ok := fn.X.(*ast.Ident); ok && len(x.Args) > 0 {
								if pn, ok := p.TypesInfo.Uses[pk].(*types.PkgName); ok && pn.Imported().Path() == "slices" && slicesMutators[fn.Sel.Name] {
									if fl := baseOf(x.Args[0]); fl != "" {
										inplace = append(inplace, bucketFact{typ, fd.Name.Name, fl, "slices." + fn.Sel.Name, pos(x)})
									}
								}
							}
						}
					}
					return true
				})
			}
		}
	}
	srt := func(fs []bucketFact) {
		sort.SliceStable(fs, func(i, j int) bool {
			return fs[i].typ+"|"+fs[i].meth+"|"+fs[i].pos < fs[j].typ+"|"+fs[j].meth+"|"+fs[j].pos
		})
	}
	srt(assigns)
	srt(inplace)
	var b strings.Builder
	b.WriteString("/-\nGENERATED by /verif/extract (buckets.go) from pkg/types/map.go. Do not edit.\nHow the methods of the map types write the buckets (`value[hash]`, a sorted slice of pairs) that a\nderived map shares with the map it was derived from.\n-/\nnamespace Uniflow.Generated.MapBuckets\n\n")
	emit := func(name, doc string, fs []bucketFact) {
		b.WriteString("/-- " + doc + " -/\n")
		b.WriteString("def " + name + " : List (String × String × String × String) := [\n")
		for i, f := range fs {
			if i > 0 {
				b.WriteString(",\n")
			}
			fmt.Fprintf(&b, "  (%q, %q, %q, %q) /- %s -/", f.typ, f.meth, f.field, f.what, f.pos)
		}
		b.WriteString("\n]\n\n")
	}
	emit("bucketAssigns", "(type, method, field, class of the right-hand side) of every `recv.f[k] = <expr>`: `fresh` = a newly allocated slice.", assigns)
	emit("bucketInPlace", "(type, method, field, how): a write into the backing array of a bucket (`recv.f[k]` or a local assigned from it).", inplace)
	fmt.Fprintf(&b, "def mapTypesWithBuckets : Nat := %d\n\nend Uniflow.Generated.MapBuckets\n", ntypes)
	if err := os.WriteFile(filepath.Join(out, "MapBuckets.lean"), []byte(b.String()), 0o644); err != nil {
		panic(err)
	}
	fmt.Printf("MapBuckets.lean: %d map types, %d methods, %d bucket assignments, %d in-place bucket writes\n", ntypes, nmeth, len(assigns), len(inplace))
}
