package main

// Generated/{ValueFuncs,MapFuncs,CodecFuncs,BindFuncs}.lean: the outline (outline.go) of EVERY function and
// method declared in the source files that the models of C14 (Model/Value.lean), C15 (Model/MapHeap.lean),
// C16/C17 (Model/Codec*.lean, Model/Group.lean) and C18 (Model/Template.lean, Model/Bind.lean) were transcribed
// from – one `def o_<file>_<receiver>_<function> : List String` per declaration and one `def names_<file>`
// listing the declarations of a file in source order (so that an added or removed function shows as well).
//
// The theorems of Props/C14Tie.lean, C15Tie.lean, C16Tie.lean, C17Tie.lean and C18Tie.lean compare these
// definitions, regenerated from /repo on every run, with the transcript the models were written against.
// They are change detectors with a precise scope: when one of them stops checking, the source of exactly
// that function differs from what was modelled, and bin/check then looks for a failing input with the
// harness (a harmless rewrite is reported as `no-failing-input-found`).
//
// Which declarations go where is decided by name: the codec half of pkg/types (new*Encoder, new*Decoder,
// getMapMeta, Marshal*/Unmarshal* methods, encoding.go, json.go, time.go) is C16/C17's, the rest of map.go
// is C15's, the rest of pkg/types is C14's.

import (
	"fmt"
	"go/ast"
	"os"
	"path/filepath"
	"regexp"
	"strings"

	"golang.org/x/tools/go/packages"
)

var codecName = regexp.MustCompile(`^(new.*(Encoder|Decoder).*|getMapMeta|Marshal.*|Unmarshal.*|init)$`)

type funcGroup struct {
	module string
	doc    string
	files  [][2]string // package name, file base name
	keep   func(base, name string) bool
}

func sanitize(s string) string {
	var b strings.Builder
	for _, r := range s {
		if (r >= 'a' && r <= 'z') || (r >= 'A' && r <= 'Z') || (r >= '0' && r <= '9') {
			b.WriteRune(r)
		} else {
			b.WriteByte('_')
		}
	}
	return b.String()
}

func genFuncFacts(repo, out string, ps []*packages.Package) {
	kindFiles := [][2]string{{"types", "value.go"}, {"types", "binary.go"}, {"types", "boolean.go"}, {"types", "buffer.go"},
		{"types", "error.go"}, {"types", "float.go"}, {"types", "integer.go"}, {"types", "uinteger.go"}, {"types", "string.go"},
		{"types", "slice.go"}}
	codecFiles := append([][2]string{{"types", "encoding.go"}, {"types", "json.go"}, {"types", "time.go"}, {"types", "map.go"},
		{"encoding", "assembler.go"}, {"encoding", "group.go"}, {"encoding", "compiler.go"}, {"encoding", "decoder.go"},
		{"encoding", "encoder.go"}, {"spec", "encoding.go"}}, kindFiles...)
	whole := map[string]bool{"encoding.go": true, "json.go": true, "time.go": true, "assembler.go": true, "group.go": true,
		"compiler.go": true, "decoder.go": true, "encoder.go": true}
	all := func(base, name string) bool { return true }
	groups := []funcGroup{
		{"ValueFuncs", "pkg/types: every declaration of value.go and of the kind files that is not part of the codec (C14: Equal / Compare / Hash / Kind / Interface and the constructors)",
			kindFiles, func(base, name string) bool { return !codecName.MatchString(name) }},
		{"MapFuncs", "pkg/types/map.go without its codec half (C15: both map views, the constructors, sortedPairs)",
			[][2]string{{"types", "map.go"}}, func(base, name string) bool { return !codecName.MatchString(name) }},
		{"CodecFuncs", "the codec: pkg/encoding, pkg/types/encoding.go, json.go, time.go, pkg/spec/encoding.go and every new*Encoder / new*Decoder / getMapMeta / Marshal* / Unmarshal* of pkg/types (C16, C17)",
			codecFiles, func(base, name string) bool { return whole[base] || codecName.MatchString(name) }},
		{"BindFuncs", "pkg/template, pkg/spec/spec.go, pkg/spec/unstructured.go, pkg/value/value.go (C18)",
			[][2]string{{"template", "template.go"}, {"template", "node.go"}, {"spec", "spec.go"}, {"spec", "unstructured.go"}, {"value", "value.go"}},
			func(base, name string) bool { return true }},
		{"PacketFuncs", "pkg/packet/packet.go, reader.go, writer.go (C01; C03, C05, C19)",
			[][2]string{{"packet", "packet.go"}, {"packet", "reader.go"}, {"packet", "writer.go"}}, all},
		{"FlowFuncs", "pkg/packet/tracer.go, readgroup.go, pkg/node/onetoone.go, onetomany.go, manytoone.go, pkg/port/pipe.go (C02; C03, C05)",
			[][2]string{{"packet", "tracer.go"}, {"packet", "readgroup.go"}, {"node", "onetoone.go"}, {"node", "onetomany.go"}, {"node", "manytoone.go"}, {"port", "pipe.go"}}, all},
		{"PortFuncs", "pkg/port/inport.go, outport.go (C05; C03, C06, C19)",
			[][2]string{{"port", "inport.go"}, {"port", "outport.go"}}, all},
		{"ProcessFuncs", "pkg/process/process.go, exithook.go, local.go (C04, C05)",
			[][2]string{{"process", "process.go"}, {"process", "exithook.go"}, {"process", "local.go"}}, all},
		{"AgentFuncs", "pkg/runtime/agent.go, breakpoint.go, debugger.go (C19; C05)",
			[][2]string{{"runtime", "agent.go"}, {"runtime", "breakpoint.go"}, {"runtime", "debugger.go"}}, all},
		{"RuntimeFuncs", "pkg/runtime/runtime.go, pkg/scheme/scheme.go (C09; C16)",
			[][2]string{{"runtime", "runtime.go"}, {"scheme", "scheme.go"}}, all},
		{"StoreFuncs", "pkg/store/store.go, segment.go, stream.go, executionplan.go, helper.go, cursor.go (C10, C11, C12, C13)",
			[][2]string{{"store", "store.go"}, {"store", "segment.go"}, {"store", "stream.go"}, {"store", "executionplan.go"}, {"store", "helper.go"}, {"store", "cursor.go"}}, all},
		{"SymbolFuncs", "pkg/symbol/table.go, symbol.go, loadhook.go, unloadhook.go, pkg/hook/hook.go (C06, C07, C08)",
			[][2]string{{"symbol", "table.go"}, {"symbol", "symbol.go"}, {"symbol", "loadhook.go"}, {"symbol", "unloadhook.go"}, {"hook", "hook.go"}}, all},
		// the small files UNDER the anchored ones (hooks, listeners, port naming, proxies, clusters, codecs): no property
		// is anchored in them, every flow runs through them – one module per property whose model leans on them most
		{"C01LayerFuncs", "pkg/packet/hook.go (hooks of readers and writers: C01; C02, C05, C19)",
			[][2]string{{"packet", "hook.go"}}, all},
		{"C02LayerFuncs", "pkg/node/node.go, port.go (derive, port naming: C02; C03, C05)",
			[][2]string{{"node", "node.go"}, {"node", "port.go"}}, all},
		{"C05LayerFuncs", "pkg/port/openhook.go, closehook.go, listener.go, pkg/process/storehook.go (C05; C02, C03, C06, C08, C19)",
			[][2]string{{"port", "openhook.go"}, {"port", "closehook.go"}, {"port", "listener.go"}, {"process", "storehook.go"}}, all},
		{"C08LayerFuncs", "pkg/node/proxy.go, pkg/symbol/cluster.go (unwrap chains of the listener hooks, nested tables: C08; C06, C07)",
			[][2]string{{"node", "proxy.go"}, {"symbol", "cluster.go"}}, all},
		{"C09LayerFuncs", "pkg/scheme/codec.go, builder.go, register.go, pkg/store/source.go (C09; C16, C10)",
			[][2]string{{"scheme", "codec.go"}, {"scheme", "builder.go"}, {"scheme", "register.go"}, {"store", "source.go"}}, all},
		{"C19LayerFuncs", "pkg/runtime/watcher.go, frame.go (C19)",
			[][2]string{{"runtime", "watcher.go"}, {"runtime", "frame.go"}}, all},
	}
	for _, g := range groups {
		var b strings.Builder
		fmt.Fprintf(&b, "/-\nGENERATED by /verif/extract (funcs.go): %s.\nOne outline per declaration (`o_<package>_<file>_<receiver>_<name>`; `fn` stands for no receiver) and the list of\ndeclarations of each file in source order (`names_<package>_<file>`). Do not edit.\n-/\nnamespace Uniflow.Generated.%s\n\n", g.doc, g.module)
		nf, nl := 0, 0
		for _, pf := range g.files {
			sf := findFile(ps, pf[0], pf[1])
			if sf == nil {
				// a missing file is a fact too: an empty declaration list never equals the transcript
				fmt.Fprintf(&b, "def names_%s_%s : List String := []\n\n", pf[0], sanitize(strings.TrimSuffix(pf[1], ".go")))
				continue
			}
			var names []string
			seen := map[string]int{}
			for _, d := range sf.file.Decls {
				fd, ok := d.(*ast.FuncDecl)
				if !ok || fd.Body == nil || !g.keep(pf[1], fd.Name.Name) {
					continue
				}
				recv := recvName(fd)
				if recv == "" {
					recv = "fn"
				}
				key := recv + "." + fd.Name.Name
				seen[key]++
				if seen[key] > 1 { // several `init` functions in one file
					key = fmt.Sprintf("%s#%d", key, seen[key])
				}
				names = append(names, key)
				lines := outlineOf(sf.fset, fd)
				def := fmt.Sprintf("o_%s_%s_%s", pf[0], sanitize(strings.TrimSuffix(pf[1], ".go")), sanitize(key))
				defOutline(&b, fmt.Sprintf("`%s` of pkg/%s/%s", key, pf[0], pf[1]), def, lines)
				nf++
				nl += len(lines)
			}
			fmt.Fprintf(&b, "/-- the declarations of pkg/%s/%s taken into this table, in source order -/\ndef names_%s_%s : List String := %s\n\n",
				pf[0], pf[1], pf[0], sanitize(strings.TrimSuffix(pf[1], ".go")), leanStrListInline(names))
		}
		fmt.Fprintf(&b, "end Uniflow.Generated.%s\n", g.module)
		_ = os.WriteFile(filepath.Join(out, g.module+".lean"), []byte(b.String()), 0o644)
		fmt.Printf("%s.lean: %d declarations, %d outline lines\n", g.module, nf, nl)
	}
}
