package main

// Generated/WriterFacts.lean: structural facts of pkg/packet/writer.go and reader.go that the models
// Model/Writer.lean and Model/Pump.lean transcribe.
//
//   - the outline of every function the model follows (outline.go);
//   - the methods declared on Writer and on Reader (a new method that touches the queues is a new step the
//     model does not have);
//   - Write: the early exits, the loop over the readers with the two branches of `r.write(…)`, the guard under
//     which the row is appended;
//   - receive / Unlink: the early exits, the flush – a *loop* over complete leading rows – with its condition,
//     the pop `w.receives = w.receives[1:]` and what is read (`w.receives[0]`);
//   - Writer.Close: one packet per pending row (`for range w.receives`), then `close(w.in)`;
//   - the pump goroutines of NewWriter / NewReader: the communications of the two selects, the FIFO pop of
//     `buffer` (send `buffer[0]`, keep `buffer[1:]`), the appends;
//   - Reader.Close: the loop over ALL queued requests (no continue / break), one `go …receive(…)` each;
//     Reader.write (append at the end), Reader.Receive (pop at the front).
//
// Lock facts are not repeated here (Generated/Locks.lean).

import (
	"fmt"
	"go/ast"
	"go/token"
	"os"
	"path/filepath"
	"strconv"
	"strings"

	"golang.org/x/tools/go/packages"
)

// cmpLit classifies `<expr> OP <int literal>`.
func cmpLit(fset *token.FileSet, e ast.Expr) (string, string, int) {
	if b, ok := e.(*ast.BinaryExpr); ok {
		if lit, ok := b.Y.(*ast.BasicLit); ok && lit.Kind == token.INT {
			if n, err := strconv.Atoi(lit.Value); err == nil {
				switch b.Op {
				case token.EQL, token.NEQ, token.LSS, token.LEQ, token.GTR, token.GEQ:
					return exprText(fset, b.X), b.Op.String(), n
				}
			}
		}
	}
	return "?" + exprText(fset, e), "?", 0
}

func assignsTo(fset *token.FileSet, list []ast.Stmt, lhs string) bool {
	return findStmt(list, false, func(s ast.Stmt) bool {
		if a, ok := s.(*ast.AssignStmt); ok {
			for _, l := range a.Lhs {
				if exprText(fset, l) == lhs {
					return true
				}
			}
		}
		return false
	}) != nil
}

func isLoop(s ast.Stmt) bool {
	switch s.(type) {
	case *ast.ForStmt, *ast.RangeStmt:
		return true
	}
	return false
}

func firstLoop(list []ast.Stmt) ast.Stmt {
	return findStmt(list, false, isLoop)
}

func topLoop(list []ast.Stmt, k int) ast.Stmt {
	for _, s := range list {
		if isLoop(s) {
			if k == 0 {
				return s
			}
			k--
		}
	}
	return nil
}

// flushFacts: the statement of `list` (top level, or nested in the loop `within` when given) that pops
// `w.receives`: the `if` that guards it (cond, "" when the loop stands unguarded), the loop, the pop.
type flushInfo struct {
	guard string
	loop  loopInfo
	pop   popInfo
}

func flushOf(fset *token.FileSet, list []ast.Stmt, slice string) flushInfo {
	fi := flushInfo{guard: "<missing>", loop: loopInfo{kind: "none"}, pop: popInfo{index: -1, low: -1}}
	// a loop somewhere in list whose body assigns the slice
	loopAssigns := func(list []ast.Stmt) bool {
		return findStmt(list, false, func(x ast.Stmt) bool {
			return isLoop(x) && assignsTo(fset, []ast.Stmt{x}, slice)
		}) != nil
	}
	// descend to the innermost loop (or, failing a loop, `if`) whose body assigns `slice = …`; guard is the
	// condition of the nearest `if` passed on the way
	var walk func(list []ast.Stmt, guard string) bool
	walk = func(list []ast.Stmt, guard string) bool {
		for _, s := range list {
			switch v := s.(type) {
			case *ast.IfStmt:
				if !assignsTo(fset, v.Body.List, slice) {
					continue
				}
				if loopAssigns(v.Body.List) {
					return walk(v.Body.List, exprText(fset, v.Cond))
				}
				fi.guard, fi.loop, fi.pop = guard, loopOf(fset, v), popOf(fset, v.Body.List, slice)
				return true
			case *ast.ForStmt, *ast.RangeStmt:
				li := loopOf(fset, s)
				if !assignsTo(fset, li.body, slice) {
					continue
				}
				if loopAssigns(li.body) {
					return walk(li.body, guard)
				}
				fi.guard, fi.loop, fi.pop = guard, li, popOf(fset, li.body, slice)
				return true
			}
		}
		return false
	}
	walk(list, "")
	return fi
}

// selectComms lists, for every select statement in list (pre-order, inside function literals too), the
// communications of its clauses ("default" for the default clause) with the clause body joined by "; ".
func selectComms(fset *token.FileSet, list []ast.Stmt) [][]string {
	var r [][]string
	for _, s := range list {
		ast.Inspect(s, func(n ast.Node) bool {
			sel, ok := n.(*ast.SelectStmt)
			if !ok {
				return true
			}
			var cs []string
			for _, c := range sel.Body.List {
				cc := c.(*ast.CommClause)
				if cc.Comm == nil {
					cs = append(cs, "default")
				} else {
					cs = append(cs, exprText(fset, cc.Comm))
				}
			}
			r = append(r, cs)
			return true
		})
	}
	return r
}

// goFuncBody returns the body of the first `go func() {…}()` statement of list.
func goFuncBody(list []ast.Stmt) []ast.Stmt {
	for _, s := range list {
		if g, ok := s.(*ast.GoStmt); ok {
			if fl, ok := g.Call.Fun.(*ast.FuncLit); ok {
				return fl.Body.List
			}
		}
	}
	return nil
}

// pumpFacts of a constructor (NewWriter / NewReader).
func pumpFacts(b *strings.Builder, fset *token.FileSet, fd *ast.FuncDecl, prefix, what string) {
	body := goFuncBody(bodyOf(fd))
	sel := selectComms(fset, body)
	rows := make([]string, len(sel))
	for i, cs := range sel {
		rows[i] = "  " + leanStrListInline(cs)
	}
	ss := "[]"
	if len(rows) > 0 {
		ss = "[\n" + strings.Join(rows, ",\n") + "\n]"
	}
	fmt.Fprintf(b, "/-- pump goroutine of `%s`: the communications of its select statements, outermost first -/\ndef %sSelects : List (List String) := %s\n\n", what, prefix, ss)
	fmt.Fprintf(b, "/-- … its top-level statements -/\ndef %sHeads : List String := %s\n\n", prefix, leanStrListInline(heads(fset, body)))
	fmt.Fprintf(b, "/-- … the FIFO discipline of `buffer` -/\ndef %sPop : Pop := %s\n\n", prefix, popOf(fset, body, "buffer").lean())
	// the clause that sends from the buffer: what it sends and what it does afterwards
	send, after := "<missing>", []string{}
	ast.Inspect(&ast.BlockStmt{List: body}, func(n ast.Node) bool {
		cc, ok := n.(*ast.CommClause)
		if !ok || cc.Comm == nil {
			return true
		}
		if s, ok := cc.Comm.(*ast.SendStmt); ok && strings.Contains(exprText(fset, s.Value), "buffer") {
			send = exprText(fset, s)
			after = outlineStmts(fset, cc.Body)
		}
		return true
	})
	fmt.Fprintf(b, "/-- … the clause that hands a buffered packet over: the send, and what follows it -/\ndef %sSend : String := %s\ndef %sAfterSend : List String := %s\n\n", prefix, leanStr(send), prefix, leanStrListInline(after))
}

func genWriter(repo, out string, ps []*packages.Package) {
	wf := findFile(ps, "packet", "writer.go")
	rf := findFile(ps, "packet", "reader.go")
	var b strings.Builder
	b.WriteString("/-\nGENERATED by /verif/extract (writer.go) from pkg/packet/writer.go and reader.go: structural facts of the\nfunctions Model/Writer.lean and Model/Pump.lean transcribe. Do not edit.\n-/\nnamespace Uniflow.Generated.WriterFacts\n\n")
	b.WriteString(loopStructure + popStructure)
	var wfs, rfs *token.FileSet
	if wf != nil {
		wfs = wf.fset
	}
	if rf != nil {
		rfs = rf.fset
	}
	n := 0
	for _, m := range []string{"Link", "Unlink", "Write", "Close", "receive", "indexOfReader", "indexOfHead"} {
		defOutline(&b, "`(*Writer)."+m+"`", "outline_Writer_"+m, outlineOf(wfs, wf.funcDecl("Writer", m)))
		n++
	}
	defOutline(&b, "`joinAccepted` (the response to a complete row)", "outline_joinAccepted", outlineOf(wfs, wf.funcDecl("", "joinAccepted")))
	defOutline(&b, "`NewWriter` (with the pump goroutine)", "outline_NewWriter", outlineOf(wfs, wf.funcDecl("", "NewWriter")))
	for _, m := range []string{"Receive", "Close", "write"} {
		defOutline(&b, "`(*Reader)."+m+"`", "outline_Reader_"+m, outlineOf(rfs, rf.funcDecl("Reader", m)))
		n++
	}
	defOutline(&b, "`NewReader` (with the pump goroutine)", "outline_NewReader", outlineOf(rfs, rf.funcDecl("", "NewReader")))
	fmt.Fprintf(&b, "/-- methods declared on `Writer` / `Reader`, in source order -/\ndef writerMethods : List String := %s\ndef readerMethods : List String := %s\n\n",
		leanStrListInline(wf.methodNames("Writer")), leanStrListInline(rf.methodNames("Reader")))

	// ---- Write
	wr := bodyOf(wf.funcDecl("Writer", "Write"))
	fmt.Fprintf(&b, "/-- `Write`: early exits (condition, branch) -/\ndef writeGuards : List (String × String) := %s\n\n", leanPairs(guardsOf(wfs, wr)))
	fmt.Fprintf(&b, "/-- `Write`: the steps at the top level -/\ndef writeHeads : List String := %s\n\n", leanStrListInline(heads(wfs, wr)))
	wl := loopOf(wfs, topLoop(wr, 0))
	fmt.Fprintf(&b, "/-- `Write`: the loop over the readers -/\ndef writeLoop : Loop := %s\n\n", wl.lean(wfs))
	cond, thenB, elseB := "<missing>", []string{}, []string{"<missing>"}
	if len(wl.body) == 1 {
		if ifs, ok := wl.body[0].(*ast.IfStmt); ok && ifs.Init == nil {
			cond = exprText(wfs, ifs.Cond)
			thenB = outlineStmts(wfs, ifs.Body.List)
			elseB = []string{}
			if eb, ok := ifs.Else.(*ast.BlockStmt); ok {
				elseB = outlineStmts(wfs, eb.List)
			} else if ifs.Else != nil {
				elseB = outlineStmts(wfs, []ast.Stmt{ifs.Else})
			}
		}
	}
	fmt.Fprintf(&b, "/-- `Write`: the loop body is `if <accepted> { … } else { … }` -/\ndef writeAccepted : String := %s\ndef writeThen : List String := %s\ndef writeElse : List String := %s\n\n", leanStr(cond), leanStrListInline(thenB), leanStrListInline(elseB))
	ag := [3]string{"<missing>", "?", "0"}
	agBody := []string{}
	for _, s := range wr {
		if ifs, ok := s.(*ast.IfStmt); ok && ifs.Else == nil && assignsTo(wfs, ifs.Body.List, "w.receives") {
			x, op, k := cmpLit(wfs, ifs.Cond)
			ag = [3]string{x, op, strconv.Itoa(k)}
			agBody = outlineStmts(wfs, ifs.Body.List)
		}
	}
	fmt.Fprintf(&b, "/-- `Write`: the row is appended under `<operand> <op> <n>` -/\ndef writeAppendGuard : String × String × Nat := (%s, %s, %s)\ndef writeAppendBody : List String := %s\n\n", leanStr(ag[0]), leanStr(ag[1]), ag[2], leanStrListInline(agBody))

	// ---- receive, Unlink: the flush
	rc := bodyOf(wf.funcDecl("Writer", "receive"))
	fmt.Fprintf(&b, "/-- `receive`: early exits -/\ndef receiveGuards : List (String × String) := %s\n\n", leanPairs(guardsOf(wfs, rc)))
	fmt.Fprintf(&b, "/-- `receive`: the steps at the top level -/\ndef receiveHeads : List String := %s\n\n", leanStrListInline(heads(wfs, rc)))
	fl := flushOf(wfs, rc, "w.receives")
	fmt.Fprintf(&b, "/-- `receive`: the flush of complete leading rows: the guard it stands under, the loop, the pop of `w.receives` -/\ndef receiveFlushGuard : String := %s\ndef receiveFlushLoop : Loop := %s\ndef receiveFlushPop : Pop := %s\n\n", leanStr(fl.guard), fl.loop.lean(wfs), fl.pop.lean())
	ul := bodyOf(wf.funcDecl("Writer", "Unlink"))
	fu := flushOf(wfs, ul, "w.receives")
	fmt.Fprintf(&b, "/-- `Unlink`: the same flush after the column was removed -/\ndef unlinkFlushGuard : String := %s\ndef unlinkFlushLoop : Loop := %s\ndef unlinkFlushPop : Pop := %s\n\n", leanStr(fu.guard), fu.loop.lean(wfs), fu.pop.lean())

	// ---- joinAccepted: which cells are kept, when the response is the dropped packet, what is joined
	ja := bodyOf(wf.funcDecl("", "joinAccepted"))
	fmt.Fprintf(&b, "/-- `joinAccepted`: the steps at the top level, the loop that keeps the cells to join, the early exits -/\ndef joinAcceptedHeads : List String := %s\ndef joinAcceptedLoop : Loop := %s\ndef joinAcceptedGuards : List (String × String) := %s\n\n",
		leanStrListInline(heads(wfs, ja)), loopOf(wfs, topLoop(ja, 0)).lean(wfs), leanPairs(guardsOf(wfs, ja)))

	// ---- Writer.Close
	cl := bodyOf(wf.funcDecl("Writer", "Close"))
	fmt.Fprintf(&b, "/-- `(*Writer).Close`: the steps at the top level, and the loop that answers the pending rows -/\ndef closeHeads : List String := %s\ndef closeLoop : Loop := %s\n\n", leanStrListInline(heads(wfs, cl)), loopOf(wfs, topLoop(cl, 0)).lean(wfs))

	// ---- pumps
	pumpFacts(&b, wfs, wf.funcDecl("", "NewWriter"), "writerPump", "NewWriter")
	pumpFacts(&b, rfs, rf.funcDecl("", "NewReader"), "readerPump", "NewReader")

	// ---- Reader
	rcl := bodyOf(rf.funcDecl("Reader", "Close"))
	fmt.Fprintf(&b, "/-- `(*Reader).Close`: the steps at the top level, and the loop over the queued requests -/\ndef readerCloseHeads : List String := %s\ndef readerCloseLoop : Loop := %s\n\n", leanStrListInline(heads(rfs, rcl)), loopOf(rfs, topLoop(rcl, 0)).lean(rfs))
	rw := bodyOf(rf.funcDecl("Reader", "write"))
	fmt.Fprintf(&b, "/-- `(*Reader).write`: early exits and steps -/\ndef readerWriteGuards : List (String × String) := %s\ndef readerWriteHeads : List String := %s\n\n", leanPairs(guardsOf(rfs, rw)), leanStrListInline(heads(rfs, rw)))
	rr := bodyOf(rf.funcDecl("Reader", "Receive"))
	fmt.Fprintf(&b, "/-- `(*Reader).Receive`: early exits, steps, and the pop of `r.writers` -/\ndef readerReceiveGuards : List (String × String) := %s\ndef readerReceiveHeads : List String := %s\ndef readerReceivePop : Pop := %s\n\n", leanPairs(guardsOf(rfs, rr)), leanStrListInline(heads(rfs, rr)), popOf(rfs, rr, "r.writers").lean())
	b.WriteString("end Uniflow.Generated.WriterFacts\n")
	_ = os.WriteFile(filepath.Join(out, "WriterFacts.lean"), []byte(b.String()), 0o644)
	fmt.Printf("WriterFacts.lean: %d method outlines\n", n)
}
