package main

// Generated/StoreFacts.lean: structural facts of pkg/store/segment.go, store.go, stream.go (and `patch` of
// helper.go) that Model/Index.lean, Model/Store.lean, Model/Stream.lean and Model/Watch.lean transcribe.
//
//   - outlines of the functions the models follow (outline.go);
//   - segment.Store / Swap / Delete as *phases*, one string per top-level statement, classified:
//     "fail-if <cond>: <ErrX>"   `if <cond> { return …ErrX… }`
//     "try <call>"               `if err := <call>; err != nil { return …, err }`
//     "each-index: f(a), g(b)"   `for _, idx := range s.indexes { try s.f(idx, a); try s.g(idx, b) }` – a pass
//     over ALL indexes whose body is nothing but such calls
//     "other-loop: …"            any other loop;      every other statement: its text
//     Props/C12Tie.lean runs these phases on the model's state (C12.runPhases) and proves the result equal to
//     the model's segStore / segSwap / segDelete;
//   - section.Range: how the ids are collected (a B-tree keyed by id: de-duplication) and yielded;
//     section.Scan: which indexes are skipped, the two range walks and their stop tests;
//   - store.Insert / Update / Delete: the per-document loop bodies as phases (marshal → Store → emit in ONE
//     iteration), store.Find: the order of its steps, the window arithmetic classified statement by statement,
//     every call of s.find with its arguments, the scan loop of find;
//   - store.emit: the loop over the streams; stream.Emit: lock, then the select that tests `done` and sends;
//   - patch (helper.go): works on `doc.Mutable()` and returns `doc.Immutable()`.

import (
	"fmt"
	"go/ast"
	"go/token"
	"os"
	"path/filepath"
	"strings"

	"golang.org/x/tools/go/packages"
)

// returnsOf gives the result texts of a block that is a single return statement (ok=false otherwise).
func returnsOf(fset *token.FileSet, list []ast.Stmt) ([]string, *ast.ReturnStmt, bool) {
	if len(list) != 1 {
		return nil, nil, false
	}
	r, ok := list[0].(*ast.ReturnStmt)
	if !ok {
		return nil, nil, false
	}
	parts := make([]string, len(r.Results))
	for i, e := range r.Results {
		parts[i] = exprText(fset, e)
	}
	return parts, r, true
}

// errName finds the first identifier Err… in a return statement.
func errName(r *ast.ReturnStmt) string {
	name := ""
	ast.Inspect(r, func(n ast.Node) bool {
		if id, ok := n.(*ast.Ident); ok && name == "" && strings.HasPrefix(id.Name, "Err") {
			name = id.Name
		}
		return name == ""
	})
	return name
}

// phaseOf classifies one statement (see the header).
func phaseOf(fset *token.FileSet, s ast.Stmt) string {
	switch v := s.(type) {
	case *ast.IfStmt:
		if v.Else == nil {
			if res, ret, ok := returnsOf(fset, v.Body.List); ok {
				cond := exprText(fset, v.Cond)
				if v.Init != nil && cond == "err != nil" && len(res) > 0 && res[len(res)-1] == "err" {
					if init := exprText(fset, v.Init); strings.HasPrefix(init, "err := ") {
						return "try " + strings.TrimPrefix(init, "err := ")
					}
				}
				if v.Init == nil {
					if e := errName(ret); e != "" {
						return "fail-if " + cond + ": " + e
					}
					if len(res) > 0 && res[len(res)-1] == "err" {
						return "fail-if " + cond + ": err"
					}
				}
			}
		}
		l := outlineStmts(fset, []ast.Stmt{s})
		return "other-if: " + strings.Join(l, "; ")
	case *ast.RangeStmt:
		hdr := outlineStmts(fset, []ast.Stmt{&ast.RangeStmt{Key: v.Key, Value: v.Value, Tok: v.Tok, X: v.X, Body: &ast.BlockStmt{}}})
		if exprText(fset, v.X) == "s.indexes" && exprText(fset, v.Key) == "_" && exprText(fset, v.Value) == "idx" && len(v.Body.List) > 0 {
			var calls []string
			for _, b := range v.Body.List {
				p := phaseOf(fset, b)
				if !strings.HasPrefix(p, "try s.") || !strings.Contains(p, "(idx, ") {
					return "other-loop: " + hdr[0]
				}
				calls = append(calls, strings.Replace(strings.TrimPrefix(p, "try s."), "(idx, ", "(", 1))
			}
			return "each-index: " + strings.Join(calls, ", ")
		}
		return "other-loop: " + hdr[0]
	case *ast.ForStmt:
		hdr := outlineStmts(fset, []ast.Stmt{&ast.ForStmt{Init: v.Init, Cond: v.Cond, Post: v.Post, Body: &ast.BlockStmt{}}})
		return "other-loop: " + hdr[0]
	}
	l := outlineStmts(fset, []ast.Stmt{s})
	if len(l) == 1 {
		return l[0]
	}
	return "other: " + strings.Join(l, "; ")
}

func phasesOf(fset *token.FileSet, list []ast.Stmt) []string {
	r := []string{}
	for _, s := range list {
		r = append(r, phaseOf(fset, s))
	}
	return r
}

// windowStep classifies one statement of the skip/limit arithmetic of Find.
func windowStep(fset *token.FileSet, s ast.Stmt) string {
	switch v := s.(type) {
	case *ast.IfStmt:
		if v.Init == nil && v.Else == nil && len(v.Body.List) == 1 {
			if as, ok := v.Body.List[0].(*ast.AssignStmt); ok && as.Tok == token.ASSIGN && len(as.Lhs) == 1 && exprText(fset, as.Rhs[0]) == "len(docs)" {
				x := exprText(fset, as.Lhs[0])
				switch exprText(fset, v.Cond) {
				case x + " > len(docs)":
					return "clamp:" + x
				case x + " == 0":
					return "default:" + x
				}
			}
			// `if x == 0 || x > len(docs)-y { x = len(docs) - y }`: x is cut down to what is left after y
			if as, ok := v.Body.List[0].(*ast.AssignStmt); ok && as.Tok == token.ASSIGN && len(as.Lhs) == 1 {
				x := exprText(fset, as.Lhs[0])
				nosp := func(t string) string { return strings.ReplaceAll(t, " ", "") }
				if sub, ok := as.Rhs[0].(*ast.BinaryExpr); ok && sub.Op == token.SUB && exprText(fset, sub.X) == "len(docs)" {
					y := exprText(fset, sub.Y)
					if nosp(exprText(fset, v.Cond)) == nosp(x+" == 0 || "+x+" > len(docs)-"+y) {
						return "rest:" + x + "," + y
					}
				}
			}
		}
	case *ast.AssignStmt:
		if v.Tok == token.ASSIGN && len(v.Lhs) == 1 && len(v.Rhs) == 1 {
			x := exprText(fset, v.Lhs[0])
			if b, ok := v.Rhs[0].(*ast.BinaryExpr); ok && b.Op == token.ADD {
				l, r := exprText(fset, b.X), exprText(fset, b.Y)
				if r == x {
					return "add:" + x + "," + l
				}
				if l == x {
					return "add:" + x + "," + r
				}
			}
			if sl, ok := v.Rhs[0].(*ast.SliceExpr); ok && x == "docs" && exprText(fset, sl.X) == "docs" && sl.Low != nil && sl.High != nil && sl.Max == nil {
				return "slice:" + exprText(fset, sl.Low) + "," + exprText(fset, sl.High)
			}
		}
	}
	return "other:" + strings.Join(outlineStmts(fset, []ast.Stmt{s}), "; ")
}

// callsOf lists the argument texts of every call of `name` (a selector such as s.find) in a function body.
func callsOf(fset *token.FileSet, list []ast.Stmt, name string) []string {
	var r []string
	for _, s := range list {
		ast.Inspect(s, func(n ast.Node) bool {
			if c, ok := n.(*ast.CallExpr); ok && exprText(fset, c.Fun) == name {
				parts := make([]string, len(c.Args))
				for i, a := range c.Args {
					parts[i] = exprText(fset, a)
				}
				r = append(r, strings.Join(parts, ", "))
			}
			return true
		})
	}
	return r
}

// lastTopLoop returns the last loop at the top level of a statement list.
func lastTopLoop(list []ast.Stmt) ast.Stmt {
	var l ast.Stmt
	for _, s := range list {
		if isLoop(s) {
			l = s
		}
	}
	return l
}

func countTopLoops(list []ast.Stmt) int {
	n := 0
	for _, s := range list {
		if isLoop(s) {
			n++
		}
	}
	return n
}

func genStore(repo, out string, ps []*packages.Package) {
	sg := findFile(ps, "store", "segment.go")
	st := findFile(ps, "store", "store.go")
	sm := findFile(ps, "store", "stream.go")
	hp := findFile(ps, "store", "helper.go")
	fs := func(f *srcFile) *token.FileSet {
		if f == nil {
			return nil
		}
		return f.fset
	}
	var b strings.Builder
	b.WriteString("/-\nGENERATED by /verif/extract (store.go) from pkg/store/segment.go, store.go, stream.go and helper.go (`patch`):\nstructural facts of the functions Model/Index.lean, Model/Stream.lean and Model/Watch.lean transcribe. Do not edit.\n-/\nnamespace Uniflow.Generated.StoreFacts\n\n")
	b.WriteString(loopStructure)
	n := 0
	for _, m := range []string{"Index", "Store", "Swap", "Delete", "Scan", "Range", "conflict", "index", "unindex"} {
		defOutline(&b, "`(*segment)."+m+"`", "outline_segment_"+m, outlineOf(fs(sg), sg.funcDecl("segment", m)))
		n++
	}
	for _, m := range []string{"Scan", "Range"} {
		defOutline(&b, "`(*section)."+m+"`", "outline_section_"+m, outlineOf(fs(sg), sg.funcDecl("section", m)))
		n++
	}
	for _, m := range []string{"Watch", "Insert", "Update", "Delete", "Find", "find", "emit"} {
		defOutline(&b, "`(*store)."+m+"`", "outline_store_"+m, outlineOf(fs(st), st.funcDecl("store", m)))
		n++
	}
	for _, m := range []string{"Match", "Emit", "Next", "Close"} {
		defOutline(&b, "`(*stream)."+m+"`", "outline_stream_"+m, outlineOf(fs(sm), sm.funcDecl("stream", m)))
		n++
	}
	defOutline(&b, "`newStream` (with the pump goroutine)", "outline_newStream", outlineOf(fs(sm), sm.funcDecl("", "newStream")))
	defOutline(&b, "`patch` (helper.go)", "outline_patch", outlineOf(fs(hp), hp.funcDecl("", "patch")))

	// ---- segment phases
	for _, m := range []string{"Store", "Swap", "Delete"} {
		fmt.Fprintf(&b, "/-- `segment.%s` as phases (see extract/store.go) -/\ndef segment%sPhases : List String := %s\n\n", m, m, leanStrList(phasesOf(fs(sg), bodyOf(sg.funcDecl("segment", m)))))
	}

	// ---- section.Range: the collector
	rg := bodyOf(sg.funcDecl("section", "Range"))
	collector, insert, yield := "<missing>", "<missing>", "<missing>"
	for _, s := range rg {
		if as, ok := s.(*ast.AssignStmt); ok && len(as.Lhs) == 1 && exprText(fs(sg), as.Lhs[0]) == "entries" && as.Tok == token.DEFINE {
			collector = oneLine(exprText(fs(sg), as.Rhs[0]))
		}
		if ds, ok := s.(*ast.DeclStmt); ok {
			if t := exprText(fs(sg), ds); strings.HasPrefix(t, "var entries ") {
				collector = t
			}
		}
	}
	// the statement that adds an entry (any statement mentioning `entries` inside a function literal or loop after the declaration)
	if st := findStmt(rg, true, func(x ast.Stmt) bool {
		switch v := x.(type) {
		case *ast.ExprStmt:
			return strings.HasPrefix(exprText(fs(sg), v), "entries.")
		case *ast.AssignStmt:
			return len(v.Lhs) == 1 && exprText(fs(sg), v.Lhs[0]) == "entries" && v.Tok == token.ASSIGN
		}
		return false
	}); st != nil {
		insert = exprText(fs(sg), st)
	}
	if len(rg) > 0 {
		if r, ok := rg[len(rg)-1].(*ast.ReturnStmt); ok && len(r.Results) == 1 {
			if fl, ok := r.Results[0].(*ast.FuncLit); ok {
				yield = joinLines(outlineStmts(fs(sg), fl.Body.List))
			}
		}
	}
	fmt.Fprintf(&b, "/-- `section.Range`: what the ids are collected in, the statement that adds one, and how they are yielded -/\ndef rangeCollector : String := %s\ndef rangeCollect : String := %s\ndef rangeYield : String := %s\ndef rangeHeads : List String := %s\n\n", leanStr(collector), leanStr(insert), leanStr(yield), leanStrListInline(heads(fs(sg), rg)))

	// ---- section.Scan
	sc := bodyOf(sg.funcDecl("section", "Scan"))
	scl := loopOf(fs(sg), topLoop(sc, 0))
	skip, branch := "<missing>", "<missing>"
	var walks [][2]string
	for _, s := range scl.body {
		ifs, ok := s.(*ast.IfStmt)
		if !ok {
			continue
		}
		if len(ifs.Body.List) == 1 {
			if br, ok := ifs.Body.List[0].(*ast.BranchStmt); ok && br.Tok == token.CONTINUE {
				skip = exprText(fs(sg), ifs.Cond)
				continue
			}
		}
		branch = exprText(fs(sg), ifs.Cond)
		for _, blk := range []ast.Stmt{ifs.Body, ifs.Else} {
			bs, ok := blk.(*ast.BlockStmt)
			if !ok || bs == nil {
				continue
			}
			for _, x := range bs.List {
				es, ok := x.(*ast.ExprStmt)
				if !ok {
					continue
				}
				c, ok := es.X.(*ast.CallExpr)
				if !ok || len(c.Args) != 2 {
					continue
				}
				stop := "<none>"
				if fl, ok := c.Args[1].(*ast.FuncLit); ok {
					for _, y := range fl.Body.List {
						if yi, ok := y.(*ast.IfStmt); ok {
							if res, _, ok := returnsOf(fs(sg), yi.Body.List); ok && len(res) == 1 && res[0] == "false" {
								stop = exprText(fs(sg), yi.Cond)
							}
						}
					}
				}
				walks = append(walks, [2]string{exprText(fs(sg), c.Fun) + "(" + exprText(fs(sg), c.Args[0]) + ")", stop})
			}
		}
	}
	fmt.Fprintf(&b, "/-- `section.Scan`: the loop over the indexes, which are skipped, the branch on the bounds, and the two walks\n(start of the walk, condition under which it stops) -/\ndef scanLoopHeader : String := %s\ndef scanSkip : String := %s\ndef scanBranch : String := %s\ndef scanWalks : List (String × String) := %s\n\n", leanStr(scl.kind+" "+scl.header), leanStr(skip), leanStr(branch), leanPairs(walks))

	// ---- store.Insert / Update / Delete loops
	ins := bodyOf(st.funcDecl("store", "Insert"))
	il := topLoop(ins, 0)
	ili := loopOf(fs(st), il)
	fmt.Fprintf(&b, "/-- `store.Insert`: steps, number of loops at the top level, the loop and its body as phases -/\ndef insertHeads : List String := %s\ndef insertLoops : Nat := %d\ndef insertLoop : Loop := %s\ndef insertPhases : List String := %s\n\n", leanStrListInline(heads(fs(st), ins)), countTopLoops(ins), ili.lean(fs(st)), leanStrList(phasesOf(fs(st), ili.body)))
	upd := bodyOf(st.funcDecl("store", "Update"))
	ul := lastTopLoop(upd)
	uli := loopOf(fs(st), ul)
	fmt.Fprintf(&b, "/-- `store.Update`: steps, the swap loop (the last loop of the body) and its body as phases -/\ndef updateHeads : List String := %s\ndef updateLoop : Loop := %s\ndef updatePhases : List String := %s\n", leanStrListInline(heads(fs(st), upd)), uli.lean(fs(st)), leanStrList(phasesOf(fs(st), uli.body)))
	// the upsert branch
	upsertCond, upsertPhases := "<missing>", []string{}
	for _, s := range upd {
		if ifs, ok := s.(*ast.IfStmt); ok && strings.Contains(exprText(fs(st), ifs.Cond), "upsert") {
			upsertCond = exprText(fs(st), ifs.Cond)
			upsertPhases = phasesOf(fs(st), ifs.Body.List)
		}
	}
	fmt.Fprintf(&b, "def upsertCond : String := %s\ndef upsertPhases : List String := %s\n\n", leanStr(upsertCond), leanStrList(upsertPhases))
	del := bodyOf(st.funcDecl("store", "Delete"))
	dl := lastTopLoop(del)
	dli := loopOf(fs(st), dl)
	fmt.Fprintf(&b, "/-- `store.Delete`: steps, the loop and its body as phases -/\ndef deleteHeads : List String := %s\ndef deleteLoop : Loop := %s\ndef deletePhases : List String := %s\n\n", leanStrListInline(heads(fs(st), del)), dli.lean(fs(st)), leanStrList(phasesOf(fs(st), dli.body)))

	// ---- Find / find
	fd := bodyOf(st.funcDecl("store", "Find"))
	fmt.Fprintf(&b, "/-- `store.Find`: the steps at the top level -/\ndef findHeads : List String := %s\n\n", leanStrList(heads(fs(st), fd)))
	// the window arithmetic: the statements after the `if sort != nil` block up to the final return
	var win []string
	seenSort := false
	for _, s := range fd {
		if ifs, ok := s.(*ast.IfStmt); ok && exprText(fs(st), ifs.Cond) == "sort != nil" {
			seenSort = true
			continue
		}
		if !seenSort {
			continue
		}
		if _, ok := s.(*ast.ReturnStmt); ok {
			continue
		}
		win = append(win, windowStep(fs(st), s))
	}
	if win == nil {
		win = []string{}
	}
	fmt.Fprintf(&b, "/-- `store.Find`: the statements between the sort and the return, classified (clamp:x = `if x > len(docs) { x = len(docs) }`,\ndefault:x = `if x == 0 { x = len(docs) }`, rest:x,y = `if x == 0 || x > len(docs)-y { x = len(docs) - y }`, add:x,y = `x = y + x`,\nslice:a,b = `docs = docs[a:b]`) -/\ndef findWindow : List String := %s\n\n", leanStrListInline(win))
	var fcalls [][2]string
	for _, m := range []string{"Update", "Delete", "Find"} {
		for _, a := range callsOf(fs(st), bodyOf(st.funcDecl("store", m)), "s.find") {
			fcalls = append(fcalls, [2]string{m, a})
		}
	}
	fmt.Fprintf(&b, "/-- every call of `s.find` in Update / Delete / Find with its arguments -/\ndef findCalls : List (String × String) := %s\n\n", leanPairs(fcalls))
	ff := bodyOf(st.funcDecl("store", "find"))
	fmt.Fprintf(&b, "/-- `store.find`: steps, and the loop over the scanned documents -/\ndef findInnerHeads : List String := %s\ndef findScanLoop : Loop := %s\n\n", leanStrListInline(heads(fs(st), ff)), loopOf(fs(st), lastTopLoop(ff)).lean(fs(st)))

	// ---- emit
	em := bodyOf(st.funcDecl("store", "emit"))
	fmt.Fprintf(&b, "/-- `store.emit`: early exits, steps, the loop over the streams -/\ndef emitGuards : List (String × String) := %s\ndef emitHeads : List String := %s\ndef emitLoop : Loop := %s\n\n", leanPairs(guardsOf(fs(st), em)), leanStrListInline(heads(fs(st), em)), loopOf(fs(st), topLoop(em, 0)).lean(fs(st)))

	// ---- stream.Emit / Close
	for _, m := range []string{"Emit", "Close"} {
		body := bodyOf(sm.funcDecl("stream", m))
		var clauses []string
		if sel := findStmt(body, false, func(x ast.Stmt) bool { _, ok := x.(*ast.SelectStmt); return ok }); sel != nil {
			for _, c := range sel.(*ast.SelectStmt).Body.List {
				cc := c.(*ast.CommClause)
				comm := "default"
				if cc.Comm != nil {
					comm = exprText(fs(sm), cc.Comm)
				}
				clauses = append(clauses, fmt.Sprintf("  (%s, %s)", leanStr(comm), leanStrListInline(outlineStmts(fs(sm), cc.Body))))
			}
		}
		cs := "[]"
		if len(clauses) > 0 {
			cs = "[\n" + strings.Join(clauses, ",\n") + "\n]"
		}
		fmt.Fprintf(&b, "/-- `stream.%s`: the steps at the top level and the clauses of its select (communication, body) -/\ndef stream%sHeads : List String := %s\ndef stream%sClauses : List (String × List String) := %s\n\n", m, m, leanStrListInline(heads(fs(sm), body)), m, cs)
	}

	// ---- patch
	pb := bodyOf(hp.funcDecl("", "patch"))
	first, last := "<missing>", "<missing>"
	if len(pb) > 0 {
		first = strings.Join(outlineStmts(fs(hp), pb[:1]), "; ")
		if r, ok := pb[len(pb)-1].(*ast.ReturnStmt); ok {
			last = exprText(fs(hp), r)
		}
	}
	fmt.Fprintf(&b, "/-- `patch`: its first statement and its final return -/\ndef patchFirst : String := %s\ndef patchReturn : String := %s\n\n", leanStr(first), leanStr(last))
	b.WriteString("end Uniflow.Generated.StoreFacts\n")
	_ = os.WriteFile(filepath.Join(out, "StoreFacts.lean"), []byte(b.String()), 0o644)
	fmt.Printf("StoreFacts.lean: %d outlines\n", n+2)
}
