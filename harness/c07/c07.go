// Package c07: a symbol is active exactly when its whole reference closure is present
// (engine shared with C06: harness/c06).
package c07

import (
	"verifharness/c06"
	"verifharness/lib"
)

func Run(c *lib.Ctx) { c06.RunProp(c, "C07") }
