// Package c02: nodes answer each request once, in order, after all derived packets.
//
// Random small acyclic workflows are built from the real node.NewOneToOneNode /
// NewOneToManyNode / NewManyToOneNode, with actions that block on harness channels and
// harness-owned sink readers at the leaves. A schedule is a list of steps
//
//	ports <n> <i|a>...    (topology) the order in which node n's indexed ports are FIRST asked for
//	                      (`a` = the bare alias out / in for index 0); the generators draw it at random
//	send <val>            the source writer (a real packet.Writer opened on an out-port linked to
//	                      the first node's in-port) writes a request
//	rel <n> <outcome>     the action currently running in node n returns <outcome>
//	ans <k> <answer>      sink k answers its oldest unanswered request
//
// After every step the harness waits until the events the step must cause have been
// observed (actions entered, packets arrived at sinks, responses at the source writer).
//
// (a) correspondence: the same lines are replayed by the Lean model (Uniflow.Flow over
//
//	Uniflow.Node / Uniflow.Tracer) and the per-step observations are compared;
//
// (b) oracle: a specification-level reference in this file (requests form a tree; a request's
//
//	answer is the join of the answers to the packets derived from it; answers leave each
//	in-port in arrival order) predicts count, order and content of the responses at the
//	source writer, independently of the tracer mechanics and of the Lean model.
package c02

import (
	"errors"
	"fmt"
	"os"
	"sort"
	"strconv"
	"strings"
	"sync"
	"time"

	"github.com/siyul-park/uniflow/pkg/node"
	"github.com/siyul-park/uniflow/pkg/packet"
	"github.com/siyul-park/uniflow/pkg/port"
	"github.com/siyul-park/uniflow/pkg/process"
	"github.com/siyul-park/uniflow/pkg/types"

	"verifharness/lib"
)

// ------------------------------------------------------------------ values

// val is a payload: 'n' nil, 'a' atom, 'e' error (message lines), 's' slice.
type val struct {
	kind byte
	n    int
	ms   []int
	vs   []val
}

// ans is the content of an answer packet: the None singleton or a payload.
type ans struct {
	empty bool
	v     val
}

// sortJoins: the current case declared `orderfree` – the elements of every join (slice elements,
// error lines) are compared as multisets. A fork that hands ONE packet to several outputs gets the
// answers joined in the order its writers' goroutines deliver them, which no schedule step controls.
var sortJoins bool

func sorted(parts []string) []string {
	if sortJoins {
		sort.Strings(parts)
	}
	return parts
}

func (v val) String() string {
	switch v.kind {
	case 'n':
		return "n"
	case 'a':
		return "a" + strconv.Itoa(v.n)
	case 'e':
		parts := make([]string, len(v.ms))
		for i, m := range v.ms {
			parts[i] = strconv.Itoa(m)
		}
		return "e" + strings.Join(sorted(parts), ".")
	default:
		parts := make([]string, len(v.vs))
		for i, x := range v.vs {
			parts[i] = x.String()
		}
		return "[" + strings.Join(sorted(parts), ",") + "]"
	}
}

func (a ans) String() string {
	if a.empty {
		return "N"
	}
	return a.v.String()
}

// joinAns is the specification of packet.Join on answer contents.
func joinAns(as []ans) ans {
	if len(as) == 0 {
		return ans{empty: true}
	}
	if len(as) == 1 {
		return as[0]
	}
	var ms []int
	nerr := 0
	var pays []val
	for _, a := range as {
		if a.empty {
			continue
		}
		if a.v.kind == 'e' {
			nerr++
			ms = append(ms, a.v.ms...)
		} else {
			pays = append(pays, a.v)
		}
	}
	switch {
	case nerr > 0:
		return ans{v: val{kind: 'e', ms: ms}}
	case len(pays) == 0:
		return ans{empty: true}
	case len(pays) == 1:
		return ans{v: pays[0]}
	}
	return ans{v: val{kind: 's', vs: pays}}
}

func parseVal(s string) (val, bool) {
	if s == "n" {
		return val{kind: 'n'}, true
	}
	if len(s) > 1 && (s[0] == 'a' || s[0] == 'e') {
		k, err := strconv.Atoi(s[1:])
		if err != nil || k < 0 {
			return val{}, false
		}
		if s[0] == 'a' {
			return val{kind: 'a', n: k}, true
		}
		return val{kind: 'e', ms: []int{k}}, true
	}
	return val{}, false
}

func toValue(v val) types.Value {
	switch v.kind {
	case 'a':
		return types.NewInt(v.n)
	case 'e':
		return types.NewError(errors.New(strconv.Itoa(v.ms[0])))
	}
	return nil
}

func canonVal(v types.Value) string {
	switch x := v.(type) {
	case nil:
		return "n"
	case types.Error:
		return "e" + strings.Join(sorted(strings.Split(x.Error(), "\n")), ".")
	case types.Int:
		return "a" + strconv.FormatInt(x.Int(), 10)
	case types.Slice:
		parts := make([]string, 0, x.Len())
		for _, e := range x.Values() {
			parts = append(parts, canonVal(e))
		}
		return "[" + strings.Join(sorted(parts), ",") + "]"
	}
	return fmt.Sprintf("?%T", v)
}

func canonPkt(p *packet.Packet) string {
	if p == nil {
		return "NILPTR"
	}
	if p == packet.None {
		return "N"
	}
	return canonVal(p.Payload())
}

// ------------------------------------------------------------------ topology

type tgt struct {
	sink    bool
	n, port int // node target
	k       int // sink index
}

type gnode struct {
	kind byte // 'o' one-to-one, 'm' one-to-many, 'j' many-to-one
	ar   int
	// ord: the order in which the indexed ports (out[i] of 'm', in[i] of 'j') are FIRST asked for
	// (`ports` line); -1 stands for the bare alias "out"/"in" (= index 0). Ports not listed are asked
	// for afterwards in ascending order. The symbol linker iterates a map, so any order is valid usage.
	ord []int
}

// portName: the name under which port i of a node is asked for; the bare alias for index 0 when the
// node's `ports` line used it.
func (n gnode) portName(base string, i int) string {
	if i == 0 {
		for _, o := range n.ord {
			if o == -1 {
				return base
			}
		}
	}
	return node.PortWithIndex(base, i)
}

func (n gnode) firstAsk(base string, ask func(name string)) {
	for _, o := range n.ord {
		if o == -1 {
			ask(base)
		} else {
			ask(node.PortWithIndex(base, o))
		}
	}
	for j := 0; j < n.ar; j++ {
		ask(n.portName(base, j))
	}
}

type wlink struct {
	n, w int
	ts   []tgt
}

type gspec struct {
	nodes   []gnode
	links   []wlink
	hasSrc  bool
	srcN    int
	srcPort int
	nSinks  int
}

func (g *gspec) targets(n, w int) []tgt {
	for _, l := range g.links {
		if l.n == n && l.w == w {
			return l.ts
		}
	}
	return nil
}

func (g *gspec) addLink(n, w int, t tgt) {
	for i := range g.links {
		if g.links[i].n == n && g.links[i].w == w {
			g.links[i].ts = append(g.links[i].ts, t)
			return
		}
	}
	g.links = append(g.links, wlink{n: n, w: w, ts: []tgt{t}})
}

func nIn(n gnode) int {
	if n.kind == 'j' {
		return n.ar
	}
	return 1
}

func nOut(n gnode) int {
	if n.kind == 'm' {
		return n.ar
	}
	return 1
}

// ------------------------------------------------------------------ specification-level reference (oracle)

type sReq struct {
	pay      val
	parent   *sSlot
	col      int
	node     int
	port     int
	slots    []*sSlot
	emitted  bool
	echoSelf bool
}

type sSlot struct {
	owner *sReq // nil: the source writer
	cells []*ans
	echo  *ans // non-nil: nothing downstream accepted the packet; the packet itself is the answer
}

func (s *sSlot) complete() bool {
	if s.echo != nil {
		return true
	}
	for _, c := range s.cells {
		if c == nil {
			return false
		}
	}
	return true
}

func (s *sSlot) answer() ans {
	if s.echo != nil {
		return *s.echo
	}
	as := make([]ans, len(s.cells))
	for i, c := range s.cells {
		as[i] = *c
	}
	return joinAns(as)
}

func (r *sReq) complete() bool {
	if !r.emitted {
		return false
	}
	for _, s := range r.slots {
		if !s.complete() {
			return false
		}
	}
	return true
}

func (r *sReq) answer() ans {
	if r.echoSelf {
		return ans{v: r.pay}
	}
	as := make([]ans, len(r.slots))
	for i, s := range r.slots {
		as[i] = s.answer()
	}
	return joinAns(as)
}

type sNode struct {
	inq      [][]*sReq
	inflight [][]*sReq
	cur      *sReq
	curGrp   []*sReq
	cnt      []int
	groups   map[int][]*sReq
}

type sim struct {
	g        *gspec
	nodes    []*sNode
	sinkQ    [][]*sReq
	entries  []string
	arrivals []string
	internal []string // deliveries to node in-ports (D) and answers leaving node in-ports (A)
	resps    []string
	pending  int // requests sent and not yet answered at the source
	maxInFl  int
	// silent: this step delivered a packet to an in-port of a many-to-one node where it neither completed a
	// group nor could be answered yet (its echo waits behind an older request of that in-port): nothing
	// observable tells when the forward goroutine of that in-port has consumed it
	silent bool
}

func newSim(g *gspec) *sim {
	s := &sim{g: g, sinkQ: make([][]*sReq, g.nSinks)}
	for _, n := range g.nodes {
		k := nIn(n)
		s.nodes = append(s.nodes, &sNode{inq: make([][]*sReq, k), inflight: make([][]*sReq, k), cnt: make([]int, k), groups: map[int][]*sReq{}})
	}
	return s
}

func (s *sim) clear() {
	s.entries, s.arrivals, s.resps, s.internal, s.silent = nil, nil, nil, nil, false
}

func (s *sim) obs() string {
	xs := append(append(append([]string{}, s.entries...), s.arrivals...), s.internal...)
	sort.Strings(xs)
	xs = append(xs, s.resps...)
	if len(xs) == 0 {
		return "-"
	}
	return strings.Join(xs, " ")
}

func (s *sim) deliver(t tgt, r *sReq) {
	if t.sink {
		s.sinkQ[t.k] = append(s.sinkQ[t.k], r)
		s.arrivals = append(s.arrivals, fmt.Sprintf("K%d:%s", t.k, r.pay))
		return
	}
	r.node, r.port = t.n, t.port
	s.internal = append(s.internal, fmt.Sprintf("D%d.%d:%s", t.n, t.port, r.pay))
	nd := s.nodes[t.n]
	nd.inq[t.port] = append(nd.inq[t.port], r)
	s.tryStart(t.n)
}

func (s *sim) tryStart(n int) {
	nd := s.nodes[n]
	spec := s.g.nodes[n]
	for progress := true; progress; {
		progress = false
		for p := range nd.inq {
			if len(nd.inq[p]) == 0 || (nd.cur != nil && nd.cur.port == p) {
				continue
			}
			if spec.kind != 'j' && nd.cur != nil {
				continue
			}
			r := nd.inq[p][0]
			nd.inq[p] = nd.inq[p][1:]
			nd.inflight[p] = append(nd.inflight[p], r)
			progress = true
			if spec.kind != 'j' {
				nd.cur, nd.curGrp = r, []*sReq{r}
				s.entries = append(s.entries, fmt.Sprintf("E%d:%s", n, r.pay))
				continue
			}
			gi := nd.cnt[p]
			nd.cnt[p]++
			if nd.groups[gi] == nil {
				nd.groups[gi] = make([]*sReq, spec.ar)
			}
			nd.groups[gi][p] = r
			full := true
			for _, m := range nd.groups[gi] {
				if m == nil {
					full = false
				}
			}
			if full {
				nd.cur, nd.curGrp = r, nd.groups[gi]
				delete(nd.groups, gi)
				pays := make([]string, len(nd.curGrp))
				for i, m := range nd.curGrp {
					pays[i] = m.pay.String()
				}
				s.entries = append(s.entries, fmt.Sprintf("E%d:%s", n, strings.Join(pays, "+")))
			} else {
				r.emitted, r.echoSelf = true, true
				s.flush(n, p)
				for _, x := range nd.inflight[p] {
					if x == r {
						s.silent = true
					}
				}
			}
		}
	}
}

// outcome of an action as the schedule dictates it
type cmd struct {
	kind byte   // 'o' new packet, 'i' the in packet itself, 'e' error packet, 'm' many, 'd' drop, 's' the in packet itself on outputs 0..k-1
	v    val    // o, e
	vs   []*val // m (nil = no packet for that port, or – with eq – the in packet itself)
	eq   []bool // m: eq[i] = the in packet itself on port i (`=`)
	k    int    // s
}

func (s *sim) release(n int, c cmd) bool {
	nd := s.nodes[n]
	r := nd.cur
	if r == nil {
		return false
	}
	spec := s.g.nodes[n]
	nd.cur, nd.curGrp = nil, nil
	type wr struct {
		w int
		v val
	}
	var writes []wr
	switch c.kind {
	case 'o':
		writes = []wr{{1, c.v}}
	case 'i':
		writes = []wr{{1, r.pay}}
	case 'e':
		writes = []wr{{0, c.v}}
	case 'm':
		for i, v := range c.vs {
			if i >= nOut(spec) {
				continue
			}
			if c.eq[i] {
				writes = append(writes, wr{i + 1, r.pay})
			} else if v != nil {
				writes = append(writes, wr{i + 1, *v})
			}
		}
	case 's':
		// the same packet on several outputs: every write is a request of its own downstream (the node
		// hands its tracer a copy per output: node.derive); the answers are joined in port order
		for i := 0; i < c.k && i < nOut(spec); i++ {
			writes = append(writes, wr{i + 1, r.pay})
		}
	}
	if len(writes) == 0 {
		r.echoSelf = true
	}
	for _, w := range writes {
		ts := s.g.targets(n, w.w)
		sl := &sSlot{owner: r}
		r.slots = append(r.slots, sl)
		if len(ts) == 0 {
			sl.echo = &ans{v: w.v}
			continue
		}
		sl.cells = make([]*ans, len(ts))
	}
	// deliveries happen write by write, in port order, after every slot exists
	si := 0
	for _, w := range writes {
		ts := s.g.targets(n, w.w)
		sl := r.slots[si]
		si++
		for col, t := range ts {
			s.deliver(t, &sReq{pay: w.v, parent: sl, col: col})
		}
	}
	r.emitted = true
	s.flush(n, r.port)
	s.tryStart(n)
	return true
}

func (s *sim) flush(n, p int) {
	nd := s.nodes[n]
	for len(nd.inflight[p]) > 0 && nd.inflight[p][0].complete() {
		r := nd.inflight[p][0]
		nd.inflight[p] = nd.inflight[p][1:]
		s.internal = append(s.internal, fmt.Sprintf("A%d.%d:%s", n, p, r.answer()))
		s.give(r.parent, r.col, r.answer())
	}
}

func (s *sim) give(sl *sSlot, col int, a ans) {
	sl.cells[col] = &a
	if !sl.complete() {
		return
	}
	if sl.owner == nil {
		s.resps = append(s.resps, "R"+sl.answer().String())
		s.pending--
		return
	}
	s.flush(sl.owner.node, sl.owner.port)
}

func (s *sim) send(v val) {
	s.pending++
	if s.pending > s.maxInFl {
		s.maxInFl = s.pending
	}
	sl := &sSlot{cells: make([]*ans, 1)}
	s.deliver(tgt{n: s.g.srcN, port: s.g.srcPort}, &sReq{pay: v, parent: sl, col: 0})
}

// sinkAnswer: a == nil means "answer with the request packet itself"
func (s *sim) sinkAnswer(k int, a *ans) bool {
	if k >= len(s.sinkQ) || len(s.sinkQ[k]) == 0 {
		return false
	}
	r := s.sinkQ[k][0]
	s.sinkQ[k] = s.sinkQ[k][1:]
	if a == nil {
		a = &ans{v: r.pay}
	}
	s.give(r.parent, r.col, *a)
	return true
}

func (s *sim) idle() bool {
	for _, nd := range s.nodes {
		if nd.cur != nil {
			return false
		}
	}
	for _, q := range s.sinkQ {
		if len(q) > 0 {
			return false
		}
	}
	return true
}

// ------------------------------------------------------------------ the real workflow

type event struct {
	kind byte // 'E' action entered, 'K' sink arrival, 'R' response at the source
	text string
	k    int
	pck  *packet.Packet
}

// rigCore: the node objects, their links, the source's out-port and the sinks' in-ports – shared by every
// process that runs through the workflow.
type rigCore struct {
	g        *gspec
	nodes    []node.Node
	src      *port.OutPort
	sinkIn   []*port.InPort
	mu       sync.Mutex
	sessions map[*process.Process]*rig
	stray    chan string // events of a process no session is (any longer) open for
}

// rig: one PROCESS running through the workflow: its source writer, sink readers, the gates of the
// actions running in it and the events observed in it.
type rig struct {
	*rigCore
	proc    *process.Process
	srcW    *packet.Writer
	sinkR   []*packet.Reader
	sinkQ   [][]*packet.Packet
	gates   []chan cmd
	ev      chan event
	stopped chan struct{}
	exited  bool
}

func (core *rigCore) session(proc *process.Process) *rig {
	core.mu.Lock()
	defer core.mu.Unlock()
	return core.sessions[proc]
}

func buildRig(g *gspec) *rig { return buildCore(g).open() }

func buildCore(g *gspec) *rigCore {
	rg := &rigCore{g: g, sessions: map[*process.Process]*rig{}, stray: make(chan string, 256)}
	for i, spec := range g.nodes {
		i, spec := i, spec
		// the action runs in the process it is called with: its events and its gate are that session's
		enter := func(proc *process.Process, text string) *rig {
			ss := rg.session(proc)
			if ss == nil {
				select {
				case rg.stray <- text:
				default:
				}
				return nil
			}
			ss.ev <- event{kind: 'E', text: text}
			return ss
		}
		wait := func(ss *rig) (cmd, bool) {
			if ss == nil {
				return cmd{}, false
			}
			gate, stopped := ss.gates[i], ss.stopped
			select {
			case c := <-gate:
				return c, true
			case <-stopped:
				return cmd{}, false
			}
		}
		switch spec.kind {
		case 'o':
			rg.nodes = append(rg.nodes, node.NewOneToOneNode(func(proc *process.Process, in *packet.Packet) (*packet.Packet, *packet.Packet) {
				c, ok := wait(enter(proc, fmt.Sprintf("E%d:%s", i, canonPkt(in))))
				if !ok {
					return in, nil
				}
				switch c.kind {
				case 'o':
					return packet.New(toValue(c.v)), nil
				case 'e':
					return nil, packet.New(toValue(c.v))
				case 'd':
					return nil, nil
				}
				return in, nil
			}))
		case 'm':
			n := node.NewOneToManyNode(func(proc *process.Process, in *packet.Packet) ([]*packet.Packet, *packet.Packet) {
				c, ok := wait(enter(proc, fmt.Sprintf("E%d:%s", i, canonPkt(in))))
				if !ok {
					return nil, nil
				}
				switch c.kind {
				case 'm':
					outs := make([]*packet.Packet, len(c.vs))
					for j, v := range c.vs {
						if c.eq[j] {
							outs[j] = in
						} else if v != nil {
							outs[j] = packet.New(toValue(*v))
						}
					}
					return outs, nil
				case 's':
					outs := make([]*packet.Packet, c.k)
					for j := range outs {
						outs[j] = in
					}
					return outs, nil
				case 'e':
					return nil, packet.New(toValue(c.v))
				}
				return nil, nil
			})
			spec.firstAsk(node.PortOut, func(name string) { n.Out(name) })
			rg.nodes = append(rg.nodes, n)
		default:
			n := node.NewManyToOneNode(func(proc *process.Process, ins []*packet.Packet) (*packet.Packet, *packet.Packet) {
				pays := make([]string, len(ins))
				for j, p := range ins {
					pays[j] = canonPkt(p)
				}
				c, ok := wait(enter(proc, fmt.Sprintf("E%d:%s", i, strings.Join(pays, "+"))))
				if !ok {
					return nil, nil
				}
				switch c.kind {
				case 'o':
					return packet.New(toValue(c.v)), nil
				case 'e':
					return nil, packet.New(toValue(c.v))
				}
				return nil, nil
			})
			spec.firstAsk(node.PortIn, func(name string) { n.In(name) })
			rg.nodes = append(rg.nodes, n)
		}
	}
	inPort := func(n, p int) *port.InPort {
		if g.nodes[n].kind == 'j' {
			return rg.nodes[n].In(g.nodes[n].portName(node.PortIn, p))
		}
		return rg.nodes[n].In(node.PortIn)
	}
	outPort := func(n, w int) *port.OutPort {
		if w == 0 {
			return rg.nodes[n].Out(node.PortError)
		}
		if g.nodes[n].kind == 'm' {
			return rg.nodes[n].Out(g.nodes[n].portName(node.PortOut, w-1))
		}
		return rg.nodes[n].Out(node.PortOut)
	}
	rg.sinkIn = make([]*port.InPort, g.nSinks)
	for k := range rg.sinkIn {
		rg.sinkIn[k] = port.NewIn()
	}
	for _, l := range g.links {
		for _, t := range l.ts {
			if t.sink {
				outPort(l.n, l.w).Link(rg.sinkIn[t.k])
			} else {
				outPort(l.n, l.w).Link(inPort(t.n, t.port))
			}
		}
	}
	rg.src = port.NewOut()
	rg.src.Link(inPort(g.srcN, g.srcPort))
	return rg
}

func (core *rigCore) inPort(n, p int) *port.InPort {
	if core.g.nodes[n].kind == 'j' {
		return core.nodes[n].In(core.g.nodes[n].portName(node.PortIn, p))
	}
	return core.nodes[n].In(node.PortIn)
}

// open starts a new process on the shared node objects.
func (core *rigCore) open() *rig {
	g := core.g
	rg := &rig{rigCore: core, ev: make(chan event, 4096), stopped: make(chan struct{})}
	for range g.nodes {
		rg.gates = append(rg.gates, make(chan cmd))
	}
	rg.proc = process.New()
	core.mu.Lock()
	core.sessions[rg.proc] = rg
	core.mu.Unlock()
	for n, spec := range g.nodes {
		for p := 0; p < nIn(spec); p++ {
			n, p := n, p
			r := core.inPort(n, p).Open(rg.proc)
			r.AddInboundHook(packet.HookFunc(func(pck *packet.Packet) {
				rg.ev <- event{kind: 'D', text: fmt.Sprintf("D%d.%d:%s", n, p, canonPkt(pck))}
			}))
			r.AddOutboundHook(packet.HookFunc(func(pck *packet.Packet) {
				rg.ev <- event{kind: 'A', text: fmt.Sprintf("A%d.%d:%s", n, p, canonPkt(pck))}
			}))
		}
	}
	rg.srcW = core.src.Open(rg.proc)
	go func(w *packet.Writer) {
		for b := range w.Receive() {
			rg.ev <- event{kind: 'R', text: "R" + canonPkt(b)}
		}
	}(rg.srcW)
	rg.sinkQ = make([][]*packet.Packet, g.nSinks)
	for k := range core.sinkIn {
		r := core.sinkIn[k].Open(rg.proc)
		rg.sinkR = append(rg.sinkR, r)
		go func(k int, r *packet.Reader) {
			for p := range r.Read() {
				rg.ev <- event{kind: 'K', text: fmt.Sprintf("K%d:%s", k, canonPkt(p)), k: k, pck: p}
			}
		}(k, r)
	}
	return rg
}

// exit ends this process (the node objects stay).
func (rg *rig) exit() {
	if rg.exited {
		return
	}
	rg.exited = true
	rg.proc.Exit(nil)
	close(rg.stopped)
	rg.mu.Lock()
	delete(rg.sessions, rg.proc)
	rg.mu.Unlock()
}

func (core *rigCore) closeNodes() {
	for _, n := range core.nodes {
		_ = n.Close()
	}
}

func (rg *rig) close() {
	rg.exit()
	rg.closeNodes()
}

// settleTracers waits until the tracers' size has been stable for a moment (bounded).
func (rg *rig) settleTracers() {
	last, stable := rg.tracerLen(), 0
	for i := 0; i < 400 && stable < 8; i++ {
		time.Sleep(50 * time.Microsecond)
		if n := rg.tracerLen(); n == last {
			stable++
		} else {
			last, stable = n, 0
		}
	}
}

func (rg *rig) tracerLen() int {
	total := 0
	for _, n := range rg.nodes {
		if tr := node.VerifTracer(n); tr != nil {
			total += tr.VerifLen()
		}
	}
	return total
}

const watchdog = 4 * time.Second

// collect waits for the predicted numbers of events and returns what was observed in the
// canonical form; ok=false when the watchdog expired.
func (rg *rig) collect(nE, nK, nR, nI int, grace time.Duration) (string, bool) {
	var ek, rs []string
	gotE, gotK, gotR, gotI := 0, 0, 0, 0
	take := func(e event) {
		switch e.kind {
		case 'D', 'A':
			gotI++
			ek = append(ek, e.text)
		case 'E':
			gotE++
			ek = append(ek, e.text)
		case 'K':
			gotK++
			ek = append(ek, e.text)
			rg.sinkQ[e.k] = append(rg.sinkQ[e.k], e.pck)
		case 'R':
			gotR++
			rs = append(rs, e.text)
		}
	}
	ok := true
	timer := time.NewTimer(watchdog)
	defer timer.Stop()
	for ok && (gotE < nE || gotK < nK || gotR < nR || gotI < nI) {
		select {
		case e := <-rg.ev:
			take(e)
		case <-timer.C:
			ok = false
		}
	}
	// anything else that is already there (never expected on a correct tree)
	if grace > 0 {
		g := time.NewTimer(grace)
	drain:
		for {
			select {
			case e := <-rg.ev:
				take(e)
			case <-g.C:
				break drain
			}
		}
		g.Stop()
	} else {
	drain2:
		for {
			select {
			case e := <-rg.ev:
				take(e)
			default:
				break drain2
			}
		}
	}
	sort.Strings(ek)
	xs := append(ek, rs...)
	if len(xs) == 0 {
		return "-", ok
	}
	return strings.Join(xs, " "), ok
}

// ------------------------------------------------------------------ one case = a list of lines

type caseRun struct {
	c       *lib.Ctx
	sc      *lib.Script
	g       *gspec
	rg      *rig
	sm      *sim
	lines   []string
	impl    []string
	fails   []lib.OracleFail
	aborted bool
	sent    int
	gotResp int
	resps   []string
	steps   int
	lastPck *packet.Packet // the packet object of the latest `send` (for `resend`)
	lastVal string
	multi   *multiRun // non-nil: one of several processes running through the same node objects
	idx     int       // its number there (1-based)
}

func newCase(c *lib.Ctx, sc *lib.Script) *caseRun {
	sc.Begin()
	sortJoins = false
	return &caseRun{c: c, sc: sc, g: &gspec{}}
}

func (cr *caseRun) record(line, out string) {
	cr.lines = append(cr.lines, line)
	cr.impl = append(cr.impl, out)
	if cr.multi != nil {
		// the model runs per process: the lines are handed to it process by process at the end
		cr.multi.log = append(cr.multi.log, fmt.Sprintf("%s\t=> impl (process %d): %s", line, cr.idx, out))
		return
	}
	cr.sc.Op(line, out)
}

func (cr *caseRun) replay() string {
	if cr.multi != nil {
		return cr.multi.replay()
	}
	var b strings.Builder
	for i, l := range cr.lines {
		fmt.Fprintf(&b, "%s\t=> impl: %s\n", l, cr.impl[i])
	}
	return b.String()
}

func (cr *caseRun) fail(class, what string) {
	cr.fails = append(cr.fails, lib.OracleFail{Class: class, What: what, Replay: cr.replay()})
}

func atoi(s string) (int, bool) {
	k, err := strconv.Atoi(s)
	return k, err == nil && k >= 0
}

// topo handles node/link/src lines; returns false when the line is not a topology line.
func (cr *caseRun) topo(f []string) (bool, bool) {
	g := cr.g
	switch {
	case len(f) == 1 && f[0] == "orderfree" && len(g.nodes) == 0:
		sortJoins = true
	case len(f) == 2 && f[0] == "node" && f[1] == "o":
		g.nodes = append(g.nodes, gnode{kind: 'o', ar: 1})
	case len(f) == 3 && f[0] == "node" && (f[1] == "m" || f[1] == "j"):
		k, ok := atoi(f[2])
		if !ok || k > 62 {
			return true, false
		}
		g.nodes = append(g.nodes, gnode{kind: f[1][0], ar: k})
	case len(f) >= 3 && f[0] == "ports":
		// ports <n> <i|a>...: the order in which node n's indexed ports are first asked for
		n, ok := atoi(f[1])
		if !ok || n >= len(g.nodes) || g.nodes[n].kind == 'o' || g.nodes[n].ord != nil {
			return true, false
		}
		var ord []int
		for _, t := range f[2:] {
			if t == "a" {
				if g.nodes[n].ar == 0 {
					return true, false
				}
				ord = append(ord, -1)
				continue
			}
			i, ok := atoi(t)
			if !ok || i >= g.nodes[n].ar {
				return true, false
			}
			ord = append(ord, i)
		}
		g.nodes[n].ord = ord
	case len(f) == 6 && f[0] == "link" && f[3] == "n":
		n, ok1 := atoi(f[1])
		w, ok2 := atoi(f[2])
		m, ok3 := atoi(f[4])
		p, ok4 := atoi(f[5])
		if !(ok1 && ok2 && ok3 && ok4) || n >= len(g.nodes) || m >= len(g.nodes) || m <= n || w > nOut(g.nodes[n]) || p >= nIn(g.nodes[m]) {
			return true, false
		}
		g.addLink(n, w, tgt{n: m, port: p})
	case len(f) == 5 && f[0] == "link" && f[3] == "s":
		n, ok1 := atoi(f[1])
		w, ok2 := atoi(f[2])
		k, ok3 := atoi(f[4])
		if !(ok1 && ok2 && ok3) || n >= len(g.nodes) || w > nOut(g.nodes[n]) || k != g.nSinks {
			return true, false
		}
		g.nSinks++
		g.addLink(n, w, tgt{sink: true, k: k})
	case len(f) == 3 && f[0] == "src":
		m, ok1 := atoi(f[1])
		p, ok2 := atoi(f[2])
		if !(ok1 && ok2) || m >= len(g.nodes) || p >= nIn(g.nodes[m]) {
			return true, false
		}
		g.hasSrc, g.srcN, g.srcPort = true, m, p
	default:
		return false, false
	}
	return true, true
}

func parseCmd(f []string) (cmd, bool) {
	switch {
	case len(f) == 2 && (f[0] == "o" || f[0] == "e"):
		v, ok := parseVal(f[1])
		if !ok || v.kind == 'n' && f[0] == "e" {
			return cmd{}, false
		}
		return cmd{kind: f[0][0], v: v}, true
	case len(f) == 1 && f[0] == "i":
		return cmd{kind: 'i'}, true
	case len(f) == 1 && f[0] == "d":
		return cmd{kind: 'd'}, true
	case len(f) == 2 && f[0] == "s":
		k, ok := atoi(f[1])
		if !ok || k > 8 {
			return cmd{}, false
		}
		return cmd{kind: 's', k: k}, true
	case len(f) >= 1 && f[0] == "m":
		c := cmd{kind: 'm'}
		for _, t := range f[1:] {
			if t == "-" || t == "=" {
				c.vs = append(c.vs, nil)
				c.eq = append(c.eq, t == "=")
				continue
			}
			v, ok := parseVal(t)
			if !ok {
				return cmd{}, false
			}
			c.vs = append(c.vs, &v)
			c.eq = append(c.eq, false)
		}
		return c, true
	}
	return cmd{}, false
}

// exec runs one line on the implementation and on the reference; returns false on a line it
// cannot interpret (corpus files only).
func (cr *caseRun) exec(line string) bool {
	f := strings.Fields(line)
	if len(f) == 0 {
		return true
	}
	if cr.rg == nil {
		if isTopo, ok := cr.topo(f); isTopo {
			if ok {
				cr.record(line, "ok")
			}
			return ok
		}
		if !cr.g.hasSrc {
			return false
		}
		cr.rg = buildRig(cr.g)
		cr.sm = newSim(cr.g)
	}
	if cr.aborted {
		return true
	}
	sm, rg := cr.sm, cr.rg
	sm.clear()
	grace := time.Duration(0)
	switch {
	case len(f) == 2 && f[0] == "send":
		v, ok := parseVal(f[1])
		if !ok {
			return false
		}
		sm.send(v)
		cr.sent++
		cr.lastPck, cr.lastVal = packet.New(toValue(v)), f[1]
		if n := rg.srcW.Write(cr.lastPck); n != 1 {
			cr.fail("source-write", fmt.Sprintf("source writer accepted by %d readers", n))
		}
	case len(f) == 2 && f[0] == "resend":
		// the client writes the SAME packet object once more: a second, independent request
		// (Writer.Write hands every reader a packet of its own)
		v, ok := parseVal(f[1])
		if !ok || cr.lastPck == nil || f[1] != cr.lastVal {
			return false
		}
		sm.send(v)
		cr.sent++
		if n := rg.srcW.Write(cr.lastPck); n != 1 {
			cr.fail("source-write", fmt.Sprintf("source writer accepted by %d readers", n))
		}
	case len(f) >= 3 && f[0] == "rel":
		n, ok := atoi(f[1])
		c, ok2 := parseCmd(f[2:])
		if !ok || !ok2 || n >= len(cr.g.nodes) {
			return false
		}
		kind := cr.g.nodes[n].kind
		if (c.kind == 'i' && kind != 'o') || (c.kind == 'm' && kind != 'm') || (c.kind == 's' && kind != 'm') || (c.kind == 'o' && kind == 'm') {
			return false
		}
		if !sm.release(n, c) {
			return false
		}
		select {
		case rg.gates[n] <- c:
		case <-time.After(watchdog):
			cr.record(line, "stuck")
			cr.fail("action-not-running", fmt.Sprintf("node %d is not inside its action although a request is due there", n))
			cr.aborted = true
			return true
		}
	case len(f) == 3 && f[0] == "ans":
		k, ok := atoi(f[1])
		if !ok || k >= cr.g.nSinks {
			return false
		}
		var a *ans
		switch f[2] {
		case "same":
		case "N":
			a = &ans{empty: true}
		default:
			v, ok := parseVal(f[2])
			if !ok {
				return false
			}
			a = &ans{v: v}
		}
		if !sm.sinkAnswer(k, a) {
			return false
		}
		if len(rg.sinkQ[k]) == 0 {
			cr.record(line, "stuck")
			cr.fail("sink-empty", fmt.Sprintf("sink %d has no request although one is due", k))
			cr.aborted = true
			return true
		}
		req := rg.sinkQ[k][0]
		rg.sinkQ[k] = rg.sinkQ[k][1:]
		back := req
		if a != nil {
			if a.empty {
				back = packet.None
			} else {
				back = packet.New(toValue(a.v))
			}
		}
		if !rg.sinkR[k].Receive(back) {
			cr.fail("sink-receive", fmt.Sprintf("Reader.Receive on sink %d returned false", k))
		}
	case len(f) == 1 && f[0] == "end":
		out, _ := rg.collect(0, 0, 0, 0, 5*time.Millisecond)
		if out != "-" {
			cr.record(line, "late:"+out)
			cr.fail("unexpected-event", "events after the schedule finished: "+out)
			return true
		}
		q := 0
		if rg.tracerLen() == 0 {
			q = 1
		}
		// the model also prints the REFERENCE answers (join over each request's derivation tree, computed
		// from its ghost log) once every request is determined; the real responses must equal them
		ref := "F-"
		if cr.sent > 0 && cr.gotResp == cr.sent && sm.pending == 0 {
			ref = "F" + strings.Join(cr.resps, ",")
		}
		got := fmt.Sprintf("Q%d P0 %s M1", q, ref)
		cr.record(line, got)
		if sm.idle() && sm.pending == 0 && q != 1 {
			cr.fail("tracer-not-empty", "every request was answered and no action is running, but the nodes' tracers still hold entries")
		}
		if sm.idle() && cr.gotResp != cr.sent {
			cr.fail("response-count", fmt.Sprintf("%d requests sent, %d responses received", cr.sent, cr.gotResp))
		}
		return true
	default:
		return false
	}
	cr.steps++
	want := sm.obs()
	got, ok := rg.collect(len(sm.entries), len(sm.arrivals), len(sm.resps), len(sm.internal), grace)
	// S1: the model's self-check that every response so far equals the reference answer of its request
	if sm.silent {
		// The forward goroutines of a many-to-one node's in-ports run concurrently: a packet delivered to
		// another in-port by the NEXT step must not overtake this one inside the node (both orders are valid
		// runs of the real node; the oracle and the model fix arrival order). Wait until the node's tracer
		// has stopped changing (the goroutine registers the packet with `Read` and `Write(nil, in)`).
		rg.settleTracers()
	}
	cr.record(line, external(got)+" S1")
	for _, t := range strings.Fields(got) {
		if strings.HasPrefix(t, "R") {
			cr.gotResp++
			cr.resps = append(cr.resps, t[1:])
		}
	}
	if got != want {
		what := fmt.Sprintf("after %q: expected %q, observed %q", line, want, got)
		if !ok {
			what += " (watchdog expired)"
		}
		cr.fail("response-mismatch", what)
		cr.aborted = true
	}
	return true
}

// external drops the node-internal events (deliveries to / answers from node in-ports, seen
// through reader hooks); the Lean model is compared on the rest.
func external(obs string) string {
	var xs []string
	for _, t := range strings.Fields(obs) {
		if t[0] != 'D' && t[0] != 'A' {
			xs = append(xs, t)
		}
	}
	if len(xs) == 0 {
		return "-"
	}
	return strings.Join(xs, " ")
}

func (cr *caseRun) finish() {
	if cr.rg != nil {
		cr.rg.close()
	}
}

// ------------------------------------------------------------------ several processes through the same nodes

// multiRun: one workflow – ONE set of node objects – used by 2–3 processes, one after the other
// (`newproc`: the current process exits, the next one starts) or at the same time (`newproc+`; `proc k`
// switches the process the following lines belong to). Every process has its own source writer, sink
// readers, requests, request-tree oracle and its own run of the Lean model (the Flow model is per
// process: whatever the real nodes keep between processes must not show).
type multiRun struct {
	c       *lib.Ctx
	sc      *lib.Script
	topoRun *caseRun // parses the topology lines
	topo    []string
	core    *rigCore
	ss      []*caseRun
	cur     int
	log     []string
	fails   []lib.OracleFail
}

func newMulti(c *lib.Ctx, sc *lib.Script) *multiRun {
	sortJoins = false
	m := &multiRun{c: c, sc: sc}
	m.topoRun = &caseRun{c: c, sc: sc, g: &gspec{}, multi: m}
	return m
}

func (m *multiRun) replay() string { return strings.Join(m.log, "\n") + "\n" }

func (m *multiRun) open() *caseRun {
	if m.core == nil {
		m.core = buildCore(m.topoRun.g)
	}
	cr := &caseRun{c: m.c, sc: m.sc, g: m.topoRun.g, multi: m, idx: len(m.ss) + 1}
	for _, l := range m.topo {
		cr.lines = append(cr.lines, l)
		cr.impl = append(cr.impl, "ok")
	}
	cr.rg = m.core.open()
	cr.sm = newSim(cr.g)
	m.ss = append(m.ss, cr)
	m.cur = len(m.ss) - 1
	return cr
}

// exec runs one line of a multi-process case; false = unusable line.
func (m *multiRun) exec(line string) bool {
	f := strings.Fields(line)
	if len(f) == 0 {
		return true
	}
	if len(m.ss) == 0 {
		if isTopo, ok := m.topoRun.topo(f); isTopo {
			if ok {
				m.topo = append(m.topo, line)
				m.log = append(m.log, line)
			}
			return ok
		}
		if !m.topoRun.g.hasSrc {
			return false
		}
	}
	switch {
	case len(f) == 1 && (f[0] == "newproc" || f[0] == "newproc+"):
		if f[0] == "newproc" && len(m.ss) > 0 {
			m.ss[m.cur].rg.exit()
		}
		m.log = append(m.log, line)
		m.open()
		return true
	case len(f) == 2 && f[0] == "proc":
		k, ok := atoi(f[1])
		if !ok || k < 1 || k > len(m.ss) || m.ss[k-1].rg.exited {
			return false
		}
		m.cur = k - 1
		m.log = append(m.log, line)
		return true
	}
	if len(m.ss) == 0 {
		m.log = append(m.log, "newproc")
		m.open()
	}
	cr := m.ss[m.cur]
	if cr.rg.exited {
		return false
	}
	return cr.exec(line)
}

func (m *multiRun) aborted() bool {
	for _, cr := range m.ss {
		if cr.aborted || len(cr.fails) > 0 {
			return true
		}
	}
	return false
}

// finish ends every process, closes the nodes and hands each process's lines to the model as a case of its own.
func (m *multiRun) finish() {
	for _, cr := range m.ss {
		cr.rg.exit()
	}
	if m.core != nil {
		m.core.closeNodes()
		select {
		case text := <-m.core.stray:
			if len(m.ss) > 0 {
				m.ss[0].fail("stray-event", "an action ran in a process no case process was open for: "+text)
			}
		default:
		}
	}
	for _, cr := range m.ss {
		m.fails = append(m.fails, cr.fails...)
		m.sc.Begin()
		for i, l := range cr.lines {
			m.sc.Op(l, cr.impl[i])
		}
	}
}

// runMulti: a generated multi-process case.
func runMulti(c *lib.Ctx, r *lib.RNG, sc *lib.Script, maxNodes int) *multiRun {
	m := newMulti(c, sc)
	defer m.finish()
	// prefer workflows with a many-to-one node (its writers are opened lazily, per process)
	var graph []string
	for try := 0; try < 6; try++ {
		graph = genGraph(r, c, maxNodes)
		hasJ := false
		for _, l := range graph {
			if strings.HasPrefix(l, "node j") {
				hasJ = true
			}
		}
		if hasJ {
			break
		}
	}
	for _, l := range graph {
		if !m.exec(l) {
			m.topoRun.fail("generator", "generator produced an unusable line: "+l)
			m.fails = append(m.fails, m.topoRun.fails...)
			return m
		}
	}
	at := &atoms{}
	nProc := 2
	if r.Chance(1, 4) {
		nProc = 3
	}
	step := func(cr *caseRun, toSend int) bool {
		l := genStep(r, c, cr, at, toSend)
		if l == "" {
			return false
		}
		if !m.exec(l) {
			cr.fail("generator", "generator produced an unusable line: "+l)
		}
		return true
	}
	if r.Chance(1, 2) {
		// one after the other; a later process often repeats the first one's schedule, so that a
		// many-to-one node completes its groups through the same in-ports again
		c.Hit("processes-sequential")
		var first []string
		for k := 0; k < nProc && !m.aborted(); k++ {
			m.exec("newproc")
			cr := m.ss[m.cur]
			if k > 0 && r.Chance(3, 5) {
				c.Hit("process-repeats-schedule")
				for _, l := range first {
					if m.aborted() || !m.exec(l) {
						break
					}
				}
			} else {
				toSend := r.Range(1, 3)
				for i := 0; i < 200 && !m.aborted() && step(cr, toSend); i++ {
				}
			}
			if k == 0 {
				first = append(first, cr.lines[len(m.topo):]...)
			}
			if !m.aborted() {
				m.exec("end")
			}
		}
		return m
	}
	c.Hit("processes-overlapping")
	for k := 0; k < nProc; k++ {
		m.exec("newproc+")
	}
	toSend := make([]int, nProc)
	for k := range toSend {
		toSend[k] = r.Range(1, 3)
	}
	done := false
	for i := 0; i < 400 && !m.aborted(); i++ {
		// a process that still has something to do, chosen at random
		order := r.Intn(nProc)
		progressed := false
		for d := 0; d < nProc && !progressed; d++ {
			k := (order + d) % nProc
			if k != m.cur {
				m.exec(fmt.Sprintf("proc %d", k+1))
			}
			progressed = step(m.ss[k], toSend[k])
		}
		if !progressed {
			done = true
			break
		}
	}
	if done && !m.aborted() {
		for k := 0; k < nProc && !m.aborted(); k++ {
			m.exec(fmt.Sprintf("proc %d", k+1))
			m.exec("end")
		}
	}
	return m
}

// ------------------------------------------------------------------ generators

// sameFanIn: every out port of the one-to-many node n has exactly one reader and it is the same
// in-port / sink for all of them (then answers to one packet written on all of them come back in
// write order).
func sameFanIn(g *gspec, n int) bool {
	if g.nodes[n].kind != 'm' || g.nodes[n].ar < 2 {
		return false
	}
	first := g.targets(n, 1)
	if len(first) != 1 {
		return false
	}
	for w := 2; w <= g.nodes[n].ar; w++ {
		ts := g.targets(n, w)
		if len(ts) != 1 || ts[0] != first[0] {
			return false
		}
	}
	return true
}

// genForkGraph: [one-to-one ->] fork (one-to-many) whose outputs all lead to the one in-port of a
// transforming node -> sink; error ports to sinks of their own or unconnected.
func genForkGraph(r *lib.RNG, c *lib.Ctx) []string {
	lines := []string{"orderfree"}
	fork := 0
	if r.Chance(1, 3) {
		lines = append(lines, "node o")
		fork = 1
	}
	ar := r.Range(2, 3)
	lines = append(lines, fmt.Sprintf("node m %d", ar))
	nSinks := 0
	sink := func() string { nSinks++; return fmt.Sprintf("s %d", nSinks-1) }
	if fork == 1 {
		lines = append(lines, "link 0 1 n 1 0")
		if r.Chance(1, 2) {
			lines = append(lines, "link 0 0 "+sink())
		}
	}
	mid := fork + 1
	if r.Chance(1, 4) {
		lines = append(lines, "node j 1")
	} else {
		lines = append(lines, "node o")
	}
	for w := 1; w <= ar; w++ {
		lines = append(lines, fmt.Sprintf("link %d %d n %d 0", fork, w, mid))
	}
	if r.Chance(5, 6) {
		lines = append(lines, fmt.Sprintf("link %d 1 %s", mid, sink()))
	}
	if r.Chance(1, 2) {
		lines = append(lines, fmt.Sprintf("link %d 0 %s", mid, sink()))
	}
	if r.Chance(1, 2) {
		lines = append(lines, fmt.Sprintf("link %d 0 %s", fork, sink()))
	}
	lines = append(lines, "src 0 0")
	c.Hit("graph-fork-into-one-input")
	return lines
}

// withPortOrders inserts, after about half of the `node m k` / `node j k` lines, a `ports` line with
// a random order of first request (a permutation of the indices, index 0 sometimes by the bare alias).
func withPortOrders(r *lib.RNG, c *lib.Ctx, lines []string) []string {
	var out []string
	idx := 0
	for _, l := range lines {
		out = append(out, l)
		f := strings.Fields(l)
		if len(f) == 0 || f[0] != "node" {
			continue
		}
		n := idx
		idx++
		if len(f) != 3 {
			continue
		}
		ar, ok := atoi(f[2])
		if !ok || ar == 0 || !r.Chance(1, 2) {
			continue
		}
		perm := make([]int, ar)
		for i := range perm {
			perm[i] = i
		}
		for i := ar - 1; i > 0; i-- {
			j := r.Intn(i + 1)
			perm[i], perm[j] = perm[j], perm[i]
		}
		toks := make([]string, ar)
		asc := true
		for i, x := range perm {
			toks[i] = strconv.Itoa(x)
			if x == 0 && r.Chance(1, 3) {
				toks[i] = "a"
				c.Hit("ports-bare-alias")
			}
			if x != i {
				asc = false
			}
		}
		if !asc {
			c.Hit("ports-asked-non-ascending-" + f[1])
		}
		out = append(out, fmt.Sprintf("ports %d %s", n, strings.Join(toks, " ")))
	}
	return out
}

func genGraph(r *lib.RNG, c *lib.Ctx, maxNodes int) []string {
	return withPortOrders(r, c, genGraphPlain(r, c, maxNodes))
}

func genGraphPlain(r *lib.RNG, c *lib.Ctx, maxNodes int) []string {
	var lines []string
	if r.Chance(1, 7) {
		return genForkGraph(r, c)
	}
	nN := r.Range(1, maxNodes)
	if r.Chance(1, 3) {
		nN = r.Range(1, 2)
	}
	nodes := make([]gnode, nN)
	for i := range nodes {
		switch x := r.Intn(100); {
		case i == 0 && x < 50, i > 0 && x < 45:
			nodes[i] = gnode{kind: 'o', ar: 1}
			lines = append(lines, "node o")
		case i == 0 && x < 88, i > 0 && x < 72:
			nodes[i] = gnode{kind: 'm', ar: r.Range(1, 3)}
			lines = append(lines, fmt.Sprintf("node m %d", nodes[i].ar))
		default:
			ar := 2
			if i == 0 || r.Chance(1, 6) {
				ar = 1
			} else if r.Chance(1, 6) {
				ar = 3
			}
			nodes[i] = gnode{kind: 'j', ar: ar}
			lines = append(lines, fmt.Sprintf("node j %d", ar))
		}
		c.Hit("node-" + string(nodes[i].kind))
	}
	// feeders[m][port] = nodes writing to that in-port
	feeders := make([]map[int]map[int]bool, nN)
	for i := range feeders {
		feeders[i] = map[int]map[int]bool{}
	}
	feedsOther := func(n, m, p int) bool {
		for q, fs := range feeders[m] {
			if q != p && fs[n] {
				return true
			}
		}
		return false
	}
	nSinks := 0
	type key struct{ n, w, m, p int }
	used := map[key]bool{}
	for n := 0; n < nN; n++ {
		for w := 0; w <= nOut(nodes[n]); w++ {
			if r.Chance(1, 4) {
				c.Hit("writer-unconnected")
				continue
			}
			k := 1
			if r.Chance(3, 10) {
				k = 2
			}
			for j := 0; j < k; j++ {
				if n+1 < nN && r.Chance(13, 20) {
					m := r.Range(n+1, nN-1)
					p := r.Intn(nIn(nodes[m]))
					// prefer an in-port nobody feeds yet
					for q := 0; q < nIn(nodes[m]); q++ {
						if len(feeders[m][q]) == 0 && !feedsOther(n, m, q) {
							p = q
							break
						}
					}
					if feedsOther(n, m, p) || used[key{n, w, m, p}] {
						continue
					}
					used[key{n, w, m, p}] = true
					if feeders[m][p] == nil {
						feeders[m][p] = map[int]bool{}
					}
					if len(feeders[m][p]) > 0 {
						c.Hit("fan-in-to-one-input")
					}
					feeders[m][p][n] = true
					lines = append(lines, fmt.Sprintf("link %d %d n %d %d", n, w, m, p))
					if w == 0 {
						c.Hit("error-port-linked")
					}
				} else {
					lines = append(lines, fmt.Sprintf("link %d %d s %d", n, w, nSinks))
					nSinks++
				}
			}
			if k == 2 {
				c.Hit("writer-fan-out")
			}
		}
	}
	lines = append(lines, "src 0 0")
	return lines
}

type atoms struct{ next int }

func (a *atoms) fresh() string { a.next++; return "a" + strconv.Itoa(a.next) }
func (a *atoms) err() string   { a.next++; return "e" + strconv.Itoa(a.next) }

func genStep(r *lib.RNG, c *lib.Ctx, cr *caseRun, at *atoms, toSend int) string {
	sm := cr.sm
	var opts []string
	if cr.sent < toSend {
		opts = append(opts, "send", "send")
		if cr.sent == 0 || sm == nil {
			return "send " + at.fresh()
		}
	}
	for n, nd := range sm.nodes {
		if nd.cur != nil {
			opts = append(opts, fmt.Sprintf("rel %d", n))
		}
	}
	for k, q := range sm.sinkQ {
		if len(q) > 0 {
			opts = append(opts, fmt.Sprintf("ans %d", k))
		}
	}
	if len(opts) == 0 {
		return ""
	}
	o := lib.Pick(r, opts)
	switch {
	case o == "send":
		if cr.lastPck != nil && r.Chance(1, 4) {
			c.Hit("source-resends-packet")
			return "resend " + cr.lastVal
		}
		if r.Chance(1, 12) {
			return "send n"
		}
		return "send " + at.fresh()
	case strings.HasPrefix(o, "rel"):
		var n int
		fmt.Sscanf(o, "rel %d", &n)
		spec := cr.g.nodes[n]
		x := r.Intn(100)
		switch spec.kind {
		case 'o':
			switch {
			case x < 55:
				c.Hit("action-transform")
				return o + " o " + at.fresh()
			case x < 75:
				c.Hit("action-identity")
				return o + " i"
			case x < 84:
				// (nil, nil): nothing to forward, no error – the request is answered with itself
				c.Hit("action-drop-one-to-one")
				return o + " d"
			default:
				c.Hit("action-fail")
				return o + " e " + at.err()
			}
		case 'm':
			if sortJoins && sameFanIn(cr.g, n) && r.Chance(1, 2) {
				c.Hit("action-same-on-several-outputs")
				return fmt.Sprintf("%s s %d", o, r.Range(2, spec.ar))
			}
			connected := func(i int) bool { return len(cr.g.targets(n, i+1)) > 0 }
			if spec.ar >= 2 && x >= 88 {
				// the in packet itself on several outputs, whatever they lead to (also unconnected ones:
				// a refused write of the in packet next to an accepted one)
				c.Hit("action-same-on-several-outputs")
				for i := 0; i < spec.ar; i++ {
					if !connected(i) {
						c.Hit("action-same-with-refusing-port")
						break
					}
				}
				return fmt.Sprintf("%s s %d", o, r.Range(2, spec.ar))
			}
			if spec.ar >= 2 && x >= 76 {
				// the in packet itself next to new packets / nothing. A port that gets the in packet is a
				// connected one: on a tree without the fix `node.derive` the echo of a refused write of
				// the in packet takes the slot of a NEW packet and the late answer to that packet indexes
				// out of range (the process dies – no replay could be written)
				parts := []string{o, "m"}
				nEq, nOther := 0, 0
				for i := 0; i < spec.ar; i++ {
					switch {
					case connected(i) && r.Chance(1, 2):
						parts = append(parts, "=")
						nEq++
					case r.Chance(1, 5):
						parts = append(parts, "-")
					default:
						parts = append(parts, at.fresh())
						nOther++
					}
				}
				if nEq > 0 && nOther > 0 {
					c.Hit("action-in-packet-next-to-new-ones")
					return strings.Join(parts, " ")
				}
			}
			switch {
			case x < 70:
				k := spec.ar
				if r.Chance(1, 8) {
					k++
				} else if r.Chance(1, 8) {
					k--
				}
				parts := []string{o, "m"}
				some := false
				for i := 0; i < k; i++ {
					if r.Chance(1, 5) {
						parts = append(parts, "-")
					} else {
						parts = append(parts, at.fresh())
						some = some || i < spec.ar
					}
				}
				if some {
					c.Hit("action-split")
				} else {
					c.Hit("action-drop")
				}
				return strings.Join(parts, " ")
			case x < 82:
				c.Hit("action-drop")
				return o + " d"
			default:
				c.Hit("action-fail")
				return o + " e " + at.err()
			}
		default:
			switch {
			case x < 60:
				c.Hit("action-transform")
				return o + " o " + at.fresh()
			case x < 78:
				c.Hit("action-drop")
				return o + " d"
			default:
				c.Hit("action-fail")
				return o + " e " + at.err()
			}
		}
	default:
		x := r.Intn(100)
		switch {
		case x < 50:
			return o + " " + at.fresh()
		case x < 65:
			return o + " same"
		case x < 75:
			return o + " N"
		case x < 95:
			return o + " " + at.err()
		default:
			return o + " n"
		}
	}
}

// ------------------------------------------------------------------ the size family: long busy periods

// sizedGraph: a small fixed workflow per node kind – a chain of one-to-one nodes, a fork, a diamond with a join.
func sizedGraph(r *lib.RNG, c *lib.Ctx) []string {
	switch r.Intn(3) {
	case 0:
		k := r.Range(1, 3)
		c.Hit(fmt.Sprintf("sized-chain-%d", k))
		var ls []string
		for i := 0; i < k; i++ {
			ls = append(ls, "node o")
		}
		for i := 0; i+1 < k; i++ {
			ls = append(ls, fmt.Sprintf("link %d 1 n %d 0", i, i+1))
		}
		ls = append(ls, fmt.Sprintf("link %d 1 s 0", k-1))
		if r.Chance(1, 3) {
			ls = append(ls, "link 0 0 s 1")
		}
		return append(ls, "src 0 0")
	case 1:
		c.Hit("sized-fork")
		if r.Chance(1, 2) {
			return []string{"node m 2", "link 0 1 s 0", "link 0 2 s 1", "src 0 0"}
		}
		return []string{"node o", "node m 2", "link 0 1 n 1 0", "link 1 1 s 0", "link 1 2 s 1", "src 0 0"}
	default:
		c.Hit("sized-join")
		return []string{"node m 2", "node o", "node o", "node j 2", "link 0 1 n 1 0", "link 0 2 n 2 0",
			"link 1 1 n 3 0", "link 2 1 n 3 1", "link 3 1 s 0", "src 0 0"}
	}
}

// sizedProgress: one step that is not a `send` – an action returns or a sink answers; "" when nothing is due.
func sizedProgress(r *lib.RNG, cr *caseRun, at *atoms) string {
	sm := cr.sm
	var opts []string
	for n, nd := range sm.nodes {
		if nd.cur != nil {
			opts = append(opts, fmt.Sprintf("rel %d", n))
		}
	}
	for k, q := range sm.sinkQ {
		if len(q) > 0 {
			opts = append(opts, fmt.Sprintf("ans %d", k))
		}
	}
	if len(opts) == 0 {
		return ""
	}
	o := lib.Pick(r, opts)
	if strings.HasPrefix(o, "ans") {
		if r.Chance(1, 3) {
			return o + " same"
		}
		return o + " " + at.fresh()
	}
	var n int
	fmt.Sscanf(o, "rel %d", &n)
	switch cr.g.nodes[n].kind {
	case 'o':
		switch x := r.Intn(10); {
		case x < 5:
			return o + " i" // pass-through
		case x < 9:
			return o + " o " + at.fresh()
		default:
			return o + " e " + at.err()
		}
	case 'm':
		switch x := r.Intn(10); {
		case x < 5:
			return o + " m " + at.fresh() + " " + at.fresh()
		case x < 8:
			return o + " s 2"
		default:
			return o + " m " + at.fresh() + " ="
		}
	default:
		if r.Chance(1, 6) {
			return o + " d"
		}
		return o + " o " + at.fresh()
	}
}

// runSized: ONE process, one small workflow, a LONG busy period: `total` requests with `window` of them in flight
// at all times (a new request is written before the window's oldest is answered, so the first node's in-port never
// becomes idle), or a burst of n requests of which n-1 are answered before n more are written.
func runSized(c *lib.Ctx, r *lib.RNG, sc *lib.Script) *caseRun {
	cr := newCase(c, sc)
	defer cr.finish()
	for _, l := range sizedGraph(r, c) {
		if !cr.exec(l) {
			cr.fail("generator", "generator produced an unusable line: "+l)
			return cr
		}
	}
	at := &atoms{}
	do := func(l string) bool {
		if l == "" {
			return false
		}
		if !cr.exec(l) {
			cr.fail("generator", "generator produced an unusable line: "+l)
			return false
		}
		return !cr.aborted
	}
	send := func() bool { return do("send " + at.fresh()) }
	inflight := func() int { return cr.sent - cr.gotResp }
	// the long ones are rare: the model driver's time per case grows faster than linearly with its length
	big := r.Chance(1, 6)
	if r.Chance(1, 2) {
		// a sliding window
		window := []int{1, 2, 2, 5, 17, 20}[r.Intn(6)]
		total := r.Range(18, 40)
		if big {
			total = r.Range(41, 120)
		}
		c.Hit(fmt.Sprintf("sized-window-%d", window))
		if !send() {
			return cr
		}
		for i := 0; i < 40*total && !cr.aborted; i++ {
			if cr.sent < total && inflight() < window {
				if !send() {
					break
				}
				continue
			}
			if !do(sizedProgress(r, cr, at)) {
				break
			}
		}
	} else {
		ns := []int{16, 17, 18, 24}
		if big {
			ns = []int{33, 65}
		}
		n := ns[r.Intn(len(ns))]
		c.Hit(fmt.Sprintf("sized-burst-%d", n))
		ok := true
		for i := 0; i < n && ok; i++ {
			ok = send()
		}
		for i := 0; ok && i < 40*n && cr.gotResp < n-1; i++ {
			ok = do(sizedProgress(r, cr, at))
		}
		for i := 0; i < n && ok; i++ {
			ok = send()
		}
		for i := 0; ok && i < 80*n; i++ {
			ok = do(sizedProgress(r, cr, at))
		}
	}
	if !cr.aborted {
		cr.exec("end")
	}
	return cr
}

func runGenerated(c *lib.Ctx, r *lib.RNG, sc *lib.Script, maxNodes int) *caseRun {
	cr := newCase(c, sc)
	defer cr.finish()
	for _, l := range genGraph(r, c, maxNodes) {
		if !cr.exec(l) {
			cr.fail("generator", "generator produced an unusable line: "+l)
			return cr
		}
	}
	at := &atoms{}
	toSend := r.Range(1, 4)
	truncate := r.Chance(1, 8)
	limit := 200
	if truncate {
		limit = r.Range(1, 12)
	}
	for i := 0; i < limit && !cr.aborted; i++ {
		l := genStep(r, c, cr, at, toSend)
		if l == "" {
			break
		}
		if !cr.exec(l) {
			cr.fail("generator", "generator produced an unusable line: "+l)
			return cr
		}
	}
	if !cr.aborted {
		cr.exec("end")
	}
	return cr
}

// runMultiLines: a corpus file with `newproc` / `newproc+` / `proc k` lines.
func runMultiLines(c *lib.Ctx, sc *lib.Script, lines []string) *multiRun {
	m := newMulti(c, sc)
	defer m.finish()
	for _, l := range lines {
		if !m.exec(l) {
			m.topoRun.fail("corpus", "unusable corpus line: "+l)
			m.fails = append(m.fails, m.topoRun.fails...)
			break
		}
	}
	return m
}

func isMultiCorpus(lines []string) bool {
	for _, l := range lines {
		if strings.HasPrefix(strings.TrimSpace(l), "newproc") {
			return true
		}
	}
	return false
}

func runLines(c *lib.Ctx, sc *lib.Script, lines []string) *caseRun {
	cr := newCase(c, sc)
	defer cr.finish()
	for _, l := range lines {
		if !cr.exec(l) {
			cr.fail("corpus", "unusable corpus line: "+l)
			break
		}
	}
	return cr
}

func account(c *lib.Ctx, cr *caseRun) {
	key := ""
	if cr.sm != nil && cr.sm.maxInFl >= 2 && cr.steps >= 4 {
		key = strings.Join(cr.lines, ";")
	}
	c.Count(key)
	if cr.sm != nil {
		c.Hit(fmt.Sprintf("max-in-flight-%d", cr.sm.maxInFl))
	}
	c.Sample(map[string]any{"lines": cr.lines, "observed": cr.impl})
}

func Run(c *lib.Ctx) {
	c.Rule = "a case = a random acyclic workflow (1–6 real nodes: one-to-one, one-to-many, many-to-one; chains, fan-out, diamonds, fan-in to one input, unconnected and error outputs) + 1–4 pipelined requests (the source also re-sends the packet object of its previous request) + a random schedule of action releases (transform/identity/split/drop/fail, a fork handing its in packet to all outputs leading to one input) and sink answers (payload/same/None/error/nil), executed on the real nodes and on the Lean model, compared step by step (actions entered, sink arrivals, source responses); every tenth case is of the SIZE family – one process, a small workflow per node kind (chain of 1–3 one-to-one nodes, fork, diamond with a join), a LONG busy period: 18–40 (one case in six: 41–120) requests with 1, 2, 5, 17 or 20 of them in flight at all times, or a burst of n ∈ {16,17,18,24; 33,65} requests of which n-1 are answered before n more are written; every sixth case runs 2–3 PROCESSES through the same node objects – one after the other (the earlier one has exited) or at the same time with interleaved steps –, each with its own requests, request-tree oracle and run of the model (`newproc`, `newproc+`, `proc k` lines; a later sequential process often repeats the first one's schedule so that a many-to-one node completes its groups through the same in-ports again); non-trivial = at least 2 requests in flight at once and ≥ 4 schedule steps, distinct by the full line list"
	c.Assumptions = []string{
		"Writer/Reader honour the C01 contract on the paths used here (never closed, linked before the first write); the model of the edges in Uniflow.Flow is the fully-linked fragment only",
		"each Tracer method is atomic (runs under Tracer.mu); the schedule interleaves whole forward iterations' Link/Write calls with backward Receive calls only at the points the harness controls (action blocked / sink holding); finer interleavings are covered by the theorem, not by the runs",
		"no single schedule step delivers packets to two different in-ports of one many-to-one node (their grouping order would be a real race between two forward goroutines); the generator excludes such topologies",
		"the forward goroutines of the in-ports of one many-to-one node run concurrently: after a step that delivers a packet to such an in-port without any observable effect (no group completed, its echo held behind an older request) the harness waits until the node's tracer has stopped changing before the next step, so that a delivery to another in-port cannot overtake it inside the node (both orders are valid runs; oracle and model fix arrival order)",
		"the step-serialised cases (everything compared with the model) execute ONE schedule step at a time and wait for its effects: two calls into one link never overlap there, and the Flow model is about exactly these schedules. True parallelism – the answer to request k entering Reader.Receive while request k+1 is inside Writer.Write on the same link – is exercised by the FREE-RUNNING part only (free.go: open gates, a window of 2/5/16 requests in flight over 2 000–20 000 requests, 1–3 processes at once, a chain / fork / diamond; the request-tree reference and a no-progress watchdog, no model lines) and by one directed case synchronised through two outbound hooks",
		"the Flow model is per process: a multi-process case is compared process by process against a fresh model state – nothing the real nodes keep between processes may show",
		"actions return fresh packets, nothing (also one-to-one: (nil, nil)), or the in packet itself – one-to-one; one-to-many on one or several outputs (`s k`), also next to new packets (`m … = …`) and with unconnected outputs among them. A port that gets the in packet NEXT TO NEW packets is always a connected one (without the fix node.derive the refused write's echo takes a new packet's slot and the process dies when that packet is answered: no replay could be written); graphs whose fork outputs all lead to one in-port still compare joins as multisets (`orderfree`)",
		"the source may write the packet object of its previous request once more (`resend`): Writer.Write hands every reader a packet of its own, so this is an independent request",
	}
	c.Trusted = []string{"node.VerifTracer / Tracer.VerifLen accessors (verif tag)", "the specification-level reference simulator in harness/c02 used as oracle and to know how many events to wait for"}
	// lib.NewRNG(seed) is a splitmix64 whose state advances by a constant: the streams of seeds k and
	// k+1 are the same stream shifted by one draw. Fork once so that different seeds give unrelated
	// case sequences.
	r := lib.NewRNG(c.Seed).Fork()
	sc := &lib.Script{}
	var fails []lib.OracleFail
	onlyFree := os.Getenv("VERIF_C02_ONLY") == "free"
	for _, f := range c.CorpusFiles() {
		if onlyFree {
			break
		}
		lines := lib.ReadLines(f)
		c.Hit("corpus-case")
		if isMultiCorpus(lines) {
			m := runMultiLines(c, sc, lines)
			for _, cr := range m.ss {
				account(c, cr)
			}
			fails = append(fails, m.fails...)
			continue
		}
		cr := runLines(c, sc, lines)
		account(c, cr)
		fails = append(fails, cr.fails...)
	}
	n := c.Scale(2500, 40000)
	maxNodes := 6
	start := time.Now()
	budget := time.Duration(c.Scale(25, 420)) * time.Second
	for i := 0; i < n && time.Since(start) < budget && !onlyFree; i++ {
		if i%10 == 9 {
			// the size family: a long busy period in one process
			cr := runSized(c, r.Fork(), sc)
			account(c, cr)
			c.Hit("sized-case")
			fails = append(fails, cr.fails...)
			if len(fails) > 20 {
				break
			}
			continue
		}
		if i%6 == 5 {
			// several processes through the same node objects
			m := runMulti(c, r.Fork(), sc, maxNodes)
			for _, cr := range m.ss {
				account(c, cr)
			}
			c.Hit("multi-process-case")
			fails = append(fails, m.fails...)
			if len(fails) > 20 {
				break
			}
			continue
		}
		cr := runGenerated(c, r.Fork(), sc, maxNodes)
		account(c, cr)
		fails = append(fails, cr.fails...)
		if len(fails) > 20 {
			break
		}
	}
	// the free-running part: open gates, real parallelism, oracle only (free.go)
	if len(fails) <= 20 {
		fails = append(fails, runFree(c, r.Fork())...)
	}
	var ms []lib.Mismatch
	if c.Proof.DriverBuilt {
		var err error
		ms, err = c.RunModel("c02", sc)
		if err != nil {
			c.Violation("model driver failed: "+err.Error(), "", false)
		}
	}
	c.Conclude("real nodes ≈ Uniflow.Flow/Node/Tracer", ms, fails)
}
