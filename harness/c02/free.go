package c02

// The FREE-RUNNING part: real workflows with open gates, driven by real goroutines at full speed.
//
// The step-serialised cases (and the Flow model they are compared with) execute one schedule step at a
// time and wait for its effects: two calls into one link never overlap there. Here nothing is
// serialised: a client keeps a window of requests in flight through a chain / a fork / a diamond with a
// join, the actions return at once, the sinks answer at once (or after a Gosched), 1–3 processes run
// through the same node objects at the same time. Only the request-tree reference is checked – the i-th
// response of a process must be the reference answer of its i-th request – and that every request IS
// answered: a round without progress for `freeStall` is reported as `pipelined-request-never-answered`
// with the round's parameters and the top frames of the goroutines blocked inside pkg/.

import (
	"fmt"
	"os"
	"runtime"
	"strings"
	"sync"
	"sync/atomic"
	"time"

	"github.com/siyul-park/uniflow/pkg/node"
	"github.com/siyul-park/uniflow/pkg/packet"
	"github.com/siyul-park/uniflow/pkg/port"
	"github.com/siyul-park/uniflow/pkg/process"
	"github.com/siyul-park/uniflow/pkg/types"

	"verifharness/lib"
)

const freeStall = 10 * time.Second

type freeParams struct {
	shape   string // chain2 | chain3 | fork | ofork | diamond
	pass    bool   // one-to-one nodes return their in packet (pass-through) instead of a new one
	same    bool   // the fork returns [in, in] instead of two new packets
	gosched bool   // sinks yield before answering
	jpass   bool   // diamond: the join hands on the packet object of in[1] instead of a new packet
	procs   int
	window  int
	total   int
}

func (p freeParams) String() string {
	return fmt.Sprintf("free shape=%s pass=%v fork-same=%v join-hands-on-in1=%v sink-gosched=%v processes=%d window=%d requests=%d",
		p.shape, p.pass, p.same, p.jpass, p.gosched, p.procs, p.window, p.total)
}

func str(p *packet.Packet) string { return fmt.Sprint(p.Payload().Interface()) }

func newStr(s string) *packet.Packet { return packet.New(types.NewString(s)) }

type freeFlow struct {
	nodes  []node.Node
	src    *port.OutPort
	sinks  []*port.InPort
	expect func(req string) []string // the admissible responses to request `req`
}

func buildFree(p freeParams) *freeFlow {
	f := &freeFlow{src: port.NewOut()}
	one := func(tag string) node.Node {
		n := node.NewOneToOneNode(func(_ *process.Process, in *packet.Packet) (*packet.Packet, *packet.Packet) {
			if p.pass {
				return in, nil
			}
			return newStr(str(in) + tag), nil
		})
		f.nodes = append(f.nodes, n)
		return n
	}
	tr := func(x, tag string) string {
		if p.pass {
			return x
		}
		return x + tag
	}
	fork := func() node.Node {
		n := node.NewOneToManyNode(func(_ *process.Process, in *packet.Packet) ([]*packet.Packet, *packet.Packet) {
			if p.same {
				return []*packet.Packet{in, in}, nil
			}
			return []*packet.Packet{newStr(str(in) + "/a"), newStr(str(in) + "/b")}, nil
		})
		n.Out(node.PortWithIndex(node.PortOut, 0))
		n.Out(node.PortWithIndex(node.PortOut, 1))
		f.nodes = append(f.nodes, n)
		return n
	}
	fa := func(x string) string {
		if p.same {
			return x
		}
		return x + "/a"
	}
	fb := func(x string) string {
		if p.same {
			return x
		}
		return x + "/b"
	}
	sink := func() *port.InPort {
		s := port.NewIn()
		f.sinks = append(f.sinks, s)
		return s
	}
	switch p.shape {
	case "chain2", "chain3":
		k := 2
		if p.shape == "chain3" {
			k = 3
		}
		var prev node.Node
		for i := 0; i < k; i++ {
			n := one(fmt.Sprintf("/%d", i))
			if prev == nil {
				f.src.Link(n.In(node.PortIn))
			} else {
				prev.Out(node.PortOut).Link(n.In(node.PortIn))
			}
			prev = n
		}
		prev.Out(node.PortOut).Link(sink())
		f.expect = func(x string) []string {
			for i := 0; i < k; i++ {
				x = tr(x, fmt.Sprintf("/%d", i))
			}
			return []string{"A0(" + x + ")"}
		}
	case "fork", "ofork":
		var first node.Node
		if p.shape == "ofork" {
			first = one("/0")
			f.src.Link(first.In(node.PortIn))
		}
		fk := fork()
		if first != nil {
			first.Out(node.PortOut).Link(fk.In(node.PortIn))
		} else {
			f.src.Link(fk.In(node.PortIn))
		}
		fk.Out(node.PortWithIndex(node.PortOut, 0)).Link(sink())
		fk.Out(node.PortWithIndex(node.PortOut, 1)).Link(sink())
		f.expect = func(x string) []string {
			if p.shape == "ofork" {
				x = tr(x, "/0")
			}
			return []string{"[A0(" + fa(x) + ") A1(" + fb(x) + ")]"}
		}
	default: // diamond
		fk := fork()
		f.src.Link(fk.In(node.PortIn))
		o1, o2 := one("/1"), one("/2")
		j := node.NewManyToOneNode(func(_ *process.Process, ins []*packet.Packet) (*packet.Packet, *packet.Packet) {
			if p.jpass {
				// one of the action's own in packets: the one that completed the group whenever in[1]
				// arrives last (seeded change c02m: that packet was no longer copied and linked to itself)
				return ins[1], nil
			}
			return newStr("J(" + str(ins[0]) + "," + str(ins[1]) + ")"), nil
		})
		f.nodes = append(f.nodes, j)
		fk.Out(node.PortWithIndex(node.PortOut, 0)).Link(o1.In(node.PortIn))
		fk.Out(node.PortWithIndex(node.PortOut, 1)).Link(o2.In(node.PortIn))
		o1.Out(node.PortOut).Link(j.In(node.PortWithIndex(node.PortIn, 0)))
		o2.Out(node.PortOut).Link(j.In(node.PortWithIndex(node.PortIn, 1)))
		j.Out(node.PortOut).Link(sink())
		f.expect = func(x string) []string {
			a, b := tr(fa(x), "/1"), tr(fb(x), "/2")
			ans := "A0(J(" + a + "," + b + "))"
			if p.jpass {
				ans = "A0(" + b + ")"
			}
			// the member of the group that arrives first is answered with itself, the one that completes
			// the group with the sink's answer: which of the two branches that is, is a real race
			return []string{"[" + a + " " + ans + "]", "[" + ans + " " + b + "]"}
		}
	}
	return f
}

// blockedFrames: the top frames of the goroutines that are inside pkg/ of the repository.
func blockedFrames() string {
	buf := make([]byte, 1<<20)
	buf = buf[:runtime.Stack(buf, true)]
	var locked, other []string
	for _, g := range strings.Split(string(buf), "\n\n") {
		if !strings.Contains(g, "uniflow/pkg/") {
			continue
		}
		// the idle pumps of writers and readers say nothing
		if strings.Contains(g, "[chan receive") && (strings.Contains(g, "packet.NewWriter.func1") || strings.Contains(g, "packet.NewReader.func1")) {
			continue
		}
		lines := strings.Split(g, "\n")
		if len(lines) > 13 {
			lines = lines[:13]
		}
		txt := strings.Join(lines, "\n")
		if strings.Contains(g, "Mutex).Lock") || strings.Contains(g, "Mutex).RLock") {
			locked = append(locked, txt)
		} else {
			other = append(other, txt)
		}
	}
	out := append(locked, other...)
	if len(out) > 10 {
		out = out[:10]
	}
	return strings.Join(out, "\n\n")
}

// runFreeRound runs one round; nil = every request of every process was answered with its reference answer, in order.
func runFreeRound(p freeParams) *lib.OracleFail {
	f := buildFree(p)
	var progress atomic.Int64
	var mu sync.Mutex
	var bad *lib.OracleFail
	abort := make(chan struct{})
	var once sync.Once
	report := func(class, what string) {
		mu.Lock()
		if bad == nil {
			bad = &lib.OracleFail{Class: class, What: what, Replay: p.String() + "\n" + what + "\n"}
		}
		mu.Unlock()
		once.Do(func() { close(abort) })
	}
	var wg sync.WaitGroup
	procs := make([]*process.Process, p.procs)
	for k := 0; k < p.procs; k++ {
		proc := process.New()
		procs[k] = proc
		for si, s := range f.sinks {
			r := s.Open(proc)
			go func(si int, r *packet.Reader) {
				for pck := range r.Read() {
					if p.gosched {
						runtime.Gosched()
					}
					r.Receive(newStr(fmt.Sprintf("A%d(%s)", si, str(pck))))
				}
			}(si, r)
		}
		w := f.src.Open(proc)
		req := func(i int) string { return fmt.Sprintf("p%d-%d", k, i) }
		sem := make(chan struct{}, p.window)
		go func() {
			for i := 0; i < p.total; i++ {
				select {
				case sem <- struct{}{}:
				case <-abort:
					return
				}
				if n := w.Write(newStr(req(i))); n != 1 {
					report("source-write", fmt.Sprintf("process %d: the source writer's Write of request %d was accepted by %d readers", k, i, n))
					return
				}
			}
		}()
		wg.Add(1)
		go func(k int) {
			defer wg.Done()
			for i := 0; i < p.total; i++ {
				select {
				case b, ok := <-w.Receive():
					if !ok {
						report("response-mismatch", fmt.Sprintf("process %d: the source writer's response channel closed before response %d", k, i))
						return
					}
					got := str(b)
					okAns := false
					want := f.expect(req(i))
					for _, x := range want {
						okAns = okAns || x == got
					}
					if !okAns {
						report("response-mismatch", fmt.Sprintf("process %d: response %d is %q, the reference answer of request %q is %s", k, i, got, req(i), strings.Join(want, " or ")))
						return
					}
					progress.Add(1)
					<-sem
				case <-abort:
					return
				}
			}
		}(k)
	}
	done := make(chan struct{})
	go func() { wg.Wait(); close(done) }()
	last, lastT := int64(-1), time.Now()
	tick := time.NewTicker(100 * time.Millisecond)
	defer tick.Stop()
	for {
		select {
		case <-done:
			mu.Lock()
			res := bad
			mu.Unlock()
			if res == nil {
				for _, proc := range procs {
					proc.Exit(nil)
				}
				for _, n := range f.nodes {
					_ = n.Close()
				}
			}
			return res
		case <-tick.C:
			if n := progress.Load(); n != last {
				last, lastT = n, time.Now()
			} else if time.Since(lastT) > freeStall {
				what := fmt.Sprintf("no response for %v after %d of %d responses: the remaining requests are never answered; goroutines inside pkg/:\n%s",
					freeStall, n, int64(p.total*p.procs), blockedFrames())
				report("pipelined-request-never-answered", what)
				mu.Lock()
				res := bad
				mu.Unlock()
				return res // the blocked goroutines, the nodes and the processes are abandoned
			}
		}
	}
}

// runDirected: the deterministic variant. client → X → Y → sink; the answer to request 1 is inside the
// outbound hook of Y's in-reader (`Reader.Receive`, about to be handed to X's out-writer) at the moment
// request 2 is inside the outbound hook of X's out-writer (`Writer.Write`, about to be handed to that reader).
func runDirected() *lib.OracleFail {
	params := "directed: client -> X -> Y -> sink, one process; the answer to request 1 enters the outbound hook of Y's in-reader while request 2 is inside the outbound hook of X's out-writer (same link)"
	mk := func(tag string) node.Node {
		return node.NewOneToOneNode(func(_ *process.Process, in *packet.Packet) (*packet.Packet, *packet.Packet) {
			return newStr(str(in) + tag), nil
		})
	}
	x, y := mk("/x"), mk("/y")
	src, sink := port.NewOut(), port.NewIn()
	src.Link(x.In(node.PortIn))
	x.Out(node.PortOut).Link(y.In(node.PortIn))
	y.Out(node.PortOut).Link(sink)
	proc := process.New()
	wXY := x.Out(node.PortOut).Open(proc)
	rY := y.In(node.PortIn).Open(proc)
	inA, inB := make(chan struct{}), make(chan struct{})
	var onceA, onceB sync.Once
	meet := func(mine *sync.Once, me, other chan struct{}) {
		mine.Do(func() {
			close(me)
			select {
			case <-other:
			case <-time.After(2 * time.Second):
			}
		})
	}
	rY.AddOutboundHook(packet.HookFunc(func(_ *packet.Packet) { meet(&onceA, inA, inB) }))
	var writes atomic.Int64
	wXY.AddOutboundHook(packet.HookFunc(func(_ *packet.Packet) {
		if writes.Add(1) == 2 {
			meet(&onceB, inB, inA)
		}
	}))
	sr := sink.Open(proc)
	held := make(chan *packet.Packet, 4)
	go func() {
		for p := range sr.Read() {
			held <- p
		}
	}()
	w := src.Open(proc)
	fail := func(what string) *lib.OracleFail {
		what += "; goroutines inside pkg/:\n" + blockedFrames()
		return &lib.OracleFail{Class: "pipelined-request-never-answered", What: what, Replay: params + "\n" + what + "\n"}
	}
	w.Write(newStr("r1"))
	var p1 *packet.Packet
	select {
	case p1 = <-held:
	case <-time.After(3 * time.Second):
		return fail("request 1 never reached the sink")
	}
	// request 2 is written by another goroutine (it blocks inside X's out-writer until the answer to request 1
	// is inside Y's in-reader); then the sink answers request 1
	go w.Write(newStr("r2"))
	go func() {
		select {
		case <-inB:
		case <-time.After(2 * time.Second):
		}
		sr.Receive(newStr("A(" + str(p1) + ")"))
	}()
	want := []string{"A(r1/x/y)", "A(r2/x/y)"}
	for i := 0; i < 2; i++ {
		if i == 1 {
			go func() {
				select {
				case p2 := <-held:
					sr.Receive(newStr("A(" + str(p2) + ")"))
				case <-time.After(3 * time.Second):
				}
			}()
		}
		select {
		case b := <-w.Receive():
			if got := str(b); got != want[i] {
				return &lib.OracleFail{Class: "response-mismatch", What: fmt.Sprintf("response %d is %q, expected %q", i+1, got, want[i]),
					Replay: params + "\n"}
			}
		case <-time.After(4 * time.Second):
			return fail(fmt.Sprintf("response %d never arrived", i+1))
		}
	}
	proc.Exit(nil)
	_ = x.Close()
	_ = y.Close()
	return nil
}

// runFree: the rounds of one check.
func runFree(c *lib.Ctx, r *lib.RNG) []lib.OracleFail {
	var fails []lib.OracleFail
	if f := runDirected(); f != nil {
		fails = append(fails, *f)
	}
	c.Hit("free-directed")
	shapes := []string{"chain2", "chain3", "chain2", "fork", "ofork", "diamond"}
	rounds := c.Scale(36, 240)
	budget := time.Duration(c.Scale(9, 60)) * time.Second
	start := time.Now()
	reqs := 0
	for i := 0; i < rounds && time.Since(start) < budget && len(fails) < 3; i++ {
		p := freeParams{
			shape:   shapes[i%len(shapes)],
			pass:    r.Chance(1, 3),
			same:    r.Chance(1, 3),
			gosched: r.Chance(1, 3),
			procs:   1,
			window:  []int{2, 5, 16}[r.Intn(3)],
			total:   r.Range(2000, 6000),
		}
		p.jpass = p.shape == "diamond" && (i/len(shapes))%2 == 1
		if r.Chance(1, 8) {
			p.total = r.Range(6000, 20000)
		}
		if r.Chance(1, 4) {
			p.procs = r.Range(2, 3)
			p.total /= p.procs
		}
		c.Hit("free-round-" + p.shape)
		if p.jpass {
			c.Hit("free-join-hands-on-its-in-packet")
		}
		c.Hit(fmt.Sprintf("free-window-%d", p.window))
		if p.procs > 1 {
			c.Hit("free-several-processes")
		}
		if f := runFreeRound(p); f != nil {
			fails = append(fails, *f)
		}
		reqs += p.total * p.procs
		c.Count("")
	}
	c.Hist["free-requests"] += reqs
	if os.Getenv("VERIF_C02_FREE_VERBOSE") != "" {
		fmt.Fprintf(os.Stderr, "[c02 free] %d requests in %v, %d failing rounds\n", reqs, time.Since(start).Round(time.Millisecond), len(fails))
	}
	return fails
}
