// Package c16: encoding a Go value and decoding it back returns the same value.
//
// (a) correspondence: types.Marshal / types.Unmarshal of the real tree on reflectively built
//     types (reflect.StructOf with json tags, omitempty, inline struct and inline map, ignored
//     fields, pointers to pointers, `any` fields with arbitrary dynamic values, nulls, all numeric
//     widths, []byte, arrays, time.Time, time.Duration, uuid.UUID) against Uniflow.Codec.encode /
//     decode: the encoded document, the decoded Go value (with the dynamic types the decoder chose
//     inside `any`) and its re-encoding are compared token by token; the same through the JSON
//     form; and typed spec ↔ spec.Unstructured conversions.
// (b) property oracle, independent of the model: Marshal → Unmarshal into a fresh value of the
//     same type never panics or fails, the result re-encodes to an Equal document, and for types
//     without `any` it is deeply equal after the stated normalisation; the same through
//     json.Marshal / json.Unmarshal of the document; spec.As + scheme.Decode keep every field.
package c16

import (
	"encoding/json"
	"errors"
	"fmt"
	"os"
	"reflect"
	"strings"
	"time"

	"github.com/gofrs/uuid"
	"github.com/siyul-park/uniflow/pkg/encoding"
	"github.com/siyul-park/uniflow/pkg/scheme"
	"github.com/siyul-park/uniflow/pkg/spec"
	"github.com/siyul-park/uniflow/pkg/types"

	"verifharness/lib"
)

// ------------------------------------------------------------------ running the real codec

type outcome struct {
	enc      types.Value
	doc      types.Value // the document that was decoded (enc, or its JSON round trip)
	encOK    bool
	encS     string
	jsonS    string // the document after the JSON round trip (mode js)
	jsonSkip bool   // json.Marshal refused the document (NaN, ±Inf)
	dec      reflect.Value
	decOK    bool
	decS     string
	reS      string
	re       types.Value
	errClass string
	errText  string
	panicked string
}

func errClass(err error) string {
	switch {
	case errors.Is(err, encoding.ErrUnsupportedType):
		return "unsupported-type"
	case errors.Is(err, encoding.ErrUnsupportedValue):
		return "unsupported-value"
	}
	return "other"
}

// throughJSON: document → JSON text → document, the way the engine reads JSON (numbers become float64).
func throughJSON(doc types.Value) (types.Value, error) {
	data, err := json.Marshal(doc)
	if err != nil {
		return nil, err
	}
	var raw any
	if err := json.Unmarshal(data, &raw); err != nil {
		return nil, err
	}
	return types.Marshal(raw)
}

// convert encodes v, optionally sends the document through JSON, decodes it into a fresh value
// of type dst and re-encodes that. Every call into the repository runs under recover.
func convert(v reflect.Value, dst *ty, viaJSON bool) (o outcome) {
	return convertTo(v, dst, viaJSON, false)
}

// convertTo: iface = decode into a `var s spec.Spec` (dst describes spec.Unstructured).
func convertTo(v reflect.Value, dst *ty, viaJSON, iface bool) (o outcome) {
	stage := "encode"
	defer func() {
		if r := recover(); r != nil {
			o.panicked = fmt.Sprintf("%s: %v", stage, r)
		}
	}()
	var src any
	if v.Kind() == reflect.Interface && v.IsNil() {
		src = nil
	} else {
		src = v.Interface()
	}
	enc, err := types.Marshal(src)
	if err != nil {
		o.errClass, o.errText = "encode-"+errClass(err), err.Error()
		return
	}
	o.enc, o.encOK, o.encS = enc, true, lib.EncodeVal(enc)
	doc := enc
	if viaJSON {
		stage = "json"
		doc, err = throughJSON(enc)
		if err != nil {
			o.jsonSkip = true
			return
		}
		o.jsonS = lib.EncodeVal(doc)
	}
	stage = "decode"
	o.doc = doc
	var tgt reflect.Value
	if iface {
		var s spec.Spec
		if err := types.Unmarshal(doc, &s); err != nil {
			o.errClass, o.errText = errClass(err), err.Error()
			return
		}
		u, ok := s.(*spec.Unstructured)
		if !ok || u == nil {
			o.errClass, o.errText = "other", fmt.Sprintf("decoding into a spec.Spec gave a %T", s)
			return
		}
		tgt = reflect.ValueOf(u)
	} else {
		tgt = reflect.New(dst.rt)
		if err := types.Unmarshal(doc, tgt.Interface()); err != nil {
			o.errClass, o.errText = errClass(err), err.Error()
			return
		}
	}
	o.dec, o.decOK, o.decS = tgt.Elem(), true, showDecoded(tgt.Elem())
	stage = "re-encode"
	var back any
	if tgt.Elem().Kind() == reflect.Interface && tgt.Elem().IsNil() {
		back = nil
	} else if iface {
		back = tgt.Interface()
	} else {
		back = tgt.Elem().Interface()
	}
	re, err := types.Marshal(back)
	if err != nil {
		o.errClass, o.errText = "re-encode-"+errClass(err), err.Error()
		o.decOK = false
		return
	}
	o.re, o.reS = re, lib.EncodeVal(re)
	return
}

// line renders what the implementation did as the model driver prints it.
func (o outcome) line(viaJSON bool) string {
	switch {
	case o.panicked != "":
		return "panic " + strings.SplitN(o.panicked, ":", 2)[0]
	case !o.encOK:
		return "X " + o.errClass
	case o.jsonSkip:
		return "E " + o.encS + " J-unsupported"
	}
	head := "E " + o.encS
	if viaJSON {
		head += " J " + o.jsonS
	}
	if !o.decOK {
		return head + " X " + o.errClass
	}
	if o.decS == "" {
		return head + " D R " + o.reS
	}
	return head + " D " + o.decS + " R " + o.reS
}

// jsonModelled: the model predicts the JSON form of this document (see Model/CodecJSON.lean).
func jsonModelled(o outcome) bool {
	return o.encOK && jsonCarries(o.enc) && !hasFloat32(o.enc)
}

// hasFloat32: the JSON text of a Float32 is the shortest decimal for float32; its float64 reading is not modelled.
func hasFloat32(doc types.Value) bool {
	switch x := doc.(type) {
	case types.Float32:
		return true
	case types.Slice:
		for _, e := range x.Values() {
			if hasFloat32(e) {
				return true
			}
		}
	case types.Map:
		for _, e := range x.Range() {
			if hasFloat32(e) {
				return true
			}
		}
	}
	return false
}

// ------------------------------------------------------------------ the property, checked directly

type tcase struct {
	op    string // rt | js | as
	src   *ty
	dst   *ty
	v     reflect.Value
	iface bool // op as: the target is a `var s spec.Spec` (written `ai <type> <value>`; dst describes spec.Unstructured)
}

func (tc tcase) opLine() string {
	if tc.iface {
		return strings.TrimSpace("ai " + tc.src.String() + " " + showStr(tc.v))
	}
	return tc.modelLine()
}

// modelLine: the line the model driver reads (a spec.Spec target is a spec.Unstructured target for the model).
func (tc tcase) modelLine() string {
	s := strings.TrimSpace(tc.op + " " + tc.src.String() + " " + showStr(tc.v))
	if tc.op == "as" {
		s += " " + tc.dst.String()
	}
	return s
}

// jsonCarries: the guards of the JSON statement (integers within ±2^53, finite floats, valid
// UTF-8 text) hold for this value; checked on the encoded document.
func jsonCarries(doc types.Value) bool {
	switch x := doc.(type) {
	case nil:
		return true
	case types.Integer:
		return x.Int() <= 1<<53 && x.Int() >= -(1<<53)
	case types.Uinteger:
		return x.Uint() <= 1<<53
	case types.Float:
		f := x.Float()
		return f == f && f-f == 0
	case types.String:
		return validUTF8(x.String())
	case types.Slice:
		for _, e := range x.Values() {
			if !jsonCarries(e) {
				return false
			}
		}
	case types.Map:
		for k, e := range x.Range() {
			if !jsonCarries(k) || !jsonCarries(e) {
				return false
			}
		}
	}
	return true
}

// lastForeign: the most recent foreign-form conversion run in this process (see foreign.go)
var lastForeign string

func check(tc tcase, o outcome) []lib.OracleFail {
	var fails []lib.OracleFail
	add := func(class, what string) {
		replay := tc.opLine() + "\n# implementation: " + o.line(tc.op == "js")
		if lastForeign != "" {
			// the process-global decoder caches make the history part of the replay
			replay = "# decoded earlier in this process (foreign document form): " + lastForeign + "\n" + replay
		}
		fails = append(fails, lib.OracleFail{Class: class, What: what, Replay: replay})
	}
	pre := ""
	if tc.op == "js" {
		pre = "json-"
	}
	if o.decOK && o.panicked == "" && o.doc != nil {
		if class, what := again(tc, o, "right away"); class != "" {
			add(class, what)
		}
	}
	if tc.op == "as" {
		// a conversion between different types (a foreign document form, a spec conversion): an error is a legitimate
		// outcome and the model predicts it (correspondence); only a panic is judged here
		if o.panicked != "" {
			add("panic", "panic during "+o.panicked)
		}
		return fails
	}
	switch {
	case o.panicked != "":
		add(pre+"panic", "panic during "+o.panicked)
		return fails
	case o.jsonSkip:
		if jsonCarries(o.enc) {
			add("json-error", "json.Marshal refused a document within the JSON guards")
		}
		return fails
	case !o.encOK || !o.decOK:
		if tc.op == "js" && !jsonCarries(o.enc) {
			return fails
		}
		add(pre+"error", "round trip failed with "+o.errClass+": "+o.errText)
		return fails
	}
	if tc.op == "as" {
		return fails // conversions between different types are judged by the spec oracle
	}
	if tc.op == "js" {
		if !jsonCarries(o.enc) {
			return fails
		}
		// the decoded value must carry the same document: compare the JSON forms
		want, err1 := throughJSON(o.enc)
		got, err2 := throughJSON(o.re)
		if err1 != nil || err2 != nil || !types.Equal(want, got) || lib.EncodeVal(want) != lib.EncodeVal(got) {
			add("json-reencode-differs", "through JSON: decoded value encodes to a different document")
		}
	} else if !types.Equal(o.enc, o.re) || o.encS != o.reS {
		add("reencode-differs", "decoded value encodes to "+o.reS+", original to "+o.encS)
	}
	if tc.src.closed() && !reflect.DeepEqual(norm(tc.v), norm(o.dec)) {
		add(pre+"not-deep-equal", "decoded value of a type without open fields differs: "+o.decS)
	}
	if tc.op == "rt" {
		// the same document with every map mutable (what a caller that builds documents with Set hands in): decoding
		// must not change it, and decoding it twice gives twice what the immutable document gives
		src := mutableCopy(o.enc)
		for round := 1; round <= 2; round++ {
			got, p := "", ""
			p = lib.Safe(func() {
				tgt := reflect.New(tc.dst.rt)
				if err := types.Unmarshal(src, tgt.Interface()); err != nil {
					got = "error " + err.Error()
					return
				}
				got = showDecoded(tgt.Elem())
			})
			if p != "" {
				got = "panic " + p
			}
			if got != o.decS {
				class := "mutable-source-decodes-differently"
				if round == 2 {
					class = "second-decode-differs"
				}
				add(class, fmt.Sprintf("decode %d of the document with mutable maps gives %s, the immutable document %s", round, got, o.decS))
			}
			if !types.Equal(src, o.enc) {
				add("decode-mutates-source", fmt.Sprintf("after decode %d the mutable document is %s, it was %s", round, lib.EncodeVal(src), o.encS))
				break
			}
		}
	}
	return fails
}

// mutableCopy rebuilds a document with every map mutable (built by Set on NewMapWithSize).
func mutableCopy(doc types.Value) types.Value {
	switch x := doc.(type) {
	case types.Map:
		m := types.NewMapWithSize(x.Len())
		for k, e := range x.Range() {
			m = m.Set(k, mutableCopy(e))
		}
		return m
	case types.Slice:
		var es []types.Value
		for _, e := range x.Values() {
			es = append(es, mutableCopy(e))
		}
		return types.NewSlice(es...)
	}
	return doc
}

// ------------------------------------------------------------------ spec documents

type nested struct {
	Label string   `json:"label"`
	Retry *int     `json:"retry,omitempty"`
	Codes []uint16 `json:"codes,omitempty"`
}

// typedSpec: a node spec with known fields only.
type typedSpec struct {
	spec.Meta `json:",inline"`
	Foo       string            `json:"foo"`
	Count     int               `json:"count,omitempty"`
	Tags      []string          `json:"tags"`
	Opts      map[string]any    `json:"opts,omitempty"`
	Timeout   time.Duration     `json:"timeout,omitempty"`
	Nested    *nested           `json:"nested,omitempty"`
	Weights   map[string]float64 `json:"weights"`
}

// openSpec: a node spec that keeps unknown fields.
type openSpec struct {
	spec.Meta `json:",inline"`
	Foo       string         `json:"foo,omitempty"`
	Limit     *int64         `json:"limit"`
	Extra     map[string]any `json:",inline"`
}

const kindTyped, kindOpen = "verif/typed", "verif/open"

var metaAliases = map[string]bool{"id": true, "kind": true, "namespace": true, "name": true, "annotations": true, "env": true, "ports": true}

func (g *G) meta(kind string) reflect.Value {
	mt, _ := tyOf(reflect.TypeOf(spec.Meta{}))
	m := g.val(mt, 3).Interface().(spec.Meta)
	m.Kind = kind
	m.Namespace = "ns" + g.str()
	if !validUTF8(m.Namespace) || strings.ContainsRune(m.Namespace, 0) {
		m.Namespace = "default"
	}
	if m.ID == uuid.Nil && g.r.Chance(3, 4) {
		for i := range m.ID {
			m.ID[i] = byte(g.r.Uint64())
		}
	}
	return reflect.ValueOf(m)
}

func (g *G) specValue(open bool) reflect.Value {
	if open {
		t, _ := tyOf(reflect.TypeOf(openSpec{}))
		v := g.val(t, 3)
		v.Field(0).Set(g.meta(kindOpen))
		// unknown fields: arbitrary documents under keys no known field uses
		if ex := v.Field(3); !ex.IsNil() {
			for _, k := range ex.MapKeys() {
				if metaAliases[k.String()] || k.String() == "foo" || k.String() == "limit" {
					ex.SetMapIndex(k, reflect.Value{})
				}
			}
		}
		return v
	}
	t, _ := tyOf(reflect.TypeOf(typedSpec{}))
	v := g.val(t, 3)
	v.Field(0).Set(g.meta(kindTyped))
	return v
}

func specOracle(c *lib.Ctx, g *G, sc *lib.Script, h *secondUse) []lib.OracleFail {
	var fails []lib.OracleFail
	s := scheme.New()
	s.AddKnownType(kindTyped, &typedSpec{})
	s.AddKnownType(kindOpen, &openSpec{})
	ut, err := tyOf(reflect.TypeOf(spec.Unstructured{}))
	if err != nil {
		return []lib.OracleFail{{Class: "harness", What: "cannot describe spec.Unstructured: " + err.Error()}}
	}
	n := c.Scale(120, 2500)
	for i := 0; i < n; i++ {
		open := g.r.Bool()
		v := g.specValue(open)
		st, _ := tyOf(v.Type())
		typed := reflect.New(v.Type())
		typed.Elem().Set(v)
		tc := tcase{op: "as", src: st, dst: ut, v: v}
		replay := tc.opLine()
		add := func(class, what string) {
			fails = append(fails, lib.OracleFail{Class: class, What: what, Replay: replay})
		}
		c.Hit(map[bool]string{true: "spec-open", false: "spec-typed"}[open])
		c.Count("spec:" + replay)
		// typed → generic document
		un := &spec.Unstructured{}
		var back spec.Spec
		p := lib.Safe(func() {
			if err := spec.As(typed.Interface().(spec.Spec), un); err != nil {
				add("spec-error", "typed → unstructured failed: "+err.Error())
				un = nil
				return
			}
		})
		if p != "" {
			add("spec-panic", "typed → unstructured panicked: "+p)
			continue
		}
		if un == nil {
			continue
		}
		d1, _ := types.Marshal(typed.Interface())
		d2, _ := types.Marshal(un)
		if !types.Equal(d1, d2) {
			add("spec-document-differs", "the generic document of a typed spec encodes differently: "+lib.EncodeVal(d2)+" vs "+lib.EncodeVal(d1))
		}
		// every non-meta field of the typed document is a field of the generic one
		if m, ok := d1.(types.Map); ok {
			for k := range m.Range() {
				ks := k.(types.String).String()
				if _, ok := un.Get(ks); !ok {
					add("spec-field-lost", "field "+ks+" is missing in the unstructured spec")
				}
				if !metaAliases[ks] {
					if _, ok := un.Fields[ks]; !ok {
						add("spec-field-lost", "field "+ks+" did not land in Unstructured.Fields")
					}
				}
			}
		}
		// generic → typed through the scheme
		p = lib.Safe(func() {
			b, err := s.Decode(un)
			if err != nil {
				add("spec-error", "scheme.Decode failed: "+err.Error())
				return
			}
			back = b
		})
		if p != "" {
			add("spec-panic", "scheme.Decode panicked: "+p)
			continue
		}
		if back == nil {
			continue
		}
		if reflect.TypeOf(back) != typed.Type() {
			add("spec-wrong-type", fmt.Sprintf("scheme.Decode returned %T", back))
			continue
		}
		if v.Field(0).Interface().(spec.Meta).ID == uuid.Nil {
			if back.GetID() == uuid.Nil {
				add("spec-no-id", "scheme.Decode left the id empty")
			}
			back.SetID(uuid.Nil)
		}
		d3, _ := types.Marshal(back)
		if !types.Equal(d1, d3) {
			add("spec-roundtrip-differs", "typed → unstructured → typed encodes differently: "+lib.EncodeVal(d3)+" vs "+lib.EncodeVal(d1))
		}
		// the generic hop through the decoder pkg/spec registers for a spec.Spec INTERFACE target (what the
		// stores and loaders use): typed → document → `var s spec.Spec` → document → typed. The decoder is one
		// object for the whole process; this loop sends document after document through it, and every result is
		// looked at again (secondUse) after the following ones were decoded.
		tci := tcase{op: "as", src: st, dst: ut, v: v, iface: true}
		oi := convertTo(v, ut, false, true)
		c.Hit("spec-interface-target")
		addi := func(class, what string) {
			fails = append(fails, lib.OracleFail{Class: class, What: what, Replay: tci.opLine()})
		}
		switch {
		case oi.panicked != "":
			addi("spec-panic", "typed → document → spec.Spec panicked during "+oi.panicked)
		case !oi.encOK || !oi.decOK:
			addi("spec-error", "typed → document → spec.Spec failed with "+oi.errClass+": "+oi.errText)
		default:
			if !types.Equal(oi.enc, oi.re) || oi.encS != oi.reS {
				addi("spec-document-differs", "the spec decoded into a spec.Spec encodes to "+oi.reS+", it was decoded from "+oi.encS)
			}
			back2 := reflect.New(v.Type())
			if p := lib.Safe(func() {
				if err := spec.As(oi.dec.Addr().Interface().(spec.Spec), back2.Interface().(spec.Spec)); err != nil {
					addi("spec-error", "spec.Spec → typed failed: "+err.Error())
					return
				}
				if d4, _ := types.Marshal(back2.Interface()); !types.Equal(d1, d4) {
					addi("spec-roundtrip-differs", "typed → spec.Spec → typed encodes differently: "+lib.EncodeVal(d4)+" vs "+lib.EncodeVal(d1))
				}
			}); p != "" {
				addi("spec-panic", "spec.Spec → typed panicked: "+p)
			}
		}
		fails = append(fails, check(tci, oi)...)
		h.note(tci, oi)
		// correspondence lines: both directions on the model
		if sc != nil && !strings.Contains(replay, "ptr time") {
			o := convert(v, ut, false)
			sc.Begin()
			sc.Op(replay, o.line(false))
			sc.Op(replay, oi.line(false)) // the interface target is an Unstructured target for the model
			if o.decOK {
				tc2 := tcase{op: "as", src: ut, dst: st, v: o.dec}
				o2 := convert(o.dec, st, false)
				sc.Op(tc2.opLine(), o2.line(false))
			}
		}
		if i < 1 {
			c.Sample(map[string]any{"spec": replay})
		}
	}
	return fails
}

// ------------------------------------------------------------------ *time.Time: the RFC 3339 text form

// timeText ties Model/CodecTime.lean to the repository: a *time.Time is encoded by the string encoder as
// MarshalText (RFC 3339 with nanoseconds) and a String is decoded into a time.Time by time.Parse(RFC3339).
// For random instants and zones: `pt ms sub off` compares the text, `as str <text> time` the decoded time.
// (Values of type *time.Time inside generated types stay oracle-only: the model's type universe has no such type.)
func timeText(c *lib.Ctx, g *G, sc *lib.Script) []lib.OracleFail {
	var fails []lib.OracleFail
	if _, lo := time.Now().Zone(); lo != 0 {
		c.Hit("time-text-skipped(local zone is not UTC)")
		return nil
	}
	tt := scalar("time")
	n := c.Scale(80, 3000)
	for i := 0; i < n; i++ {
		t := g.val(tt, 0).Interface().(time.Time)
		ms := t.UnixMilli()
		sub := int64(t.Sub(time.UnixMilli(ms)))
		_, off := t.Zone()
		text, err := t.MarshalText()
		line := fmt.Sprintf("pt %d %d %d", ms, sub, off)
		c.Count("timetext:" + line)
		c.Hit("op-pt")
		sc.Begin()
		if err != nil {
			sc.Op(line, "T none")
			continue
		}
		sc.Op(line, "T "+hx(text))
		tc := tcase{op: "as", src: scalar("str"), dst: tt, v: reflect.ValueOf(string(text))}
		o := convert(tc.v, tt, false)
		sc.Op(tc.opLine(), o.line(false))
		// oracle: the text parses back to the same instant in a zone with the same offset
		if !o.decOK {
			fails = append(fails, lib.OracleFail{Class: "time-text-error", What: "the RFC 3339 text of a time does not decode: " + o.errText + o.panicked, Replay: line})
			continue
		}
		back := o.dec.Interface().(time.Time)
		if _, boff := back.Zone(); !back.Equal(t) || boff != off {
			fails = append(fails, lib.OracleFail{Class: "time-text-differs", What: fmt.Sprintf("%s decodes to %s", text, back.Format(time.RFC3339Nano)), Replay: line})
		}
	}
	return fails
}

// ------------------------------------------------------------------ corpus

func parseCase(line string) (tcase, error) {
	f := strings.Fields(line)
	if len(f) == 0 || (f[0] != "rt" && f[0] != "js" && f[0] != "as" && f[0] != "ai") {
		return tcase{}, fmt.Errorf("unknown operation in %q", line)
	}
	p := &toks{t: f[1:]}
	st, err := parseTy(p)
	if err != nil {
		return tcase{}, err
	}
	v, err := parseVal(p, st)
	if err != nil {
		return tcase{}, err
	}
	tc := tcase{op: f[0], src: st, dst: st, v: v}
	if f[0] == "ai" {
		// the target is a `var s spec.Spec`
		tc.op, tc.iface = "as", true
		if tc.dst, err = tyOf(reflect.TypeOf(spec.Unstructured{})); err != nil {
			return tcase{}, err
		}
	} else if f[0] == "as" {
		if tc.dst, err = parseTy(p); err != nil {
			return tcase{}, err
		}
	}
	if p.i != len(p.t) {
		return tcase{}, fmt.Errorf("%d trailing tokens", len(p.t)-p.i)
	}
	return tc, nil
}

// ------------------------------------------------------------------ Run

func Run(c *lib.Ctx) {
	c.Rule = "one case = one (type, value) pair: the type is generated over the modelled universe (depth ≤ 4; structs built with reflect.StructOf carrying json tags, omitempty, inline struct, inline map, ignored fields), the value over it with boundary numbers, nils at every nullable position and arbitrary dynamic values in `any`; run as rt (direct), js (through JSON), as (typed spec ↔ spec.Unstructured) or ai (typed spec → document → `var s spec.Spec`, the decoder pkg/spec registers for the interface); every document is decoded into a fresh target again right away and once more after 3 later cases (second use of the process-global decoders). A case is non-trivial when its type is composite or open; distinct by the full operation line (type + value)"
	c.Assumptions = []string{
		"field aliases: explicit json names, or – for fields whose tag has no name part – the default alias, which the harness computes with its own snake_case implementation (ASCII identifiers) and tells the model; a different alias on the Go side is a difference",
		"inline-map keys are disjoint from the aliases of the enclosing struct; a struct has at most one inline map and inline structs contain none (C16 well-formedness, GoType.wf)",
		"types outside the modelled universe (channels, funcs, custom marshalers other than time.Time/time.Duration/uuid.UUID, io.Reader buffers, error values, non-string map keys) are not claimed",
		"maps behave as dictionaries in Range order (C15) and Equal/Compare/Hash are lawful (C14)",
		"named types: a fixed family of declared named types (one per scalar kind and width, named []byte, slice, map, array, struct) appears as field type, map value, pointer target and inside any; the model treats `named T` as T (a named type encodes like its underlying type)",
		"decode history: foreign document forms (a list of numbers or base64 text for []byte, milliseconds or RFC 3339 text for a time, numbers of another kind, decimal text …) are decoded into typed targets on the same process-global types.Decoder, interleaved with the round trips; every such decode is compared with the model's decode and followed by round trips of the target type",
		"second use: every decoded document is decoded again into a fresh target at once and after 3 later cases; the results must show and re-encode alike and share no memory (pointer targets, map headers, slice backing arrays; time.Time's *Location and zero-size objects excepted), and the first result must be unchanged after the later decodes",
		"JSON: integers within ±2^53, finite floats, valid UTF-8 text (guards of C16.roundtrip_json); js lines within the guards and without Float32 values are compared with the model's jsonForm + decode, the others are checked by the oracle only",
		"omitempty: Go tests reflect.Value.IsZero first and then Equal(encoding, encoding of the zero value); the model has only the second test (a zero value encodes like the zero value)",
	}
	c.Trusted = []string{"reflect (StructOf, DeepEqual), encoding/json, time, gofrs/uuid text form"}
	r := lib.NewRNG(c.Seed)
	g := &G{r: r.Fork(), c: c}
	sc := &lib.Script{}
	var fails []lib.OracleFail
	seen := map[string]bool{}
	addFails := func(fs []lib.OracleFail) {
		for _, f := range fs {
			k := f.Class + "|" + f.What
			if !seen[k] && len(fails) < 200 {
				seen[k] = true
				fails = append(fails, f)
			}
		}
	}
	h := &secondUse{c: c, report: addFails}
	run := func(tc tcase) {
		o := convertTo(tc.v, tc.dst, tc.op == "js", tc.iface)
		defer func() { h.note(tc, o) }()
		line := tc.modelLine()
		if tc.src.modelled() && !strings.Contains(line, ": ptr time") && !strings.Contains(line, " ptr time") && (tc.op != "js" || jsonModelled(o)) {
			sc.Begin()
			sc.Op(line, o.line(tc.op == "js"))
			if tc.op == "js" {
				c.Hit("js-line-compared-with-model")
				if !tc.src.jtOK() {
					c.Hit("js-line-with-omitempty-open-array-or-struct")
				}
			}
		} else {
			if tc.op == "js" && !jsonModelled(o) {
				c.Hit("oracle-only(js: float32 or outside the JSON guards)")
			} else {
				c.Hit("oracle-only(*time.Time)")
			}
		}
		key := ""
		if !tc.src.closed() || tc.src.el != nil || tc.src.k == "struct" {
			key = line
		}
		c.Count(key)
		c.Hit("op-" + tc.op)
		if omitRoundsToZero(tc.v) {
			c.Hit("omitempty-value-encodes-like-zero") // the class of the former known finding: now must round-trip
		}
		c.Hit("top-" + tc.src.k)
		if o.panicked != "" {
			c.Hit("outcome-panic")
		} else if !o.decOK {
			c.Hit("outcome-" + o.errClass)
		} else {
			c.Hit("outcome-ok")
		}
		addFails(check(tc, o))
	}
	// corpus first
	for _, f := range c.CorpusFiles() {
		for _, ln := range lib.ReadLines(f) {
			tc, err := parseCase(ln)
			if err != nil {
				c.Violation("corpus line does not parse: "+f+": "+err.Error(), ln, false)
				continue
			}
			c.Hit("corpus")
			run(tc)
		}
		h.flush()
	}
	n := c.Scale(1500, 40000)
	for i := 0; i < n; i++ {
		g.alias = 0
		g.json = false
		op := "rt"
		if r.Chance(1, 4) {
			op = "js"
			g.json = true
		}
		t := g.typ(r.Range(1, 4), true)
		if op == "js" && t.has("barr") && r.Chance(9, 10) {
			op, g.json = "rt", false
		}
		if r.Chance(1, 5) {
			// a foreign (legal, but not self-encoded) document for a typed target, then a round trip of that target
			// type in the same process: the result of the round trip must not depend on the decode before it
			g.json = false
			ftc, after := g.foreign()
			run(ftc)
			lastForeign = ftc.opLine()
			run(tcase{op: "rt", src: after, dst: after, v: g.val(after, 2)})
			w := structOf([]field{{mode: 'n', alias: "data", t: after}, {mode: 'o', alias: "opt", t: ptrOf(after)}})
			run(tcase{op: lib.Pick(r, []string{"rt", "js"}), src: w, dst: w, v: g.val(w, 2)})
			g.json = op == "js"
		}
		v := g.val(t, 4)
		tc := tcase{op: op, src: t, dst: t, v: v}
		run(tc)
		if i < 4 {
			c.Sample(map[string]any{"op": tc.opLine()})
		}
	}
	h.flush()
	g.json = false
	addFails(timeText(c, g, sc))
	addFails(specOracle(c, g, sc, h))
	h.flush()
	if sharedBytesSeen > 0 {
		c.Hit("bytes-in-any-is-the-documents-array(observation)")
	}
	if os.Getenv("VERIF_DEBUG") != "" {
		for _, f := range fails {
			fmt.Fprintf(os.Stderr, "FAIL [%s] %s\n    %s\n", f.Class, f.What, strings.ReplaceAll(f.Replay, "\n", "\n    "))
		}
	}
	var ms []lib.Mismatch
	if c.Proof.DriverBuilt {
		var err error
		ms, err = c.RunModel("c16", sc)
		if err != nil {
			c.Violation("model driver failed: "+err.Error(), "", false)
		}
	}
	if os.Getenv("VERIF_DEBUG") != "" {
		for i, m := range ms {
			if i < 12 {
				fmt.Fprintf(os.Stderr, "MISMATCH op:    %.900s\n         impl:  %.700s\n         model: %.700s\n", m.Op, m.Impl, m.Model)
			}
		}
	}
	c.Conclude("types.Marshal/Unmarshal ≈ Uniflow.Codec.encode/decode", ms, fails)
}
