package c16

// Type descriptors and the value notation shared with the Lean driver (Driver/C16.lean).
//
//	T ::= int|int8|int16|int32|int64|uint|uint8|uint16|uint32|uint64|f32|f64|str|bool
//	    | bytes | barr <n> | time | dur | uuid | any
//	    | ptr T | slice T | arr <n> T | map T | struct <k> F_1 … F_k
//	F ::= <mode> <alias hex> T          mode: n named | o omitempty | i inline | x ignored (json:"-")
//
//	V(int*)/V(uint*) ::= <decimal>      V(f32|f64) ::= <IEEE bit pattern, decimal>
//	V(str) ::= <hex>                    V(bool) ::= true|false
//	V(bytes) ::= nil | <hex>            V(barr n) ::= <hex>        V(uuid) ::= <hex of 16 bytes>
//	V(time) ::= <unix millis> <lost>    lost = (nanoseconds below the millisecond)*3 + zone (0 UTC,1 Local,2 other)
//	V(dur) ::= <nanoseconds>
//	V(ptr T) ::= nil | & V(T)           V(slice T) ::= nil | l <n> V(T)…   V(arr n T) ::= V(T)^n
//	V(map T) ::= nil | m <n> (<key hex> V(T))…      (keys ascending bytewise)
//	V(struct) ::= V(F_1) … V(F_k)       V(any) ::= nil | : T V(T)   (dynamic type, then the value)
//
// `[]uint8` is `bytes` and `[n]uint8` is `barr n` (Go cannot tell them apart either).

import (
	"encoding/hex"
	"fmt"
	"math"
	"reflect"
	"sort"
	"strconv"
	"strings"
	"time"

	"github.com/gofrs/uuid"
)

type field struct {
	mode  byte // n o i x
	alias string
	t     *ty
	// name != "": the Go field has this name and NO name part in its json tag (untagged, or `json:",omitempty"`), so
	// the repository derives the alias as snake_case(name) (strcase). alias is then what the harness expects that to
	// be, computed by its own snakeCase – the model is told the alias, a wrong alias on the Go side is a difference.
	name string
}

// snakeCase: an independent implementation of the default alias rule for Go identifiers (ASCII letters, digits and
// '_'): a '_' is inserted where the character class changes between lower-case letter, upper-case letter and digit,
// an acronym stays one word ("HTTPServer" → "http_server", "UserID2" → "user_id_2", "X2Y" → "x_2_y").
func snakeCase(s string) string {
	class := func(c byte) int {
		switch {
		case c >= 'A' && c <= 'Z':
			return 1
		case c >= 'a' && c <= 'z':
			return 2
		case c >= '0' && c <= '9':
			return 3
		}
		return 0
	}
	lower := func(c byte) byte {
		if class(c) == 1 {
			return c + 'a' - 'A'
		}
		return c
	}
	var out []byte
	for i := 0; i < len(s); i++ {
		c := s[i]
		if i+1 < len(s) {
			cc, nc := class(c), class(s[i+1])
			changed := (cc == 1 && (nc == 2 || nc == 3)) || (cc == 2 && (nc == 1 || nc == 3)) || (cc == 3 && (nc == 1 || nc == 2))
			if changed {
				// "HTTPServer": the upper-case letter that starts the next word gets the separator before it
				if cc == 1 && nc == 2 && i > 0 && class(s[i-1]) == 1 {
					out = append(out, '_')
				}
				out = append(out, lower(c))
				if cc == 2 || cc == 3 || nc == 3 {
					out = append(out, '_')
				}
				continue
			}
		}
		if c == ' ' || c == '-' || c == '.' {
			c = '_'
		}
		out = append(out, lower(c))
	}
	return string(out)
}

type ty struct {
	named bool // a declared named type (named.go): written `named T` on the wire, read as T by the model
	k     string
	n     int
	el    *ty
	fs    []field
	rt    reflect.Type
}

var (
	anyT   = reflect.TypeOf((*any)(nil)).Elem()
	timeT  = reflect.TypeOf(time.Time{})
	durT   = reflect.TypeOf(time.Duration(0))
	uuidT  = reflect.TypeOf(uuid.UUID{})
	bytesT = reflect.TypeOf([]byte(nil))
)

var scalarRT = map[string]reflect.Type{
	"int": reflect.TypeOf(int(0)), "int8": reflect.TypeOf(int8(0)), "int16": reflect.TypeOf(int16(0)), "int32": reflect.TypeOf(int32(0)), "int64": reflect.TypeOf(int64(0)),
	"uint": reflect.TypeOf(uint(0)), "uint8": reflect.TypeOf(uint8(0)), "uint16": reflect.TypeOf(uint16(0)), "uint32": reflect.TypeOf(uint32(0)), "uint64": reflect.TypeOf(uint64(0)),
	"f32": reflect.TypeOf(float32(0)), "f64": reflect.TypeOf(float64(0)), "str": reflect.TypeOf(""), "bool": reflect.TypeOf(false),
	"bytes": bytesT, "time": timeT, "dur": durT, "uuid": uuidT, "any": anyT,
}

var kindName = map[reflect.Kind]string{
	reflect.Int: "int", reflect.Int8: "int8", reflect.Int16: "int16", reflect.Int32: "int32", reflect.Int64: "int64",
	reflect.Uint: "uint", reflect.Uint8: "uint8", reflect.Uint16: "uint16", reflect.Uint32: "uint32", reflect.Uint64: "uint64",
	reflect.Float32: "f32", reflect.Float64: "f64", reflect.String: "str", reflect.Bool: "bool",
}

func scalar(k string) *ty { return &ty{k: k, rt: scalarRT[k]} }

func ptrOf(e *ty) *ty   { return &ty{k: "ptr", el: e, rt: reflect.PointerTo(e.rt)} }
func sliceOf(e *ty) *ty { return &ty{k: "slice", el: e, rt: reflect.SliceOf(e.rt)} }
func arrOf(n int, e *ty) *ty {
	return &ty{k: "arr", n: n, el: e, rt: reflect.ArrayOf(n, e.rt)}
}
func barrOf(n int) *ty { return &ty{k: "barr", n: n, rt: reflect.ArrayOf(n, scalarRT["uint8"])} }
func mapOf(e *ty) *ty  { return &ty{k: "map", el: e, rt: reflect.MapOf(scalarRT["str"], e.rt)} }

// structOf builds the Go struct type reflectively: fields F0, F1, … with json tags.
func structOf(fs []field) *ty {
	sf := make([]reflect.StructField, len(fs))
	for i, f := range fs {
		tag := ""
		switch f.mode {
		case 'n':
			tag = f.alias
		case 'o':
			tag = f.alias + ",omitempty"
		case 'i':
			tag = ",inline"
		case 'x':
			tag = "-"
		}
		sf[i] = reflect.StructField{Name: "F" + strconv.Itoa(i), Type: f.t.rt, Tag: reflect.StructTag(`json:"` + tag + `"`)}
		if f.name != "" {
			// default alias: no name part in the tag (mode n: no tag at all)
			sf[i].Name = f.name
			sf[i].Tag = ""
			if f.mode == 'o' {
				sf[i].Tag = `json:",omitempty"`
			}
		}
	}
	return &ty{k: "struct", fs: fs, rt: reflect.StructOf(sf)}
}

// tyOf describes an existing Go type (dynamic types found in `any` after decoding; the
// hand-written spec types). Struct aliases are read from the json tag; a field without an
// explicit name in its tag is outside the harness's universe (strcase is not modelled).
func tyOf(rt reflect.Type) (*ty, error) {
	if nt, ok := namedByRT[rt]; ok {
		return nt, nil
	}
	switch rt {
	case timeT:
		return scalar("time"), nil
	case durT:
		return scalar("dur"), nil
	case uuidT:
		return scalar("uuid"), nil
	case anyT:
		return scalar("any"), nil
	}
	if n, ok := kindName[rt.Kind()]; ok {
		return &ty{k: n, rt: rt}, nil
	}
	switch rt.Kind() {
	case reflect.Pointer:
		e, err := tyOf(rt.Elem())
		if err != nil {
			return nil, err
		}
		return &ty{k: "ptr", el: e, rt: rt}, nil
	case reflect.Slice:
		if rt.Elem().Kind() == reflect.Uint8 {
			return &ty{k: "bytes", rt: rt}, nil
		}
		e, err := tyOf(rt.Elem())
		if err != nil {
			return nil, err
		}
		return &ty{k: "slice", el: e, rt: rt}, nil
	case reflect.Array:
		if rt.Elem().Kind() == reflect.Uint8 {
			return &ty{k: "barr", n: rt.Len(), rt: rt}, nil
		}
		e, err := tyOf(rt.Elem())
		if err != nil {
			return nil, err
		}
		return &ty{k: "arr", n: rt.Len(), el: e, rt: rt}, nil
	case reflect.Map:
		if rt.Key().Kind() != reflect.String {
			return nil, fmt.Errorf("map key type %s", rt.Key())
		}
		e, err := tyOf(rt.Elem())
		if err != nil {
			return nil, err
		}
		return &ty{k: "map", el: e, rt: rt}, nil
	case reflect.Struct:
		var fs []field
		for i := 0; i < rt.NumField(); i++ {
			f := rt.Field(i)
			if !f.IsExported() {
				return nil, fmt.Errorf("unexported field %s", f.Name)
			}
			e, err := tyOf(f.Type)
			if err != nil {
				return nil, err
			}
			tag := f.Tag.Get("json")
			name, opt, _ := strings.Cut(tag, ",")
			switch {
			case tag == "-":
				fs = append(fs, field{mode: 'x', t: e})
			case opt == "inline":
				fs = append(fs, field{mode: 'i', t: e})
			case name == "" && opt == "omitempty":
				fs = append(fs, field{mode: 'o', alias: snakeCase(f.Name), t: e, name: f.Name})
			case name == "":
				fs = append(fs, field{mode: 'n', alias: snakeCase(f.Name), t: e, name: f.Name})
			case opt == "omitempty":
				fs = append(fs, field{mode: 'o', alias: name, t: e})
			default:
				fs = append(fs, field{mode: 'n', alias: name, t: e})
			}
		}
		return &ty{k: "struct", fs: fs, rt: rt}, nil
	}
	return nil, fmt.Errorf("type %s is outside the modelled universe", rt)
}

func hx(b []byte) string {
	if len(b) == 0 {
		return "-"
	}
	return hex.EncodeToString(b)
}

func unhx(s string) ([]byte, error) {
	if s == "-" {
		return []byte{}, nil
	}
	return hex.DecodeString(s)
}

func (t *ty) wire(out *[]string) {
	if t.named {
		*out = append(*out, "named")
	}
	t.wireInner(out)
}

// inner: the descriptor without a leading `named`
func (t *ty) inner() string {
	var out []string
	t.wireInner(&out)
	return strings.Join(out, " ")
}

func (t *ty) wireInner(out *[]string) {
	switch t.k {
	case "ptr", "slice", "map":
		*out = append(*out, t.k)
		t.el.wire(out)
	case "arr":
		*out = append(*out, "arr", strconv.Itoa(t.n))
		t.el.wire(out)
	case "barr":
		*out = append(*out, "barr", strconv.Itoa(t.n))
	case "struct":
		*out = append(*out, "struct", strconv.Itoa(len(t.fs)))
		for _, f := range t.fs {
			if f.name != "" {
				// N / O: named / omitempty with the default alias; the Go field name follows the alias
				*out = append(*out, strings.ToUpper(string(f.mode)), hx([]byte(f.alias)), hx([]byte(f.name)))
			} else {
				*out = append(*out, string(f.mode), hx([]byte(f.alias)))
			}
			f.t.wire(out)
		}
	default:
		*out = append(*out, t.k)
	}
}

func (t *ty) String() string {
	var out []string
	t.wire(&out)
	return strings.Join(out, " ")
}

// closed: no `any` anywhere (deep equality is claimed).
func (t *ty) closed() bool {
	switch t.k {
	case "any":
		return false
	case "ptr", "slice", "arr", "map":
		return t.el.closed()
	case "struct":
		for _, f := range t.fs {
			if f.mode != 'x' && !f.t.closed() {
				return false
			}
		}
	}
	return true
}

// modelled: inside the universe of Uniflow.Codec. A pointer to time.Time is not: *time.Time has
// a text marshaler, so it is encoded as RFC 3339 text (not as the millisecond count of a
// time.Time); the oracle still checks it, the model does not format RFC 3339.
func (t *ty) modelled() bool {
	if t.k == "ptr" && t.el.k == "time" {
		return false
	}
	if t.el != nil && !t.el.modelled() {
		return false
	}
	for _, f := range t.fs {
		if !f.t.modelled() {
			return false
		}
	}
	return true
}

// jtOK mirrors Uniflow.Codec.jtOK (Proofs/CodecJSONFull.lean): the static-type condition under which the JSON round
// trip is *proved* – an omitempty field whose type contains `any` is itself an any, a pointer, a slice or a map.
// Types outside it are covered by the correspondence check only; the harness counts them.
func (t *ty) jtOK() bool {
	switch t.k {
	case "ptr", "slice", "arr", "map":
		return t.el.jtOK()
	case "struct":
		for _, f := range t.fs {
			if f.mode == 'x' {
				continue
			}
			if f.mode == 'o' && !f.t.closed() && f.t.k != "any" && f.t.k != "ptr" && f.t.k != "slice" && f.t.k != "map" {
				return false
			}
			if !f.t.jtOK() {
				return false
			}
		}
	}
	return true
}

func (t *ty) has(k string) bool {
	if t.k == k {
		return true
	}
	if t.el != nil && t.el.has(k) {
		return true
	}
	for _, f := range t.fs {
		if f.t.has(k) {
			return true
		}
	}
	return false
}

// ------------------------------------------------------------------ parsing (corpus lines)

type toks struct {
	t []string
	i int
}

func (p *toks) next() (string, error) {
	if p.i >= len(p.t) {
		return "", fmt.Errorf("unexpected end of line")
	}
	p.i++
	return p.t[p.i-1], nil
}

func (p *toks) peek() string {
	if p.i >= len(p.t) {
		return ""
	}
	return p.t[p.i]
}

func parseTy(p *toks) (*ty, error) {
	k, err := p.next()
	if err != nil {
		return nil, err
	}
	if k == "named" {
		t, err := parseTy(p)
		if err != nil {
			return nil, err
		}
		if nt, ok := namedByWire[t.inner()]; ok {
			return nt, nil
		}
		return nil, fmt.Errorf("no declared named type for %q", t.inner())
	}
	if _, ok := scalarRT[k]; ok {
		return scalar(k), nil
	}
	switch k {
	case "ptr", "slice", "map":
		e, err := parseTy(p)
		if err != nil {
			return nil, err
		}
		if k == "slice" && e.k == "uint8" {
			return nil, fmt.Errorf("slice uint8 must be written bytes")
		}
		return map[string]func(*ty) *ty{"ptr": ptrOf, "slice": sliceOf, "map": mapOf}[k](e), nil
	case "arr", "barr", "struct":
		ns, err := p.next()
		if err != nil {
			return nil, err
		}
		n, err := strconv.Atoi(ns)
		if err != nil || n < 0 {
			return nil, fmt.Errorf("bad count %q", ns)
		}
		if k == "barr" {
			return barrOf(n), nil
		}
		if k == "arr" {
			e, err := parseTy(p)
			if err != nil {
				return nil, err
			}
			if e.k == "uint8" {
				return nil, fmt.Errorf("arr uint8 must be written barr")
			}
			return arrOf(n, e), nil
		}
		fs := make([]field, n)
		for i := range fs {
			m, err := p.next()
			if err != nil {
				return nil, err
			}
			if len(m) != 1 || !strings.Contains("noixNO", m) {
				return nil, fmt.Errorf("bad field mode %q", m)
			}
			a, err := p.next()
			if err != nil {
				return nil, err
			}
			ab, err := unhx(a)
			if err != nil {
				return nil, err
			}
			name := ""
			if m == "N" || m == "O" {
				ns, err := p.next()
				if err != nil {
					return nil, err
				}
				nb, err := unhx(ns)
				if err != nil {
					return nil, err
				}
				name = string(nb)
				if snakeCase(name) != string(ab) {
					return nil, fmt.Errorf("default alias of %q is %q, not %q", name, snakeCase(name), ab)
				}
				m = strings.ToLower(m)
			}
			ft, err := parseTy(p)
			if err != nil {
				return nil, err
			}
			fs[i] = field{mode: m[0], alias: string(ab), t: ft, name: name}
		}
		return structOf(fs), nil
	}
	return nil, fmt.Errorf("unknown type token %q", k)
}

func zoneOf(code int) *time.Location {
	switch code {
	case 0:
		return time.UTC
	case 1:
		return time.Local
	}
	return time.FixedZone("verif", 5*3600+1800)
}

func zoneCode(t time.Time) int {
	switch t.Location() {
	case time.UTC:
		return 0
	case time.Local:
		return 1
	}
	return 2
}

func mkTime(ms int64, lost int) time.Time {
	t := time.UnixMilli(ms).Add(time.Duration(lost / 3))
	return t.In(zoneOf(lost % 3))
}

func parseVal(p *toks, t *ty) (reflect.Value, error) {
	v := reflect.New(t.rt).Elem()
	fail := func(err error) (reflect.Value, error) { return v, err }
	if _, ok := kindName[t.rt.Kind()]; ok || t.k == "bytes" || t.k == "barr" || t.k == "uuid" || t.k == "time" || t.k == "dur" {
		s, err := p.next()
		if err != nil {
			return fail(err)
		}
		switch {
		case t.k == "time":
			ms, err := strconv.ParseInt(s, 10, 64)
			if err != nil {
				return fail(err)
			}
			ls, err := p.next()
			if err != nil {
				return fail(err)
			}
			lost, err := strconv.Atoi(ls)
			if err != nil || lost < 0 || lost >= 3000000 {
				return fail(fmt.Errorf("bad lost %q", ls))
			}
			v.Set(reflect.ValueOf(mkTime(ms, lost)))
		case t.k == "dur" || strings.HasPrefix(t.k, "int"):
			x, err := strconv.ParseInt(s, 10, t.rt.Bits())
			if err != nil {
				return fail(err)
			}
			v.SetInt(x)
		case strings.HasPrefix(t.k, "uint"):
			x, err := strconv.ParseUint(s, 10, t.rt.Bits())
			if err != nil {
				return fail(err)
			}
			v.SetUint(x)
		case t.k == "f32":
			x, err := strconv.ParseUint(s, 10, 32)
			if err != nil {
				return fail(err)
			}
			v.SetFloat(float64(math.Float32frombits(uint32(x))))
			// SetFloat goes through float64: a signalling NaN payload may be quietened; write the bits directly
			*(*float32)(v.Addr().UnsafePointer()) = math.Float32frombits(uint32(x))
		case t.k == "f64":
			x, err := strconv.ParseUint(s, 10, 64)
			if err != nil {
				return fail(err)
			}
			v.SetFloat(math.Float64frombits(x))
		case t.k == "str":
			b, err := unhx(s)
			if err != nil {
				return fail(err)
			}
			v.SetString(string(b))
		case t.k == "bool":
			if s != "true" && s != "false" {
				return fail(fmt.Errorf("bad bool %q", s))
			}
			v.SetBool(s == "true")
		case t.k == "bytes":
			if s == "nil" {
				return v, nil
			}
			b, err := unhx(s)
			if err != nil {
				return fail(err)
			}
			v.SetBytes(b)
		case t.k == "barr" || t.k == "uuid":
			b, err := unhx(s)
			if err != nil {
				return fail(err)
			}
			if len(b) != v.Len() {
				return fail(fmt.Errorf("byte array of length %d, want %d", len(b), v.Len()))
			}
			reflect.Copy(v, reflect.ValueOf(b))
		}
		return v, nil
	}
	switch t.k {
	case "ptr":
		s, err := p.next()
		if err != nil {
			return fail(err)
		}
		if s == "nil" {
			return v, nil
		}
		if s != "&" {
			return fail(fmt.Errorf("bad pointer token %q", s))
		}
		e, err := parseVal(p, t.el)
		if err != nil {
			return fail(err)
		}
		pv := reflect.New(t.el.rt)
		pv.Elem().Set(e)
		v.Set(pv)
	case "slice", "map":
		s, err := p.next()
		if err != nil {
			return fail(err)
		}
		if s == "nil" {
			return v, nil
		}
		if (t.k == "slice" && s != "l") || (t.k == "map" && s != "m") {
			return fail(fmt.Errorf("bad container token %q", s))
		}
		ns, err := p.next()
		if err != nil {
			return fail(err)
		}
		n, err := strconv.Atoi(ns)
		if err != nil || n < 0 {
			return fail(fmt.Errorf("bad length %q", ns))
		}
		if t.k == "slice" {
			v.Set(reflect.MakeSlice(t.rt, n, n))
			for i := 0; i < n; i++ {
				e, err := parseVal(p, t.el)
				if err != nil {
					return fail(err)
				}
				v.Index(i).Set(e)
			}
		} else {
			v.Set(reflect.MakeMapWithSize(t.rt, n))
			for i := 0; i < n; i++ {
				ks, err := p.next()
				if err != nil {
					return fail(err)
				}
				kb, err := unhx(ks)
				if err != nil {
					return fail(err)
				}
				e, err := parseVal(p, t.el)
				if err != nil {
					return fail(err)
				}
				kv := reflect.ValueOf(string(kb))
				if v.MapIndex(kv).IsValid() {
					return fail(fmt.Errorf("duplicate map key %q", kb))
				}
				v.SetMapIndex(kv, e)
			}
		}
	case "arr":
		for i := 0; i < t.n; i++ {
			e, err := parseVal(p, t.el)
			if err != nil {
				return fail(err)
			}
			v.Index(i).Set(e)
		}
	case "struct":
		for i, f := range t.fs {
			e, err := parseVal(p, f.t)
			if err != nil {
				return fail(err)
			}
			v.Field(i).Set(e)
		}
	case "any":
		s, err := p.next()
		if err != nil {
			return fail(err)
		}
		if s == "nil" {
			return v, nil
		}
		if s != ":" {
			return fail(fmt.Errorf("bad any token %q", s))
		}
		dt, err := parseTy(p)
		if err != nil {
			return fail(err)
		}
		if dt.k == "any" {
			return fail(fmt.Errorf("dynamic type any"))
		}
		e, err := parseVal(p, dt)
		if err != nil {
			return fail(err)
		}
		v.Set(e)
	default:
		return fail(fmt.Errorf("cannot parse a value of %s", t.k))
	}
	return v, nil
}

// ------------------------------------------------------------------ printing

// show prints a Go value in the value notation, directed by its own reflect type (so that the
// dynamic types the decoder produced inside `any` are part of the observation).
func show(out *[]string, v reflect.Value) error { return showD(out, v, false) }

// showD: dyn is set inside an interface value, where a nil and an empty byte slice are printed alike
// (Binary.Interface() returns whichever the encoder happened to store; the document does not tell them apart).
func showD(out *[]string, v reflect.Value, dyn bool) error {
	rt := v.Type()
	switch rt {
	case timeT:
		t := v.Interface().(time.Time)
		ms := t.UnixMilli()
		sub := int(t.Sub(time.UnixMilli(ms)))
		*out = append(*out, strconv.FormatInt(ms, 10), strconv.Itoa(sub*3+zoneCode(t)))
		return nil
	case durT:
		*out = append(*out, strconv.FormatInt(v.Int(), 10))
		return nil
	case uuidT:
		b := make([]byte, 16)
		reflect.Copy(reflect.ValueOf(b), v)
		*out = append(*out, hx(b))
		return nil
	}
	switch rt.Kind() {
	case reflect.Int, reflect.Int8, reflect.Int16, reflect.Int32, reflect.Int64:
		*out = append(*out, strconv.FormatInt(v.Int(), 10))
	case reflect.Uint, reflect.Uint8, reflect.Uint16, reflect.Uint32, reflect.Uint64:
		*out = append(*out, strconv.FormatUint(v.Uint(), 10))
	case reflect.Float32:
		var f float32
		if v.CanAddr() {
			f = *(*float32)(v.Addr().UnsafePointer())
		} else {
			c := reflect.New(rt).Elem()
			c.Set(v)
			f = *(*float32)(c.Addr().UnsafePointer())
		}
		*out = append(*out, strconv.FormatUint(uint64(math.Float32bits(f)), 10))
	case reflect.Float64:
		*out = append(*out, strconv.FormatUint(math.Float64bits(v.Float()), 10))
	case reflect.String:
		*out = append(*out, hx([]byte(v.String())))
	case reflect.Bool:
		*out = append(*out, strconv.FormatBool(v.Bool()))
	case reflect.Pointer:
		if v.IsNil() {
			*out = append(*out, "nil")
			return nil
		}
		*out = append(*out, "&")
		return showD(out, v.Elem(), dyn)
	case reflect.Slice:
		if rt.Elem().Kind() == reflect.Uint8 && (dyn || !v.IsNil()) {
			*out = append(*out, hx(v.Bytes()))
			return nil
		}
		if v.IsNil() {
			*out = append(*out, "nil")
			return nil
		}
		*out = append(*out, "l", strconv.Itoa(v.Len()))
		for i := 0; i < v.Len(); i++ {
			if err := showD(out, v.Index(i), dyn); err != nil {
				return err
			}
		}
	case reflect.Array:
		if rt.Elem().Kind() == reflect.Uint8 {
			b := make([]byte, v.Len())
			reflect.Copy(reflect.ValueOf(b), v)
			*out = append(*out, hx(b))
			return nil
		}
		for i := 0; i < v.Len(); i++ {
			if err := showD(out, v.Index(i), dyn); err != nil {
				return err
			}
		}
	case reflect.Map:
		if rt.Key().Kind() != reflect.String {
			return fmt.Errorf("map with key type %s", rt.Key())
		}
		if v.IsNil() {
			*out = append(*out, "nil")
			return nil
		}
		keys := make([]string, 0, v.Len())
		for _, k := range v.MapKeys() {
			keys = append(keys, k.String())
		}
		sort.Strings(keys)
		*out = append(*out, "m", strconv.Itoa(len(keys)))
		for _, k := range keys {
			*out = append(*out, hx([]byte(k)))
			if err := showD(out, v.MapIndex(reflect.ValueOf(k).Convert(rt.Key())), dyn); err != nil {
				return err
			}
		}
	case reflect.Struct:
		for i := 0; i < v.NumField(); i++ {
			if err := showD(out, v.Field(i), dyn); err != nil {
				return err
			}
		}
	case reflect.Interface:
		if v.IsNil() {
			*out = append(*out, "nil")
			return nil
		}
		dt, err := tyOf(v.Elem().Type())
		if err != nil {
			return err
		}
		*out = append(*out, ":")
		dt.wire(out)
		return showD(out, v.Elem(), canonDyn)
	default:
		return fmt.Errorf("value of kind %s", rt.Kind())
	}
	return nil
}

// canonDyn: print a nil byte slice inside an interface value as the empty one. Set only while printing a
// decoded value (showDecoded); operation lines print the generated value exactly.
var canonDyn = false

func showDecoded(v reflect.Value) string {
	canonDyn = true
	defer func() { canonDyn = false }()
	return showStr(v)
}

func showStr(v reflect.Value) string {
	var out []string
	if err := show(&out, v); err != nil {
		return "unshowable(" + err.Error() + ")"
	}
	return strings.Join(out, " ")
}
