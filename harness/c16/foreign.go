package c16

// Foreign document forms (added after the seeded change c16f – one "last decoder that succeeded" slot per
// DecoderGroup instead of one per source type – was missed: the generator only ever fed a typed target the
// document its own encoder writes, so the decode HISTORY of the process-global caches stayed "in domain").
//
// A typed target accepts other legal documents than its own encoding: a list of numbers or base64 text for
// []byte / [n]byte, integer or float milliseconds or RFC 3339 text for time.Time, numbers of another kind for a
// duration or a number, decimal text for an integer, 16 bytes or text for a uuid … The model defines
// `decode t d` for every document d, so these are plain correspondence cases (operation `as`: encode a value of
// one type, decode the document into another). They run interleaved with the round trips on the same
// process-global types.Decoder, and each is FOLLOWED by a round trip of the target type, whose result must not
// depend on what was decoded before.

import (
	"encoding/base64"
	"reflect"
	"strconv"
	"time"

	"github.com/gofrs/uuid"

	"verifharness/lib"
)

func rv(x any) reflect.Value { return reflect.ValueOf(x) }

// foreign returns a conversion case (source type/value, target type) and the round-trip type to run after it.
func (g *G) foreign() (tcase, *ty) {
	r := g.r
	small := func() int64 {
		switch r.Intn(8) {
		case 0:
			return 256 + int64(r.Intn(1000))
		case 1:
			return -int64(r.Intn(5)) - 1
		}
		return int64(r.Intn(256))
	}
	bytesDst := func() *ty {
		if r.Chance(1, 3) {
			return barrOf(r.Intn(5))
		}
		return scalar("bytes")
	}
	intKinds := []string{"int", "int8", "int16", "int32", "int64"}
	uintKinds := []string{"uint", "uint8", "uint16", "uint32", "uint64"}
	numVal := func(k string, x int64) reflect.Value {
		v := reflect.New(scalarRT[k]).Elem()
		if k[0] == 'u' {
			if x < 0 {
				x = -x
			}
			v.SetUint(uint64(x) & (1<<uint(v.Type().Bits()) - 1))
		} else {
			bits := uint(v.Type().Bits())
			v.SetInt(x << (64 - bits) >> (64 - bits))
		}
		return v
	}
	switch r.Intn(12) {
	case 0, 1: // a list of numbers into []byte / [n]byte
		g.c.Hit("foreign-list-into-bytes")
		k := lib.Pick(r, []string{"int", "uint16", "int64", "uint32", "any"})
		n := r.Intn(5)
		st := sliceOf(scalar(k))
		v := reflect.MakeSlice(st.rt, n, n)
		for i := 0; i < n; i++ {
			if k == "any" {
				switch r.Intn(6) {
				case 0:
					v.Index(i).Set(rv(strconv.Itoa(r.Intn(300))))
				case 1:
					// null element: unsupported type
				case 2:
					v.Index(i).Set(rv(uint8(r.Intn(256))))
				default:
					v.Index(i).Set(rv(int(small())))
				}
			} else {
				v.Index(i).Set(numVal(k, small()))
			}
		}
		dst := bytesDst()
		return tcase{op: "as", src: st, dst: dst, v: v}, dst
	case 2: // base64 text into []byte / [n]byte
		g.c.Hit("foreign-base64-into-bytes")
		b := make([]byte, r.Intn(6))
		for i := range b {
			b[i] = byte(r.Uint64())
		}
		s := base64.StdEncoding.EncodeToString(b)
		if r.Chance(1, 8) {
			s = lib.Pick(r, []string{"7", "abc", "a", "=="})
		}
		dst := bytesDst()
		return tcase{op: "as", src: scalar("str"), dst: dst, v: rv(s)}, dst
	case 3: // one number into []byte (single-element fallback of the slice decoder)
		g.c.Hit("foreign-number-into-bytes")
		k := lib.Pick(r, append(append([]string{}, intKinds...), uintKinds...))
		dst := bytesDst()
		return tcase{op: "as", src: scalar(k), dst: dst, v: numVal(k, small())}, dst
	case 4: // integer / float milliseconds, RFC 3339 text into time.Time
		g.c.Hit("foreign-into-time")
		dst := scalar("time")
		switch r.Intn(3) {
		case 0:
			k := lib.Pick(r, intKinds)
			return tcase{op: "as", src: scalar(k), dst: dst, v: numVal(k, int64(r.Uint64()>>22)-1<<40)}, dst
		case 1:
			return tcase{op: "as", src: scalar("f64"), dst: dst, v: rv(float64(int64(r.Uint64()>>24)-1<<38) + float64(r.Intn(4))/4)}, dst
		}
		t := g.val(dst, 0).Interface().(time.Time)
		if text, err := t.MarshalText(); err == nil {
			return tcase{op: "as", src: scalar("str"), dst: dst, v: rv(string(text))}, dst
		}
		return tcase{op: "as", src: scalar("int64"), dst: dst, v: rv(int64(0))}, dst
	case 5: // numbers into time.Duration
		g.c.Hit("foreign-into-duration")
		dst := scalar("dur")
		if r.Chance(1, 3) {
			return tcase{op: "as", src: scalar("f64"), dst: dst, v: rv(float64(r.Intn(100000)) + float64(r.Intn(4))/4)}, dst
		}
		k := lib.Pick(r, append(append([]string{}, intKinds...), uintKinds...))
		return tcase{op: "as", src: scalar(k), dst: dst, v: numVal(k, int64(r.Intn(1<<30)))}, dst
	case 6, 7: // decimal text into an integer
		g.c.Hit("foreign-text-into-integer")
		dst := scalar(lib.Pick(r, append(append([]string{}, intKinds...), uintKinds...)))
		s := strconv.FormatInt(int64(r.Uint64())>>uint(r.Intn(64)), 10)
		switch r.Intn(8) {
		case 0:
			s = "+" + strconv.Itoa(r.Intn(1000))
		case 1:
			s = lib.Pick(r, []string{"", "abc", "1.5", "-", "007", "99999999999999999999", "-129", "256", "65536"})
		}
		return tcase{op: "as", src: scalar("str"), dst: dst, v: rv(s)}, dst
	case 8, 9: // a number of another kind into an integer
		g.c.Hit("foreign-number-into-integer")
		dst := scalar(lib.Pick(r, append(append([]string{}, intKinds...), uintKinds...)))
		if r.Chance(1, 3) {
			f := float64(r.Intn(1<<20)) + float64(r.Intn(4))/4
			if dst.k[0] != 'u' && r.Bool() {
				f = -f
			}
			return tcase{op: "as", src: scalar("f64"), dst: dst, v: rv(f)}, dst
		}
		k := lib.Pick(r, append(append([]string{}, intKinds...), uintKinds...))
		return tcase{op: "as", src: scalar(k), dst: dst, v: numVal(k, int64(r.Uint64())>>uint(r.Intn(64)))}, dst
	case 10: // 16 bytes or text into a uuid
		g.c.Hit("foreign-into-uuid")
		dst := scalar("uuid")
		var id uuid.UUID
		for i := range id {
			id[i] = byte(r.Uint64())
		}
		if r.Bool() {
			b := id.Bytes()
			if r.Chance(1, 5) {
				b = b[:r.Intn(16)]
			}
			return tcase{op: "as", src: scalar("bytes"), dst: dst, v: rv(b)}, dst
		}
		return tcase{op: "as", src: scalar("str"), dst: dst, v: rv(id.String())}, dst
	default: // a boolean into text
		g.c.Hit("foreign-bool-into-string")
		dst := scalar("str")
		return tcase{op: "as", src: scalar("bool"), dst: dst, v: rv(r.Bool())}, dst
	}
}
