package c16

import (
	"math"
	"reflect"
	"strconv"
	"strings"
	"time"

	"verifharness/lib"
)

// G generates types of the modelled universe and values of them.
type G struct {
	r     *lib.RNG
	c     *lib.Ctx
	alias int
	json  bool // generate only what the JSON form can carry (guards of C16.roundtrip_json)
}

var scalarKinds = []string{"int", "int8", "int16", "int32", "int64", "uint", "uint8", "uint16", "uint32", "uint64", "f32", "f64", "str", "bool", "bytes", "time", "dur", "uuid"}

func (g *G) freshAlias() string {
	g.alias++
	base := []string{"a", "id", "name", "b", "kind", "v", "é", "x_y", "K"}[g.r.Intn(9)]
	return base + strconv.Itoa(g.alias)
}

// freshName: a Go field name whose json tag will have no name part (default alias = snake_case of the name)
func (g *G) freshName() string {
	g.alias++
	base := []string{"Foo", "HTTPServer", "UserID", "X2Y", "JSONData", "Fld", "Zq_R", "Timeout", "MaxRetries"}[g.r.Intn(9)]
	return base + strconv.Itoa(g.alias)
}

// typ generates a type; d is the remaining depth.
func (g *G) typ(d int, allowAny bool) *ty {
	if d <= 0 || g.r.Chance(2, 5) {
		if allowAny && g.r.Chance(1, 6) {
			return scalar("any")
		}
		if g.r.Chance(1, 14) {
			return barrOf(g.r.Intn(5))
		}
		k := lib.Pick(g.r, scalarKinds)
		if _, ok := namedScalarRT[k]; ok && g.r.Chance(1, 4) {
			g.c.Hit("type-named-scalar")
			return namedScalar(k) // a declared named type: takes the encoders' reflect fallback
		}
		return scalar(k)
	}
	if g.r.Chance(1, 12) {
		g.c.Hit("type-named-composite")
		return lib.Pick(g.r, namedComposites())
	}
	switch g.r.Weighted([]int{3, 4, 2, 4, 6, 2}) {
	case 0:
		return ptrOf(g.typ(d-1, allowAny))
	case 1:
		e := g.typ(d-1, allowAny)
		if e.k == "uint8" {
			return scalar("bytes")
		}
		return sliceOf(e)
	case 2:
		e := g.typ(d-1, allowAny)
		if e.k == "uint8" {
			return barrOf(g.r.Intn(4))
		}
		return arrOf(g.r.Intn(4), e)
	case 3:
		return mapOf(g.typ(d-1, allowAny))
	case 4:
		return g.structTyp(d, allowAny, true)
	default:
		if allowAny {
			return scalar("any")
		}
		return g.typ(d-1, allowAny)
	}
}

// structTyp: at most one inline map (any position); inline structs contain no inline map.
func (g *G) structTyp(d int, allowAny, allowInlineMap bool) *ty {
	n := g.r.Intn(5)
	fs := make([]field, 0, n)
	usedInlineMap := false
	for i := 0; i < n; i++ {
		switch g.r.Weighted([]int{10, 5, 3, 1}) {
		case 0:
			f := field{mode: 'n', alias: g.freshAlias(), t: g.typ(d-1, allowAny)}
			if g.r.Chance(1, 4) {
				f.name = g.freshName()
				f.alias = snakeCase(f.name)
				g.c.Hit("type-default-alias")
			}
			fs = append(fs, f)
		case 1:
			f := field{mode: 'o', alias: g.freshAlias(), t: g.typ(d-1, allowAny)}
			if g.r.Chance(1, 3) {
				f.name = g.freshName()
				f.alias = snakeCase(f.name)
				g.c.Hit("type-default-alias")
			}
			fs = append(fs, f)
		case 2:
			if allowInlineMap && !usedInlineMap && g.r.Bool() {
				usedInlineMap = true
				var e *ty
				if allowAny && g.r.Chance(2, 3) {
					e = scalar("any")
				} else {
					e = g.typ(d-2, allowAny)
				}
				fs = append(fs, field{mode: 'i', t: mapOf(e)})
				g.c.Hit("type-inline-map")
			} else {
				fs = append(fs, field{mode: 'i', t: g.structTyp(d-1, allowAny, false)})
				g.c.Hit("type-inline-struct")
			}
		default:
			fs = append(fs, field{mode: 'x', t: g.typ(d-2, allowAny)})
		}
	}
	return structOf(fs)
}

var intEdges = map[int][]int64{
	8:  {0, 1, -1, math.MaxInt8, math.MinInt8},
	16: {0, 1, -1, math.MaxInt16, math.MinInt16, 255, 128, -129},
	32: {0, 1, -1, math.MaxInt32, math.MinInt32, 65536, 32768, -32769},
	64: {0, 1, -1, math.MaxInt64, math.MinInt64, 1 << 53, -(1 << 53), 1<<53 + 1, math.MaxInt32 + 1, math.MinInt32 - 1},
}

var uintEdges = map[int][]uint64{
	8:  {0, 1, math.MaxUint8, 128},
	16: {0, 1, math.MaxUint16, 256, 255},
	32: {0, 1, math.MaxUint32, 1 << 31, 65536, 65535},
	64: {0, 1, math.MaxUint64, math.MaxInt64, math.MaxInt64 + 1, 1 << 53, 1<<53 + 1, math.MaxUint32 + 1, math.MaxUint32},
}

var f64Edges = []uint64{0, 1 << 63, 0x3FF0000000000000, 0x7FF0000000000000, 0xFFF0000000000000, 0x7FF8000000000001, 0x7FF0000000000001, 1, 0x000FFFFFFFFFFFFF, 0x7FEFFFFFFFFFFFFF, 0x4340000000000000, 0xC1E0000000000000, 0x3FB999999999999A}
var f32Edges = []uint32{0, 1 << 31, 0x3F800000, 0x7F800000, 0xFF800000, 0x7FC00000, 0x7F800001, 1, 0x007FFFFF, 0x7F7FFFFF, 0x3DCCCCCD}

var strPool = []string{"", "a", "b", "hello", "id", "é", "日本", "a b", "\x00", "x\"y", "\xff\xfe", "7", "true", "1.5", "2024-11-16T12:00:00Z", "aGVsbG8="}

func (g *G) str() string {
	for {
		s := lib.Pick(g.r, strPool)
		if g.r.Chance(1, 4) {
			s += strconv.Itoa(g.r.Intn(100))
		}
		if g.json && !validUTF8(s) {
			continue
		}
		return s
	}
}

func validUTF8(s string) bool {
	for _, r := range s {
		if r == 0xFFFD {
			return false
		}
	}
	return true
}

func (g *G) intOf(bits int) int64 {
	var x int64
	if g.r.Chance(1, 2) {
		x = lib.Pick(g.r, intEdges[bits])
	} else {
		x = int64(g.r.Uint64()) >> uint(64-bits) >> uint(g.r.Intn(bits))
	}
	if g.json && (x > 1<<53 || x < -(1<<53)) {
		x >>= 12
	}
	return x
}

func (g *G) uintOf(bits int) uint64 {
	var x uint64
	if g.r.Chance(1, 2) {
		x = lib.Pick(g.r, uintEdges[bits])
	} else {
		x = g.r.Uint64() >> uint(64-bits) >> uint(g.r.Intn(bits))
	}
	if g.json && x > 1<<53 {
		x >>= 12
	}
	return x
}

// val generates a value of t. inlineKeys: the key prefix to use for inline-map keys (disjoint
// from every alias: aliases never start with '~').
func (g *G) val(t *ty, d int) reflect.Value {
	v := reflect.New(t.rt).Elem()
	if g.r.Chance(1, 12) {
		g.c.Hit("value-zero")
		return v // the zero value of any type
	}
	switch t.k {
	case "int", "int64":
		v.SetInt(g.intOf(64))
	case "int8":
		v.SetInt(g.intOf(8))
	case "int16":
		v.SetInt(g.intOf(16))
	case "int32":
		v.SetInt(g.intOf(32))
	case "uint", "uint64":
		v.SetUint(g.uintOf(64))
	case "uint8":
		v.SetUint(g.uintOf(8))
	case "uint16":
		v.SetUint(g.uintOf(16))
	case "uint32":
		v.SetUint(g.uintOf(32))
	case "f32":
		var b uint32
		if g.r.Bool() {
			b = lib.Pick(g.r, f32Edges)
		} else {
			b = uint32(g.r.Uint64())
		}
		if b&0x7F800000 == 0x7F800000 && b&0x007FFFFF != 0 {
			b |= 0x00400000 // a signalling NaN is quietened by the decoder's float32→float64→float32 conversion (documented limit)
		}
		f := math.Float32frombits(b)
		if g.json && (f != f || math.IsInf(float64(f), 0)) {
			f = 1.25
		}
		*(*float32)(v.Addr().UnsafePointer()) = f
	case "f64":
		var b uint64
		if g.r.Bool() {
			b = lib.Pick(g.r, f64Edges)
		} else {
			b = g.r.Uint64()
		}
		f := math.Float64frombits(b)
		if g.json && (f != f || math.IsInf(f, 0)) {
			f = -2.5
		}
		v.SetFloat(f)
	case "str":
		v.SetString(g.str())
	case "bool":
		v.SetBool(g.r.Bool())
	case "bytes":
		if g.r.Chance(1, 6) {
			return v
		}
		b := make([]byte, g.r.Intn(5))
		for i := range b {
			b[i] = byte(g.r.Uint64())
		}
		v.SetBytes(b)
	case "barr", "uuid":
		if t.k == "uuid" && g.r.Chance(1, 4) {
			return v
		}
		for i := 0; i < v.Len(); i++ {
			v.Index(i).SetUint(g.r.Uint64() & 0xff)
		}
	case "time":
		var ms int64
		switch g.r.Intn(4) {
		case 0:
			ms = []int64{0, -1, 1, -62135596800000, 253402214400000, 1704161045006, -62135510400000}[g.r.Intn(7)] // within years 1..9999 in every zone (RFC 3339 text of *time.Time)
		default:
			ms = int64(g.r.Uint64()>>22) - 1<<40
		}
		lost := 0
		if g.r.Bool() {
			lost = g.r.Intn(1000000)*3 + g.r.Intn(3)
		}
		v.Set(reflect.ValueOf(mkTime(ms, lost)))
	case "dur":
		var ns int64
		switch g.r.Intn(4) {
		case 0:
			ns = []int64{0, 1, -1, 999999, 1000000, -999999, -1000001, math.MaxInt64, math.MinInt64, int64(1500 * time.Millisecond)}[g.r.Intn(10)]
		default:
			ns = int64(g.r.Uint64()) >> uint(g.r.Intn(60))
		}
		if g.json && (ns/1000000 > 1<<53 || ns/1000000 < -(1<<53)) {
			ns >>= 12
		}
		v.SetInt(ns)
	case "ptr":
		if g.r.Chance(1, 4) {
			return v
		}
		p := reflect.New(t.el.rt)
		p.Elem().Set(g.val(t.el, d-1))
		v.Set(p)
	case "slice":
		if g.r.Chance(1, 6) {
			return v
		}
		n := g.r.Intn(4)
		if d <= 0 {
			n = g.r.Intn(2)
		}
		v.Set(reflect.MakeSlice(t.rt, n, n))
		for i := 0; i < n; i++ {
			v.Index(i).Set(g.val(t.el, d-1))
		}
	case "arr":
		for i := 0; i < t.n; i++ {
			v.Index(i).Set(g.val(t.el, d-1))
		}
	case "map":
		if g.r.Chance(1, 6) {
			return v
		}
		n := g.r.Intn(4)
		if d <= 0 {
			n = g.r.Intn(2)
		}
		v.Set(reflect.MakeMapWithSize(t.rt, n))
		for i := 0; i < n; i++ {
			// '~' keeps inline-map keys disjoint from every struct alias
			v.SetMapIndex(reflect.ValueOf("~"+g.str()), g.val(t.el, d-1))
		}
	case "struct":
		for i, f := range t.fs {
			v.Field(i).Set(g.val(f.t, d-1))
		}
	case "any":
		if g.r.Chance(1, 5) {
			return v
		}
		dt := g.typ(min(d, 2), true)
		for dt.k == "any" {
			dt = g.typ(min(d, 2), true)
		}
		g.c.Hit("any-dyn-" + dt.k)
		v.Set(g.val(dt, d-1))
	}
	return v
}

// ------------------------------------------------------------------ normal form for deep equality

// norm maps a value of a closed type to a tree in which exactly the differences the codec is
// allowed to introduce are identified: nil vs empty slice/map/bytes, pointer chains ending in
// nil, time below the millisecond and its zone, duration below the millisecond, ignored fields.
func norm(v reflect.Value) any {
	switch v.Type() {
	case timeT:
		return [2]any{"time", v.Interface().(time.Time).UnixMilli()}
	case durT:
		return [2]any{"dur", v.Int() / 1000000}
	}
	switch v.Kind() {
	case reflect.Int, reflect.Int8, reflect.Int16, reflect.Int32, reflect.Int64:
		return v.Int()
	case reflect.Uint, reflect.Uint8, reflect.Uint16, reflect.Uint32, reflect.Uint64:
		return v.Uint()
	case reflect.Float32:
		if v.Float() == 0 {
			return "f32:0" // -0 == +0 for reflect.DeepEqual (and an omitempty -0 is dropped)
		}
		var out []string
		_ = show(&out, v)
		return "f32:" + out[0]
	case reflect.Float64:
		if v.Float() == 0 {
			return "f64:0"
		}
		return "f64:" + strconv.FormatUint(math.Float64bits(v.Float()), 10)
	case reflect.String:
		return v.String()
	case reflect.Bool:
		return v.Bool()
	case reflect.Pointer:
		if v.IsNil() {
			return nil
		}
		return norm(v.Elem())
	case reflect.Slice, reflect.Array:
		out := make([]any, v.Len())
		for i := range out {
			out[i] = norm(v.Index(i))
		}
		return out
	case reflect.Map:
		out := map[string]any{}
		for _, k := range v.MapKeys() {
			out[k.String()] = norm(v.MapIndex(k))
		}
		return out
	case reflect.Struct:
		out := make([]any, 0, v.NumField())
		for i := 0; i < v.NumField(); i++ {
			if v.Type().Field(i).Tag.Get("json") == "-" {
				continue
			}
			out = append(out, norm(v.Field(i)))
		}
		return out
	case reflect.Interface:
		if v.IsNil() {
			return nil
		}
		return norm(v.Elem())
	}
	return "?"
}

// ------------------------------------------------------------------ former known finding omitempty-rounds-to-zero (fixed): coverage only

func encNil(v reflect.Value) bool {
	switch v.Kind() {
	case reflect.Pointer, reflect.Interface:
		return v.IsNil() || encNil(v.Elem())
	}
	return false
}

// backZero: the round trip returns the zero value of v's type.
func backZero(v reflect.Value) bool {
	switch v.Type() {
	case timeT:
		return v.Interface().(time.Time).UnixMilli() == -62135596800000
	case durT:
		return v.Int()/1000000 == 0
	}
	switch v.Kind() {
	case reflect.Pointer, reflect.Interface:
		return encNil(v)
	case reflect.Slice, reflect.Map:
		return false
	case reflect.Array:
		for i := 0; i < v.Len(); i++ {
			if !backZero(v.Index(i)) {
				return false
			}
		}
		return true
	case reflect.Struct:
		for i := 0; i < v.NumField(); i++ {
			tag := v.Type().Field(i).Tag.Get("json")
			switch {
			case tag == "-":
			case strings.HasSuffix(tag, ",omitempty"):
				if !v.Field(i).IsZero() && !backZero(v.Field(i)) {
					return false
				}
			default:
				if !backZero(v.Field(i)) {
					return false
				}
			}
		}
		return true
	}
	return v.IsZero()
}

// omitRoundsToZero was the class predicate of the (now fixed) known finding; it only feeds the coverage histogram: some omitempty field holds a value that is not
// the zero value but comes back as the zero value (a duration below one millisecond, the zero instant in
// another zone or with nanoseconds, a pointer to a nil pointer, a struct of such values or with data only in
// ignored fields). It is encoded (as 0 / null / {}) but dropped when the decoded value is encoded again.
func omitRoundsToZero(v reflect.Value) bool {
	switch v.Kind() {
	case reflect.Pointer, reflect.Interface:
		return !v.IsNil() && omitRoundsToZero(v.Elem())
	case reflect.Slice, reflect.Array:
		if v.Type().Elem().Kind() == reflect.Uint8 {
			return false
		}
		for i := 0; i < v.Len(); i++ {
			if omitRoundsToZero(v.Index(i)) {
				return true
			}
		}
	case reflect.Map:
		for _, k := range v.MapKeys() {
			if omitRoundsToZero(v.MapIndex(k)) {
				return true
			}
		}
	case reflect.Struct:
		if v.Type() == timeT {
			return false
		}
		for i := 0; i < v.NumField(); i++ {
			tag := v.Type().Field(i).Tag.Get("json")
			if tag == "-" {
				continue
			}
			f := v.Field(i)
			if strings.HasSuffix(tag, ",omitempty") && !f.IsZero() && backZero(f) {
				return true
			}
			if omitRoundsToZero(f) {
				return true
			}
		}
	}
	return false
}
