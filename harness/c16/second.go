package c16

import (
	"fmt"
	"reflect"
	"strings"

	"github.com/siyul-park/uniflow/pkg/spec"
	"github.com/siyul-park/uniflow/pkg/types"

	"verifharness/lib"
)

// Second use. Every decoder of the process-global types.Decoder is compiled once and then used for every
// later decode of its target type; a decoder that keeps anything from one decode to the next (a target object
// captured at compile time, a cached result) is invisible to a single round trip. Therefore every document is
// decoded into a fresh target
//   - a second time right away,
//   - and once more after `secondUseDelay` other cases have run,
// and all results must show the same value, re-encode to the same document and share no memory
// (pointer targets, map headers, slice backing arrays); the FIRST result is looked at again after the later
// decodes and must not have changed.

const secondUseDelay = 3

// decodeFresh decodes doc into a new target of type dst (iface: into a `var s spec.Spec`, whose decoder
// hands out a *spec.Unstructured; dst describes spec.Unstructured then).
func decodeFresh(doc types.Value, dst *ty, iface bool) (dec reflect.Value, err error, panicked string) {
	panicked = lib.Safe(func() {
		if iface {
			var s spec.Spec
			if err = types.Unmarshal(doc, &s); err != nil {
				return
			}
			u, ok := s.(*spec.Unstructured)
			if !ok || u == nil {
				err = fmt.Errorf("decoding into a spec.Spec gave a %T", s)
				return
			}
			dec = reflect.ValueOf(u).Elem()
			return
		}
		tgt := reflect.New(dst.rt)
		if err = types.Unmarshal(doc, tgt.Interface()); err != nil {
			return
		}
		dec = tgt.Elem()
	})
	return
}

// memory collects the addresses a decoded value owns: its own (when addressable), pointer targets, map
// headers, backing arrays of non-empty slices. Zero-size objects (all at runtime.zerobase) and the inside of
// time.Time (shares *time.Location) are left out. A []byte held by an `any` goes to bytesInAny instead: the
// generic view of a Binary (Binary.Interface) IS the document's own byte array, on the unchanged tree (observation
// reported to the coordinator; evidence hit `bytes-in-any-is-the-documents-array`).
type mem struct {
	own        map[uintptr]string
	bytesInAny map[uintptr]string
}

func memory(v reflect.Value, path string, m *mem) { memoryIn(v, path, m, false) }

func memoryIn(v reflect.Value, path string, m *mem, inAny bool) {
	into := m.own
	if !v.IsValid() {
		return
	}
	if v.CanAddr() && v.Type().Size() > 0 && path == "" {
		into[v.Addr().Pointer()] = "the value itself"
	}
	if v.Type() == timeT {
		return
	}
	switch v.Kind() {
	case reflect.Pointer:
		if v.IsNil() {
			return
		}
		if v.Type().Elem().Size() > 0 {
			into[v.Pointer()] = path + " (pointer target)"
		}
		memoryIn(v.Elem(), path+"*", m, inAny)
	case reflect.Interface:
		if !v.IsNil() {
			memoryIn(v.Elem(), path, m, true)
		}
	case reflect.Map:
		if v.IsNil() {
			return
		}
		into[v.Pointer()] = path + " (map)"
		it := v.MapRange()
		for it.Next() {
			memoryIn(it.Value(), path+"["+fmt.Sprint(it.Key().Interface())+"]", m, inAny)
		}
	case reflect.Slice:
		if v.IsNil() || v.Len() == 0 {
			return
		}
		if inAny && v.Type() == bytesT {
			m.bytesInAny[v.Pointer()] = path
			return
		}
		if v.Type().Elem().Size() > 0 {
			into[v.Pointer()] = path + " (slice backing array)"
		}
		for i := 0; i < v.Len(); i++ {
			memoryIn(v.Index(i), fmt.Sprintf("%s[%d]", path, i), m, inAny)
		}
	case reflect.Array:
		for i := 0; i < v.Len(); i++ {
			memoryIn(v.Index(i), fmt.Sprintf("%s[%d]", path, i), m, inAny)
		}
	case reflect.Struct:
		for i := 0; i < v.NumField(); i++ {
			memoryIn(v.Field(i), path+"."+v.Type().Field(i).Name, m, inAny)
		}
	}
}

// shared: a piece of memory both results own ("" = none).
func shared(a, b reflect.Value) (own string, bytesInAny bool) {
	ma, mb := &mem{map[uintptr]string{}, map[uintptr]string{}}, &mem{map[uintptr]string{}, map[uintptr]string{}}
	memory(a, "", ma)
	memory(b, "", mb)
	for p := range ma.bytesInAny {
		if _, ok := mb.bytesInAny[p]; ok {
			bytesInAny = true
		}
	}
	for p, where := range ma.own {
		if other, ok := mb.own[p]; ok {
			return where + " = " + other, bytesInAny
		}
	}
	return "", bytesInAny
}

var sharedBytesSeen int

func reencode(dec reflect.Value) (string, error) {
	var back any
	if dec.Kind() == reflect.Interface && dec.IsNil() {
		back = nil
	} else if dec.CanAddr() && dec.Kind() == reflect.Struct && dec.Type() == reflect.TypeOf(spec.Unstructured{}) {
		back = dec.Addr().Interface()
	} else {
		back = dec.Interface()
	}
	re, err := types.Marshal(back)
	if err != nil {
		return "", err
	}
	return lib.EncodeVal(re), nil
}

// again decodes o.doc once more and compares the result with the first one.
func again(tc tcase, o outcome, when string) (class, what string) {
	dec, err, p := decodeFresh(o.doc, tc.dst, tc.iface)
	switch {
	case p != "":
		return "second-decode-differs", when + ": decoding the same document again panicked: " + p
	case err != nil:
		return "second-decode-differs", when + ": decoding the same document again failed: " + err.Error()
	}
	if s := showDecoded(dec); s != o.decS {
		return "second-decode-differs", when + ": decoding the same document again gives " + s + ", the first decode gave " + o.decS
	}
	if s, err := reencode(dec); err != nil || s != o.reS {
		return "second-decode-differs", fmt.Sprintf("%s: the value decoded from the same document again encodes to %s (err %v), the first to %s", when, s, err, o.reS)
	}
	w, b := shared(o.dec, dec)
	if b {
		sharedBytesSeen++
	}
	if w != "" {
		return "decoded-values-share-memory", when + ": two decodes of one document into fresh targets share memory: " + w
	}
	return "", ""
}

// earlier: one finished decode waiting for its re-check.
type earlier struct {
	tc    tcase
	o     outcome
	line  string
	since []string // the operation lines run after it
}

type secondUse struct {
	c       *lib.Ctx
	waiting []*earlier
	report  func([]lib.OracleFail)
}

func (e *earlier) replay() string {
	return "# in ONE process, in this order (corpus format; the last line decodes the first document again):\n" +
		e.line + "\n" + strings.Join(e.since, "\n") + "\n" + e.line
}

// recheck: the first result unchanged, a further decode equal to it and disjoint from it.
func (h *secondUse) recheck(e *earlier) {
	add := func(class, what string) {
		h.report([]lib.OracleFail{{Class: class, What: what, Replay: e.replay()}})
	}
	h.c.Hit("second-use-recheck")
	when := fmt.Sprintf("after %d later cases", len(e.since))
	if p := lib.Safe(func() {
		if s := showDecoded(e.o.dec); s != e.o.decS {
			add("earlier-result-changed", when+": the value decoded first now shows "+s+", it was "+e.o.decS)
			return
		}
		if s, err := reencode(e.o.dec); err != nil || s != e.o.reS {
			add("earlier-result-changed", fmt.Sprintf("%s: the value decoded first now encodes to %s (err %v), it did to %s", when, s, err, e.o.reS))
			return
		}
		if class, what := again(e.tc, e.o, when); class != "" {
			add(class, what)
		}
	}); p != "" {
		add("panic", "re-check panicked: "+p)
	}
}

// note is called after every case: the case joins the waiting list, older ones learn what ran after
// them, and those that have waited long enough are re-checked.
func (h *secondUse) note(tc tcase, o outcome) {
	line := tc.opLine()
	keep := h.waiting[:0]
	for _, e := range h.waiting {
		e.since = append(e.since, line)
		if len(e.since) >= secondUseDelay {
			h.recheck(e)
		} else {
			keep = append(keep, e)
		}
	}
	h.waiting = keep
	if o.decOK && o.panicked == "" && o.doc != nil {
		h.waiting = append(h.waiting, &earlier{tc: tc, o: o, line: line})
	}
}

// flush re-checks whatever still waits (end of the corpus, end of the run).
func (h *secondUse) flush() {
	for _, e := range h.waiting {
		if len(e.since) > 0 {
			h.recheck(e)
		}
	}
	h.waiting = nil
}
