package c16

// Declared named types (added after the seeded change c16h was missed: the reflect FALLBACK of a scalar encoder –
// `NewUint32(uint32(reflect.ValueOf(source).Uint()))` – is only taken by NAMED types such as `type Mode uint32`;
// builtin types take the type-assertion path, and reflect cannot create a named scalar type, so every type the
// generator built with reflect.StructOf & co. missed that path).
//
// One named type per scalar kind and width, a named []byte, and a named slice, map, array and struct. A named type
// encodes and decodes like its underlying type (the codec switches on reflect.Kind), so the model's GoType needs no
// change: on the wire a named type is written `named T`, which the driver reads as `T`.

import "reflect"

type (
	nI    int
	nI8   int8
	nI16  int16
	nI32  int32
	nI64  int64
	nU    uint
	nU8   uint8
	nU16  uint16
	nU32  uint32
	nU64  uint64
	nF32  float32
	nF64  float64
	nStr  string
	nBool bool

	nBytes    []byte
	nSliceU32 []nU32
	nMapStr   map[string]nStr
	nArrI16   [2]nI16
	nStruct   struct {
		Mode  nU32   `json:"mode"`
		Label nStr   `json:"label,omitempty"`
		Perm  *nU16  `json:"perm"`
		Raw   nBytes `json:"raw,omitempty"`
	}
)

var namedScalarRT = map[string]reflect.Type{
	"int": reflect.TypeOf(nI(0)), "int8": reflect.TypeOf(nI8(0)), "int16": reflect.TypeOf(nI16(0)), "int32": reflect.TypeOf(nI32(0)), "int64": reflect.TypeOf(nI64(0)),
	"uint": reflect.TypeOf(nU(0)), "uint8": reflect.TypeOf(nU8(0)), "uint16": reflect.TypeOf(nU16(0)), "uint32": reflect.TypeOf(nU32(0)), "uint64": reflect.TypeOf(nU64(0)),
	"f32": reflect.TypeOf(nF32(0)), "f64": reflect.TypeOf(nF64(0)), "str": reflect.TypeOf(nStr("")), "bool": reflect.TypeOf(nBool(false)),
	"bytes": reflect.TypeOf(nBytes(nil)),
}

// namedScalar: the declared named type whose underlying type is the scalar kind k
func namedScalar(k string) *ty { return &ty{k: k, rt: namedScalarRT[k], named: true} }

// the named composite types, as descriptors over the named scalars
func namedComposites() []*ty {
	sl := &ty{k: "slice", el: namedScalar("uint32"), rt: reflect.TypeOf(nSliceU32(nil)), named: true}
	mp := &ty{k: "map", el: namedScalar("str"), rt: reflect.TypeOf(nMapStr(nil)), named: true}
	ar := &ty{k: "arr", n: 2, el: namedScalar("int16"), rt: reflect.TypeOf(nArrI16{}), named: true}
	st := &ty{k: "struct", rt: reflect.TypeOf(nStruct{}), named: true, fs: []field{
		{mode: 'n', alias: "mode", t: namedScalar("uint32")},
		{mode: 'o', alias: "label", t: namedScalar("str")},
		{mode: 'n', alias: "perm", t: ptrOf(namedScalar("uint16"))},
		{mode: 'o', alias: "raw", t: namedScalar("bytes")},
	}}
	return []*ty{sl, mp, ar, st}
}

// namedByWire: descriptor text (without the leading `named`) ↦ declared type, for corpus lines and for tyOf
var namedByWire = func() map[string]*ty {
	m := map[string]*ty{}
	for k := range namedScalarRT {
		t := namedScalar(k)
		m[t.inner()] = t
	}
	for _, t := range namedComposites() {
		m[t.inner()] = t
	}
	return m
}()

var namedByRT = func() map[reflect.Type]*ty {
	m := map[reflect.Type]*ty{}
	for _, t := range namedByWire {
		m[t.rt] = t
	}
	return m
}()
