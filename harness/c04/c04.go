// Package c04: process exit hooks run exactly once; exit cascades to children; Join waits.
//
// (a) correspondence: the real process.Process driven through generated schedules of atomic
//
//	steps, deterministically: every user hook is a harness ExitFunc that parks its goroutine
//	on a channel before doing anything, so a goroutine inside Exit / AddExitHook / Fork can be
//	held between the status flip and each later hook without touching the repository. One
//	script line releases exactly one goroutine and waits until it parks again (hand-over by
//	channels; "blocked in Join" is read off the goroutine's wait state, never from a sleep).
//	The same lines are replayed on Uniflow.Process by the Lean driver `c04`.
//
// (b) property oracle: the statement checked directly (1) on the records of every
//
//	deterministic case and (2) on free-running goroutines (no step control).
package c04

import (
	"bytes"
	"context"
	"errors"
	"fmt"
	"runtime"
	"sort"
	"strconv"
	"strings"
	"sync"
	"sync/atomic"
	"time"

	"github.com/siyul-park/uniflow/pkg/process"

	"verifharness/lib"
)

const nWorkers = 4

var errs = []error{nil, errors.New("e1"), errors.New("e2"), errors.New("e3"), errors.New("e4")}

func errCode(err error) string {
	if err == nil {
		return "0"
	}
	for i, e := range errs {
		if e != nil && err == e {
			return strconv.Itoa(i)
		}
	}
	if err == context.Canceled {
		return "c"
	}
	return "?" + err.Error()
}

func errObs(err error) string {
	switch c := errCode(err); c {
	case "0":
		return "n"
	case "c":
		return "c"
	default:
		return "e" + c
	}
}

// ------------------------------------------------------------------ goroutine wait state

func curGID() int64 {
	var buf [64]byte
	n := runtime.Stack(buf[:], false)
	f := bytes.Fields(buf[:n])
	id, _ := strconv.ParseInt(string(f[1]), 10, 64)
	return id
}

var stackBuf = make([]byte, 1<<20)

// blockedInWait reports whether goroutine gid is parked inside Process.Join waiting for children.
func blockedInWait(gid int64) bool {
	n := runtime.Stack(stackBuf, true)
	s := stackBuf[:n]
	hdr := []byte(fmt.Sprintf("goroutine %d [", gid))
	i := bytes.Index(s, hdr)
	for i > 0 && s[i-1] != '\n' {
		j := bytes.Index(s[i+1:], hdr)
		if j < 0 {
			return false
		}
		i += 1 + j
	}
	if i < 0 {
		return false
	}
	rest := s[i+len(hdr):]
	end := bytes.IndexByte(rest, ']')
	if end < 0 {
		return false
	}
	state := string(rest[:end])
	if !(strings.HasPrefix(state, "semacquire") || strings.HasPrefix(state, "sync.WaitGroup.Wait") || strings.HasPrefix(state, "sync.Cond.Wait")) {
		return false
	}
	blk := rest
	if k := bytes.Index(rest, []byte("\n\n")); k >= 0 {
		blk = rest[:k]
	}
	// Join is a WaitGroup.Wait in the original code and a Cond.Wait loop after fix 37f33b8
	return bytes.Contains(blk, []byte("process.(*Process).Join")) &&
		(bytes.Contains(blk, []byte("sync.(*WaitGroup).Wait")) || bytes.Contains(blk, []byte("sync.(*Cond).Wait")))
}

// ------------------------------------------------------------------ deterministic world

type parkEv struct {
	h   int
	rel chan struct{}
}

type worker struct {
	cmd  chan func() string
	done chan string
	gid  int64
}

type tstate struct {
	kind int // 0 free, 1 parked at hook, 2 blocked in Join, 3 stuck
	p, h int // p: the process joined (kind 2); h: the hook parked in (kind 1)
	rel  chan struct{}
	join bool // the pending operation is a Join
}

// records for the statement-level audit. A registration is a (process, hook) pair; the hook
// OBJECT is shared by every process it is registered on, so a run of the hook cannot be
// attributed to a process by the harness: runs are kept per hook and matched to the
// registrations as multisets of received errors.
type regRec struct {
	p, h  int
	early bool // made while p was running
	seq   int
}

type runRec struct {
	h   int
	err string
	seq int
}

type world struct {
	procs   []*process.Process
	parent  []int
	hooks   map[int]process.ExitHook // ONE ExitFunc object per hook id
	workers [nWorkers]*worker
	st      [nWorkers]tstate
	parkCh  chan parkEv

	mu       sync.Mutex
	events   []string
	regs     []*regRec       // every effective registration, in order (harness bookkeeping, not return values)
	open     map[[2]int]bool // (p,h) was registered while p was running
	runs     []runRec
	joinObs  []string // audit failures noticed while the case runs
	readSaid bool     // the read/listing disagreement has been reported for this case
	stuck    string

	// reference of the value clause ("from termination on the process's own values are cleared"),
	// kept from the script alone: own[p] = keys set on p and not removed, emptied when p is first
	// seen terminated; Keys(p) must list own[q] for every q on p's parent chain and nothing else.
	own      []map[int]bool
	wasTerm  []bool
	keysSaid bool
}

func newWorld() *world {
	w := &world{hooks: map[int]process.ExitHook{}, parkCh: make(chan parkEv), open: map[[2]int]bool{}}
	for i := range w.workers {
		wk := &worker{cmd: make(chan func() string), done: make(chan string, 1)}
		gidc := make(chan int64)
		go func() {
			gidc <- curGID()
			for f := range wk.cmd {
				func() {
					defer func() {
						if r := recover(); r != nil {
							wk.done <- fmt.Sprintf("PANIC:%v", r)
						}
					}()
					wk.done <- f()
				}()
			}
		}()
		wk.gid = <-gidc
		w.workers[i] = wk
	}
	return w
}

func (w *world) close() {
	for _, wk := range w.workers {
		close(wk.cmd)
	}
}

// hook returns THE ExitFunc object of hook id h: the same object whatever process it is
// registered on, so that registering one hook on several processes is real sharing.
func (w *world) hook(h int) process.ExitHook {
	if hk, ok := w.hooks[h]; ok {
		return hk
	}
	hk := process.ExitFunc(func(err error) {
		rel := make(chan struct{})
		w.parkCh <- parkEv{h, rel}
		<-rel
		w.mu.Lock()
		w.events = append(w.events, fmt.Sprintf("h:%d.%s", h, errCode(err)))
		w.runs = append(w.runs, runRec{h: h, err: errCode(err), seq: len(w.runs)})
		w.mu.Unlock()
	})
	w.hooks[h] = hk
	return hk
}

// runsOf / regsOf: harness records of one hook id.
func (w *world) runsOf(h int) (out []runRec) {
	for _, r := range w.runs {
		if r.h == h {
			out = append(out, r)
		}
	}
	return
}

func (w *world) regsOf(h int) (out []*regRec) {
	for _, r := range w.regs {
		if r.h == h {
			out = append(out, r)
		}
	}
	return
}

const watchdog = 20 * time.Second

// await waits until worker t parks in a hook, finishes, or (for a Join) blocks in Wait.
func (w *world) await(t int) {
	wk := w.workers[t]
	deadline := time.Now().Add(watchdog)
	spins := 0
	for {
		select {
		case ev := <-w.parkCh:
			w.st[t] = tstate{kind: 1, h: ev.h, rel: ev.rel, join: false}
			return
		case ret := <-wk.done:
			w.st[t] = tstate{}
			w.mu.Lock()
			w.events = append(w.events, fmt.Sprintf("r:%d:%s", t, ret))
			w.mu.Unlock()
			return
		default:
		}
		if w.st[t].join && spins > 2 && blockedInWait(wk.gid) {
			w.st[t].kind = 2
			return
		}
		spins++
		if spins < 50 {
			runtime.Gosched()
		} else {
			time.Sleep(20 * time.Microsecond)
		}
		if time.Now().After(deadline) {
			w.st[t].kind = 3
			w.stuck = fmt.Sprintf("worker %d neither parked nor finished within %v", t, watchdog)
			return
		}
	}
}

// joinsReturn collects the Join calls that returned because of the last step.
func (w *world) joinsReturn(skip int) {
	for j := 0; j < nWorkers; j++ {
		if j == skip || w.st[j].kind != 2 {
			continue
		}
		wk := w.workers[j]
		if blockedInWait(wk.gid) {
			continue
		}
		select {
		case ret := <-wk.done:
			w.st[j] = tstate{}
			w.mu.Lock()
			w.events = append(w.events, fmt.Sprintf("r:%d:%s", j, ret))
			w.mu.Unlock()
		case <-time.After(watchdog):
			w.st[j].kind = 3
			w.stuck = fmt.Sprintf("joiner %d left Wait but did not return", j)
		}
	}
}

func (w *world) macro(t int, start func() string, isJoin bool) {
	if start != nil {
		w.st[t] = tstate{join: isJoin}
		w.workers[t].cmd <- start
	} else {
		close(w.st[t].rel)
	}
	w.await(t)
	w.joinsReturn(t)
}

func (w *world) digest(res string) string {
	w.mu.Lock()
	ev := strings.Join(w.events, " ")
	w.events = nil
	w.mu.Unlock()
	var ts, ps []string
	for t := 0; t < nWorkers; t++ {
		switch s := w.st[t]; s.kind {
		case 0:
			ts = append(ts, "i")
		case 1:
			ts = append(ts, fmt.Sprintf("h%d", s.h))
		case 2:
			ts = append(ts, fmt.Sprintf("j%d", s.p))
		default:
			ts = append(ts, "STUCK")
		}
	}
	for len(w.own) < len(w.procs) {
		w.own = append(w.own, map[int]bool{})
		w.wasTerm = append(w.wasTerm, false)
	}
	for i, p := range w.procs {
		if !w.wasTerm[i] && p.Status() == process.StatusTerminated {
			w.wasTerm[i] = true
			w.own[i] = map[int]bool{}
		}
	}
	for i, p := range w.procs {
		term, done := 0, 0
		if p.Status() == process.StatusTerminated {
			term = 1
		}
		select {
		case <-p.Done():
			done = 1
		default:
		}
		var ks []int
		for _, k := range p.Keys() {
			ks = append(ks, k.(int))
		}
		sort.Ints(ks)
		var want []int
		for q := i; q >= 0; q = w.parent[q] {
			for k := range w.own[q] {
				want = append(want, k)
			}
		}
		sort.Ints(want)
		if !w.keysSaid && fmt.Sprint(want) != fmt.Sprint(ks) {
			w.keysSaid = true
			w.mu.Lock()
			w.joinObs = append(w.joinObs, fmt.Sprintf("values: Keys(p%d) lists %v; the values set and not removed on its chain, those of terminated processes cleared at termination, are %v (p%d terminated: %v)", i, ks, want, i, term == 1))
			w.mu.Unlock()
		}
		var kss []string
		for _, k := range ks {
			kss = append(kss, strconv.Itoa(k))
		}
		ps = append(ps, fmt.Sprintf("%d%d%s:%s", term, done, errObs(p.Err()), strings.Join(kss, ",")))
	}
	return res + "|" + ev + "|" + strings.Join(ts, " ") + "|" + strings.Join(ps, " ")
}

func showVal(v any) string {
	if v == nil {
		return "nil"
	}
	return fmt.Sprintf("v%d", v.(int))
}

// exec runs one script line on the real code. ok=false: the line is not executable in the
// current state (the model answers bad-op for the same reason).
func (w *world) exec(line string) (out string, ok bool) {
	f := strings.Fields(line)
	num := func(s string) int {
		v, err := strconv.Atoi(s)
		if err != nil || v < 0 {
			return -1
		}
		return v
	}
	bad := func() (string, bool) { return "bad-op", false }
	switch {
	case len(f) == 1 && f[0] == "new":
		w.procs = append(w.procs, process.New())
		w.parent = append(w.parent, -1)
		return w.digest(fmt.Sprintf("p%d", len(w.procs)-1)), true
	case len(f) == 4 && f[0] == "set":
		p, k, v := num(f[1]), num(f[2]), num(f[3])
		if p < 0 || p >= len(w.procs) || k < 0 || v < 0 {
			return bad()
		}
		w.procs[p].SetValue(k, v)
		for len(w.own) < len(w.procs) {
			w.own = append(w.own, map[int]bool{})
			w.wasTerm = append(w.wasTerm, false)
		}
		w.own[p][k] = true
		return w.digest("ok"), true
	case len(f) == 3 && f[0] == "del":
		p, k := num(f[1]), num(f[2])
		if p < 0 || p >= len(w.procs) || k < 0 {
			return bad()
		}
		rv := w.procs[p].RemoveValue(k)
		for q := p; q >= 0 && q < len(w.own); q = w.parent[q] {
			if w.own[q][k] {
				delete(w.own[q], k)
				break
			}
		}
		return w.digest(showVal(rv)), true
	case len(f) == 3 && f[0] == "get":
		p, k := num(f[1]), num(f[2])
		if p < 0 || p >= len(w.procs) || k < 0 {
			return bad()
		}
		v := w.procs[p].Value(k)
		// a read and the listing of the same process agree: Value(k) is non-nil exactly when Keys() lists k
		// (every value the script sets is a non-nil int; seeded change c04j: Value of a process that exited
		// with an error answers nil without looking, also for values inherited from a running ancestor and
		// for values written after the exit, which Keys still lists)
		listed := false
		for _, kk := range w.procs[p].Keys() {
			if kk == any(k) {
				listed = true
			}
		}
		if listed != (v != nil) && !w.readSaid {
			w.readSaid = true
			w.mu.Lock()
			w.joinObs = append(w.joinObs, fmt.Sprintf("values: Value(p%d, %d) = %s although Keys(p%d) lists key %d: %v (p%d terminated: %v, Err %v)", p, k, showVal(v), p, k, listed, p, w.procs[p].Status() == process.StatusTerminated, w.procs[p].Err()))
			w.mu.Unlock()
		}
		return w.digest(showVal(v)), true
	case len(f) == 2 && f[1] == "go":
		t := num(f[0])
		if t < 0 || t >= nWorkers || w.st[t].kind != 1 {
			return bad()
		}
		w.macro(t, nil, false)
		return w.digest("ok"), true
	case len(f) == 3 && (f[1] == "fork" || f[1] == "join"):
		t, p := num(f[0]), num(f[2])
		if t < 0 || t >= nWorkers || p < 0 || p >= len(w.procs) || w.st[t].kind != 0 {
			return bad()
		}
		pr := w.procs[p]
		if f[1] == "fork" {
			id := len(w.procs)
			w.macro(t, func() string {
				c := pr.Fork()
				// the controller is waiting for this goroutine: no concurrent access
				w.procs = append(w.procs, c)
				w.parent = append(w.parent, p)
				return fmt.Sprintf("p%d", id)
			}, false)
			if len(w.procs) == id { // Fork is still parked inside (parent terminated, child has … no user hooks yet: cannot happen)
				w.stuck = "Fork parked before returning the child"
			}
		} else {
			kids := w.children(p)
			kp := make([]*process.Process, len(kids))
			for i, c := range kids {
				kp[i] = w.procs[c]
			}
			w.macro(t, func() string {
				pr.Join()
				w.auditJoin(p, kids, kp)
				return "-"
			}, true)
			if w.st[t].kind == 2 {
				w.st[t].p = p
			}
		}
		return w.digest("ok"), true
	case len(f) == 4 && (f[1] == "exit" || f[1] == "add"):
		t, p, x := num(f[0]), num(f[2]), num(f[3])
		if t < 0 || t >= nWorkers || p < 0 || p >= len(w.procs) || x < 0 || w.st[t].kind != 0 {
			return bad()
		}
		pr := w.procs[p]
		if f[1] == "exit" {
			if x >= len(errs) {
				return bad()
			}
			w.macro(t, func() string { pr.Exit(errs[x]); return "-" }, false)
		} else {
			hk := w.hook(x)
			k := [2]int{p, x}
			// What the statement expects of this call, from the harness's own bookkeeping (the
			// controller is the only running goroutine, so the status cannot change before the call):
			// terminated p → late registration, the hook runs inside the call; running p and (p,x) not
			// yet registered → registration, must return true; otherwise a duplicate, must return false.
			running := pr.Status() == process.StatusRunning
			expectTrue := false
			w.mu.Lock()
			if !running {
				w.regs = append(w.regs, &regRec{p: p, h: x, seq: len(w.regs)})
			} else if !w.open[k] {
				w.open[k] = true
				w.regs = append(w.regs, &regRec{p: p, h: x, early: true, seq: len(w.regs)})
				expectTrue = true
			}
			w.mu.Unlock()
			w.macro(t, func() string {
				ret := pr.AddExitHook(hk)
				if ret != expectTrue {
					w.mu.Lock()
					switch {
					case !running:
						w.joinObs = append(w.joinObs, fmt.Sprintf("AddExitHook(p%d, hook %d) returned true on a terminated process", p, x))
					case expectTrue:
						w.joinObs = append(w.joinObs, fmt.Sprintf("registration refused: AddExitHook(p%d, hook %d) returned false although hook %d was not registered on the running p%d", p, x, x, p))
					default:
						w.joinObs = append(w.joinObs, fmt.Sprintf("duplicate accepted: AddExitHook(p%d, hook %d) returned true although hook %d is already registered on p%d", p, x, x, p))
					}
					w.mu.Unlock()
				}
				if ret {
					return "t"
				}
				return "f"
			}, false)
		}
		return w.digest("ok"), true
	}
	return bad()
}

func (w *world) children(p int) []int {
	var out []int
	for c, q := range w.parent {
		if q == p {
			out = append(out, c)
		}
	}
	return out
}

// auditJoin runs on the joining goroutine right after Join returned.
func (w *world) auditJoin(p int, kids []int, kp []*process.Process) {
	for i, c := range kids {
		if kp[i].Status() != process.StatusTerminated {
			w.mu.Lock()
			w.joinObs = append(w.joinObs, fmt.Sprintf("Join(p%d) returned while child p%d is still running", p, c))
			w.mu.Unlock()
		}
		w.mu.Lock()
		for _, r := range w.regs {
			// attributable only while the hook object is registered on this one process
			if r.p == c && r.early && len(w.regsOf(r.h)) == 1 && len(w.runsOf(r.h)) == 0 {
				w.joinObs = append(w.joinObs, fmt.Sprintf("Join(p%d) returned before hook %d of child p%d ran", p, r.h, c))
			}
		}
		w.mu.Unlock()
	}
}

// hookErrOf maps Err() of a terminated process to the error its hooks must have received.
func hookErrOf(p *process.Process) string {
	switch o := errObs(p.Err()); {
	case o == "c":
		return "0"
	case strings.HasPrefix(o, "e"):
		return o[1:]
	default:
		return "running"
	}
}

// audit checks the property's statement on a finished deterministic case (every worker free,
// every process terminated by the finale).
func (w *world) audit() []string {
	var fails []string
	fails = append(fails, w.joinObs...)
	if w.stuck != "" {
		fails = append(fails, w.stuck)
	}
	for t := 0; t < nWorkers; t++ {
		if w.st[t].kind != 0 {
			fails = append(fails, fmt.Sprintf("worker %d not finished at the end of the case (state %d)", t, w.st[t].kind))
		}
	}
	for p := range w.procs {
		if w.procs[p].Status() != process.StatusTerminated {
			fails = append(fails, fmt.Sprintf("p%d still running after every root was exited", p))
		}
		select {
		case <-w.procs[p].Done():
		default:
			fails = append(fails, fmt.Sprintf("p%d: Done not closed", p))
		}
	}
	// every registration (process, hook) ran exactly once with that process's exit error: per hook
	// object, the multiset of received errors equals the multiset of its registrations' exit errors
	var hs []int
	for h := range w.hooks {
		hs = append(hs, h)
	}
	sort.Ints(hs)
	for _, h := range hs {
		regs, runs := w.regsOf(h), w.runsOf(h)
		var want, got, where []string
		for _, r := range regs {
			want = append(want, hookErrOf(w.procs[r.p]))
			where = append(where, fmt.Sprintf("p%d", r.p))
		}
		for _, r := range runs {
			got = append(got, r.err)
		}
		sort.Strings(want)
		sort.Strings(got)
		if len(got) != len(want) {
			fails = append(fails, fmt.Sprintf("hook %d ran %d times for %d registrations (on %s)", h, len(got), len(want), strings.Join(where, ",")))
		} else if strings.Join(got, ",") != strings.Join(want, ",") {
			fails = append(fails, fmt.Sprintf("hook %d received errors [%s] but the exit errors of its processes (%s) are [%s]", h, strings.Join(got, ","), strings.Join(where, ","), strings.Join(want, ",")))
		}
	}
	// reverse order, for hooks registered before termination whose object is registered on one
	// process only (so that their single run is attributable)
	byProc := map[int][]*regRec{}
	for _, r := range w.regs {
		if r.early && len(w.regsOf(r.h)) == 1 && len(w.runsOf(r.h)) == 1 {
			byProc[r.p] = append(byProc[r.p], r)
		}
	}
	for p, early := range byProc {
		for i := 1; i < len(early); i++ {
			if w.runsOf(early[i-1].h)[0].seq < w.runsOf(early[i].h)[0].seq {
				fails = append(fails, fmt.Sprintf("p%d: hook %d registered before hook %d also ran before it", p, early[i-1].h, early[i].h))
			}
		}
	}
	return fails
}

// ------------------------------------------------------------------ generator

type gen struct {
	r *lib.RNG
	w *world
	c *lib.Ctx
	// flags for the non-triviality rule
	exitWhileParked, addWhileExiting, doubleExit, forked, joined, lateAdd, dup, sharedReg bool
	shared                                                                                bool         // this case draws hook ids from one pool for all processes
	exiting                                                                               map[int]bool // Exit issued on p
}

func (g *gen) freeWorkers() []int {
	var out []int
	for t := 0; t < nWorkers; t++ {
		if g.w.st[t].kind == 0 {
			out = append(out, t)
		}
	}
	return out
}

func (g *gen) parkedWorkers() []int {
	var out []int
	for t := 0; t < nWorkers; t++ {
		if g.w.st[t].kind == 1 {
			out = append(out, t)
		}
	}
	return out
}

func (g *gen) anyParked() bool { return len(g.parkedWorkers()) > 0 }

func (g *gen) next(maxProcs int) string {
	w, r := g.w, g.r
	np := len(w.procs)
	if np == 0 {
		return "new"
	}
	free, parked := g.freeWorkers(), g.parkedWorkers()
	for tries := 0; tries < 50; tries++ {
		p := r.Intn(np)
		// bias towards processes that have something going on
		switch r.Weighted([]int{2, 14, 16, 14, 5, 18, 4, 3, 3}) {
		case 0:
			if np < maxProcs && np < 3 {
				return "new"
			}
		case 1:
			if len(free) > 0 && np < maxProcs {
				g.forked = true
				return fmt.Sprintf("%d fork %d", lib.Pick(r, free), p)
			}
		case 2:
			if len(free) > 0 {
				h := 10*p + r.Intn(4) // the hook id names its process: never shared
				if g.shared {
					h = r.Intn(5)
				}
				if w.procs[p].Status() == process.StatusTerminated {
					g.lateAdd = true
				} else if w.open[[2]int{p, h}] {
					g.dup = true
				}
				for _, rg := range w.regs {
					if rg.h == h && rg.p != p {
						g.sharedReg = true
					}
				}
				if g.exiting[p] && g.anyParked() {
					g.addWhileExiting = true
				}
				return fmt.Sprintf("%d add %d %d", lib.Pick(r, free), p, h)
			}
		case 3:
			if len(free) > 0 {
				if g.exiting[p] {
					g.doubleExit = true
					if g.anyParked() {
						g.exitWhileParked = true
					}
				}
				g.exiting[p] = true
				return fmt.Sprintf("%d exit %d %d", lib.Pick(r, free), p, r.Intn(len(errs)))
			}
		case 4:
			if len(free) > 1 {
				g.joined = true
				return fmt.Sprintf("%d join %d", lib.Pick(r, free), p)
			}
		case 5:
			if len(parked) > 0 {
				return fmt.Sprintf("%d go", lib.Pick(r, parked))
			}
		case 6:
			return fmt.Sprintf("set %d %d %d", p, r.Intn(3), r.Intn(5))
		case 7:
			return fmt.Sprintf("get %d %d", p, r.Intn(3))
		case 8:
			return fmt.Sprintf("del %d %d", p, r.Intn(3))
		}
	}
	return fmt.Sprintf("get %d 0", r.Intn(np))
}

// finale: release everything, then exit every process that is still running.
func (g *gen) finale(emit func(string)) {
	w := g.w
	for guard := 0; guard < 400; guard++ {
		if pk := g.parkedWorkers(); len(pk) > 0 {
			emit(fmt.Sprintf("%d go", pk[0]))
			continue
		}
		fr := g.freeWorkers()
		if len(fr) == 0 {
			return // only blocked joiners and nothing to release: stuck (reported by audit)
		}
		done := true
		for p := range w.procs {
			if w.procs[p].Status() != process.StatusTerminated {
				emit(fmt.Sprintf("%d exit %d %d", fr[0], p, g.r.Intn(len(errs))))
				done = false
				break
			}
		}
		if done {
			return
		}
	}
}

func runCase(c *lib.Ctx, sc *lib.Script, lines []string, r *lib.RNG, steps, maxProcs int) (key string, fails []string, script []string) {
	w := newWorld()
	defer w.close()
	sc.Begin()
	emit := func(line string) {
		out, _ := w.exec(line)
		sc.Op(line, out)
		script = append(script, line+"\t=> "+out)
		c.Hit("op-" + opName(line))
	}
	g := &gen{r: r, w: w, c: c, exiting: map[int]bool{}, shared: r.Chance(1, 2)}
	if lines != nil {
		for _, l := range lines {
			if w.stuck != "" {
				break
			}
			emit(l)
		}
	} else {
		for i := 0; i < steps && w.stuck == ""; i++ {
			emit(g.next(maxProcs))
		}
	}
	if w.stuck == "" {
		g.finale(emit)
	}
	fails = w.audit()
	flags := []struct {
		on   bool
		name string
	}{{g.exitWhileParked, "concurrent-exit"}, {g.addWhileExiting, "add-racing-exit"}, {g.doubleExit, "double-exit"},
		{g.forked, "fork"}, {g.joined, "join"}, {g.lateAdd, "late-add"}, {g.dup, "duplicate-add"}, {g.sharedReg, "hook-shared-across-processes"}}
	n := 0
	for _, f := range flags {
		if f.on {
			c.Hit("case-with-" + f.name)
			n++
		}
	}
	if n >= 2 || lines != nil {
		key = strings.Join(script, ";")
	}
	return
}

func opName(line string) string {
	f := strings.Fields(line)
	if len(f) >= 2 && (f[0][0] >= '0' && f[0][0] <= '9') {
		return f[1]
	}
	return f[0]
}

func correspondence(c *lib.Ctx, r *lib.RNG) ([]lib.Mismatch, []lib.OracleFail) {
	sc := &lib.Script{}
	var fails []lib.OracleFail
	addFails := func(fs []string, script []string) {
		for _, f := range fs {
			if len(fails) < 20 {
				fails = append(fails, lib.OracleFail{Class: classOf(f), What: f, Replay: strings.Join(script, "\n")})
			}
		}
	}
	for _, f := range c.CorpusFiles() {
		key, fs, script := runCase(c, sc, lib.ReadLines(f), r.Fork(), 0, 7)
		c.Count(key)
		c.Hit("corpus-case")
		addFails(fs, script)
	}
	n := c.Scale(3000, 40000)
	for i := 0; i < n; i++ {
		steps := r.Range(4, c.Scale(45, 90))
		key, fs, script := runCase(c, sc, nil, r.Fork(), steps, r.Range(2, 7))
		c.Count(key)
		addFails(fs, script)
		if i < 2 {
			c.Sample(script)
		}
	}
	ms, err := c.RunModel("c04", sc)
	if err != nil {
		c.Violation("model driver failed: "+err.Error(), "", false)
		return nil, fails
	}
	return ms, fails
}

func classOf(what string) string {
	switch {
	case strings.Contains(what, "panic"):
		return "panic"
	case strings.HasPrefix(what, "values: Value("):
		return "value-read-disagrees-with-keys"
	case strings.HasPrefix(what, "values:"):
		return "values-not-cleared"
	case strings.Contains(what, "registration refused"):
		return "registration-refused"
	case strings.Contains(what, "duplicate accepted"), strings.Contains(what, "returned true on a terminated"):
		return "duplicate-accepted"
	case strings.Contains(what, "ran ") && strings.Contains(what, "times"):
		return "hook-not-exactly-once"
	case strings.Contains(what, "Join("):
		return "join-before-children"
	case strings.Contains(what, "still running"):
		return "cascade-incomplete"
	case strings.Contains(what, "error"):
		return "hook-error-mismatch"
	case strings.Contains(what, "also ran before"):
		return "hook-order"
	}
	return "other"
}

// ------------------------------------------------------------------ free-running oracle

// sHook is ONE ExitFunc object of a free-running round; it may be registered on several
// processes (each (process, hook) pair at most once, except the deliberate duplicates of the
// set-up phase), so its runs are matched to its registrations as multisets.
type sReg struct {
	p, owner, ord int // owner: registering goroutine (-1 = set-up phase); ord: order within (p, owner)
	early         bool
}

type sHook struct {
	id   int
	f    process.ExitHook
	mu   sync.Mutex
	regs []sReg
	errs []string
	at   []int64
}

// permOf returns a random permutation of 0..n-1.
func permOf(r *lib.RNG, n int) []int {
	p := make([]int, n)
	for i := range p {
		p[i] = i
	}
	for i := n - 1; i > 0; i-- {
		j := r.Intn(i + 1)
		p[i], p[j] = p[j], p[i]
	}
	return p
}

func stress(c *lib.Ctx, r *lib.RNG) []lib.OracleFail {
	var fails []lib.OracleFail
	add := func(class, what, replay string) {
		if len(fails) < 20 {
			fails = append(fails, lib.OracleFail{Class: class, What: what, Replay: replay})
		}
	}
	rounds := c.Scale(800, 8000)
	for round := 0; round < rounds && len(fails) < 3; round++ { // three failures are enough (a stuck round costs the watchdog)
		rr := r.Fork()
		desc := fmt.Sprintf("free-running round %d of seed %d", round, c.Seed)
		var trace []string // the deterministic part of the round, for the replay
		// tree
		np := rr.Range(1, 7)
		procs := []*process.Process{process.New()}
		parent := []int{-1}
		for len(procs) < np {
			p := rr.Intn(len(procs))
			procs = append(procs, procs[p].Fork())
			parent = append(parent, p)
			trace = append(trace, fmt.Sprintf("p%d := p%d.Fork()", len(procs)-1, p))
		}
		var seq atomic.Int64
		var hooks []*sHook
		used := map[[2]int]bool{} // (p, hook id) pairs already planned
		ordc := map[[2]int]int{}
		mk := func() *sHook {
			h := &sHook{id: len(hooks)}
			h.f = process.ExitFunc(func(err error) {
				n := seq.Add(1)
				h.mu.Lock()
				h.errs = append(h.errs, errCode(err))
				h.at = append(h.at, n)
				h.mu.Unlock()
				if h.id%7 == 0 {
					runtime.Gosched()
				}
			})
			hooks = append(hooks, h)
			return h
		}
		// pick: a fresh hook object, or (1 in 3) an existing one not yet used with process p
		pick := func(g *lib.RNG, p int) *sHook {
			if len(hooks) > 0 && g.Chance(1, 3) {
				h := hooks[g.Intn(len(hooks))]
				if !used[[2]int{p, h.id}] {
					used[[2]int{p, h.id}] = true
					return h
				}
			}
			h := mk()
			used[[2]int{p, h.id}] = true
			return h
		}
		var obsMu sync.Mutex
		var obs []string
		note := func(s string) { obsMu.Lock(); obs = append(obs, s); obsMu.Unlock() }
		register := func(h *sHook, p, owner, ord int) {
			ret := procs[p].AddExitHook(h.f)
			h.mu.Lock()
			h.regs = append(h.regs, sReg{p: p, owner: owner, ord: ord, early: ret})
			h.mu.Unlock()
		}
		// set-up phase: hooks and private values, order known, every process running
		// one case in five is CROWDED: 14–40 hooks on every process (a workflow of a dozen nodes opens that many
		// ports for a process; each adds a hook, and forked children are entries of the same list). Every other
		// case has 0–3. (Seeded change c04k: a sweep of "ended" children at the 17th entry dropped live ones.)
		crowded := rr.Chance(1, 5)
		if crowded {
			c.Hit("schedules-crowded-hook-lists")
		}
		for p := range procs {
			k := rr.Intn(4)
			if crowded {
				k = rr.Range(14, 40)
			}
			for ; k > 0; k-- {
				h := pick(rr, p)
				ord := ordc[[2]int{p, -1}]
				ordc[[2]int{p, -1}]++
				trace = append(trace, fmt.Sprintf("p%d.AddExitHook(hook#%d)", p, h.id))
				if !procs[p].AddExitHook(h.f) {
					note(fmt.Sprintf("registration refused: AddExitHook(p%d, hook#%d) returned false although hook#%d was not registered on the running p%d", p, h.id, h.id, p))
				}
				h.regs = append(h.regs, sReg{p: p, owner: -1, ord: ord, early: true})
				if rr.Chance(1, 4) {
					trace = append(trace, fmt.Sprintf("p%d.AddExitHook(hook#%d) again", p, h.id))
					if procs[p].AddExitHook(h.f) {
						note(fmt.Sprintf("duplicate accepted: second AddExitHook(p%d, hook#%d) returned true", p, h.id))
					}
				}
			}
			procs[p].SetValue(100+p, p)
		}
		// concurrent phase
		ng := rr.Range(2, 4)
		var wg sync.WaitGroup
		start := make(chan struct{})
		// children forked after the tree was built (in the Local phase below and DURING the concurrent phase)
		type lateKid struct {
			parent int
			proc   *process.Process
		}
		var lateMu sync.Mutex
		var lateKids []lateKid
		// process-local stores as participants: a `process.Local` registers its clean-up (Delete of the
		// process's entry) as an exit hook of the process when a value is first stored – from this property's
		// point of view it is one more caller of AddExitHook, and whatever it does with ITS hook must leave
		// everybody else's hooks and the forked children alone. Half of the rounds have 1–3 Locals; in the
		// set-up phase (order known) they store for some processes, other hooks and forks are registered in
		// between and afterwards, then some of them give their entry up again (Delete, or Close of the whole
		// Local) – the one that stored earlier first, more often than not. (Seeded change c04l: a Local that
		// removes "its" slot of the process's hook list by index.)
		var locals []*process.Local[int]
		if rr.Chance(1, 2) {
			c.Hit("stress-round-with-locals")
			for i, n := 0, rr.Range(1, 3); i < n; i++ {
				locals = append(locals, process.NewLocal[int]())
			}
			storeL := func(g *lib.RNG, li, p int) string {
				if g.Bool() {
					locals[li].Store(procs[p], 10*li+p)
					return fmt.Sprintf("local%d.Store(p%d)", li, p)
				}
				_, _ = locals[li].LoadOrStore(procs[p], func() (int, error) { return 10*li + p, nil })
				return fmt.Sprintf("local%d.LoadOrStore(p%d)", li, p)
			}
			other := func(p int) {
				if rr.Chance(1, 3) {
					k := procs[p].Fork()
					lateKids = append(lateKids, lateKid{p, k})
					trace = append(trace, fmt.Sprintf("p%d.Fork() (child kept for the audit)", p))
					return
				}
				h := pick(rr, p)
				ord := ordc[[2]int{p, -1}]
				ordc[[2]int{p, -1}]++
				trace = append(trace, fmt.Sprintf("p%d.AddExitHook(hook#%d)", p, h.id))
				if !procs[p].AddExitHook(h.f) {
					note(fmt.Sprintf("registration refused: AddExitHook(p%d, hook#%d) returned false although hook#%d was not registered on the running p%d", p, h.id, h.id, p))
				}
				h.regs = append(h.regs, sReg{p: p, owner: -1, ord: ord, early: true})
			}
			for p := range procs {
				if !rr.Chance(2, 3) {
					continue
				}
				var stored []int
				for _, li := range permOf(rr, len(locals)) {
					if len(stored) > 0 && rr.Chance(1, 4) {
						continue
					}
					trace = append(trace, storeL(rr, li, p))
					stored = append(stored, li)
					for k := rr.Intn(3); k > 0; k-- {
						other(p)
					}
				}
				if len(stored) > 0 && rr.Chance(1, 2) {
					other(p)
				}
				// give entries up again: in the order stored (3 in 4) or reversed
				if rr.Chance(1, 4) {
					for i, j := 0, len(stored)-1; i < j; i, j = i+1, j-1 {
						stored[i], stored[j] = stored[j], stored[i]
					}
				}
				for _, li := range stored {
					switch rr.Intn(4) {
					case 0: // keeps its entry until the process exits
					case 1:
						locals[li].Close()
						trace = append(trace, fmt.Sprintf("local%d.Close()", li))
					default:
						locals[li].Delete(procs[p])
						trace = append(trace, fmt.Sprintf("local%d.Delete(p%d)", li, p))
					}
				}
			}
		}
		kidsOf := func(p int) []int {
			var out []int
			for c, q := range parent {
				if q == p {
					out = append(out, c)
				}
			}
			return out
		}
		// children forked DURING the concurrent phase (Fork racing with Join/Exit, fix 37f33b8)
		lateKidsOf := func(p int) []*process.Process {
			lateMu.Lock()
			defer lateMu.Unlock()
			var out []*process.Process
			for _, k := range lateKids {
				if k.parent == p {
					out = append(out, k.proc)
				}
			}
			return out
		}
		// hooks of the set-up phase registered on child c only: attributable at Join time
		setupOnly := func(c int) []*sHook {
			var out []*sHook
			for _, h := range hooks {
				h.mu.Lock()
				if len(h.regs) == 1 && h.regs[0].p == c && h.regs[0].owner == -1 {
					out = append(out, h)
				}
				h.mu.Unlock()
			}
			return out
		}
		type op struct {
			kind, p, e int
			h          *sHook
			ord        int
		}
		plans := make([][]op, ng)
		for g := 0; g < ng; g++ {
			gr := rr.Fork()
			nops := gr.Range(2, 10)
			ops := make([]op, nops)
			for i := range ops {
				w := []int{5, 5, 2, 2, 1, 2, 0, 0}
				if len(locals) > 0 {
					w[6], w[7] = 3, 2
				}
				ops[i] = op{kind: gr.Weighted(w), p: gr.Intn(np), e: gr.Intn(len(errs))}
				if ops[i].kind == 1 {
					ops[i].h = pick(gr, ops[i].p)
					ops[i].ord = ordc[[2]int{ops[i].p, g}]
					ordc[[2]int{ops[i].p, g}]++
				}
			}
			plans[g] = ops
		}
		nHooks := len(hooks) // no hook object is created after this point
		for g := 0; g < ng; g++ {
			g, ops := g, plans[g]
			wg.Add(1)
			go func() {
				defer wg.Done()
				defer func() {
					if r := recover(); r != nil {
						note(fmt.Sprintf("panic in worker goroutine: %v", r))
					}
				}()
				<-start
				for _, o := range ops {
					switch o.kind {
					case 0:
						procs[o.p].Exit(errs[o.e])
						// from termination on: status, Done, Err agree; own values cleared
						if procs[o.p].Status() != process.StatusTerminated {
							note(fmt.Sprintf("p%d: Status running after Exit returned", o.p))
						}
						select {
						case <-procs[o.p].Done():
						default:
							note(fmt.Sprintf("p%d: Done open after Exit returned", o.p))
						}
						if procs[o.p].Err() == nil {
							note(fmt.Sprintf("p%d: Err nil after Exit returned", o.p))
						}
						if v := procs[o.p].Value(100 + o.p); v != nil {
							note(fmt.Sprintf("p%d: own value survived Exit", o.p))
						}
					case 1:
						register(o.h, o.p, g, o.ord)
					case 2:
						// Join waits for every Fork that has RETURNED before it is called: the children of
						// the set-up phase and those forked so far by the racing goroutines
						kids := kidsOf(o.p)
						forked := lateKidsOf(o.p)
						var hs [][]*sHook
						for _, c := range kids {
							hs = append(hs, setupOnly(c))
						}
						procs[o.p].Join()
						for _, k := range forked {
							if k.Status() != process.StatusTerminated {
								note(fmt.Sprintf("Join(p%d) returned while a child forked before the Join (concurrently with other Joins) is running", o.p))
							}
						}
						for i, c := range kids {
							if procs[c].Status() != process.StatusTerminated {
								note(fmt.Sprintf("Join(p%d) returned while child p%d is running", o.p, c))
							}
							for _, h := range hs[i] {
								h.mu.Lock()
								if len(h.errs) == 0 {
									note(fmt.Sprintf("Join(p%d) returned before set-up hook#%d of child p%d ran", o.p, h.id, c))
								}
								h.mu.Unlock()
							}
						}
					case 3:
						procs[o.p].SetValue(o.e, g)
						_ = procs[o.p].Value(o.e)
					case 4:
						_ = procs[o.p].Keys()
						_ = procs[o.p].Status()
					case 5:
						k := procs[o.p].Fork()
						lateMu.Lock()
						lateKids = append(lateKids, lateKid{o.p, k})
						lateMu.Unlock()
					case 6:
						l := locals[o.e%len(locals)]
						if o.e%2 == 0 {
							l.Store(procs[o.p], o.e)
						} else {
							_, _ = l.LoadOrStore(procs[o.p], func() (int, error) { return o.e, nil })
						}
					case 7:
						l := locals[o.e%len(locals)]
						if o.e%5 == 0 {
							l.Close()
						} else {
							l.Delete(procs[o.p])
						}
					}
				}
			}()
		}
		// watcher: at the moment Done closes the process is terminated with a non-nil Err
		for p := range procs {
			p := p
			wg.Add(1)
			go func() {
				defer wg.Done()
				<-procs[p].Done()
				if procs[p].Status() != process.StatusTerminated || procs[p].Err() == nil {
					note(fmt.Sprintf("p%d: Done closed but Status/Err do not say terminated", p))
				}
			}()
		}
		close(start)
		fin := make(chan struct{})
		rootErr, yields := errs[rr.Intn(len(errs))], rr.Intn(300)
		go func() {
			defer func() {
				if r := recover(); r != nil {
					note(fmt.Sprintf("panic in root Exit: %v", r))
					close(fin)
				}
			}()
			// every goroutine that does not Join finishes by itself; then exit the roots
			for i := yields; i > 0; i-- {
				runtime.Gosched()
			}
			procs[0].Exit(rootErr)
			wg.Wait()
			close(fin)
		}()
		replay := desc + "\n" + strings.Join(trace, "\n") + fmt.Sprintf("\nthen %d goroutines run their planned Exit/AddExitHook/Join/Fork/value/Local operations freely and p0 is exited", ng)
		select {
		case <-fin:
		case <-time.After(watchdog):
			add("stuck", desc+": goroutines did not finish (Join or Exit blocked)", replay)
			continue
		}
		c.Count(fmt.Sprintf("s%d-%d", c.Seed, round))
		// quiescent: audit
		for _, o := range obs {
			add(classOf(o), desc+": "+o, replay)
		}
		for p := range procs {
			if procs[p].Status() != process.StatusTerminated {
				add("cascade-incomplete", fmt.Sprintf("%s: p%d still running after the root exited and every Exit returned", desc, p), replay)
			}
		}
		for _, k := range lateKids {
			if k.proc.Status() != process.StatusTerminated || k.proc.Err() == nil {
				add("cascade-incomplete", fmt.Sprintf("%s: a child forked from p%d after the tree was built (in the Local phase of the set-up or during the concurrent phase) is still running after the root exited", desc, k.parent), replay)
			}
		}
		if len(lateKids) > 0 {
			c.Hit("stress-round-with-concurrent-fork")
		}
		sharedSeen := false
		for _, h := range hooks[:nHooks] {
			var want, where []string
			for _, rg := range h.regs {
				want = append(want, hookErrOf(procs[rg.p]))
				where = append(where, fmt.Sprintf("p%d", rg.p))
			}
			if len(h.regs) > 1 {
				sharedSeen = true
			}
			got := append([]string{}, h.errs...)
			sort.Strings(want)
			sort.Strings(got)
			if len(got) != len(want) {
				add("hook-not-exactly-once", fmt.Sprintf("%s: hook#%d ran %d times for %d registrations (on %s)", desc, h.id, len(got), len(want), strings.Join(where, ",")), replay)
			} else if strings.Join(got, ",") != strings.Join(want, ",") {
				add("hook-error-mismatch", fmt.Sprintf("%s: hook#%d received errors [%s] but the exit errors of its processes (%s) are [%s]", desc, h.id, strings.Join(got, ","), strings.Join(where, ","), strings.Join(want, ",")), replay)
			}
		}
		if sharedSeen {
			c.Hit("stress-round-with-shared-hook")
		}
		// reverse order among early hooks registered on one process only, in a known order
		for i, a := range hooks[:nHooks] {
			for _, b := range hooks[i+1 : nHooks] {
				if len(a.regs) != 1 || len(b.regs) != 1 || len(a.at) != 1 || len(b.at) != 1 {
					continue
				}
				ra, rb := a.regs[0], b.regs[0]
				if ra.p != rb.p || !ra.early || !rb.early {
					continue
				}
				aFirst := (ra.owner == rb.owner && ra.ord < rb.ord) || (ra.owner == -1 && rb.owner != -1)
				bFirst := (ra.owner == rb.owner && rb.ord < ra.ord) || (rb.owner == -1 && ra.owner != -1)
				if (aFirst && a.at[0] < b.at[0]) || (bFirst && b.at[0] < a.at[0]) {
					add("hook-order", fmt.Sprintf("%s: p%d hooks #%d and #%d ran in registration order", desc, ra.p, a.id, b.id), replay)
				}
			}
		}
	}
	c.Hit("stress-rounds")
	return fails
}

func Run(c *lib.Ctx) {
	c.Rule = "correspondence: random forests (≤7 processes) and random schedules (≤4 worker goroutines, ≤90 macro steps) of new/fork/add/exit/join/go/set/get/del, " +
		"executed step by step on the real process.Process (goroutines parked in harness hooks) and on the Lean small-step model; every line compares hook log entries, " +
		"operation returns, Join returns, parked position of every worker, Status/Done/Err/Keys of every process (and Value/RemoveValue results). " +
		"Hooks are ONE ExitFunc object per hook id; in half of the cases the ids are drawn from one pool, so the same object is registered on several processes (a registration is a (process, hook) pair). " +
		"A case is non-trivial when it contains ≥2 of: concurrent Exit on one process, AddExitHook racing with a parked Exit, double Exit, Fork, Join, late AddExitHook, duplicate AddExitHook, a hook object registered on two processes; distinct by full script. " +
		"oracle: statement checked on every deterministic case and on free-running rounds (distinct by seed/round)"
	c.Assumptions = []string{
		"each mu.Lock…mu.Unlock section of Process is one atomic step (sync.RWMutex is correct); sync.Cond.Wait atomically releases p.mu and parks, and returns only after a Broadcast (then re-acquires p.mu)",
		"user hooks do not call back into the process (harness hooks only log and park)",
		"process.Local (pkg/process/local.go) is, for this property, one more caller of AddExitHook: the model has no Local; the free-running family lets 1–3 Locals Store / LoadOrStore / Delete / Close values for the processes of a round (in a known order in the set-up phase, freely in the concurrent phase) and judges by the same oracles – whatever a Local does with its own clean-up hook must not make another accepted hook run zero or two times, nor drop a forked child from the cascade",
		"Join may run concurrently with Fork (fix 37f33b8: children counter + sync.Cond); it waits for the forks whose children++ precedes its last check",
		"a goroutine parked inside Process.Join (sync.(*Cond).Wait) is recognised by its runtime wait state (runtime.Stack)",
		"forkAdd/forkReg and the steps between two user hooks cannot be separated on the real code without editing it; the correspondence exercises them coalesced, the theorems cover them separately",
	}
	c.Trusted = []string{"Go runtime: goroutine wait states reported by runtime.Stack"}
	r := lib.NewRNG(c.Seed)
	var ms []lib.Mismatch
	var fails []lib.OracleFail
	if c.Proof.DriverBuilt {
		ms, fails = correspondence(c, r.Fork())
	}
	fails = append(fails, stress(c, r.Fork())...)
	c.Conclude("process.Process ≈ Uniflow.Process.step", ms, fails)
}
