// Package c04: process exit hooks run exactly once; exit cascades to children; Join waits.
//
// (a) correspondence: the real process.Process driven through generated schedules of atomic
//     steps, deterministically: every user hook is a harness ExitFunc that parks its goroutine
//     on a channel before doing anything, so a goroutine inside Exit / AddExitHook / Fork can be
//     held between the status flip and each later hook without touching the repository. One
//     script line releases exactly one goroutine and waits until it parks again (hand-over by
//     channels; "blocked in Join" is read off the goroutine's wait state, never from a sleep).
//     The same lines are replayed on Uniflow.Process by the Lean driver `c04`.
// (b) property oracle: the statement checked directly (1) on the records of every
//     deterministic case and (2) on free-running goroutines (no step control).
package c04

import (
	"bytes"
	"context"
	"errors"
	"fmt"
	"runtime"
	"sort"
	"strconv"
	"strings"
	"sync"
	"sync/atomic"
	"time"

	"github.com/siyul-park/uniflow/pkg/process"

	"verifharness/lib"
)

const nWorkers = 4

var errs = []error{nil, errors.New("e1"), errors.New("e2"), errors.New("e3"), errors.New("e4")}

func errCode(err error) string {
	if err == nil {
		return "0"
	}
	for i, e := range errs {
		if e != nil && err == e {
			return strconv.Itoa(i)
		}
	}
	if err == context.Canceled {
		return "c"
	}
	return "?" + err.Error()
}

func errObs(err error) string {
	switch c := errCode(err); c {
	case "0":
		return "n"
	case "c":
		return "c"
	default:
		return "e" + c
	}
}

// ------------------------------------------------------------------ goroutine wait state

func curGID() int64 {
	var buf [64]byte
	n := runtime.Stack(buf[:], false)
	f := bytes.Fields(buf[:n])
	id, _ := strconv.ParseInt(string(f[1]), 10, 64)
	return id
}

var stackBuf = make([]byte, 1<<20)

// blockedInWait reports whether goroutine gid is parked inside Process.Join waiting for children.
func blockedInWait(gid int64) bool {
	n := runtime.Stack(stackBuf, true)
	s := stackBuf[:n]
	hdr := []byte(fmt.Sprintf("goroutine %d [", gid))
	i := bytes.Index(s, hdr)
	for i > 0 && s[i-1] != '\n' {
		j := bytes.Index(s[i+1:], hdr)
		if j < 0 {
			return false
		}
		i += 1 + j
	}
	if i < 0 {
		return false
	}
	rest := s[i+len(hdr):]
	end := bytes.IndexByte(rest, ']')
	if end < 0 {
		return false
	}
	state := string(rest[:end])
	if !(strings.HasPrefix(state, "semacquire") || strings.HasPrefix(state, "sync.WaitGroup.Wait") || strings.HasPrefix(state, "sync.Cond.Wait")) {
		return false
	}
	blk := rest
	if k := bytes.Index(rest, []byte("\n\n")); k >= 0 {
		blk = rest[:k]
	}
	// Join is a WaitGroup.Wait in the original code and a Cond.Wait loop after fix 37f33b8
	return bytes.Contains(blk, []byte("process.(*Process).Join")) &&
		(bytes.Contains(blk, []byte("sync.(*WaitGroup).Wait")) || bytes.Contains(blk, []byte("sync.(*Cond).Wait")))
}

// ------------------------------------------------------------------ deterministic world

type parkEv struct {
	p, h int
	rel  chan struct{}
}

type worker struct {
	cmd  chan func() string
	done chan string
	gid  int64
}

type tstate struct {
	kind int // 0 free, 1 parked at hook, 2 blocked in Join, 3 stuck
	p, h int
	rel  chan struct{}
	join bool // the pending operation is a Join
}

// records for the statement-level audit
type regRec struct {
	p, h     int
	early    bool // AddExitHook returned true
	seq      int
	runs     int
	runErr   []string
	runOrder []int
}

type world struct {
	procs   []*process.Process
	parent  []int
	hooks   map[[2]int]process.ExitHook
	workers [nWorkers]*worker
	st      [nWorkers]tstate
	parkCh  chan parkEv

	mu      sync.Mutex
	events  []string
	regs     []*regRec          // every effective registration, in order
	earlyRec map[[2]int]*regRec // (p,h) → the registration accepted while p was running
	lateRec  [nWorkers]*regRec  // worker → the late registration its current AddExitHook makes
	cur      int                // the worker being stepped
	runSeq  int
	firstE  map[int]string // p → error code of the first Exit line issued directly on it, if any
	joinObs []string       // audit failures noticed at Join return
	stuck   string
}

func newWorld() *world {
	w := &world{hooks: map[[2]int]process.ExitHook{}, parkCh: make(chan parkEv), earlyRec: map[[2]int]*regRec{}, firstE: map[int]string{}}
	for i := range w.workers {
		wk := &worker{cmd: make(chan func() string), done: make(chan string, 1)}
		gidc := make(chan int64)
		go func() {
			gidc <- curGID()
			for f := range wk.cmd {
				func() {
					defer func() {
						if r := recover(); r != nil {
							wk.done <- fmt.Sprintf("PANIC:%v", r)
						}
					}()
					wk.done <- f()
				}()
			}
		}()
		wk.gid = <-gidc
		w.workers[i] = wk
	}
	return w
}

func (w *world) close() {
	for _, wk := range w.workers {
		close(wk.cmd)
	}
}

func (w *world) hook(p, h int) process.ExitHook {
	k := [2]int{p, h}
	if hk, ok := w.hooks[k]; ok {
		return hk
	}
	hk := process.ExitFunc(func(err error) {
		rel := make(chan struct{})
		w.parkCh <- parkEv{p, h, rel}
		<-rel
		w.mu.Lock()
		w.events = append(w.events, fmt.Sprintf("h:%d.%d.%s", p, h, errCode(err)))
		r := w.earlyRec[k]
		if lr := w.lateRec[w.cur]; lr != nil && lr.p == p && lr.h == h {
			r = lr
		}
		if r != nil {
			r.runs++
			r.runErr = append(r.runErr, errCode(err))
			w.runSeq++
			r.runOrder = append(r.runOrder, w.runSeq)
		} else {
			w.joinObs = append(w.joinObs, fmt.Sprintf("hook %d.%d ran without a registration", p, h))
		}
		w.mu.Unlock()
	})
	w.hooks[k] = hk
	return hk
}

const watchdog = 20 * time.Second

// await waits until worker t parks in a hook, finishes, or (for a Join) blocks in Wait.
func (w *world) await(t int) {
	wk := w.workers[t]
	deadline := time.Now().Add(watchdog)
	spins := 0
	for {
		select {
		case ev := <-w.parkCh:
			w.st[t] = tstate{kind: 1, p: ev.p, h: ev.h, rel: ev.rel, join: false}
			return
		case ret := <-wk.done:
			w.st[t] = tstate{}
			w.mu.Lock()
			w.lateRec[t] = nil
			w.events = append(w.events, fmt.Sprintf("r:%d:%s", t, ret))
			w.mu.Unlock()
			return
		default:
		}
		if w.st[t].join && spins > 2 && blockedInWait(wk.gid) {
			w.st[t].kind = 2
			return
		}
		spins++
		if spins < 50 {
			runtime.Gosched()
		} else {
			time.Sleep(20 * time.Microsecond)
		}
		if time.Now().After(deadline) {
			w.st[t].kind = 3
			w.stuck = fmt.Sprintf("worker %d neither parked nor finished within %v", t, watchdog)
			return
		}
	}
}

// joinsReturn collects the Join calls that returned because of the last step.
func (w *world) joinsReturn(skip int) {
	for j := 0; j < nWorkers; j++ {
		if j == skip || w.st[j].kind != 2 {
			continue
		}
		wk := w.workers[j]
		if blockedInWait(wk.gid) {
			continue
		}
		select {
		case ret := <-wk.done:
			w.st[j] = tstate{}
			w.mu.Lock()
			w.events = append(w.events, fmt.Sprintf("r:%d:%s", j, ret))
			w.mu.Unlock()
		case <-time.After(watchdog):
			w.st[j].kind = 3
			w.stuck = fmt.Sprintf("joiner %d left Wait but did not return", j)
		}
	}
}

func (w *world) macro(t int, start func() string, isJoin bool) {
	w.mu.Lock()
	w.cur = t
	w.mu.Unlock()
	if start != nil {
		w.st[t] = tstate{join: isJoin}
		w.workers[t].cmd <- start
	} else {
		close(w.st[t].rel)
	}
	w.await(t)
	w.joinsReturn(t)
}

func (w *world) digest(res string) string {
	w.mu.Lock()
	ev := strings.Join(w.events, " ")
	w.events = nil
	w.mu.Unlock()
	var ts, ps []string
	for t := 0; t < nWorkers; t++ {
		switch s := w.st[t]; s.kind {
		case 0:
			ts = append(ts, "i")
		case 1:
			ts = append(ts, fmt.Sprintf("h%d.%d", s.p, s.h))
		case 2:
			ts = append(ts, fmt.Sprintf("j%d", s.p))
		default:
			ts = append(ts, "STUCK")
		}
	}
	for _, p := range w.procs {
		term, done := 0, 0
		if p.Status() == process.StatusTerminated {
			term = 1
		}
		select {
		case <-p.Done():
			done = 1
		default:
		}
		var ks []int
		for _, k := range p.Keys() {
			ks = append(ks, k.(int))
		}
		sort.Ints(ks)
		var kss []string
		for _, k := range ks {
			kss = append(kss, strconv.Itoa(k))
		}
		ps = append(ps, fmt.Sprintf("%d%d%s:%s", term, done, errObs(p.Err()), strings.Join(kss, ",")))
	}
	return res + "|" + ev + "|" + strings.Join(ts, " ") + "|" + strings.Join(ps, " ")
}

func showVal(v any) string {
	if v == nil {
		return "nil"
	}
	return fmt.Sprintf("v%d", v.(int))
}

// exec runs one script line on the real code. ok=false: the line is not executable in the
// current state (the model answers bad-op for the same reason).
func (w *world) exec(line string) (out string, ok bool) {
	f := strings.Fields(line)
	num := func(s string) int {
		v, err := strconv.Atoi(s)
		if err != nil || v < 0 {
			return -1
		}
		return v
	}
	bad := func() (string, bool) { return "bad-op", false }
	switch {
	case len(f) == 1 && f[0] == "new":
		w.procs = append(w.procs, process.New())
		w.parent = append(w.parent, -1)
		return w.digest(fmt.Sprintf("p%d", len(w.procs)-1)), true
	case len(f) == 4 && f[0] == "set":
		p, k, v := num(f[1]), num(f[2]), num(f[3])
		if p < 0 || p >= len(w.procs) || k < 0 || v < 0 {
			return bad()
		}
		w.procs[p].SetValue(k, v)
		return w.digest("ok"), true
	case len(f) == 3 && f[0] == "del":
		p, k := num(f[1]), num(f[2])
		if p < 0 || p >= len(w.procs) || k < 0 {
			return bad()
		}
		return w.digest(showVal(w.procs[p].RemoveValue(k))), true
	case len(f) == 3 && f[0] == "get":
		p, k := num(f[1]), num(f[2])
		if p < 0 || p >= len(w.procs) || k < 0 {
			return bad()
		}
		return w.digest(showVal(w.procs[p].Value(k))), true
	case len(f) == 2 && f[1] == "go":
		t := num(f[0])
		if t < 0 || t >= nWorkers || w.st[t].kind != 1 {
			return bad()
		}
		w.macro(t, nil, false)
		return w.digest("ok"), true
	case len(f) == 3 && (f[1] == "fork" || f[1] == "join"):
		t, p := num(f[0]), num(f[2])
		if t < 0 || t >= nWorkers || p < 0 || p >= len(w.procs) || w.st[t].kind != 0 {
			return bad()
		}
		pr := w.procs[p]
		if f[1] == "fork" {
			id := len(w.procs)
			w.macro(t, func() string {
				c := pr.Fork()
				// the controller is waiting for this goroutine: no concurrent access
				w.procs = append(w.procs, c)
				w.parent = append(w.parent, p)
				return fmt.Sprintf("p%d", id)
			}, false)
			if len(w.procs) == id { // Fork is still parked inside (parent terminated, child has … no user hooks yet: cannot happen)
				w.stuck = "Fork parked before returning the child"
			}
		} else {
			kids := w.children(p)
			kp := make([]*process.Process, len(kids))
			for i, c := range kids {
				kp[i] = w.procs[c]
			}
			w.macro(t, func() string {
				pr.Join()
				w.auditJoin(p, kids, kp)
				return "-"
			}, true)
			if w.st[t].kind == 2 {
				w.st[t].p = p
			}
		}
		return w.digest("ok"), true
	case len(f) == 4 && (f[1] == "exit" || f[1] == "add"):
		t, p, x := num(f[0]), num(f[2]), num(f[3])
		if t < 0 || t >= nWorkers || p < 0 || p >= len(w.procs) || x < 0 || w.st[t].kind != 0 {
			return bad()
		}
		pr := w.procs[p]
		if f[1] == "exit" {
			if x >= len(errs) {
				return bad()
			}
			if _, seen := w.firstE[p]; !seen {
				w.firstE[p] = strconv.Itoa(x)
			}
			w.macro(t, func() string { pr.Exit(errs[x]); return "-" }, false)
		} else {
			hk := w.hook(p, x)
			k := [2]int{p, x}
			// A call on a terminated process is a (late) registration: its record is opened before
			// the call because the hook runs inside it. A call on a running process is a
			// registration iff it returns true (false = refused duplicate, nothing registered).
			if pr.Status() == process.StatusTerminated {
				w.mu.Lock()
				rec := &regRec{p: p, h: x, seq: len(w.regs)}
				w.regs = append(w.regs, rec)
				w.lateRec[t] = rec
				w.mu.Unlock()
			}
			w.macro(t, func() string {
				if pr.AddExitHook(hk) {
					w.mu.Lock()
					rec := &regRec{p: p, h: x, seq: len(w.regs), early: true}
					w.regs = append(w.regs, rec)
					w.earlyRec[k] = rec
					w.mu.Unlock()
					return "t"
				}
				return "f"
			}, false)
		}
		return w.digest("ok"), true
	}
	return bad()
}

func (w *world) children(p int) []int {
	var out []int
	for c, q := range w.parent {
		if q == p {
			out = append(out, c)
		}
	}
	return out
}

// auditJoin runs on the joining goroutine right after Join returned.
func (w *world) auditJoin(p int, kids []int, kp []*process.Process) {
	for i, c := range kids {
		if kp[i].Status() != process.StatusTerminated {
			w.mu.Lock()
			w.joinObs = append(w.joinObs, fmt.Sprintf("Join(p%d) returned while child p%d is still running", p, c))
			w.mu.Unlock()
		}
		w.mu.Lock()
		for _, r := range w.regs {
			if r.p == c && r.early && r.runs == 0 {
				w.joinObs = append(w.joinObs, fmt.Sprintf("Join(p%d) returned before hook %d of child p%d ran", p, r.h, c))
			}
		}
		w.mu.Unlock()
	}
}

// audit checks the property's statement on a finished deterministic case (every worker free,
// every process terminated by the finale).
func (w *world) audit() []string {
	var fails []string
	fails = append(fails, w.joinObs...)
	if w.stuck != "" {
		fails = append(fails, w.stuck)
	}
	for t := 0; t < nWorkers; t++ {
		if w.st[t].kind != 0 {
			fails = append(fails, fmt.Sprintf("worker %d not finished at the end of the case (state %d)", t, w.st[t].kind))
		}
	}
	// exit error of every process: the first Exit issued on it or inherited from the cascade
	exitErr := make([]string, len(w.procs))
	for p := range w.procs {
		if w.procs[p].Status() != process.StatusTerminated {
			fails = append(fails, fmt.Sprintf("p%d still running after every root was exited", p))
		}
		select {
		case <-w.procs[p].Done():
		default:
			fails = append(fails, fmt.Sprintf("p%d: Done not closed", p))
		}
		exitErr[p] = ""
	}
	byProc := map[int][]*regRec{}
	for _, r := range w.regs {
		byProc[r.p] = append(byProc[r.p], r)
		if r.runs != 1 {
			fails = append(fails, fmt.Sprintf("hook %d of p%d (registration #%d, early=%v) ran %d times", r.h, r.p, r.seq, r.early, r.runs))
			continue
		}
		if exitErr[r.p] == "" {
			exitErr[r.p] = r.runErr[0]
		} else if exitErr[r.p] != r.runErr[0] {
			fails = append(fails, fmt.Sprintf("hooks of p%d received different errors %s / %s", r.p, exitErr[r.p], r.runErr[0]))
		}
	}
	for p := range w.procs {
		if exitErr[p] == "" {
			continue
		}
		want := "e" + exitErr[p]
		if exitErr[p] == "0" {
			want = "c"
		}
		if got := errObs(w.procs[p].Err()); got != want {
			fails = append(fails, fmt.Sprintf("p%d: hooks received error %s but Err() = %s", p, exitErr[p], got))
		}
	}
	for p, rs := range byProc {
		var early []*regRec
		for _, r := range rs {
			if r.early && r.runs == 1 {
				early = append(early, r)
			}
		}
		for i := 1; i < len(early); i++ {
			if early[i-1].runOrder[0] < early[i].runOrder[0] {
				fails = append(fails, fmt.Sprintf("p%d: hook %d registered before hook %d also ran before it", p, early[i-1].h, early[i].h))
			}
		}
	}
	return fails
}

// ------------------------------------------------------------------ generator

type gen struct {
	r *lib.RNG
	w *world
	c *lib.Ctx
	// flags for the non-triviality rule
	exitWhileParked, addWhileExiting, doubleExit, forked, joined, lateAdd, dup bool
	exiting                                                                    map[int]bool // Exit issued on p
}

func (g *gen) freeWorkers() []int {
	var out []int
	for t := 0; t < nWorkers; t++ {
		if g.w.st[t].kind == 0 {
			out = append(out, t)
		}
	}
	return out
}

func (g *gen) parkedWorkers() []int {
	var out []int
	for t := 0; t < nWorkers; t++ {
		if g.w.st[t].kind == 1 {
			out = append(out, t)
		}
	}
	return out
}

func (g *gen) anyParked() bool { return len(g.parkedWorkers()) > 0 }

func (g *gen) next(maxProcs int) string {
	w, r := g.w, g.r
	np := len(w.procs)
	if np == 0 {
		return "new"
	}
	free, parked := g.freeWorkers(), g.parkedWorkers()
	for tries := 0; tries < 50; tries++ {
		p := r.Intn(np)
		// bias towards processes that have something going on
		switch r.Weighted([]int{2, 14, 16, 14, 5, 18, 4, 3, 3}) {
		case 0:
			if np < maxProcs && np < 3 {
				return "new"
			}
		case 1:
			if len(free) > 0 && np < maxProcs {
				g.forked = true
				return fmt.Sprintf("%d fork %d", lib.Pick(r, free), p)
			}
		case 2:
			if len(free) > 0 {
				h := r.Intn(4)
				if w.procs[p].Status() == process.StatusTerminated {
					g.lateAdd = true
				} else if _, ok := w.hooks[[2]int{p, h}]; ok {
					g.dup = true
				}
				if g.exiting[p] && g.anyParked() {
					g.addWhileExiting = true
				}
				return fmt.Sprintf("%d add %d %d", lib.Pick(r, free), p, h)
			}
		case 3:
			if len(free) > 0 {
				if g.exiting[p] {
					g.doubleExit = true
					if g.anyParked() {
						g.exitWhileParked = true
					}
				}
				g.exiting[p] = true
				return fmt.Sprintf("%d exit %d %d", lib.Pick(r, free), p, r.Intn(len(errs)))
			}
		case 4:
			if len(free) > 1 {
				g.joined = true
				return fmt.Sprintf("%d join %d", lib.Pick(r, free), p)
			}
		case 5:
			if len(parked) > 0 {
				return fmt.Sprintf("%d go", lib.Pick(r, parked))
			}
		case 6:
			return fmt.Sprintf("set %d %d %d", p, r.Intn(3), r.Intn(5))
		case 7:
			return fmt.Sprintf("get %d %d", p, r.Intn(3))
		case 8:
			return fmt.Sprintf("del %d %d", p, r.Intn(3))
		}
	}
	return fmt.Sprintf("get %d 0", r.Intn(np))
}

// finale: release everything, then exit every process that is still running.
func (g *gen) finale(emit func(string)) {
	w := g.w
	for guard := 0; guard < 400; guard++ {
		if pk := g.parkedWorkers(); len(pk) > 0 {
			emit(fmt.Sprintf("%d go", pk[0]))
			continue
		}
		fr := g.freeWorkers()
		if len(fr) == 0 {
			return // only blocked joiners and nothing to release: stuck (reported by audit)
		}
		done := true
		for p := range w.procs {
			if w.procs[p].Status() != process.StatusTerminated {
				emit(fmt.Sprintf("%d exit %d %d", fr[0], p, g.r.Intn(len(errs))))
				done = false
				break
			}
		}
		if done {
			return
		}
	}
}

func runCase(c *lib.Ctx, sc *lib.Script, lines []string, r *lib.RNG, steps, maxProcs int) (key string, fails []string, script []string) {
	w := newWorld()
	defer w.close()
	sc.Begin()
	emit := func(line string) {
		out, _ := w.exec(line)
		sc.Op(line, out)
		script = append(script, line+"\t=> "+out)
		c.Hit("op-" + opName(line))
	}
	g := &gen{r: r, w: w, c: c, exiting: map[int]bool{}}
	if lines != nil {
		for _, l := range lines {
			if w.stuck != "" {
				break
			}
			emit(l)
		}
	} else {
		for i := 0; i < steps && w.stuck == ""; i++ {
			emit(g.next(maxProcs))
		}
	}
	if w.stuck == "" {
		g.finale(emit)
	}
	fails = w.audit()
	flags := []struct {
		on   bool
		name string
	}{{g.exitWhileParked, "concurrent-exit"}, {g.addWhileExiting, "add-racing-exit"}, {g.doubleExit, "double-exit"},
		{g.forked, "fork"}, {g.joined, "join"}, {g.lateAdd, "late-add"}, {g.dup, "duplicate-add"}}
	n := 0
	for _, f := range flags {
		if f.on {
			c.Hit("case-with-" + f.name)
			n++
		}
	}
	if n >= 2 || lines != nil {
		key = strings.Join(script, ";")
	}
	return
}

func opName(line string) string {
	f := strings.Fields(line)
	if len(f) >= 2 && (f[0][0] >= '0' && f[0][0] <= '9') {
		return f[1]
	}
	return f[0]
}

func correspondence(c *lib.Ctx, r *lib.RNG) ([]lib.Mismatch, []lib.OracleFail) {
	sc := &lib.Script{}
	var fails []lib.OracleFail
	addFails := func(fs []string, script []string) {
		for _, f := range fs {
			if len(fails) < 20 {
				fails = append(fails, lib.OracleFail{Class: classOf(f), What: f, Replay: strings.Join(script, "\n")})
			}
		}
	}
	for _, f := range c.CorpusFiles() {
		key, fs, script := runCase(c, sc, lib.ReadLines(f), r.Fork(), 0, 7)
		c.Count(key)
		c.Hit("corpus-case")
		addFails(fs, script)
	}
	n := c.Scale(3000, 40000)
	for i := 0; i < n; i++ {
		steps := r.Range(4, c.Scale(45, 90))
		key, fs, script := runCase(c, sc, nil, r.Fork(), steps, r.Range(2, 7))
		c.Count(key)
		addFails(fs, script)
		if i < 2 {
			c.Sample(script)
		}
	}
	ms, err := c.RunModel("c04", sc)
	if err != nil {
		c.Violation("model driver failed: "+err.Error(), "", false)
		return nil, fails
	}
	return ms, fails
}

func classOf(what string) string {
	switch {
	case strings.Contains(what, "panic"):
		return "panic"
	case strings.Contains(what, "ran ") && strings.Contains(what, "times"):
		return "hook-not-exactly-once"
	case strings.Contains(what, "Join("):
		return "join-before-children"
	case strings.Contains(what, "still running"):
		return "cascade-incomplete"
	case strings.Contains(what, "error"):
		return "hook-error-mismatch"
	case strings.Contains(what, "also ran before"):
		return "hook-order"
	}
	return "other"
}

// ------------------------------------------------------------------ free-running oracle

type sHook struct {
	p      int
	id     int
	owner  int // goroutine that registered it (-1 = set-up phase)
	ord    int // registration order within (p, owner)
	early  atomic.Bool
	called atomic.Bool // AddExitHook was called
	runs   atomic.Int32
	err    atomic.Value // string
	at     atomic.Int64
}

func stress(c *lib.Ctx, r *lib.RNG) []lib.OracleFail {
	var fails []lib.OracleFail
	add := func(class, what, replay string) {
		if len(fails) < 20 {
			fails = append(fails, lib.OracleFail{Class: class, What: what, Replay: replay})
		}
	}
	rounds := c.Scale(800, 8000)
	for round := 0; round < rounds; round++ {
		rr := r.Fork()
		desc := fmt.Sprintf("free-running round %d of seed %d", round, c.Seed)
		// tree
		np := rr.Range(1, 7)
		procs := []*process.Process{process.New()}
		parent := []int{-1}
		for len(procs) < np {
			p := rr.Intn(len(procs))
			procs = append(procs, procs[p].Fork())
			parent = append(parent, p)
		}
		var seq atomic.Int64
		var hooks []*sHook
		var hmu sync.Mutex
		ordc := map[[2]int]int{}
		mk := func(p, owner int) (*sHook, process.ExitHook) {
			hmu.Lock()
			h := &sHook{p: p, id: len(hooks), owner: owner, ord: ordc[[2]int{p, owner}]}
			ordc[[2]int{p, owner}]++
			hooks = append(hooks, h)
			hmu.Unlock()
			return h, process.ExitFunc(func(err error) {
				h.runs.Add(1)
				h.err.Store(errCode(err))
				h.at.Store(seq.Add(1))
				if rr2 := h.id % 7; rr2 == 0 {
					runtime.Gosched()
				}
			})
		}
		// set-up phase: hooks and private values, order known
		for p := range procs {
			for k := rr.Intn(4); k > 0; k-- {
				h, f := mk(p, -1)
				h.called.Store(true)
				h.early.Store(procs[p].AddExitHook(f))
			}
			procs[p].SetValue(100+p, p)
		}
		// concurrent phase
		ng := rr.Range(2, 4)
		var wg sync.WaitGroup
		start := make(chan struct{})
		var obsMu sync.Mutex
		var obs []string
		note := func(s string) { obsMu.Lock(); obs = append(obs, s); obsMu.Unlock() }
		kidsOf := func(p int) []int {
			var out []int
			for c, q := range parent {
				if q == p {
					out = append(out, c)
				}
			}
			return out
		}
		for g := 0; g < ng; g++ {
			g := g
			gr := rr.Fork()
			nops := gr.Range(2, 10)
			type op struct{ kind, p, e int }
			ops := make([]op, nops)
			for i := range ops {
				ops[i] = op{gr.Weighted([]int{5, 5, 2, 2, 1}), gr.Intn(np), gr.Intn(len(errs))}
			}
			wg.Add(1)
			go func() {
				defer wg.Done()
				defer func() {
					if r := recover(); r != nil {
						note(fmt.Sprintf("panic in worker goroutine: %v", r))
					}
				}()
				<-start
				for _, o := range ops {
					switch o.kind {
					case 0:
						procs[o.p].Exit(errs[o.e])
						// from termination on: status, Done, Err agree; own values cleared
						if procs[o.p].Status() != process.StatusTerminated {
							note(fmt.Sprintf("p%d: Status running after Exit returned", o.p))
						}
						select {
						case <-procs[o.p].Done():
						default:
							note(fmt.Sprintf("p%d: Done open after Exit returned", o.p))
						}
						if procs[o.p].Err() == nil {
							note(fmt.Sprintf("p%d: Err nil after Exit returned", o.p))
						}
						if v := procs[o.p].Value(100 + o.p); v != nil {
							note(fmt.Sprintf("p%d: own value survived Exit", o.p))
						}
					case 1:
						h, f := mk(o.p, g)
						h.called.Store(true)
						h.early.Store(procs[o.p].AddExitHook(f))
					case 2:
						kids := kidsOf(o.p) // all forks were issued in the set-up phase
						procs[o.p].Join()
						for _, c := range kids {
							if procs[c].Status() != process.StatusTerminated {
								note(fmt.Sprintf("Join(p%d) returned while child p%d is running", o.p, c))
							}
							hmu.Lock()
							for _, h := range hooks {
								if h.p == c && h.owner == -1 && h.early.Load() && h.runs.Load() == 0 {
									note(fmt.Sprintf("Join(p%d) returned before set-up hook of child p%d ran", o.p, c))
								}
							}
							hmu.Unlock()
						}
					case 3:
						procs[o.p].SetValue(o.e, g)
						_ = procs[o.p].Value(o.e)
					case 4:
						_ = procs[o.p].Keys()
						_ = procs[o.p].Status()
					}
				}
			}()
		}
		// watcher: at the moment Done closes the process is terminated with a non-nil Err
		for p := range procs {
			p := p
			wg.Add(1)
			go func() {
				defer wg.Done()
				<-procs[p].Done()
				if procs[p].Status() != process.StatusTerminated || procs[p].Err() == nil {
					note(fmt.Sprintf("p%d: Done closed but Status/Err do not say terminated", p))
				}
			}()
		}
		close(start)
		fin := make(chan struct{})
		rootErr, yields := errs[rr.Intn(len(errs))], rr.Intn(300)
		go func() {
			defer func() {
				if r := recover(); r != nil {
					note(fmt.Sprintf("panic in root Exit: %v", r))
					close(fin)
				}
			}()
			// every goroutine that does not Join finishes by itself; then exit the roots
			for i := yields; i > 0; i-- {
				runtime.Gosched()
			}
			procs[0].Exit(rootErr)
			wg.Wait()
			close(fin)
		}()
		select {
		case <-fin:
		case <-time.After(watchdog):
			add("stuck", desc+": goroutines did not finish (Join or Exit blocked)", desc)
			continue
		}
		c.Count(fmt.Sprintf("s%d-%d", c.Seed, round))
		// quiescent: audit
		for _, o := range obs {
			add(classOf(o), desc+": "+o, desc)
		}
		perr := make([]string, np)
		for p := range procs {
			if procs[p].Status() != process.StatusTerminated {
				add("cascade-incomplete", fmt.Sprintf("%s: p%d still running after the root exited and every Exit returned", desc, p), desc)
			}
		}
		for _, h := range hooks {
			if !h.called.Load() {
				continue
			}
			if n := h.runs.Load(); n != 1 {
				add("hook-not-exactly-once", fmt.Sprintf("%s: hook #%d of p%d (early=%v) ran %d times", desc, h.id, h.p, h.early.Load(), n), desc)
				continue
			}
			e := h.err.Load().(string)
			if perr[h.p] == "" {
				perr[h.p] = e
			} else if perr[h.p] != e {
				add("hook-error-mismatch", fmt.Sprintf("%s: hooks of p%d received different errors %s / %s", desc, h.p, perr[h.p], e), desc)
			}
		}
		for p := range procs {
			if perr[p] == "" {
				continue
			}
			want := "e" + perr[p]
			if perr[p] == "0" {
				want = "c"
			}
			if got := errObs(procs[p].Err()); got != want {
				add("hook-error-mismatch", fmt.Sprintf("%s: p%d hooks received %s but Err() = %s", desc, p, perr[p], got), desc)
			}
		}
		// reverse order among early hooks whose registration order is known
		for i, a := range hooks {
			for _, b := range hooks[i+1:] {
				if a.p != b.p || !a.early.Load() || !b.early.Load() || a.runs.Load() != 1 || b.runs.Load() != 1 {
					continue
				}
				known := (a.owner == b.owner && a.ord < b.ord) || (a.owner == -1 && b.owner != -1)
				if known && a.at.Load() < b.at.Load() {
					add("hook-order", fmt.Sprintf("%s: p%d hook #%d registered before #%d also ran before it", desc, a.p, a.id, b.id), desc)
				}
			}
		}
	}
	c.Hit("stress-rounds")
	return fails
}

func Run(c *lib.Ctx) {
	c.Rule = "correspondence: random forests (≤7 processes) and random schedules (≤4 worker goroutines, ≤90 macro steps) of new/fork/add/exit/join/go/set/get/del, " +
		"executed step by step on the real process.Process (goroutines parked in harness hooks) and on the Lean small-step model; every line compares hook log entries, " +
		"operation returns, Join returns, parked position of every worker, Status/Done/Err/Keys of every process (and Value/RemoveValue results). " +
		"A case is non-trivial when it contains ≥2 of: concurrent Exit on one process, AddExitHook racing with a parked Exit, double Exit, Fork, Join, late AddExitHook, duplicate AddExitHook; distinct by full script. " +
		"oracle: statement checked on every deterministic case and on free-running rounds (distinct by seed/round)"
	c.Assumptions = []string{
		"each mu.Lock…mu.Unlock section of Process is one atomic step (sync.RWMutex is correct); sync.WaitGroup behaves as a counter whose Wait returns iff it is 0",
		"user hooks do not call back into the process (harness hooks only log and park)",
		"Join is used as documented: not concurrently with the first Fork on an idle wait group",
		"a goroutine parked inside sync.(*WaitGroup).Wait is recognised by its runtime wait state (runtime.Stack)",
		"forkAdd/forkReg and the steps between two user hooks cannot be separated on the real code without editing it; the correspondence exercises them coalesced, the theorems cover them separately",
	}
	c.Trusted = []string{"Go runtime: goroutine wait states reported by runtime.Stack"}
	r := lib.NewRNG(c.Seed)
	var ms []lib.Mismatch
	var fails []lib.OracleFail
	if c.Proof.DriverBuilt {
		ms, fails = correspondence(c, r.Fork())
	}
	fails = append(fails, stress(c, r.Fork())...)
	c.Conclude("process.Process ≈ Uniflow.Process.step", ms, fails)
}
