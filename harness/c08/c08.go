// Package c08: activation runs dependencies first and wraps hooks in init/begin, term/final
// (engine shared with C06: harness/c06).
package c08

import (
	"verifharness/c06"
	"verifharness/lib"
)

func Run(c *lib.Ctx) { c06.RunProp(c, "C08") }
