// Package c09: the runtime converges to the stores – one symbol per spec of the runtime's
// namespace, carrying the spec's current content bound to the current values, nothing extra; a
// second Load of an unchanged world emits no load / unload notification.
//
// Correspondence: a real runtime.Runtime over two in-memory stores and a scheme with two known
// kinds (typed spec + harness codec building a real OneToOne node and recording what it compiled)
// and unknown kinds; random histories of insert / update / delete on both stores (2–3
// namespaces, references by id and by name, bound / missing values) with Load(nil) and
// Load({id}) / Load({$or}) at random points, against Uniflow.Runtime.step: after every Load the
// whole symbol table (verif accessor) and the load/unload notifications since the previous
// observation are compared. A second mode runs Watch + Reconcile in goroutines and compares the
// table at quiescence only. A third mode (verif yield hook) forces the overlap of two Loads.
//
// Oracle (independent of the model): the harness keeps its own mirror of the two stores,
// computes the target table from it, and predicts the notification log from the table before the
// Load and the target.
package c09

import (
	"context"
	"errors"
	"fmt"
	"sort"
	"strconv"
	"strings"
	"sync"
	"sync/atomic"
	"time"

	"github.com/gofrs/uuid"
	"github.com/siyul-park/uniflow/pkg/hook"
	"github.com/siyul-park/uniflow/pkg/node"
	"github.com/siyul-park/uniflow/pkg/runtime"
	"github.com/siyul-park/uniflow/pkg/scheme"
	"github.com/siyul-park/uniflow/pkg/spec"
	"github.com/siyul-park/uniflow/pkg/store"
	"github.com/siyul-park/uniflow/pkg/symbol"
	"github.com/siyul-park/uniflow/pkg/value"

	"verifharness/lib"
)

const tmpl = "{{ . }}"

// ---------------------------------------------------------------- documents (harness mirror)

type envEnt struct {
	key  int
	byID bool
	ref  int
}

type specDoc struct {
	id, ns, name, kind, ver int // name 0 = none
	env                     []envEnt
}

type valDoc struct{ id, ns, name, ver int }

func uid(n int) uuid.UUID {
	return uuid.FromStringOrNil(fmt.Sprintf("00000000-0000-0000-0000-%012d", n))
}

func unuid(u uuid.UUID) int {
	s := u.String()
	n, err := strconv.Atoi(strings.TrimLeft(s[len(s)-12:], "0"))
	if err != nil {
		if strings.Trim(s[len(s)-12:], "0") == "" {
			return 0
		}
		return -1
	}
	return n
}

func nsName(n int) string { return fmt.Sprintf("ns%d", n) }
func kindName(k int) string { return fmt.Sprintf("k%d", k) }
func sName(n int) string {
	if n == 0 {
		return ""
	}
	return fmt.Sprintf("s%d", n)
}
func vName(n int) string {
	if n == 0 {
		return ""
	}
	return fmt.Sprintf("v%d", n)
}
func num(s string) int {
	if len(s) < 2 {
		return 0
	}
	n, _ := strconv.Atoi(strings.TrimLeft(s, "nsvke"))
	return n
}
func optName(n int) string {
	if n == 0 {
		return "-"
	}
	return strconv.Itoa(n)
}

func (d specDoc) echo() string {
	var parts []string
	for _, e := range d.env {
		parts = append(parts, fmt.Sprintf("{{ .e%d }}", e.key))
	}
	return strings.Join(parts, ",")
}

func (d specDoc) envAny() map[string]any {
	env := map[string]any{}
	for _, e := range d.env {
		ent := map[string]any{"data": tmpl}
		if e.byID {
			ent["id"] = uid(e.ref)
		} else {
			ent["name"] = vName(e.ref)
		}
		env[fmt.Sprintf("e%d", e.key)] = ent
	}
	return env
}

// doc: the stored document; insert and update write the same keys so that an update which
// changes nothing leaves the very same document.
func (d specDoc) doc() map[string]any {
	m := map[string]any{spec.KeyID: uid(d.id), spec.KeyNamespace: nsName(d.ns),
		spec.KeyKind: kindName(d.kind), spec.KeyEnv: d.envAny(), "ver": d.ver, "echo": d.echo()}
	if d.name != 0 { // an unnamed document has NO name key (the application's unique index covers documents that have one)
		m[spec.KeyName] = sName(d.name)
	}
	return m
}

func (d specDoc) line(op string) string {
	var b strings.Builder
	fmt.Fprintf(&b, "%s %d %d %s %d %d %d", op, d.id, d.ns, optName(d.name), d.kind, d.ver, len(d.env))
	for _, e := range d.env {
		c := "n"
		if e.byID {
			c = "i"
		}
		fmt.Fprintf(&b, " %d %s %d", e.key, c, e.ref)
	}
	return b.String()
}

func (v valDoc) doc() map[string]any {
	m := map[string]any{value.KeyID: uid(v.id), value.KeyNamespace: nsName(v.ns), value.KeyData: v.ver}
	if v.name != 0 {
		m[value.KeyName] = vName(v.name)
	}
	return m
}

func (v valDoc) line(op string) string {
	return fmt.Sprintf("%s %d %d %s %d", op, v.id, v.ns, optName(v.name), v.ver)
}

// ---------------------------------------------------------------- observed / target symbols

type bound struct {
	key, vid, vname int
	vver            string
}

type symObs struct {
	id, kind, name int
	ver            string
	active         bool
	isBound        bool
	bs             []bound
}

func (s symObs) String() string {
	b := "U"
	if s.isBound {
		var ps []string
		for _, x := range s.bs {
			ps = append(ps, fmt.Sprintf("%d:%d:%s:%s", x.key, x.vid, optName(x.vname), x.vver))
		}
		b = "B[" + strings.Join(ps, ",") + "]"
	}
	a := "i"
	if s.active {
		a = "a"
	}
	return fmt.Sprintf("%d/%d/%s/%s/%s/%s", s.id, s.kind, optName(s.name), s.ver, a, b)
}

func tableString(m map[int]symObs) string {
	if len(m) == 0 {
		return "-"
	}
	ids := make([]int, 0, len(m))
	for id := range m {
		ids = append(ids, id)
	}
	sort.Ints(ids)
	var ps []string
	for _, id := range ids {
		ps = append(ps, m[id].String())
	}
	return strings.Join(ps, " ")
}

// kSpec is the typed spec of the two known kinds.
type kSpec struct {
	spec.Meta `json:",inline"`
	Ver       int    `json:"ver"`
	Echo      string `json:"echo"`
}

type note struct {
	load bool
	id   int
}

func notesString(ns []note) string {
	if len(ns) == 0 {
		return "-"
	}
	s := append([]note{}, ns...)
	sort.SliceStable(s, func(i, j int) bool { return s[i].id < s[j].id })
	var ps []string
	for _, n := range s {
		if n.load {
			ps = append(ps, fmt.Sprintf("l%d", n.id))
		} else {
			ps = append(ps, fmt.Sprintf("u%d", n.id))
		}
	}
	return strings.Join(ps, " ")
}

// ---------------------------------------------------------------- world

type world struct {
	c     *lib.Ctx
	sc    *lib.Script
	fails *[]lib.OracleFail
	trace []string

	rns        int
	rt         *runtime.Runtime
	specStore  store.Store
	valueStore store.Store
	ctx        context.Context
	cancel     context.CancelFunc

	specs map[int]specDoc
	vals  map[int]valDoc
	uniq  bool // both stores carry the application's unique index on (namespace, name)

	mu       sync.Mutex
	notes    []note
	compiled map[int]string // id -> "ver|echo" of the last compile
	badHook  []string
}

func newWorld(c *lib.Ctx, sc *lib.Script, fails *[]lib.OracleFail, rns int) *world {
	w := &world{c: c, sc: sc, fails: fails, rns: rns, specs: map[int]specDoc{}, vals: map[int]valDoc{}, compiled: map[int]string{}}
	w.ctx, w.cancel = context.WithCancel(context.Background())
	s := scheme.New()
	for k := 0; k < 2; k++ {
		s.AddKnownType(kindName(k), &kSpec{})
		s.AddCodec(kindName(k), scheme.CodecWithType(func(sp *kSpec) (node.Node, error) {
			w.mu.Lock()
			w.compiled[unuid(sp.ID)] = fmt.Sprintf("%d|%s", sp.Ver, sp.Echo)
			w.mu.Unlock()
			return node.NewOneToOneNode(nil), nil
		}))
	}
	h := hook.New()
	h.AddLoadHook(symbol.LoadFunc(func(sb *symbol.Symbol) error {
		w.mu.Lock()
		defer w.mu.Unlock()
		id := unuid(sb.ID())
		w.notes = append(w.notes, note{true, id})
		// the active part: what was compiled for this symbol is what the symbol carries
		o := observe(sb)
		var datas []string
		for _, b := range o.bs {
			datas = append(datas, b.vver)
		}
		if want := o.ver + "|" + strings.Join(datas, ","); w.compiled[id] != want {
			w.badHook = append(w.badHook, fmt.Sprintf("symbol %d loaded with node compiled from %q, its spec carries %q", id, w.compiled[id], want))
		}
		return nil
	}))
	h.AddUnloadHook(symbol.UnloadFunc(func(sb *symbol.Symbol) error {
		w.mu.Lock()
		defer w.mu.Unlock()
		w.notes = append(w.notes, note{false, unuid(sb.ID())})
		return nil
	}))
	w.specStore, w.valueStore = store.New(), store.New()
	w.rt = runtime.New(runtime.Config{Namespace: nsName(rns), Hook: h, Scheme: s, SpecStore: w.specStore, ValueStore: w.valueStore})
	return w
}

func (w *world) close() {
	w.cancel()
	lib.WithTimeout(10*time.Second, func() { _ = w.rt.Close(context.Background()) })
}

func (w *world) op(line, out string) {
	w.sc.Op(line, out)
	w.trace = append(w.trace, line+" => "+out)
}

// remark adds a comment to the replay trace (not an operation of the model).
func (w *world) remark(text string) { w.trace = append(w.trace, "# "+text) }

func (w *world) fail(class, what string) {
	if len(*w.fails) < 20 {
		*w.fails = append(*w.fails, lib.OracleFail{Class: class, What: what, Replay: strings.Join(w.trace, "\n")})
	}
}

// observe reads one table symbol.
func observe(sb *symbol.Symbol) symObs {
	o := symObs{id: unuid(sb.ID()), kind: num(sb.Kind()), name: num(sb.Name()), active: sb.Node != nil, ver: "?"}
	if u, ok := sb.Spec.(*spec.Unstructured); ok {
		o.ver = fmt.Sprint(u.Fields["ver"])
	} else {
		o.ver = fmt.Sprintf("typed:%T", sb.Spec)
	}
	o.isBound = true
	var keys []string
	env := sb.Env()
	for k := range env {
		keys = append(keys, k)
	}
	sort.Slice(keys, func(i, j int) bool { return num(keys[i]) < num(keys[j]) })
	for _, k := range keys {
		e := env[k]
		d := fmt.Sprint(e.Data)
		if d == tmpl {
			o.isBound = false
		}
		o.bs = append(o.bs, bound{key: num(k), vid: unuid(e.ID), vname: num(e.Name), vver: d})
	}
	if !o.isBound {
		o.bs = nil
	}
	return o
}

func (w *world) table() map[int]symObs {
	m := map[int]symObs{}
	for _, sb := range w.rt.VerifSymbols() {
		o := observe(sb)
		m[o.id] = o
	}
	return m
}

// resolve: the value of the spec's namespace the reference designates (least id first, the
// order in which the store returns documents).
func (w *world) resolve(ns int, e envEnt) (valDoc, bool) {
	best, ok := valDoc{}, false
	for _, v := range w.vals {
		if v.ns != ns {
			continue
		}
		if (e.byID && v.id == e.ref) || (!e.byID && v.name == e.ref) {
			if !ok || v.id < best.id {
				best, ok = v, true
			}
		}
	}
	return best, ok
}

func (w *world) targetOf(d specDoc) symObs {
	o := symObs{id: d.id, kind: d.kind, name: d.name, ver: strconv.Itoa(d.ver), isBound: true}
	for _, e := range d.env {
		v, ok := w.resolve(d.ns, e)
		if !ok {
			o.isBound = false
			break
		}
		o.bs = append(o.bs, bound{key: e.key, vid: v.id, vname: v.name, vver: strconv.Itoa(v.ver)})
	}
	if !o.isBound {
		o.bs = nil
	}
	o.active = o.isBound && d.kind < 2
	return o
}

// target: the table the statement demands.
func (w *world) target() map[int]symObs {
	m := map[int]symObs{}
	for id, d := range w.specs {
		if d.ns == w.rns {
			m[id] = w.targetOf(d)
		}
	}
	return m
}

func (w *world) takeNotes() []note {
	w.mu.Lock()
	defer w.mu.Unlock()
	n := w.notes
	w.notes = nil
	if len(w.badHook) > 0 {
		for _, b := range w.badHook {
			w.fail("compiled-mismatch", b)
		}
		w.badHook = nil
	}
	return n
}

// ---------------------------------------------------------------- mutations

func errClass(err error) string {
	switch {
	case err == nil:
		return "ok"
	case errors.Is(err, store.ErrKeyDuplicate):
		return "dup"
	}
	return "err:" + err.Error()
}

func (w *world) insSpec(d specDoc) {
	if _, exists := w.specs[d.id]; !exists && w.specNameTaken(d.id, d.ns, d.name) {
		w.insSpecBatch([]specDoc{d}, []bool{false})
		return
	}
	err := w.specStore.Insert(w.ctx, []any{d.doc()})
	out := errClass(err)
	_, exists := w.specs[d.id]
	if (out == "dup") != exists || (out != "dup" && out != "ok") {
		w.fail("store-outcome", fmt.Sprintf("insert spec %d: %s, exists=%v", d.id, out, exists))
	}
	if out == "ok" {
		w.specs[d.id] = d
	}
	w.op(d.line("is"), out)
	w.c.Hit("op-insert-spec-" + out)
}

// ---------------------------------------------------------------- batches: one Insert of several documents

// withUniqueNames gives both stores the unique (namespace, name) index cmd/pkg/uniflow creates.
func (w *world) withUniqueNames() {
	for _, st := range []store.Store{w.specStore, w.valueStore} {
		if err := st.Index(w.ctx, []string{spec.KeyNamespace, spec.KeyName}, store.IndexOptions{Unique: true,
			Filter: map[string]any{spec.KeyName: map[string]any{"$exists": true}}}); err != nil {
			w.fail("index-error", err.Error())
		}
	}
	w.uniq = true
}

// specNameTaken / valNameTaken: under the unique index, is (ns, name) held by another document?
func (w *world) specNameTaken(id, ns, name int) bool {
	if !w.uniq || name == 0 {
		return false
	}
	for _, o := range w.specs {
		if o.id != id && o.ns == ns && o.name == name {
			return true
		}
	}
	return false
}

func (w *world) valNameTaken(id, ns, name int) bool {
	if !w.uniq || name == 0 {
		return false
	}
	for _, o := range w.vals {
		if o.id != id && o.ns == ns && o.name == name {
			return true
		}
	}
	return false
}

// setOrUnsetName: the update document's part for the name (an unnamed document has no name key).
func setOrUnsetName(update map[string]any, key string, name string) {
	if name == "" {
		update["$unset"] = map[string]any{key: 1}
		return
	}
	update["$set"].(map[string]any)[key] = name
}

func has(st store.Store, ctx context.Context, id int) bool {
	cur, err := st.Find(ctx, map[string]any{spec.KeyID: uid(id)})
	if err != nil {
		return false
	}
	defer cur.Close(ctx)
	return cur.Next(ctx)
}

// batchOutcome: what one Insert of several documents must do, document by document – the first
// refused one ends it, those before it stay stored (and must have been announced).
//   refusal "": none; "dup": id already stored or earlier in the batch; "noid": no id; "uniq":
//   (namespace, name) taken – the last two are outside the model (accepted = 0 in its line).
func batchRefusal(noID bool, idTaken bool, nameTaken bool) string {
	switch {
	case noID:
		return "noid"
	case idTaken:
		return "dup"
	case nameTaken:
		return "uniq"
	}
	return ""
}

func batchOut(refusal string) string {
	switch refusal {
	case "":
		return "ok"
	case "dup":
		return "dup"
	}
	return "bad"
}

func implBatchOut(err error, refusal string) string {
	switch {
	case err == nil:
		return "ok"
	case errors.Is(err, store.ErrKeyDuplicate) && refusal == "uniq":
		return "bad"
	case errors.Is(err, store.ErrKeyDuplicate):
		return "dup"
	case errors.Is(err, store.ErrKeyMissing):
		return "bad"
	}
	return "err:" + err.Error()
}

// insSpecBatch: ONE Insert call with all of ds; noID[i] strips document i of its id.
func (w *world) insSpecBatch(ds []specDoc, noID []bool) {
	docs := make([]any, len(ds))
	for i, d := range ds {
		m := d.doc()
		if noID[i] {
			delete(m, spec.KeyID)
		}
		docs[i] = m
	}
	err := w.specStore.Insert(w.ctx, docs)
	refusal, stored := "", 0
	var parts []string
	for i, d := range ds {
		r := ""
		if refusal == "" {
			nameTaken := false
			if w.uniq {
				for _, o := range w.specs {
					nameTaken = nameTaken || (d.name != 0 && o.ns == d.ns && o.name == d.name)
				}
			}
			_, idTaken := w.specs[d.id]
			r = batchRefusal(noID[i], idTaken, nameTaken)
			if r == "" {
				w.specs[d.id] = d
				stored++
			} else {
				refusal = r
			}
		}
		acc := 1
		if r == "noid" || r == "uniq" {
			acc = 0
		}
		if noID[i] {
			d.id = 0
		}
		parts = append(parts, fmt.Sprintf("%d %s", acc, strings.TrimPrefix(d.line("x"), "x ")))
	}
	out := implBatchOut(err, refusal)
	if out != batchOut(refusal) {
		w.fail("store-outcome", fmt.Sprintf("Insert of %d specs: %s (err=%v), expected %s (refusal %q after %d stored)", len(ds), out, err, batchOut(refusal), refusal, stored))
	}
	for i, d := range ds {
		if noID[i] {
			continue
		}
		if _, want := w.specs[d.id]; has(w.specStore, w.ctx, d.id) != want {
			w.fail("store-outcome", fmt.Sprintf("after an Insert of %d specs (refusal %q): spec %d stored=%v, expected %v", len(ds), refusal, d.id, !want, want))
		}
	}
	w.remark(fmt.Sprintf("the next line is ONE Insert of %d documents on the spec store", len(ds)))
	w.op(fmt.Sprintf("bis %d %s", len(ds), strings.Join(parts, " ")), out)
	w.c.Hit("op-batch-spec-" + batchOut(refusal) + "-" + refusal)
	if refusal != "" && stored > 0 {
		w.c.Hit("batch-refused-after-storing")
	}
}

func (w *world) insValBatch(vs []valDoc, noID []bool) {
	docs := make([]any, len(vs))
	for i, v := range vs {
		m := v.doc()
		if noID[i] {
			delete(m, value.KeyID)
		}
		docs[i] = m
	}
	err := w.valueStore.Insert(w.ctx, docs)
	refusal, stored := "", 0
	var parts []string
	for i, v := range vs {
		r := ""
		if refusal == "" {
			nameTaken := false
			if w.uniq {
				for _, o := range w.vals {
					nameTaken = nameTaken || (v.name != 0 && o.ns == v.ns && o.name == v.name)
				}
			}
			_, idTaken := w.vals[v.id]
			r = batchRefusal(noID[i], idTaken, nameTaken)
			if r == "" {
				w.vals[v.id] = v
				stored++
			} else {
				refusal = r
			}
		}
		acc := 1
		if r == "noid" || r == "uniq" {
			acc = 0
		}
		if noID[i] {
			v.id = 0
		}
		parts = append(parts, fmt.Sprintf("%d %s", acc, strings.TrimPrefix(v.line("x"), "x ")))
	}
	out := implBatchOut(err, refusal)
	if out != batchOut(refusal) {
		w.fail("store-outcome", fmt.Sprintf("Insert of %d values: %s (err=%v), expected %s (refusal %q after %d stored)", len(vs), out, err, batchOut(refusal), refusal, stored))
	}
	for i, v := range vs {
		if noID[i] {
			continue
		}
		if _, want := w.vals[v.id]; has(w.valueStore, w.ctx, v.id) != want {
			w.fail("store-outcome", fmt.Sprintf("after an Insert of %d values (refusal %q): value %d stored=%v, expected %v", len(vs), refusal, v.id, !want, want))
		}
	}
	w.remark(fmt.Sprintf("the next line is ONE Insert of %d documents on the value store", len(vs)))
	w.op(fmt.Sprintf("biv %d %s", len(vs), strings.Join(parts, " ")), out)
	w.c.Hit("op-batch-value-" + batchOut(refusal) + "-" + refusal)
	if refusal != "" && stored > 0 {
		w.c.Hit("batch-refused-after-storing")
	}
}

// batchPlan picks 2–4 ids for one Insert: fresh ids first, then – by `pattern` – an id that is
// already stored (1), an id used earlier in the same batch (2), a document without id (3), or
// nothing refused (0); one more fresh document may follow the refused one.
func batchPlan(rng *lib.RNG, base, n int, exists func(int) bool, pattern int) (ids []int, noID []bool) {
	var fresh, taken []int
	for id := base; id < base+n; id++ {
		if exists(id) {
			taken = append(taken, id)
		} else {
			fresh = append(fresh, id)
		}
	}
	for i := len(fresh) - 1; i > 0; i-- {
		j := rng.Intn(i + 1)
		fresh[i], fresh[j] = fresh[j], fresh[i]
	}
	k := rng.Range(1, 3)
	if k > len(fresh) {
		k = len(fresh)
	}
	ids = append(ids, fresh[:k]...)
	rest := fresh[k:]
	noID = make([]bool, len(ids))
	switch pattern {
	case 1:
		if len(taken) > 0 {
			ids, noID = append(ids, lib.Pick(rng, taken)), append(noID, false)
		}
	case 2:
		if len(ids) > 0 {
			ids, noID = append(ids, lib.Pick(rng, ids)), append(noID, false)
		}
	case 3:
		ids, noID = append(ids, base), append(noID, true)
	}
	if pattern != 0 && len(rest) > 0 && rng.Bool() {
		ids, noID = append(ids, rest[0]), append(noID, false)
	}
	if len(ids) < 2 && len(rest) > 0 {
		ids, noID = append(ids, rest[0]), append(noID, false)
	}
	return ids, noID
}

func (w *world) updSpec(d specDoc) {
	if old, ok := w.specs[d.id]; ok && w.specNameTaken(d.id, old.ns, d.name) {
		d.name = 0 // the harness does not rename a document onto a taken (namespace, name)
	}
	update := map[string]any{"$set": map[string]any{spec.KeyKind: kindName(d.kind), spec.KeyEnv: d.envAny(), "ver": d.ver, "echo": d.echo()}}
	setOrUnsetName(update, spec.KeyName, sName(d.name))
	n, err := w.specStore.Update(w.ctx, map[string]any{spec.KeyID: uid(d.id)}, update)
	out := "ok"
	if err != nil {
		out = "err:" + err.Error()
	} else if n == 0 {
		out = "nf"
	}
	_, exists := w.specs[d.id]
	if (out == "ok") != exists {
		w.fail("store-outcome", fmt.Sprintf("update spec %d: %s, exists=%v", d.id, out, exists))
	}
	if out == "ok" {
		w.specs[d.id] = d
	}
	w.op(d.line("us"), out)
	w.c.Hit("op-update-spec-" + out)
}

// ---------------------------------------------------------------- Update with Upsert / $unset

// upShape: how an Update addresses its document(s) and where the namespace is given.
type upShape struct {
	byName     bool // filter by name instead of by id
	nsInFilter bool // namespace is part of the filter
	nsInSet    bool // namespace is (also) part of the $set document; forced when a document may be created without it
	unsetName  bool // by id only: the name is removed with $unset instead of being set
	upsert     bool
}

func (sh upShape) String() string {
	b := func(x bool) int {
		if x {
			return 1
		}
		return 0
	}
	return fmt.Sprintf("name%d-nsf%d-nss%d-unset%d-upsert%d", b(sh.byName), b(sh.nsInFilter), b(sh.nsInSet), b(sh.unsetName), b(sh.upsert))
}

func normShape(sh upShape, name int) upShape {
	if sh.byName && name == 0 {
		sh.byName = false
	}
	if sh.byName {
		sh.unsetName = false
	}
	return sh
}

// upsertSpec applies Update(filter, {$set …[, $unset name]}, Upsert) to the spec store. d carries the
// wanted content; d.id / d.name / d.ns are what the filter is built from. Existing matches are
// updated (they keep id, namespace and – when addressed by name – their name); with no match and
// Upsert a document is created from the filter's equality fields and the $set document. The model
// is fed the mutation itself: one `us` per updated document (store order), or one `is`.
func (w *world) upsertSpec(d specDoc, sh upShape) {
	sh = normShape(sh, d.name)
	filter := map[string]any{}
	if sh.byName {
		filter[spec.KeyName] = sName(d.name)
	} else {
		filter[spec.KeyID] = uid(d.id)
	}
	if sh.nsInFilter {
		filter[spec.KeyNamespace] = nsName(d.ns)
	}
	var matches []specDoc
	for id := 1; id <= nSpecIDs; id++ {
		m, ok := w.specs[id]
		if !ok || (sh.nsInFilter && m.ns != d.ns) {
			continue
		}
		if (sh.byName && m.name == d.name) || (!sh.byName && m.id == d.id) {
			matches = append(matches, m)
		}
	}
	if len(matches) == 0 && !sh.upsert {
		return // a plain Update that matches nothing: no mutation, nothing to tell the model
	}
	set := map[string]any{spec.KeyKind: kindName(d.kind), spec.KeyEnv: d.envAny(), "ver": d.ver, "echo": d.echo()}
	update := map[string]any{"$set": set}
	create := len(matches) == 0
	if !sh.byName {
		effNs := d.ns
		if !create {
			effNs = matches[0].ns
		}
		if sh.unsetName || d.name == 0 || w.specNameTaken(d.id, effNs, d.name) {
			update["$unset"] = map[string]any{spec.KeyName: 1}
			d.name = 0
		} else {
			set[spec.KeyName] = sName(d.name)
		}
	}
	if create {
		if sh.byName {
			set[spec.KeyID] = uid(d.id)
		}
		if sh.nsInSet || !sh.nsInFilter {
			set[spec.KeyNamespace] = nsName(d.ns)
		}
	} else if sh.nsInSet && !sh.byName {
		d.ns = matches[0].ns // a spec keeps its namespace for life: the $set repeats it
		set[spec.KeyNamespace] = nsName(d.ns)
	} else if sh.nsInSet && sh.nsInFilter {
		set[spec.KeyNamespace] = nsName(d.ns)
	}
	var opts []store.UpdateOptions
	if sh.upsert {
		opts = append(opts, store.UpdateOptions{Upsert: true})
	}
	w.remark(fmt.Sprintf("the next line is done on the spec store as Update(filter %s, %s, Upsert=%v)", keysOf(filter), describeUpdate(update), sh.upsert))
	n, err := w.specStore.Update(w.ctx, filter, update, opts...)
	w.c.Hit("op-upsert-spec-" + sh.String())
	if create {
		_, exists := w.specs[d.id]
		out := errClass(err)
		if (out == "dup") != exists || (out != "dup" && out != "ok") || (out == "ok" && n != 1) {
			w.fail("store-outcome", fmt.Sprintf("upsert (create) spec %d via %s: %s n=%d, id exists=%v", d.id, sh, out, n, exists))
		}
		if out == "ok" {
			w.specs[d.id] = d
			w.c.Hit("upsert-created-spec")
		}
		w.op(d.line("is"), out)
		return
	}
	if err != nil || n != len(matches) {
		w.fail("store-outcome", fmt.Sprintf("update specs via %s: err=%v n=%d, %d documents match", sh, err, n, len(matches)))
	}
	for _, m := range matches {
		m.kind, m.env, m.ver = d.kind, d.env, d.ver
		if !sh.byName {
			m.name = d.name
		}
		out := "ok"
		if err != nil {
			out = "err:" + err.Error()
		} else {
			w.specs[m.id] = m
		}
		w.op(m.line("us"), out)
	}
	w.c.Hit("upsert-updated-spec")
}

// upsertVal: the same on the value store.
func (w *world) upsertVal(v valDoc, sh upShape) {
	sh = normShape(sh, v.name)
	filter := map[string]any{}
	if sh.byName {
		filter[value.KeyName] = vName(v.name)
	} else {
		filter[value.KeyID] = uid(v.id)
	}
	if sh.nsInFilter {
		filter[value.KeyNamespace] = nsName(v.ns)
	}
	var matches []valDoc
	for id := valBase; id < valBase+nValIDs; id++ {
		m, ok := w.vals[id]
		if !ok || (sh.nsInFilter && m.ns != v.ns) {
			continue
		}
		if (sh.byName && m.name == v.name) || (!sh.byName && m.id == v.id) {
			matches = append(matches, m)
		}
	}
	if len(matches) == 0 && !sh.upsert {
		return
	}
	set := map[string]any{value.KeyData: v.ver}
	update := map[string]any{"$set": set}
	create := len(matches) == 0
	if !sh.byName {
		effNs := v.ns
		if !create {
			effNs = matches[0].ns
		}
		if sh.unsetName || v.name == 0 || w.valNameTaken(v.id, effNs, v.name) {
			update["$unset"] = map[string]any{value.KeyName: 1}
			v.name = 0
		} else {
			set[value.KeyName] = vName(v.name)
		}
	}
	if create {
		if sh.byName {
			set[value.KeyID] = uid(v.id)
		}
		if sh.nsInSet || !sh.nsInFilter {
			set[value.KeyNamespace] = nsName(v.ns)
		}
	} else if sh.nsInSet && !sh.byName {
		v.ns = matches[0].ns
		set[value.KeyNamespace] = nsName(v.ns)
	} else if sh.nsInSet && sh.nsInFilter {
		set[value.KeyNamespace] = nsName(v.ns)
	}
	var opts []store.UpdateOptions
	if sh.upsert {
		opts = append(opts, store.UpdateOptions{Upsert: true})
	}
	w.remark(fmt.Sprintf("the next line is done on the value store as Update(filter %s, %s, Upsert=%v)", keysOf(filter), describeUpdate(update), sh.upsert))
	n, err := w.valueStore.Update(w.ctx, filter, update, opts...)
	w.c.Hit("op-upsert-value-" + sh.String())
	if create {
		_, exists := w.vals[v.id]
		out := errClass(err)
		if (out == "dup") != exists || (out != "dup" && out != "ok") || (out == "ok" && n != 1) {
			w.fail("store-outcome", fmt.Sprintf("upsert (create) value %d via %s: %s n=%d, id exists=%v", v.id, sh, out, n, exists))
		}
		if out == "ok" {
			w.vals[v.id] = v
			w.c.Hit("upsert-created-value")
		}
		w.op(v.line("iv"), out)
		return
	}
	if err != nil || n != len(matches) {
		w.fail("store-outcome", fmt.Sprintf("update values via %s: err=%v n=%d, %d documents match", sh, err, n, len(matches)))
	}
	for _, m := range matches {
		m.ver = v.ver
		if !sh.byName {
			m.name = v.name
		}
		out := "ok"
		if err != nil {
			out = "err:" + err.Error()
		} else {
			w.vals[m.id] = m
		}
		w.op(m.line("uv"), out)
	}
	w.c.Hit("upsert-updated-value")
}

func keysOf(m map[string]any) string {
	var ks []string
	for k := range m {
		ks = append(ks, k)
	}
	sort.Strings(ks)
	return "{" + strings.Join(ks, ",") + "}"
}

func describeUpdate(u map[string]any) string {
	var ps []string
	for _, op := range []string{"$set", "$unset"} {
		if m, ok := u[op].(map[string]any); ok {
			ps = append(ps, op+" "+keysOf(m))
		}
	}
	return strings.Join(ps, " ")
}

func genShape(rng *lib.RNG) upShape {
	sh := upShape{byName: rng.Chance(1, 3), nsInFilter: rng.Bool(), nsInSet: rng.Bool(), unsetName: rng.Chance(1, 4), upsert: rng.Chance(4, 5)}
	return sh
}

func (w *world) delSpec(id int) {
	n, err := w.specStore.Delete(w.ctx, map[string]any{spec.KeyID: uid(id)})
	out := "ok"
	if err != nil {
		out = "err:" + err.Error()
	} else if n == 0 {
		out = "nf"
	}
	if _, exists := w.specs[id]; (out == "ok") != exists {
		w.fail("store-outcome", fmt.Sprintf("delete spec %d: %s, exists=%v", id, out, exists))
	}
	delete(w.specs, id)
	w.op(fmt.Sprintf("ds %d", id), out)
	w.c.Hit("op-delete-spec-" + out)
}

func (w *world) insVal(v valDoc) {
	if _, exists := w.vals[v.id]; !exists && w.valNameTaken(v.id, v.ns, v.name) {
		w.insValBatch([]valDoc{v}, []bool{false})
		return
	}
	err := w.valueStore.Insert(w.ctx, []any{v.doc()})
	out := errClass(err)
	_, exists := w.vals[v.id]
	if (out == "dup") != exists || (out != "dup" && out != "ok") {
		w.fail("store-outcome", fmt.Sprintf("insert value %d: %s, exists=%v", v.id, out, exists))
	}
	if out == "ok" {
		w.vals[v.id] = v
	}
	w.op(v.line("iv"), out)
	w.c.Hit("op-insert-value-" + out)
}

func (w *world) updVal(v valDoc) {
	if old, ok := w.vals[v.id]; ok && w.valNameTaken(v.id, old.ns, v.name) {
		v.name = 0
	}
	update := map[string]any{"$set": map[string]any{value.KeyData: v.ver}}
	setOrUnsetName(update, value.KeyName, vName(v.name))
	n, err := w.valueStore.Update(w.ctx, map[string]any{value.KeyID: uid(v.id)}, update)
	out := "ok"
	if err != nil {
		out = "err:" + err.Error()
	} else if n == 0 {
		out = "nf"
	}
	if _, exists := w.vals[v.id]; (out == "ok") != exists {
		w.fail("store-outcome", fmt.Sprintf("update value %d: %s, exists=%v", v.id, out, exists))
	}
	if out == "ok" {
		w.vals[v.id] = v
	}
	w.op(v.line("uv"), out)
	w.c.Hit("op-update-value-" + out)
}

func (w *world) delVal(id int) {
	n, err := w.valueStore.Delete(w.ctx, map[string]any{value.KeyID: uid(id)})
	out := "ok"
	if err != nil {
		out = "err:" + err.Error()
	} else if n == 0 {
		out = "nf"
	}
	if _, exists := w.vals[id]; (out == "ok") != exists {
		w.fail("store-outcome", fmt.Sprintf("delete value %d: %s, exists=%v", id, out, exists))
	}
	delete(w.vals, id)
	w.op(fmt.Sprintf("dv %d", id), out)
	w.c.Hit("op-delete-value-" + out)
}

// ---------------------------------------------------------------- Load + oracle

// load calls the real Load (ids == nil: Load(nil)) and checks the statement directly.
func (w *world) load(ids []int) {
	before := w.table()
	target := w.target()
	var filter any
	line := "load all"
	match := func(int) bool { return true }
	if ids != nil {
		var fs []any
		set := map[int]bool{}
		for _, id := range ids {
			fs = append(fs, map[string]any{spec.KeyID: uid(id)})
			set[id] = true
		}
		if len(ids) == 1 {
			filter = fs[0]
		} else {
			filter = map[string]any{"$or": fs}
		}
		match = func(i int) bool { return set[i] }
		var ss []string
		for _, id := range ids {
			ss = append(ss, strconv.Itoa(id))
		}
		line = fmt.Sprintf("load ids %d %s", len(ids), strings.Join(ss, " "))
	}
	var err error
	ok, p := lib.WithTimeout(20*time.Second, func() { err = w.rt.Load(w.ctx, filter) })
	if !ok || p != nil {
		w.fail("load-blocked-or-panicked", fmt.Sprintf("%s: returned=%v panic=%v", line, ok, p))
		w.op(line, "blocked")
		return
	}
	after := w.table()
	notes := w.takeNotes()
	e := 0
	if err != nil {
		e = 1
	}
	w.op(line, fmt.Sprintf("e%d T %s L %s", e, tableString(after), notesString(notes)))

	// oracle 1: the table equals the target on every id the filter covers, is untouched elsewhere
	want := map[int]symObs{}
	for id, s := range before {
		if !match(id) {
			want[id] = s
		}
	}
	for id, s := range target {
		if match(id) {
			want[id] = s
		}
	}
	if got, exp := tableString(after), tableString(want); got != exp {
		if len(after) > 12 || len(want) > 12 {
			w.fail("table-not-target", fmt.Sprintf("after %s the table (%d symbols) differs from what the stores demand in %s", line, len(after), diffTables(after, want)))
		} else {
			w.fail("table-not-target", fmt.Sprintf("after %s the table is [%s], the stores demand [%s]", line, got, exp))
		}
	}
	// oracle 2: notifications only for symbols that had to change; none when nothing changed
	var expNotes []note
	for id := 0; id < 128; id++ {
		if !match(id) {
			continue
		}
		b, hasB := before[id]
		t, hasT := target[id]
		if hasB == hasT && (!hasB || b.String() == t.String()) {
			continue
		}
		if hasB && b.active {
			expNotes = append(expNotes, note{false, id})
		}
		if hasT && t.active {
			expNotes = append(expNotes, note{true, id})
		}
	}
	if got, exp := notesString(notes), notesString(expNotes); got != exp {
		class := "notifications-wrong"
		if tableString(before) == tableString(want) {
			class = "reload-restarts"
		}
		w.fail(class, fmt.Sprintf("%s emitted [%s]; the table before was [%s], the stores demand [%s], so exactly [%s] is due", line, got, tableString(before), tableString(want), exp))
	}
	// oracle 3: Load reports an error iff a spec it looked at cannot be bound
	wantErr := false
	for id, t := range target {
		if match(id) && !t.isBound {
			wantErr = true
		}
	}
	if wantErr != (err != nil) {
		w.fail("load-error", fmt.Sprintf("%s returned err=%v, unbound spec among the loaded ones: %v", line, err, wantErr))
	}
	for _, d := range w.specs {
		if d.ns != w.rns {
			w.c.Hit("stored-spec-other-namespace")
		}
	}
	for id, t := range target {
		if !match(id) {
			continue
		}
		switch {
		case t.active && len(t.bs) > 0:
			w.c.Hit("target-bound-active")
		case t.active:
			w.c.Hit("target-no-env-active")
		case t.isBound:
			w.c.Hit("target-unknown-kind")
		default:
			w.c.Hit("target-unbound")
		}
		if b, ok := before[id]; ok && b.String() != t.String() {
			w.c.Hit("load-replaces-symbol")
		}
	}
	for id := range before {
		if _, ok := target[id]; !ok && match(id) {
			w.c.Hit("load-frees-symbol")
		}
	}
	if ids == nil {
		w.c.Hit("op-load-all")
	} else {
		w.c.Hit("op-load-ids")
	}
	if len(notes) > 0 {
		w.c.Hit("load-with-notifications")
	}
}

// ---------------------------------------------------------------- generators

const (
	nSpecIDs = 6
	valBase  = 10
	nValIDs  = 6
)

func genSpec(rng *lib.RNG, id, nns int, existing []valDoc) specDoc {
	d := specDoc{id: id, ns: rng.Range(1, nns), name: rng.Intn(4), kind: rng.Intn(4), ver: rng.Range(1, 9)}
	if rng.Chance(2, 3) {
		d.ns = 1
	}
	ne := rng.Weighted([]int{4, 5, 2})
	keys := []int{1, 2, 3}
	for i := 0; i < ne; i++ {
		e := envEnt{key: keys[i], byID: rng.Bool()}
		if e.byID {
			e.ref = valBase + rng.Intn(nValIDs)
		} else {
			e.ref = rng.Range(1, 4)
		}
		if len(existing) > 0 && rng.Chance(4, 5) { // prefer a value that exists (maybe in another namespace)
			v := lib.Pick(rng, existing)
			if e.byID || v.name == 0 {
				e.byID, e.ref = true, v.id
			} else {
				e.ref = v.name
			}
		}
		d.env = append(d.env, e)
	}
	return d
}

func genVal(rng *lib.RNG, id, nns int) valDoc {
	v := valDoc{id: id, ns: rng.Range(1, nns), name: rng.Intn(5), ver: rng.Range(1, 9)}
	if rng.Chance(2, 3) {
		v.ns = 1
	}
	return v
}

func (w *world) sortedVals() []valDoc {
	var vs []valDoc
	for id := valBase; id < valBase+nValIDs; id++ {
		if v, ok := w.vals[id]; ok {
			vs = append(vs, v)
		}
	}
	return vs
}

// pickID: an id of [base, base+n), biased (3 in 4) towards ids that exist / do not exist.
func pickID(rng *lib.RNG, base, n int, exists func(int) bool, wantExisting bool) int {
	if rng.Chance(3, 4) {
		var c []int
		for id := base; id < base+n; id++ {
			if exists(id) == wantExisting {
				c = append(c, id)
			}
		}
		if len(c) > 0 {
			return lib.Pick(rng, c)
		}
	}
	return base + rng.Intn(n)
}

// mutate applies one random store mutation.
func (w *world) mutate(rng *lib.RNG, nns int) {
	hasSpec := func(id int) bool { _, ok := w.specs[id]; return ok }
	hasVal := func(id int) bool { _, ok := w.vals[id]; return ok }
	switch rng.Weighted([]int{5, 5, 2, 5, 5, 2, 4, 4, 3, 3}) {
	case 8: // one Insert of several specs, a later one possibly refused
		ids, noID := batchPlan(rng, 1, nSpecIDs, hasSpec, rng.Intn(4))
		var ds []specDoc
		for _, id := range ids {
			ds = append(ds, genSpec(rng, id, nns, w.sortedVals()))
		}
		if len(ds) > 0 {
			w.insSpecBatch(ds, noID)
		}
	case 9:
		ids, noID := batchPlan(rng, valBase, nValIDs, hasVal, rng.Intn(4))
		var vs []valDoc
		for _, id := range ids {
			vs = append(vs, genVal(rng, id, nns))
		}
		if len(vs) > 0 {
			w.insValBatch(vs, noID)
		}
	case 6: // Update with Upsert / $unset on the spec store: on an absent or an existing document
		d := genSpec(rng, pickID(rng, 1, nSpecIDs, hasSpec, rng.Bool()), nns, w.sortedVals())
		if old, ok := w.specs[d.id]; ok && rng.Bool() {
			d.ns, d.name = old.ns, old.name
		}
		w.upsertSpec(d, genShape(rng))
	case 7:
		v := genVal(rng, pickID(rng, valBase, nValIDs, hasVal, rng.Bool()), nns)
		if old, ok := w.vals[v.id]; ok && rng.Bool() {
			v.ns, v.name = old.ns, old.name
		}
		w.upsertVal(v, genShape(rng))
	case 0:
		w.insSpec(genSpec(rng, pickID(rng, 1, nSpecIDs, hasSpec, false), nns, w.sortedVals()))
	case 1:
		id := pickID(rng, 1, nSpecIDs, hasSpec, true)
		d := genSpec(rng, id, nns, w.sortedVals())
		if old, ok := w.specs[id]; ok {
			d.ns = old.ns // a spec keeps its namespace for life
			if rng.Chance(1, 4) {
				d = old // an update that changes nothing
			} else if rng.Chance(1, 3) {
				d.env, d.kind, d.name = old.env, old.kind, old.name // content only
			}
		}
		w.updSpec(d)
	case 2:
		w.delSpec(pickID(rng, 1, nSpecIDs, hasSpec, true))
	case 3:
		w.insVal(genVal(rng, pickID(rng, valBase, nValIDs, hasVal, false), nns))
	case 4:
		id := pickID(rng, valBase, nValIDs, hasVal, true)
		v := genVal(rng, id, nns)
		if old, ok := w.vals[id]; ok {
			v.ns = old.ns // a value keeps its namespace for life
			if rng.Chance(1, 2) {
				v.name = old.name // data only
			}
		}
		w.updVal(v)
	case 5:
		w.delVal(pickID(rng, valBase, nValIDs, hasVal, true))
	}
}

func (w *world) randomIDs(rng *lib.RNG) []int {
	n := rng.Range(1, 3)
	var ids []int
	for i := 0; i < n; i++ {
		id := 1 + rng.Intn(nSpecIDs)
		dup := false
		for _, x := range ids {
			dup = dup || x == id
		}
		if !dup {
			ids = append(ids, id)
		}
	}
	return ids
}

// seqCase: mutations with Load at random points.
func seqCase(c *lib.Ctx, rng *lib.RNG, sc *lib.Script, fails *[]lib.OracleFail) string {
	nns := rng.Range(2, 3)
	w := newWorld(c, sc, fails, 1)
	defer w.close()
	w.op("rt 1", "ok")
	if rng.Chance(1, 3) { // the stores as the application sets them up: unique (namespace, name) among the documents that have a name
		w.withUniqueNames()
		w.remark("both stores carry the application's partial unique index on (namespace, name)")
	}
	nops := rng.Range(6, c.Scale(30, 70))
	loads := 0
	if rng.Bool() { // some values first, so that references can resolve from the start
		for k := rng.Range(2, 4); k > 0; k-- {
			w.insVal(genVal(rng, valBase+rng.Intn(nValIDs), nns))
		}
	}
	for i := 0; i < nops; i++ {
		switch rng.Weighted([]int{12, 4, 2, 1}) {
		case 0:
			w.mutate(rng, nns)
		case 1:
			w.load(nil)
			loads++
		case 2:
			w.load(w.randomIDs(rng))
			loads++
		case 3: // twice in a row: the second must be silent
			w.load(nil)
			w.load(nil)
			loads += 2
		}
	}
	w.load(nil)
	w.load(nil)
	if c.Evaluations < 2 {
		c.Sample(w.trace)
	}
	if loads >= 2 && len(w.specs) > 0 {
		return strings.Join(w.trace, ";")
	}
	return ""
}

// ---------------------------------------------------------------- Watch + Reconcile

// quiesce waits until the table equals the target (then until it has stayed so for a moment), or
// gives up after `patience`; it returns the table it last saw.
func (w *world) quiesce(patience time.Duration) (string, bool) {
	want := tableString(w.target())
	deadline := time.Now().Add(patience)
	got := ""
	for {
		got = tableString(w.table())
		if got == want {
			// stay a little to catch a late overwrite by a Load still in flight
			stable := true
			for k := 0; k < 5 && stable; k++ {
				time.Sleep(time.Millisecond)
				stable = tableString(w.table()) == want
			}
			if stable {
				return got, true
			}
			continue
		}
		if time.Now().After(deadline) {
			return got, false
		}
		time.Sleep(500 * time.Microsecond)
	}
}

// session: one Watch … Reconcile run of the runtime, bound to its own context.
type session struct {
	ctx    context.Context
	cancel context.CancelFunc
	done   chan error
	// proven: this session's Reconcile has been seen to consume an event of its streams (a round in
	// which the table had to change and did, with no Load of the harness's own). Reconcile picks the
	// runtime's streams up when it starts running, which the harness cannot observe otherwise.
	proven bool
}

// startSession: Watch (+ a second Watch on another live context, 1 time in 4 – the first context is
// then abandoned), Load(nil), Reconcile in a goroutine. No other Reconcile is running at this point,
// so the Load is observed in full (table and notifications).
func (w *world) startSession(rng *lib.RNG) *session {
	s := &session{done: make(chan error, 1)}
	s.ctx, s.cancel = context.WithCancel(context.Background())
	if rng.Chance(1, 4) {
		first, abandon := context.WithCancel(context.Background())
		if err := w.rt.Watch(first); err != nil {
			w.fail("watch-error", err.Error())
		}
		w.op("watch", "ok")
		w.remark("Watch is called again, with another context; the first context is cancelled afterwards")
		defer abandon()
		w.c.Hit("session-watch-twice")
	}
	if err := w.rt.Watch(s.ctx); err != nil {
		w.fail("watch-error", err.Error())
	}
	w.op("watch", "ok")
	w.load(nil)
	go func() { s.done <- w.rt.Reconcile(s.ctx) }()
	return s
}

func (w *world) awaitReconcile(s *session, why string) {
	select {
	case <-s.done:
	case <-time.After(10 * time.Second):
		w.fail("reconcile-stuck", "Reconcile did not return 10 s after "+why)
	}
}

// endSession ends a watch session WITHOUT discarding the runtime: the session's context is
// cancelled (the store closes both streams) and Reconcile is awaited; 1 time in 3 Runtime.Close
// follows (streams forgotten, table emptied – observed), 1 time in 3 Reconcile is called once more
// (on the ended streams it must return at once).
func (w *world) endSession(rng *lib.RNG, s *session) {
	s.cancel()
	w.remark("the session's context is cancelled (no Runtime.Close)")
	w.awaitReconcile(s, "its context was cancelled")
	switch rng.Intn(3) {
	case 0:
		w.takeNotes()
		var err error
		ok, p := lib.WithTimeout(10*time.Second, func() { err = w.rt.Close(context.Background()) })
		if !ok || p != nil || err != nil {
			w.fail("close-failed", fmt.Sprintf("Runtime.Close: returned=%v panic=%v err=%v", ok, p, err))
		}
		w.op("close", fmt.Sprintf("e0 T %s L %s", tableString(w.table()), notesString(w.takeNotes())))
		w.c.Hit("session-end-close")
	case 1:
		ctx, cancel := context.WithCancel(context.Background())
		ok, p := lib.WithTimeout(5*time.Second, func() { _ = w.rt.Reconcile(ctx) })
		cancel()
		if !ok || p != nil {
			w.fail("reconcile-on-ended-session", fmt.Sprintf("Reconcile called again after the session's context was cancelled: returned=%v panic=%v", ok, p))
		}
		w.remark("Reconcile was called again on the ended session and returned")
		w.c.Hit("session-end-reconcile-again")
	default:
		w.c.Hit("session-end-cancel")
	}
}

// rewatch: Watch is called again in the middle of a live session (the running Reconcile loses its
// streams and must return; what they still held is dropped – a Load repairs it), then Load(nil) and
// a new Reconcile on the new streams.
func (w *world) rewatch(rng *lib.RNG, old *session) *session {
	s := &session{done: make(chan error, 1)}
	s.ctx, s.cancel = context.WithCancel(context.Background())
	w.remark("Watch is called again while the session is live")
	if err := w.rt.Watch(s.ctx); err != nil {
		w.fail("watch-error", err.Error())
	}
	w.op("watch", "ok")
	if old.proven {
		w.awaitReconcile(old, "Watch replaced its streams")
		old.cancel()
	} else { // its goroutine may not have picked its streams up yet: it might take the new ones
		old.cancel()
		w.awaitReconcile(old, "its context was cancelled")
	}
	w.load(nil)
	go func() { s.done <- w.rt.Reconcile(s.ctx) }()
	w.c.Hit("session-rewatch-live")
	return s
}

func watchCase(c *lib.Ctx, rng *lib.RNG, sc *lib.Script, fails *[]lib.OracleFail) string {
	nns := rng.Range(2, 3)
	w := newWorld(c, sc, fails, 1)
	defer w.close()
	defer curParker.Store(nil)
	w.op("rt 1", "ok")
	if rng.Chance(1, 3) { // the stores as the application sets them up: unique (namespace, name) among the documents that have a name
		w.withUniqueNames()
		w.remark("both stores carry the application's partial unique index on (namespace, name)")
	}
	for i := rng.Intn(6); i > 0; i-- {
		w.mutate(rng, nns)
	}
	sessions := 1
	if rng.Bool() {
		sessions = rng.Range(2, 3) // the SAME runtime is used for a second and a third watch session
	}
	rounds := rng.Range(3, c.Scale(10, 25))
	var s *session
	failed := false
	for si := 0; si < sessions && !failed; si++ {
		if si > 0 {
			w.endSession(rng, s)
			for k := rng.Intn(3); k > 0; k-- { // changes nobody is told about: the next session's Load must pick them up
				w.mutate(rng, nns)
			}
			if rng.Chance(1, 3) {
				w.load(nil)
			}
			c.Hit("session-next")
		}
		s = w.startSession(rng)
		n := rounds / sessions
		if n < 2 {
			n = 2
		}
		for r := 0; r < n; r++ {
			before, own := tableString(w.target()), false
			if k := rng.Intn(14); k < 3 {
				w.parkedRepeat(rng, nns)
			} else if k < 6 {
				w.parkedDelete(rng, nns)
				own = true // may have called Load(nil) itself
			} else if k < 7 && r > 0 {
				s = w.rewatch(rng, s)
				continue
			} else {
				for k := rng.Range(1, 4); k > 0; k-- {
					w.mutate(rng, nns)
				}
			}
			got, ok := w.quiesce(10 * time.Second)
			w.op("drain", "T "+got)
			if !ok {
				w.fail("not-converged", fmt.Sprintf("watch session %d of this runtime: 10 s after the last store change the table is [%s], the stores demand [%s]", si+1, got, tableString(w.target())))
				failed = true
				break
			}
			if !own && before != got {
				s.proven = true
			}
			w.takeNotes()
			c.Hit("watch-round")
		}
	}
	s.cancel()
	w.awaitReconcile(s, "its context was cancelled")
	if c.Evaluations < 4 {
		c.Sample(w.trace)
	}
	return "w:" + strings.Join(w.trace, ";")
}

// ---------------------------------------------------------------- forced overlap of two Loads

// parker parks the next Load at the verif yield point (after its store reads, before its table
// writes) until released.
type parker struct {
	armed   atomic.Bool
	reached chan struct{}
	release chan struct{}
}

var curParker atomic.Pointer[parker]

func yield() {
	if p := curParker.Load(); p != nil && p.armed.CompareAndSwap(true, false) {
		close(p.reached)
		<-p.release
	}
}

func (w *world) waitTable(want func(map[int]symObs) bool, d time.Duration) bool {
	deadline := time.Now().Add(d)
	for !want(w.table()) {
		if time.Now().After(deadline) {
			return false
		}
		time.Sleep(time.Millisecond)
	}
	return true
}

// raceCase overlaps a parked Load with the steps that make it stale.
//
//	scenario 0: the value consumer's Load has read spec S (old content); S is updated and the spec
//	            consumer's Load publishes the new content; the parked Load then publishes the old one.
//	scenario 1: the spec consumer's Load has read S and found its value missing; the value is inserted
//	            and the value consumer scans a table that does not hold S yet; the parked Load then
//	            publishes S unbound.
func raceCase(c *lib.Ctx, rng *lib.RNG, sc *lib.Script, fails *[]lib.OracleFail, scenario int) string {
	w := newWorld(c, sc, fails, 1)
	defer w.close()
	p := &parker{reached: make(chan struct{}), release: make(chan struct{})}
	curParker.Store(p)
	defer curParker.Store(nil)
	w.op("rt 1", "ok")
	if rng.Chance(1, 3) { // the stores as the application sets them up: unique (namespace, name) among the documents that have a name
		w.withUniqueNames()
		w.remark("both stores carry the application's partial unique index on (namespace, name)")
	}
	sid, vid, vname := 1+rng.Intn(nSpecIDs), valBase+rng.Intn(nValIDs), rng.Range(1, 4)
	byID := rng.Bool()
	d := specDoc{id: sid, ns: 1, name: rng.Intn(4), kind: rng.Intn(3), ver: 1, env: []envEnt{{key: 1, byID: byID, ref: vid}}}
	if !byID {
		d.env[0].ref = vname
	}
	v := valDoc{id: vid, ns: 1, name: vname, ver: 1}
	// an unrelated spec, so that the table is not empty
	other := specDoc{id: sid%nSpecIDs + 1, ns: 1, kind: 0, ver: 3}
	w.insSpec(other)
	if scenario == 0 {
		w.insSpec(d)
		w.insVal(v)
	}
	if err := w.rt.Watch(w.ctx); err != nil {
		w.fail("watch-error", err.Error())
		return ""
	}
	w.op("watch", "ok")
	w.load(nil)
	done := make(chan error, 1)
	go func() { done <- w.rt.Reconcile(w.ctx) }()
	p.armed.Store(true)
	if scenario == 0 {
		v.ver = 2
		w.updVal(v) // value consumer: Load({$or:[S]}) parks after reading S (ver 1)
	} else {
		w.insSpec(d) // spec consumer: Load({id:S}) parks after finding no value
	}
	select {
	case <-p.reached:
	case <-time.After(5 * time.Second):
		p.armed.Store(false)
		w.fail("race-setup", "no Load reached the yield point within 5 s")
		close(p.release)
		return ""
	}
	if scenario == 0 {
		d.ver = 2
		w.updSpec(d) // spec consumer: Load({id:S}) publishes ver 2 (or waits for the parked Load)
		w.waitTable(func(m map[int]symObs) bool { return m[sid].ver == "2" }, 200*time.Millisecond)
	} else {
		w.insVal(v) // value consumer scans the table (or waits for the parked Load)
		time.Sleep(50 * time.Millisecond)
	}
	close(p.release)
	got, ok := w.quiesce(3 * time.Second)
	w.op("drain", "T "+got)
	if !ok {
		w.fail("not-converged-after-overlapping-loads", fmt.Sprintf("scenario %d: 3 s after the last store change the table is [%s], the stores demand [%s]", scenario, got, tableString(w.target())))
	}
	w.takeNotes()
	w.cancel()
	select {
	case <-done:
	case <-time.After(10 * time.Second):
		w.fail("reconcile-stuck", "Reconcile did not return 10 s after its context was cancelled")
	}
	c.Hit(fmt.Sprintf("overlap-scenario-%d", scenario))
	return "r:" + strings.Join(w.trace, ";")
}

// ---------------------------------------------------------------- repeated identical events while the reconciler is busy

func newParker() *parker {
	p := &parker{reached: make(chan struct{}), release: make(chan struct{})}
	curParker.Store(p)
	p.armed.Store(true)
	return p
}

// wait reports whether a Load parked within d; otherwise the parker is disarmed.
func (p *parker) wait(d time.Duration) bool {
	select {
	case <-p.reached:
		return true
	case <-time.After(d):
		if p.armed.CompareAndSwap(true, false) {
			return false
		}
		<-p.reached // a Load took the parking slot at the last moment
		return true
	}
}

func (p *parker) free() {
	time.Sleep(2 * time.Millisecond) // let the stream pumps decide what to do with what was emitted meanwhile
	close(p.release)
	curParker.CompareAndSwap(p, nil)
}

// repeatCase (directed): Watch + Reconcile; a document is updated, the Load that the reconciler
// runs for that event is parked after it has read the stores; the SAME document is updated again
// (once or twice) – events identical to the one being handled, nothing else queued – optionally
// followed by an unrelated event on the same stream; the Load is released. At quiescence the table
// must carry the last update. (A stream that collapses a repeated notification loses it for good.)
func repeatCase(c *lib.Ctx, rng *lib.RNG, sc *lib.Script, fails *[]lib.OracleFail, onValue bool, updates int, trailing bool) string {
	w := newWorld(c, sc, fails, 1)
	defer w.close()
	defer curParker.Store(nil)
	w.op("rt 1", "ok")
	if rng.Chance(1, 3) { // the stores as the application sets them up: unique (namespace, name) among the documents that have a name
		w.withUniqueNames()
		w.remark("both stores carry the application's partial unique index on (namespace, name)")
	}
	sid, vid, vname := 1+rng.Intn(nSpecIDs), valBase+rng.Intn(nValIDs), rng.Range(1, 4)
	d := specDoc{id: sid, ns: 1, name: rng.Intn(4), kind: rng.Intn(3), ver: 1}
	if onValue || rng.Bool() {
		e := envEnt{key: 1, byID: rng.Bool(), ref: vid}
		if !e.byID {
			e.ref = vname
		}
		d.env = []envEnt{e}
	}
	v := valDoc{id: vid, ns: 1, name: vname, ver: 1}
	other := specDoc{id: sid%nSpecIDs + 1, ns: 1, kind: rng.Intn(2), ver: 3}
	otherV := valDoc{id: valBase + (vid-valBase+1)%nValIDs, ns: 1, name: 0, ver: 7}
	w.insSpec(other)
	w.insSpec(d)
	w.insVal(v)
	w.insVal(otherV)
	if err := w.rt.Watch(w.ctx); err != nil {
		w.fail("watch-error", err.Error())
		return ""
	}
	w.op("watch", "ok")
	w.load(nil)
	done := make(chan error, 1)
	go func() { done <- w.rt.Reconcile(w.ctx) }()
	bump := func(k int) {
		if onValue {
			v.ver = 1 + k
			w.updVal(v)
		} else {
			d.ver = 1 + k
			w.updSpec(d)
		}
	}
	p := newParker()
	w.remark("the next Load parks at the verif yield point (stores read, table not yet written)")
	bump(1) // the consumer's Load for this event parks after reading the stores
	if !p.wait(5 * time.Second) {
		w.fail("race-setup", "no Load reached the yield point within 5 s")
		return ""
	}
	w.remark("the reconciler's Load for that event is parked")
	for k := 2; k <= updates; k++ {
		bump(k) // identical {op,id} event, emitted while the consumer is still inside the Load
	}
	if trailing {
		if onValue {
			otherV.ver++
			w.updVal(otherV)
		} else {
			other.ver++
			w.updSpec(other)
		}
	}
	p.free()
	w.remark("the parked Load is released")
	got, ok := w.quiesce(3 * time.Second)
	w.op("drain", "T "+got)
	if !ok {
		w.fail("not-converged-after-repeated-update", fmt.Sprintf("the same %s was updated %d times while the reconciler was inside the Load for the first update (trailing unrelated event: %v); 3 s later the table is [%s], the stores demand [%s]",
			map[bool]string{false: "spec", true: "value"}[onValue], updates, trailing, got, tableString(w.target())))
	}
	w.takeNotes()
	w.cancel()
	select {
	case <-done:
	case <-time.After(10 * time.Second):
		w.fail("reconcile-stuck", "Reconcile did not return 10 s after its context was cancelled")
	}
	c.Hit(fmt.Sprintf("repeat-%s-x%d-trailing-%v", map[bool]string{false: "spec", true: "value"}[onValue], updates, trailing))
	if c.Evaluations < 2 {
		c.Sample(w.trace)
	}
	return "p:" + strings.Join(w.trace, ";")
}

// parkedRepeat (random ingredient of the Watch+Reconcile histories): update a document whose
// event makes the reconciler load, park that Load, then – with the Load parked – repeat the same
// (op,id) with new content once or twice and maybe add other mutations, release.
func (w *world) parkedRepeat(rng *lib.RNG, nns int) {
	var specIDs, valIDs []int
	for id := 1; id <= nSpecIDs; id++ {
		if d, ok := w.specs[id]; ok && d.ns == w.rns {
			specIDs = append(specIDs, id)
		}
	}
	for _, t := range w.target() { // values some symbol is bound to: their events make the value consumer load
		for _, b := range t.bs {
			dup := false
			for _, x := range valIDs {
				dup = dup || x == b.vid
			}
			if !dup {
				valIDs = append(valIDs, b.vid)
			}
		}
	}
	sort.Ints(valIDs)
	onValue := len(valIDs) > 0 && (len(specIDs) == 0 || rng.Bool())
	if !onValue && len(specIDs) == 0 {
		w.mutate(rng, nns)
		return
	}
	var again func()
	if onValue {
		id := lib.Pick(rng, valIDs)
		again = func() {
			v := w.vals[id]
			v.ver = v.ver%9 + 1
			if rng.Chance(1, 4) {
				v.name = rng.Intn(5)
			}
			w.updVal(v)
		}
	} else {
		id := lib.Pick(rng, specIDs)
		again = func() {
			old := w.specs[id]
			d := genSpec(rng, id, nns, w.sortedVals())
			d.ns = old.ns
			if rng.Bool() {
				d.env, d.kind, d.name = old.env, old.kind, old.name
			}
			if d.ver == old.ver {
				d.ver = old.ver%9 + 1
			}
			w.updSpec(d)
		}
	}
	w.remark("the next Load parks at the verif yield point (stores read, table not yet written)")
	p := newParker()
	again()
	if !p.wait(300 * time.Millisecond) {
		w.remark("no Load within 300 ms; parking cancelled")
		w.c.Hit("parked-repeat-no-load")
		return
	}
	w.remark("a Load of the reconciler is parked")
	if rng.Chance(3, 4) { // the next mutation repeats the previous (op,id) while the Load is parked
		for k := rng.Range(1, 2); k > 0; k-- {
			again()
		}
		w.c.Hit("parked-repeat-same-op-id")
	}
	for k := rng.Intn(3); k > 0; k-- {
		w.mutate(rng, nns)
	}
	p.free()
	w.remark("the parked Load is released")
	w.c.Hit("parked-repeat")
}

// ---------------------------------------------------------------- deletes while a Load is parked

// userLoad calls Load(nil) the way a user would, in its own goroutine (it is going to be parked).
func (w *world) userLoad() chan struct{} {
	done := make(chan struct{})
	go func() {
		defer close(done)
		lib.Safe(func() { _ = w.rt.Load(w.ctx, nil) })
	}()
	return done
}

// letReconcilerSee gives the reconciler a moment to consume the event of a spec deletion while a
// Load is parked: with loads and event handling serialised it cannot finish (it waits for the parked
// Load), so the wait is bounded and its outcome is not an observation.
func (w *world) letReconcilerSee(id int, d time.Duration) {
	w.waitTable(func(m map[int]symObs) bool { _, ok := m[id]; return !ok }, d)
}

// deleteCase (directed): Watch + Reconcile; a Load – the reload triggered by an update of the
// value X is bound to, or a user's Load(nil) – is parked after it has read the stores, with spec X
// in its snapshot; then X is deleted (variants: deleted and re-inserted in the same / in another
// namespace; or the bound value is deleted), the reconciler gets a moment to handle the event, the
// Load is released. At quiescence the table must hold nothing for a deleted spec.
//
//	action 0: delete X    1: delete X, re-insert X (new content) in the runtime's namespace
//	       2: delete X, re-insert X in another namespace    3: delete the value X is bound to
func deleteCase(c *lib.Ctx, rng *lib.RNG, sc *lib.Script, fails *[]lib.OracleFail, byUser bool, action int) string {
	w := newWorld(c, sc, fails, 1)
	defer w.close()
	defer curParker.Store(nil)
	w.op("rt 1", "ok")
	if rng.Chance(1, 3) { // the stores as the application sets them up: unique (namespace, name) among the documents that have a name
		w.withUniqueNames()
		w.remark("both stores carry the application's partial unique index on (namespace, name)")
	}
	sid, vid, vname := 1+rng.Intn(nSpecIDs), valBase+rng.Intn(nValIDs), rng.Range(1, 4)
	e := envEnt{key: 1, byID: rng.Bool(), ref: vid}
	if !e.byID {
		e.ref = vname
	}
	d := specDoc{id: sid, ns: 1, name: rng.Intn(4), kind: rng.Intn(3), ver: 1, env: []envEnt{e}}
	v := valDoc{id: vid, ns: 1, name: vname, ver: 1}
	other := specDoc{id: sid%nSpecIDs + 1, ns: 1, kind: rng.Intn(2), ver: 3}
	w.insSpec(other)
	w.insSpec(d)
	w.insVal(v)
	if err := w.rt.Watch(w.ctx); err != nil {
		w.fail("watch-error", err.Error())
		return ""
	}
	w.op("watch", "ok")
	w.load(nil)
	done := make(chan error, 1)
	go func() { done <- w.rt.Reconcile(w.ctx) }()
	w.remark("the next Load parks at the verif yield point (stores read, table not yet written)")
	p := newParker()
	var user chan struct{}
	if byUser {
		w.remark("Load(nil) is called from another goroutine")
		user = w.userLoad()
	} else {
		v.ver = 2
		w.updVal(v) // the value consumer's reload of X parks after reading X
	}
	if !p.wait(5 * time.Second) {
		w.fail("race-setup", "no Load reached the yield point within 5 s")
		return ""
	}
	w.remark(fmt.Sprintf("that Load is parked; spec %d is in what it has read", sid))
	switch action {
	case 0:
		w.delSpec(sid)
	case 1:
		w.delSpec(sid)
		d.ver, d.kind = 5, rng.Intn(3)
		w.insSpec(d)
	case 2:
		w.delSpec(sid)
		d.ns, d.ver = 2, 5
		w.insSpec(d)
	case 3:
		w.delVal(vid)
	}
	if action != 3 {
		w.letReconcilerSee(sid, 50*time.Millisecond)
	}
	p.free()
	w.remark("the parked Load is released")
	if user != nil {
		select {
		case <-user:
		case <-time.After(10 * time.Second):
			w.fail("load-blocked-or-panicked", "the parked Load(nil) did not return 10 s after its release")
		}
	}
	got, ok := w.quiesce(3 * time.Second)
	w.op("drain", "T "+got)
	if !ok {
		w.fail("not-converged-after-delete-during-load", fmt.Sprintf("action %d while a Load (%s) that had read spec %d was parked; 3 s later the table is [%s], the stores demand [%s]",
			action, map[bool]string{false: "the reload for an update of its value", true: "a user's Load(nil)"}[byUser], sid, got, tableString(w.target())))
	}
	w.takeNotes()
	w.cancel()
	select {
	case <-done:
	case <-time.After(10 * time.Second):
		w.fail("reconcile-stuck", "Reconcile did not return 10 s after its context was cancelled")
	}
	c.Hit(fmt.Sprintf("delete-during-load-user-%v-action-%d", byUser, action))
	if c.Evaluations < 3 {
		c.Sample(w.trace)
	}
	return "d:" + strings.Join(w.trace, ";")
}

// parkedDelete (random ingredient of the Watch+Reconcile histories): park a Load that covers
// several specs (a user's Load(nil), or the reload for an update of a bound value), then – with the
// Load parked – delete one of the specs it has read (maybe re-insert it, here or elsewhere) or a
// value one of them is bound to, maybe add other mutations, give the reconciler a moment, release.
func (w *world) parkedDelete(rng *lib.RNG, nns int) {
	target := w.target()
	var specIDs, valIDs []int
	boundTo := map[int][]int{} // value id -> specs bound to it
	for id := 1; id <= nSpecIDs; id++ {
		t, ok := target[id]
		if !ok {
			continue
		}
		specIDs = append(specIDs, id)
		for _, b := range t.bs {
			if len(boundTo[b.vid]) == 0 {
				valIDs = append(valIDs, b.vid)
			}
			boundTo[b.vid] = append(boundTo[b.vid], id)
		}
	}
	sort.Ints(valIDs)
	if len(specIDs) == 0 {
		w.mutate(rng, nns)
		return
	}
	victims := specIDs
	w.remark("the next Load parks at the verif yield point (stores read, table not yet written)")
	p := newParker()
	var user chan struct{}
	if len(valIDs) > 0 && rng.Bool() {
		id := lib.Pick(rng, valIDs)
		v := w.vals[id]
		v.ver = v.ver%9 + 1
		w.updVal(v)
		victims = boundTo[id]
	} else {
		w.remark("Load(nil) is called from another goroutine")
		user = w.userLoad()
	}
	if !p.wait(300 * time.Millisecond) {
		w.remark("no Load within 300 ms; parking cancelled")
		w.c.Hit("parked-delete-no-load")
		if user != nil {
			<-user
		}
		return
	}
	w.remark("a Load is parked")
	victim := lib.Pick(rng, victims)
	old := w.specs[victim]
	switch rng.Weighted([]int{4, 2, 2, 2}) {
	case 0:
		w.delSpec(victim)
	case 1:
		w.delSpec(victim)
		d := genSpec(rng, victim, nns, w.sortedVals())
		d.ns = old.ns
		w.insSpec(d)
	case 2:
		w.delSpec(victim)
		d := genSpec(rng, victim, nns, w.sortedVals())
		d.ns = 2
		w.insSpec(d)
	case 3:
		if bs := target[victim].bs; len(bs) > 0 {
			w.delVal(bs[0].vid)
		} else {
			w.delSpec(victim)
		}
	}
	for k := rng.Intn(3); k > 0; k-- {
		w.mutate(rng, nns)
	}
	w.letReconcilerSee(victim, 20*time.Millisecond)
	p.free()
	w.remark("the parked Load is released")
	if user != nil {
		select {
		case <-user:
		case <-time.After(10 * time.Second):
			w.fail("load-blocked-or-panicked", "the parked Load(nil) did not return 10 s after its release")
		}
	}
	w.c.Hit("parked-delete")
}

// ---------------------------------------------------------------- documents created through Update(Upsert)

// upsertCase (directed): Watch + Reconcile; a spec, or the value a loaded spec is waiting for, is
// CREATED through Update(filter, {$set …}, Upsert) – addressed by id, by id+namespace or by name,
// the namespace in the filter or only in the $set document; at quiescence the spec must be loaded /
// the waiting spec bound.
func upsertCase(c *lib.Ctx, rng *lib.RNG, sc *lib.Script, fails *[]lib.OracleFail, onValue bool, sh upShape) string {
	w := newWorld(c, sc, fails, 1)
	defer w.close()
	w.op("rt 1", "ok")
	if rng.Chance(1, 3) { // the stores as the application sets them up: unique (namespace, name) among the documents that have a name
		w.withUniqueNames()
		w.remark("both stores carry the application's partial unique index on (namespace, name)")
	}
	sid, vid, vname := 1+rng.Intn(nSpecIDs), valBase+rng.Intn(nValIDs), rng.Range(1, 4)
	e := envEnt{key: 1, byID: rng.Bool(), ref: vid}
	if !e.byID {
		e.ref = vname
	}
	d := specDoc{id: sid, ns: 1, name: rng.Range(1, 3), kind: rng.Intn(3), ver: 1, env: []envEnt{e}}
	v := valDoc{id: vid, ns: 1, name: vname, ver: 1}
	other := specDoc{id: sid%nSpecIDs + 1, ns: 1, kind: rng.Intn(2), ver: 3}
	w.insSpec(other)
	if onValue {
		w.insSpec(d) // loaded unbound: its value does not exist yet
	} else {
		w.insVal(v)
	}
	if err := w.rt.Watch(w.ctx); err != nil {
		w.fail("watch-error", err.Error())
		return ""
	}
	w.op("watch", "ok")
	w.load(nil)
	done := make(chan error, 1)
	go func() { done <- w.rt.Reconcile(w.ctx) }()
	if onValue {
		w.upsertVal(v, sh)
	} else {
		w.upsertSpec(d, sh)
	}
	got, ok := w.quiesce(3 * time.Second)
	w.op("drain", "T "+got)
	if !ok {
		w.fail("table-not-target-after-upsert", fmt.Sprintf("a %s was created through Update(Upsert) (%s); 3 s later the table is [%s], the stores demand [%s]",
			map[bool]string{false: "spec", true: "value"}[onValue], sh, got, tableString(w.target())))
	}
	// and an update through the same path, with $unset of the name when addressed by id
	sh.unsetName = !sh.byName
	if onValue {
		v.ver = 2
		w.upsertVal(v, sh)
	} else {
		d.ver = 2
		w.upsertSpec(d, sh)
	}
	got, ok = w.quiesce(3 * time.Second)
	w.op("drain", "T "+got)
	if !ok {
		w.fail("table-not-target-after-upsert", fmt.Sprintf("a %s was updated through Update(Upsert) (%s); 3 s later the table is [%s], the stores demand [%s]",
			map[bool]string{false: "spec", true: "value"}[onValue], sh, got, tableString(w.target())))
	}
	w.takeNotes()
	w.cancel()
	select {
	case <-done:
	case <-time.After(10 * time.Second):
		w.fail("reconcile-stuck", "Reconcile did not return 10 s after its context was cancelled")
	}
	c.Hit("upsert-directed")
	if c.Evaluations < 2 {
		c.Sample(w.trace)
	}
	return "u:" + strings.Join(w.trace, ";")
}

// ---------------------------------------------------------------- refused batches under Watch+Reconcile

// batchCase (directed): both stores carry the unique (namespace, name) index; Watch + Reconcile;
// ONE Insert of three documents whose second is refused – its id is already stored (0), it repeats
// the first document's id (1), its (namespace, name) is taken (2), it has no id (3) – or none is (4).
// The first document is stored and must be announced: on the spec store it must get its symbol, on
// the value store the spec waiting for it must become bound. Then the refused and the third document
// are inserted properly.
func batchCase(c *lib.Ctx, rng *lib.RNG, sc *lib.Script, fails *[]lib.OracleFail, onValue bool, reason int) string {
	w := newWorld(c, sc, fails, 1)
	defer w.close()
	w.withUniqueNames()
	w.op("rt 1", "ok")
	sid, vid := 1+rng.Intn(nSpecIDs), valBase+rng.Intn(nValIDs)
	nextS := func(k int) int { return (sid-1+k)%nSpecIDs + 1 }
	nextV := func(k int) int { return valBase + (vid-valBase+k)%nValIDs }
	byID := rng.Bool()
	ref := func(v valDoc) []envEnt {
		if byID {
			return []envEnt{{key: 1, byID: true, ref: v.id}}
		}
		return []envEnt{{key: 1, ref: v.name}}
	}
	v1 := valDoc{id: vid, ns: 1, name: 1, ver: rng.Range(1, 9)}
	v2 := valDoc{id: nextV(1), ns: 1, name: 2, ver: 2}
	v3 := valDoc{id: nextV(2), ns: 1, name: 3, ver: 3}
	old := specDoc{id: nextS(3), ns: 1, name: 3, kind: rng.Intn(2), ver: 3}
	a := specDoc{id: sid, ns: 1, name: 1, kind: rng.Intn(3), ver: 1, env: ref(v1)}
	b := specDoc{id: nextS(1), ns: 1, name: 2, kind: rng.Intn(3), ver: 1}
	cc := specDoc{id: nextS(2), ns: 1, name: 4, kind: rng.Intn(3), ver: 1}
	w.insSpec(old)
	if onValue {
		w.insSpec(a) // waits for v1
		w.insVal(valDoc{id: nextV(3), ns: 1, name: 4, ver: 4})
	} else {
		w.insVal(v1)
	}
	s := w.startSessionPlain()
	noID := []bool{false, false, false}
	if onValue {
		switch reason {
		case 0:
			v2.id = nextV(3)
		case 1:
			v2.id = v1.id
		case 2:
			v2.name = 4
		case 3:
			noID[1] = true
		}
		w.insValBatch([]valDoc{v1, v2, v3}, noID)
	} else {
		switch reason {
		case 0:
			b.id = old.id
		case 1:
			b.id = a.id
		case 2:
			b.name = old.name
		case 3:
			noID[1] = true
		}
		w.insSpecBatch([]specDoc{a, b, cc}, noID)
	}
	got, ok := w.quiesce(3 * time.Second)
	w.op("drain", "T "+got)
	if !ok {
		w.fail("table-not-target-after-batch", fmt.Sprintf("ONE Insert of three %ss whose second was refused (reason %d: 0 id stored, 1 id repeated, 2 name taken, 3 no id, 4 none); 3 s later the table is [%s], the stores demand [%s]",
			map[bool]string{false: "spec", true: "value"}[onValue], reason, got, tableString(w.target())))
	}
	// what the batch left out goes in one by one
	if onValue {
		w.insVal(v3)
	} else {
		w.insSpec(cc)
	}
	got, ok = w.quiesce(3 * time.Second)
	w.op("drain", "T "+got)
	if !ok {
		w.fail("not-converged", fmt.Sprintf("after the batch: the table is [%s], the stores demand [%s]", got, tableString(w.target())))
	}
	w.takeNotes()
	s.cancel()
	w.awaitReconcile(s, "its context was cancelled")
	c.Hit(fmt.Sprintf("batch-directed-value-%v-reason-%d", onValue, reason))
	if c.Evaluations < 2 {
		c.Sample(w.trace)
	}
	return "b:" + strings.Join(w.trace, ";")
}

// startSessionPlain: Watch, Load(nil), Reconcile in a goroutine.
func (w *world) startSessionPlain() *session {
	s := &session{done: make(chan error, 1)}
	s.ctx, s.cancel = context.WithCancel(context.Background())
	if err := w.rt.Watch(s.ctx); err != nil {
		w.fail("watch-error", err.Error())
	}
	w.op("watch", "ok")
	w.load(nil)
	go func() { s.done <- w.rt.Reconcile(s.ctx) }()
	return s
}

// ---------------------------------------------------------------- size family: large namespaces

const bigValBase = 100

// sizeCase: a LARGE namespace – 17–60 specs, one value shared by 17–40 of them (referenced by id
// or by name), 17–40 values each referenced by one spec (by id) – so that the runtime's queries
// (the $or of spec ids of a reload, the $or of value ids of a Load) return more than a handful of
// documents. The shared value is updated, deleted and re-inserted, own values and specs change;
// in a Load session every Load (nil and id-filters over ≥17 specs) is observed in full, in a
// Watch+Reconcile session the whole table is compared with the target at quiescence, then again by
// Load(nil) and a Load over an id-filter after the session.
func sizeCase(c *lib.Ctx, rng *lib.RNG, sc *lib.Script, fails *[]lib.OracleFail, watch bool) string {
	w := newWorld(c, sc, fails, 1)
	defer w.close()
	w.op("rt 1", "ok")
	if rng.Chance(1, 3) { // the stores as the application sets them up: unique (namespace, name) among the documents that have a name
		w.withUniqueNames()
		w.remark("both stores carry the application's partial unique index on (namespace, name)")
	}
	n := rng.Range(17, 60)
	lim := func(x int) int {
		if x > n {
			return n
		}
		return x
	}
	k, m := rng.Range(17, lim(40)), rng.Range(17, lim(40))
	perm := func() []int {
		p := make([]int, n)
		for i := range p {
			p[i] = i + 1
		}
		for i := n - 1; i > 0; i-- {
			j := rng.Intn(i + 1)
			p[i], p[j] = p[j], p[i]
		}
		return p
	}
	shared := valDoc{id: bigValBase, ns: 1, name: 1, ver: rng.Range(1, 9)}
	if rng.Bool() {
		shared.id = bigValBase + rng.Range(20, 45) // not the smallest value id
	}
	specs := map[int]*specDoc{}
	for id := 1; id <= n; id++ {
		specs[id] = &specDoc{id: id, ns: 1, name: rng.Intn(4), kind: rng.Intn(4), ver: rng.Range(1, 9)}
		if w.uniq && (id > 3 || rng.Bool()) {
			specs[id].name = 0
		} else if w.uniq {
			specs[id].name = id
		}
	}
	var sharing []int
	allByID := rng.Bool() // with no reference by name every value filter of a Load carries an id
	for _, id := range perm()[:k] {
		e := envEnt{key: 1, byID: allByID || rng.Chance(2, 3), ref: shared.id}
		if !e.byID {
			e.ref = shared.name
		}
		specs[id].env = append(specs[id].env, e)
		sharing = append(sharing, id)
	}
	sort.Ints(sharing)
	var own []valDoc
	for j, id := range perm()[:m] {
		v := valDoc{id: bigValBase + 1 + j, ns: 1, name: 0, ver: rng.Range(1, 9)}
		if v.id == shared.id {
			v.id = bigValBase
		}
		own = append(own, v)
		specs[id].env = append(specs[id].env, envEnt{key: 2, byID: true, ref: v.id})
	}
	for _, id := range perm()[:rng.Intn(4)] { // a few specs of another namespace, with nothing to bind
		if len(specs[id].env) == 0 {
			specs[id].ns = 2
		}
	}
	valuesFirst := rng.Bool()
	putValues := func() {
		w.insVal(shared)
		for _, v := range own {
			w.insVal(v)
		}
	}
	if valuesFirst {
		putValues()
	}
	for id := 1; id <= n; id++ {
		w.insSpec(*specs[id])
	}
	if !valuesFirst {
		putValues()
	}
	subset := func() []int { // an id-filter over at least 17 of the specs bound to the shared value
		p := append([]int{}, sharing...)
		for i := len(p) - 1; i > 0; i-- {
			j := rng.Intn(i + 1)
			p[i], p[j] = p[j], p[i]
		}
		p = p[:rng.Range(17, len(p))]
		sort.Ints(p)
		return p
	}
	var s *session
	observe := func(what string) bool {
		if !watch {
			if rng.Bool() {
				w.load(subset())
			}
			w.load(nil)
			return true
		}
		got, ok := w.quiesce(10 * time.Second)
		w.op("drain", "T "+got)
		w.takeNotes()
		if !ok {
			w.fail("not-converged", fmt.Sprintf("large namespace (%d specs, %d bound to one value, %d values): 10 s after %s the table differs from what the stores demand in %s", n, k, m+1, what, diffTables(w.table(), w.target())))
		}
		return ok
	}
	if watch {
		s = w.startSessionPlain()
	} else {
		w.load(nil)
		w.load(nil)
	}
	ok := true
	steps := []func() string{
		func() string { shared.ver = shared.ver%9 + 1; w.updVal(shared); return "an update of the shared value" },
		func() string { w.delVal(shared.id); return "the deletion of the shared value" },
		func() string { shared.ver = shared.ver%9 + 1; w.insVal(shared); return "the re-insertion of the shared value" },
		func() string {
			for i := 0; i < 3; i++ {
				v := &own[rng.Intn(len(own))]
				v.ver = v.ver%9 + 1
				w.updVal(*v)
			}
			return "updates of three values"
		},
		func() string {
			for i := 0; i < 2; i++ {
				w.delSpec(1 + rng.Intn(n))
				d := w.specs[1+rng.Intn(n)]
				if d.id != 0 {
					d.ver = d.ver%9 + 1
					w.updSpec(d)
				}
			}
			return "two spec deletions and updates"
		},
		func() string { shared.ver = shared.ver%9 + 1; w.updVal(shared); return "another update of the shared value" },
	}
	for _, st := range steps {
		if !ok {
			break
		}
		ok = observe(st())
	}
	if watch {
		s.cancel()
		w.awaitReconcile(s, "its context was cancelled")
		if ok {
			w.load(subset())
			w.load(nil)
		}
	}
	c.Hit(fmt.Sprintf("size-case-watch-%v", watch))
	if allByID {
		c.Hit("size-case-all-references-by-id")
	}
	if n >= 40 {
		c.Hit("size-case-40-or-more-specs")
	}
	return fmt.Sprintf("z:%v:%s", watch, strings.Join(w.trace, ";"))
}

// diffTables names the symbols in which two tables differ (large tables are unreadable in full).
func diffTables(got, want map[int]symObs) string {
	var ps []string
	for id := 0; id < 128; id++ {
		g, okG := got[id]
		t, okT := want[id]
		switch {
		case okG && !okT:
			ps = append(ps, fmt.Sprintf("symbol %d [%s] has no spec", id, g))
		case !okG && okT:
			ps = append(ps, fmt.Sprintf("spec %d has no symbol (due [%s])", id, t))
		case okG && g.String() != t.String():
			ps = append(ps, fmt.Sprintf("symbol %d is [%s], due [%s]", id, g, t))
		}
	}
	if len(ps) > 6 {
		ps = append(ps[:6], fmt.Sprintf("… %d more", len(ps)-6))
	}
	return strings.Join(ps, "; ")
}

// ---------------------------------------------------------------- indexed stores: references by id and by name in one Load

// mixedRefCase (directed): both stores carry the application's partial unique index on
// (namespace, name); an UNNAMED value is referenced by id and a named value by name in the same
// Load – by two env entries of one spec (twoSpecs = false) or by two specs – in a Load session
// (every Load observed in full) or a Watch+Reconcile session (values arrive after the specs; the
// table is compared at quiescence).
func mixedRefCase(c *lib.Ctx, rng *lib.RNG, sc *lib.Script, fails *[]lib.OracleFail, twoSpecs, watch bool) string {
	w := newWorld(c, sc, fails, 1)
	defer w.close()
	w.withUniqueNames()
	w.op("rt 1", "ok")
	w.remark("both stores carry the application's partial unique index on (namespace, name)")
	va := valDoc{id: valBase + rng.Intn(nValIDs), ns: 1, name: 0, ver: rng.Range(1, 9)}
	vb := valDoc{id: valBase + (va.id-valBase+1+rng.Intn(nValIDs-1))%nValIDs, ns: 1, name: rng.Range(1, 4), ver: rng.Range(1, 9)}
	sid := 1 + rng.Intn(nSpecIDs)
	x := specDoc{id: sid, ns: 1, name: rng.Intn(4), kind: rng.Intn(3), ver: 1, env: []envEnt{{key: 1, byID: true, ref: va.id}}}
	y := specDoc{id: sid%nSpecIDs + 1, ns: 1, name: 0, kind: rng.Intn(3), ver: 1}
	if twoSpecs {
		y.env = []envEnt{{key: 1, ref: vb.name}}
	} else {
		x.env = append(x.env, envEnt{key: 2, ref: vb.name})
	}
	if !watch {
		w.insVal(va)
		w.insVal(vb)
		w.insSpec(x)
		w.insSpec(y)
		w.load(nil)
		w.load(nil)
		va.ver = va.ver%9 + 1
		w.updVal(va)
		w.load(nil)
		w.load([]int{x.id, y.id})
		c.Hit("mixed-refs-load-session")
		return "m:" + strings.Join(w.trace, ";")
	}
	w.insSpec(x)
	w.insSpec(y)
	s := w.startSessionPlain()
	steps := []func(){
		func() { w.insVal(va); w.insVal(vb) },
		func() { va.ver = va.ver%9 + 1; w.updVal(va) },
		func() { vb.ver = vb.ver%9 + 1; w.updVal(vb) },
	}
	for _, st := range steps {
		st()
		got, ok := w.quiesce(3 * time.Second)
		w.op("drain", "T "+got)
		w.takeNotes()
		if !ok {
			w.fail("not-converged", fmt.Sprintf("indexed stores, an unnamed value referenced by id next to a named value referenced by name: 3 s after the last change the table is [%s], the stores demand [%s]", got, tableString(w.target())))
			break
		}
	}
	s.cancel()
	w.awaitReconcile(s, "its context was cancelled")
	c.Hit("mixed-refs-watch-session")
	return "m:" + strings.Join(w.trace, ";")
}

// ---------------------------------------------------------------- corpus

// replayCorpus runs hand-written op files: every line is executed on the implementation and
// handed to the model.
func replayCorpus(c *lib.Ctx, sc *lib.Script, fails *[]lib.OracleFail) {
	for _, f := range c.CorpusFiles() {
		lines := lib.ReadLines(f)
		sc.Begin()
		var w *world
		for _, ln := range lines {
			t := strings.Fields(ln)
			if len(t) == 0 {
				continue
			}
			if t[0] == "rt" {
				n, _ := strconv.Atoi(t[1])
				w = newWorld(c, sc, fails, n)
				w.op(ln, "ok")
				continue
			}
			if w == nil {
				continue
			}
			atoi := func(i int) int {
				if i >= len(t) || t[i] == "-" {
					return 0
				}
				n, _ := strconv.Atoi(t[i])
				return n
			}
			switch t[0] {
			case "is", "us":
				d := specDoc{id: atoi(1), ns: atoi(2), name: atoi(3), kind: atoi(4), ver: atoi(5)}
				for k := 0; k < atoi(6); k++ {
					d.env = append(d.env, envEnt{key: atoi(7 + 3*k), byID: t[8+3*k] == "i", ref: atoi(9 + 3*k)})
				}
				if t[0] == "is" {
					w.insSpec(d)
				} else {
					w.updSpec(d)
				}
			case "ds":
				w.delSpec(atoi(1))
			case "iv":
				w.insVal(valDoc{atoi(1), atoi(2), atoi(3), atoi(4)})
			case "uv":
				w.updVal(valDoc{atoi(1), atoi(2), atoi(3), atoi(4)})
			case "dv":
				w.delVal(atoi(1))
			case "load":
				if t[1] == "all" {
					w.load(nil)
				} else {
					var ids []int
					for k := 0; k < atoi(2); k++ {
						ids = append(ids, atoi(3+k))
					}
					w.load(ids)
				}
			}
		}
		if w != nil {
			w.close()
		}
		c.Count("corpus:" + f)
		c.Hit("corpus-file")
	}
}

func Run(c *lib.Ctx) {
	c.Rule = "random histories (≤30 ops quick / ≤70 thorough) of insert (single documents and batches of 2–4 with a later document refused: id stored, id repeated in the batch, no id; in a directed family also a taken (namespace,name) under the unique index) / update / delete / Update with Upsert or $unset (documents addressed by id, id+namespace, name, namespace+name; namespace in the filter or only in $set; on existing and on absent documents) on the spec store (6 ids, kinds k0 k1 registered, k2 k3 unknown, 0–2 env entries by id or by name) and the value store (6 ids, 4 names) over 2–3 namespaces with Load(nil) / Load({id}) / Load({$or}) at random points, every Load observed (whole table + notifications) and compared with Uniflow.Runtime.step and with the harness's own target; plus Watch+Reconcile runs (bursts of 1–4 mutations) compared at quiescence – one to three watch sessions on the SAME runtime (a session ends by cancelling its context, sometimes followed by Runtime.Close or by another Reconcile call; the next starts with Watch – sometimes twice – and Load(nil); Watch may also be repeated in a live session) –, plus forced overlaps of a parked Load with the mutation and the other consumer (verif yield hook), plus a directed family (the same spec / the same bound value updated 2–3 times while the reconciler's Load for the first update is parked, with / without an unrelated event afterwards) and the same as a random ingredient of the Watch+Reconcile histories (1 round in 4), plus a second directed family (a spec that a parked Load – the reload for its value's update, or a user's Load(nil) – has read is deleted / deleted and re-inserted here or in another namespace / loses its value, the reconciler gets a moment, the Load is released) and its random ingredient (1 round in 4); plus a size family (about 1 history in 10: 17–60 specs in the namespace, one value shared by 17–40 of them by id or by name, 17–40 values referenced by one spec each; the shared value updated / deleted / re-inserted, values and specs changed, in Load sessions with Load(nil) and id-filters over ≥17 specs and in Watch+Reconcile sessions); one history in three (of every kind, the size family included) runs on stores carrying the application's partial unique index on (namespace, name) – unnamed documents have no name key, a taken name refuses an insert (told to the model as accepted = 0), the harness never renames onto a taken name –, plus a directed family mixing an unnamed value referenced by id with a named value referenced by name in one Load; non-trivial = at least two Loads and a non-empty spec store, distinct by full trace"
	c.Assumptions = []string{
		"each store mutation, each Load and each consumption of one stream event is one atomic step of the model (store mutex; loadMu of the fixed runtime)",
		"a spec and a value keep their namespace for life (a move is delete + insert); env entries reference a value by id or by name (anonymous entries and Config.Environment are C18's subject and are not generated)",
		"specs have no ports, so a symbol is activated iff it has a node (bound and of a registered kind); the symbol table's own behaviour is C06–C08's subject",
		"a spec whose Bind fails may be left partially rewritten by Go (map order); it is observed only as `unbound`",
		"the theorems C09.converges* take the two store streams as reliable FIFO queues (C13's events_exact); the directed repeat family and C09.lossy_queue_breaks_convergence show what happens otherwise",
		"C09.converges_concurrent has at most one Load or event handling in flight (loadMu around every event kind's handling); the delete-during-load family and C09.unlocked_delete_breaks_convergence show what happens otherwise",
		"between two watch sessions of a runtime nobody is told about store changes (the streams are closed): only the next session's Load(nil) is required to repair the table; Runtime.Close is called only after Reconcile has returned (Close does not wait for a Load in flight – see the report; outside the property's statement)",
		"Watch+Reconcile runs are compared at quiescence only: the harness waits (≤10 s) until the table equals the target computed from its mirror of the stores",
	}
	c.Trusted = []string{"the harness's mirror of the two stores (checked against every mutation's outcome)", "pkg/runtime/verif_on.go (read-only table accessor)"}
	rng := lib.NewRNG(c.Seed)
	sc := &lib.Script{}
	var fails []lib.OracleFail
	runtime.VerifLoadYield = yield
	// directed family first: repeated identical events while the reconciler is inside a Load
	for rep := c.Scale(2, 10); rep > 0; rep-- {
		for _, onValue := range []bool{false, true} {
			for _, updates := range []int{2, 3} {
				for _, trailing := range []bool{false, true} {
					sc.Begin()
					c.Count(repeatCase(c, rng.Fork(), sc, &fails, onValue, updates, trailing))
				}
			}
		}
	}
	// directed family: a spec (or its value) deleted while a Load that has read it is parked
	for rep := c.Scale(2, 10); rep > 0; rep-- {
		for _, byUser := range []bool{false, true} {
			for action := 0; action < 4; action++ {
				sc.Begin()
				c.Count(deleteCase(c, rng.Fork(), sc, &fails, byUser, action))
			}
		}
	}
	// directed family: documents created (and then updated) through Update(Upsert)
	for rep := c.Scale(1, 5); rep > 0; rep-- {
		for _, onValue := range []bool{false, true} {
			for _, sh := range []upShape{
				{upsert: true},                                 // filter {id}; namespace only in $set
				{nsInFilter: true, upsert: true},               // filter {id, namespace}
				{nsInFilter: true, nsInSet: true, upsert: true}, // namespace in both
				{byName: true, upsert: true},                   // filter {name}; id and namespace only in $set
				{byName: true, nsInFilter: true, upsert: true}, // filter {namespace, name}; id in $set
			} {
				sc.Begin()
				c.Count(upsertCase(c, rng.Fork(), sc, &fails, onValue, sh))
			}
		}
	}
	// directed family: ONE Insert of several documents, a later one refused (stores with the unique name index)
	for rep := c.Scale(1, 5); rep > 0; rep-- {
		for _, onValue := range []bool{false, true} {
			for reason := 0; reason < 5; reason++ {
				sc.Begin()
				c.Count(batchCase(c, rng.Fork(), sc, &fails, onValue, reason))
			}
		}
	}
	// directed family: indexed stores, an unnamed value by id next to a named value by name in one Load
	for rep := c.Scale(2, 10); rep > 0; rep-- {
		for _, twoSpecs := range []bool{false, true} {
			for _, watch := range []bool{false, true} {
				sc.Begin()
				c.Count(mixedRefCase(c, rng.Fork(), sc, &fails, twoSpecs, watch))
			}
		}
	}
	// size family (first part): large namespaces, one Load session and one Watch+Reconcile session up front
	for _, watch := range []bool{false, true} {
		sc.Begin()
		c.Count(sizeCase(c, rng.Fork(), sc, &fails, watch))
	}
	replayCorpus(c, sc, &fails)
	n := c.Scale(400, 4000)
	for i := 0; i < n; i++ {
		sc.Begin()
		c.Count(seqCase(c, rng.Fork(), sc, &fails))
	}
	nw := c.Scale(60, 600)
	for i := 0; i < nw && len(fails) < 8; i++ { // every failing case waits out its patience: enough is enough
		sc.Begin()
		c.Count(watchCase(c, rng.Fork(), sc, &fails))
	}
	// size family: about one Load-session history in ten and one Watch+Reconcile history in ten is a large namespace
	for i, nz := 0, c.Scale(40, 600); i < nz && len(fails) < 8; i++ {
		sc.Begin()
		c.Count(sizeCase(c, rng.Fork(), sc, &fails, false))
	}
	for i, nz := 0, c.Scale(6, 90); i < nz && len(fails) < 8; i++ {
		sc.Begin()
		c.Count(sizeCase(c, rng.Fork(), sc, &fails, true))
	}
	nr := c.Scale(10, 60)
	for i := 0; i < nr; i++ {
		sc.Begin()
		c.Count(raceCase(c, rng.Fork(), sc, &fails, i%2))
	}
	var ms []lib.Mismatch
	if c.Proof.DriverBuilt {
		var err error
		ms, err = c.RunModel("c09", sc)
		if err != nil {
			c.Violation("model driver failed: "+err.Error(), "", false)
		}
	}
	c.Conclude("runtime.Load/Watch/Reconcile ≈ Uniflow.Runtime.step", ms, fails)
}
