// Package c20: shared engine objects are safe under concurrent use — the implementation half.
//
// The proof half is lean/Uniflow/Props/C20.lean: the lock discipline decided over the fact table
// that /verif/extract regenerates from the repository's source on every run. There is no
// model-driver correspondence here: the tie between the Lean table and the code *is* the
// regeneration. What this package adds is the observation of the three conjuncts on the real
// code: it runs .build/c20stress (built with `-race -tags verif`) as a subprocess – one
// contention workload per shared object, GOMAXPROCS and seed – and turns race-detector reports,
// recovered panics and operations that never return into property-oracle failures.
package c20

import (
	"bytes"
	"context"
	"fmt"
	"os"
	"os/exec"
	"path/filepath"
	"regexp"
	"sort"
	"strconv"
	"strings"
	"time"

	"verifharness/lib"
)

const modPrefix = "github.com/siyul-park/uniflow/"

type runResult struct {
	object   string
	procs    int
	seed     int64
	cmdline  string
	ops      int
	secs     float64
	findings []finding
	stderr   string
	err      string // the subprocess itself failed (could not start, killed, unknown exit)
}

type finding struct {
	kind   string // race | panic | deadlock
	object string
	class  string
	detail string
	body   string // race report / goroutine dump
}

var (
	closureRe = regexp.MustCompile(`\.func\d+|\.gowrap\d+|-range\d+|-fm|\.\d+`)
	genericRe = regexp.MustCompile(`\[[^\]]*\]`)
)

// normFunc turns a symbol of a stack trace into a stable name: no module prefix, no argument
// list, no generic instantiation, no closure numbering.
func normFunc(f string) string {
	f = strings.TrimSpace(f)
	if i := strings.LastIndex(f, "("); i > 0 && strings.HasSuffix(f, ")") {
		// drop the argument list "(...)" – but not a receiver "(*T)"
		if j := strings.LastIndex(f, ")."); j < i {
			f = f[:i]
		}
	}
	f = strings.TrimPrefix(f, modPrefix)
	f = strings.TrimPrefix(f, "pkg/")
	f = genericRe.ReplaceAllString(f, "")
	f = closureRe.ReplaceAllString(f, "")
	// a closure inlined into another method is named outer.(*T).inner: keep pkg + the last method
	if i := strings.LastIndex(f, ".("); i > 0 && strings.Count(f, "(") > 1 {
		if j := strings.Index(f, "."); j > 0 && j < i {
			f = f[:j] + f[i:]
		}
	}
	return f
}

// topUniflow returns the innermost uniflow frame of one stack section of a race report
// ("caller" when the access is in the code using the engine, e.g. a watcher reading a Frame).
func topUniflow(section string) string {
	for _, ln := range strings.Split(section, "\n") {
		if strings.HasPrefix(ln, "  ") && !strings.HasPrefix(ln, "      ") {
			f := strings.TrimSpace(ln)
			if strings.HasPrefix(f, modPrefix) {
				return normFunc(f)
			}
		}
	}
	return "caller"
}

// parseRaces extracts the `WARNING: DATA RACE` blocks of the race runtime's output.
func parseRaces(object, stderr string) []finding {
	var out []finding
	for _, blk := range strings.Split(stderr, "==================") {
		i := strings.Index(blk, "WARNING: DATA RACE")
		if i < 0 {
			continue
		}
		blk = strings.TrimSpace(blk[i:])
		secs := strings.Split(strings.TrimPrefix(blk, "WARNING: DATA RACE\n"), "\n\n")
		var tops []string
		for _, s := range secs {
			h := strings.SplitN(s, "\n", 2)[0]
			if strings.Contains(h, " by goroutine ") || strings.Contains(h, " by main goroutine") {
				tops = append(tops, topUniflow(s))
			}
			if len(tops) == 2 {
				break
			}
		}
		for len(tops) < 2 {
			tops = append(tops, "unknown")
		}
		sort.Strings(tops)
		out = append(out, finding{kind: "race", object: object, class: "race:" + object + ":" + tops[0] + "~" + tops[1],
			detail: tops[0] + " ~ " + tops[1], body: blk})
	}
	return out
}

var findingRe = regexp.MustCompile(`^FINDING kind=(\S+) object=(\S+) detail=(.*)$`)
var runRe = regexp.MustCompile(`^RUN object=(\S+) procs=(\d+) seed=(-?\d+) ops=(\d+) secs=([0-9.]+)`)

func parseStdout(r *runResult, stdout, stderr string) {
	dump := ""
	if i := strings.Index(stderr, "### GOROUTINE DUMP BEGIN"); i >= 0 {
		dump = stderr[i:]
		if j := strings.Index(dump, "### GOROUTINE DUMP END"); j >= 0 {
			dump = dump[:j]
		}
	}
	for _, ln := range strings.Split(stdout, "\n") {
		if m := findingRe.FindStringSubmatch(ln); m != nil {
			f := finding{kind: m[1], object: m[2], detail: m[3]}
			switch f.kind {
			case "panic":
				site := "unknown"
				if i := strings.Index(f.detail, " | "); i >= 0 {
					site = normFunc(strings.TrimSpace(strings.SplitN(f.detail[i+3:], " < ", 2)[0]))
				}
				f.class = "panic:" + f.object + ":" + site
			case "deadlock":
				f.class = "deadlock:" + f.object
				f.body = dump
			default:
				f.class = f.kind + ":" + f.object
			}
			r.findings = append(r.findings, f)
		} else if m := runRe.FindStringSubmatch(ln); m != nil {
			r.ops, _ = strconv.Atoi(m[4])
			r.secs, _ = strconv.ParseFloat(m[5], 64)
		}
	}
}

func runStress(bin, object string, procs int, seed int64, dur, bound float64) *runResult {
	args := []string{"-seed", strconv.FormatInt(seed, 10), "-dur", fmt.Sprintf("%g", dur), "-procs", strconv.Itoa(procs),
		"-bound", fmt.Sprintf("%g", bound), "-only", object}
	r := &runResult{object: object, procs: procs, seed: seed,
		cmdline: `GORACE="halt_on_error=0" ` + bin + " " + strings.Join(args, " ")}
	ctx, cancel := context.WithTimeout(context.Background(), time.Duration((dur+2*bound+30)*float64(time.Second)))
	defer cancel()
	cmd := exec.CommandContext(ctx, bin, args...)
	cmd.Env = append(os.Environ(), "GORACE=halt_on_error=0 exitcode=0 atexit_sleep_ms=0")
	var so, se bytes.Buffer
	cmd.Stdout, cmd.Stderr = &so, &se
	err := cmd.Run()
	r.stderr = se.String()
	parseStdout(r, so.String(), r.stderr)
	r.findings = append(r.findings, parseRaces(object, r.stderr)...)
	if ctx.Err() != nil {
		r.findings = append(r.findings, finding{kind: "deadlock", object: object, class: "deadlock:" + object,
			detail: "the stress process did not end and was killed", body: tail(r.stderr, 4000)})
	} else if err != nil {
		code := -1
		if ee, ok := err.(*exec.ExitError); ok {
			code = ee.ExitCode()
		}
		// 1: findings were printed; 3: ended by the watchdog after a deadlock finding
		if !(code == 1 || code == 3) || len(r.findings) == 0 {
			// e.g. "fatal error: concurrent map writes" / "all goroutines are asleep" end the
			// process without a recover: that is a panic/deadlock of the object under test
			kind, what := "panic", "fatal error"
			if strings.Contains(r.stderr, "all goroutines are asleep") {
				kind, what = "deadlock", "all goroutines asleep"
			}
			if strings.Contains(r.stderr, "fatal error:") || strings.Contains(r.stderr, "panic:") {
				site := "unknown"
				for _, ln := range strings.Split(r.stderr, "\n") {
					if strings.HasPrefix(ln, modPrefix) {
						site = normFunc(ln)
						break
					}
				}
				cl := kind + ":" + object
				if kind == "panic" {
					cl += ":" + site
				}
				r.findings = append(r.findings, finding{kind: kind, object: object, class: cl,
					detail: what + " ended the stress process: " + firstLineWith(r.stderr, "fatal error:", "panic:"), body: tail(r.stderr, 6000)})
			} else {
				r.err = fmt.Sprintf("stress process failed: %v (exit %d): %s", err, code, tail(r.stderr, 500))
			}
		}
	}
	return r
}

func firstLineWith(s string, subs ...string) string {
	for _, ln := range strings.Split(s, "\n") {
		for _, sub := range subs {
			if strings.Contains(ln, sub) {
				return strings.TrimSpace(ln)
			}
		}
	}
	return ""
}

func tail(s string, n int) string {
	if len(s) > n {
		return "…" + s[len(s)-n:]
	}
	return s
}

// tableStats reads the size of the regenerated lock-fact table: from the extractor's summary
// line and, for what it does not print, by counting rows of the generated Lean file.
func tableStats(c *lib.Ctx) map[string]int {
	st := map[string]int{}
	if b, err := os.ReadFile(filepath.Join(c.VerifDir, ".build/extract.log")); err == nil {
		re := regexp.MustCompile(`(\d+) (types|methods|access facts|acquisitions|calls under lock|fields)`)
		for _, ln := range strings.Split(string(b), "\n") {
			if strings.HasPrefix(ln, "Locks.lean:") {
				for _, m := range re.FindAllStringSubmatch(ln, -1) {
					n, _ := strconv.Atoi(m[1])
					st[strings.ReplaceAll(m[2], " ", "_")] = n
				}
			}
		}
	}
	if b, err := os.ReadFile(filepath.Join(c.VerifDir, "lean/Uniflow/Generated/Locks.lean")); err == nil {
		section := ""
		count := map[string]int{}
		for _, ln := range strings.Split(string(b), "\n") {
			if strings.HasPrefix(ln, "def ") {
				f := strings.Fields(ln)
				section = f[1]
				if strings.HasPrefix(section, "accesses_") {
					section = "accesses"
				}
				continue
			}
			if strings.HasPrefix(ln, "  ⟨") || strings.HasPrefix(ln, "  (") {
				count[section]++
			}
		}
		for lean, key := range map[string]string{"fields": "fields", "accesses": "access_facts", "calls": "calls_under_lock", "acquires": "acquisitions", "heldOnEntry": "helpers_with_entry_locks",
			"sliceSnapshots": "slice_snapshots", "sliceInPlaceWrites": "in_place_slice_writes", "publishedElems": "published_element_types",
			"elemWrites": "writes_through_elements", "syncOps": "sync_object_operations", "methodTable": "methods_in_table"} {
			if _, ok := st[key]; !ok {
				st[key] = count[lean]
			}
		}
	}
	return st
}

func Run(c *lib.Ctx) {
	c.Level = "other"
	bin := filepath.Join(c.VerifDir, ".build/c20stress")
	var fails []lib.OracleFail

	// the table the theorems were checked against must be the one of the current source
	if st, _ := os.ReadFile(filepath.Join(c.VerifDir, ".build/extract.status")); strings.TrimSpace(string(st)) != "0" {
		lg, _ := os.ReadFile(filepath.Join(c.VerifDir, ".build/extract.log"))
		c.Violation("the lock-fact extractor failed on the repository's current source: Generated/Locks.lean is stale, the C20 theorems do not speak about this tree",
			tail(string(lg), 3000), false)
	}
	if st, _ := os.ReadFile(filepath.Join(c.VerifDir, ".build/c20stress.status")); strings.TrimSpace(string(st)) != "0" {
		lg, _ := os.ReadFile(filepath.Join(c.VerifDir, ".build/c20stress.log"))
		c.Violation("the race-detector stress program (harness/c20stress) does not build against the repository's working tree",
			tail(string(lg), 3000), false)
		c.Conclude("lock-fact table ≈ source (extractor)", nil, nil)
		return
	}
	stats := tableStats(c)

	out, err := exec.Command(bin, "-list").Output()
	if err != nil {
		c.Violation("cannot run .build/c20stress -list: "+err.Error(), "", false)
		return
	}
	objects := strings.Fields(string(out))

	// plan: quick ≈ 11 objects × GOMAXPROCS {4,16} × 1 seed × ~1 s; thorough ≈ 3 seeds × {2,4,16} × ~4.5 s
	procsList := []int{4, 16}
	seeds := []int64{c.Seed}
	dur, bound := 1.0, 20.0
	if c.Thorough() {
		procsList = []int{2, 4, 16}
		seeds = []int64{c.Seed, c.Seed + 1000, c.Seed + 2000}
		dur = 4.5
	}
	if v := os.Getenv("VERIF_C20_DUR"); v != "" { // for experiments
		if f, err := strconv.ParseFloat(v, 64); err == nil {
			dur = f
		}
	}

	type agg struct {
		f     finding
		r     *runResult
		count int
	}
	byClass := map[string]*agg{}
	var order []string
	totalOps, runs, reports := 0, 0, 0
	for _, seed := range seeds {
		for _, procs := range procsList {
			for _, obj := range objects {
				r := runStress(bin, obj, procs, seed, dur, bound)
				runs++
				totalOps += r.ops
				c.Count(fmt.Sprintf("%s/procs=%d/seed=%d/ops=%d", obj, procs, seed, r.ops))
				c.Hist["ops:"+obj] += r.ops
				c.Hit(fmt.Sprintf("runs:GOMAXPROCS=%d", procs))
				if r.ops == 0 && r.err == "" && len(r.findings) == 0 {
					r.err = "the workload completed no operation"
				}
				if r.err != "" {
					c.Violation("C20 stress run could not be evaluated ("+obj+"): "+r.err, r.cmdline+"\n"+tail(r.stderr, 3000), false)
					continue
				}
				c.Sample(fmt.Sprintf("%s GOMAXPROCS=%d seed=%d: %d operations in %.1fs, %d findings", obj, procs, seed, r.ops, r.secs, len(r.findings)))
				for _, f := range r.findings {
					reports++
					c.Hit("finding:" + f.kind)
					a := byClass[f.class]
					if a == nil {
						a = &agg{f: f, r: r}
						byClass[f.class] = a
						order = append(order, f.class)
					}
					a.count++
				}
			}
		}
	}
	sort.Strings(order)
	for _, cl := range order {
		a := byClass[cl]
		what := fmt.Sprintf("%s on the shared %s: %s (%d reports in this run)", a.f.kind, a.f.object, a.f.detail, a.count)
		replay := "# reproduce (race reports go to stderr):\n" + a.r.cmdline + "\n# FINDING kind=" + a.f.kind + " object=" + a.f.object + " class=" + cl + "\n# " + a.f.detail + "\n" + a.f.body
		fails = append(fails, lib.OracleFail{Class: cl, What: what, Replay: replay})
	}

	if len(fails) == 0 {
		methodCoverage(c)
	} else {
		c.Extra["method_coverage"] = "not measured: the stress runs reported findings"
	}

	c.Rule = "one evaluation = one contention workload (many goroutines, random mix of the public operations, documented usage only) on ONE shared instance of an object, " +
		"for one GOMAXPROCS and one seed, under the Go race detector with panics recovered and a 20 s watchdog per operation; the key is (object, GOMAXPROCS, seed, operations completed)"
	c.Extra["lock_table"] = stats
	c.Extra["stress"] = map[string]any{"runs": runs, "operations": totalOps, "objects": objects, "gomaxprocs": procsList, "seeds": seeds,
		"seconds_per_run": dur, "reports": reports, "distinct_classes": len(order)}
	var ths []string
	ok := 0
	for _, t := range c.Proof.Theorems {
		ths = append(ths, t.Name+" : "+strings.Join(t.Axioms, ","))
		if t.OK && c.Proof.PropsBuilt {
			ok++
		}
	}
	c.Extra["theorems"] = ths
	c.Extra["obligations"] = len(c.Proof.Theorems)
	c.Extra["discharged"] = ok
	c.Extra["checker_cmd"] = c.Proof.CheckerCmd
	c.Extra["explanation"] = fmt.Sprintf("level other: data-race freedom in the Go memory model is not expressible in the Lean model; what is machine-checked is the lock *discipline* – "+
		"%d theorems of lean/Uniflow/Props/C20.lean: a generic lock-set soundness theorem over a trace semantics of mutexes, and decide-theorems over the lock-fact table "+
		"regenerated by /verif/extract from the current source on this run (%d types, %d methods, %d field-access facts, %d acquisitions, %d calls under lock). "+
		"The tie between table and code is the regeneration itself (the extractor is trusted). The three conjuncts are additionally observed on the real code: "+
		"%d race-detector workload runs, %d operations, %d reports in %d classes.",
		len(c.Proof.Theorems), stats["types"], stats["methods"], stats["access_facts"], stats["acquisitions"], stats["calls_under_lock"], runs, totalOps, reports, len(order))
	c.Assumptions = []string{
		"the race detector observes only the interleavings that actually ran; absence of a report is evidence, not proof",
		"the lock-fact extractor (go/packages walk, intra-procedural lock state, helper entry locks as a fixpoint) reports every field access and acquisition of the 19 modelled types; it does not follow slices/maps that escape a critical section by aliasing (e.g. a hook slice copied under the lock and iterated outside it)",
		"documented usage only: single-consumer cursors (Stream.Next/Decode, Cursor) are used by one goroutine at a time; hooks that run under an object's lock do not call back into that object; codec compilers may re-enter their assembler; Join may run while other goroutines fork",
		"missing answers to packets (counted as 'unanswered' by the stress program) are the business of C01–C03, not of C20",
	}
	c.Trusted = []string{"/verif/extract (lock-fact extractor)", "Go race detector (ThreadSanitizer runtime)", "harness/c20stress workloads"}
	c.Conclude("lock-fact table ≈ source (extractor)", nil, fails)
}
