package c20

import (
	"fmt"
	"os"
	"os/exec"
	"path/filepath"
	"regexp"
	"sort"
	"strconv"
	"strings"

	"verifharness/lib"
)

// Method coverage of the stress workloads. The extractor emits the method table of the modelled
// types (Generated/Locks.lean, `methodTable`); .build/c20stress-cover is the stress program built
// with statement coverage of the anchored packages (and without the race runtime, which coverage
// counters would disturb: atomic counters order goroutines). One short run of every workload, then
// `go tool covdata func`: an exported method of a modelled type that no workload reaches is
// either listed below with the reason, or the check reports that the observation half has
// nothing to say about it.

type methodRow struct {
	typ, name string
	exported  bool
	file      string
	line      int
}

// notExercised: exported methods of the modelled types that no workload calls, with the reason.
var notExercised = map[string]string{
	"store.segment.Load": "dead code: no caller anywhere in pkg/store; segment is unexported and only reachable through store.Store, which never loads by id",
}

var methodRowRe = regexp.MustCompile(`^\s*\("([^"]+)", "([^"]+)", (true|false), "([^"]+)", (\d+)\)`)

func methodTable(c *lib.Ctx) []methodRow {
	b, err := os.ReadFile(filepath.Join(c.VerifDir, "lean/Uniflow/Generated/Locks.lean"))
	if err != nil {
		return nil
	}
	var rows []methodRow
	in := false
	for _, ln := range strings.Split(string(b), "\n") {
		if strings.HasPrefix(ln, "def methodTable") {
			in = true
			continue
		}
		if in {
			if strings.HasPrefix(ln, "]") {
				break
			}
			if m := methodRowRe.FindStringSubmatch(ln); m != nil {
				n, _ := strconv.Atoi(m[5])
				rows = append(rows, methodRow{m[1], m[2], m[3] == "true", m[4], n})
			}
		}
	}
	return rows
}

var covLineRe = regexp.MustCompile(`^github\.com/siyul-park/uniflow/(\S+\.go):(\d+):\s+(\S.*?)\s+([0-9.]+)%\s*$`)

// coverageRun runs every workload of the coverage build once and returns file:line → percentage
// of the statements of the function declared there that were executed.
func coverageRun(c *lib.Ctx, seed int64, dur float64, into map[string]float64) error {
	bin := filepath.Join(c.VerifDir, ".build/c20stress-cover")
	dir, err := os.MkdirTemp(filepath.Join(c.VerifDir, ".build"), "c20cov-")
	if err != nil {
		return err
	}
	defer os.RemoveAll(dir)
	cmd := exec.Command(bin, "-seed", strconv.FormatInt(seed, 10), "-dur", fmt.Sprintf("%g", dur), "-procs", "4", "-bound", "20")
	cmd.Env = append(os.Environ(), "GOCOVERDIR="+dir)
	out, err := cmd.CombinedOutput()
	if err != nil {
		if ee, ok := err.(*exec.ExitError); !ok || ee.ExitCode() != 1 { // 1 = findings printed; the race runs are the authority on those
			return fmt.Errorf("coverage run failed: %v: %s", err, tail(string(out), 400))
		}
	}
	fn, err := exec.Command("go", "tool", "covdata", "func", "-i", dir).CombinedOutput()
	if err != nil {
		return fmt.Errorf("go tool covdata func: %v: %s", err, tail(string(fn), 400))
	}
	n := 0
	for _, ln := range strings.Split(string(fn), "\n") {
		if m := covLineRe.FindStringSubmatch(ln); m != nil {
			pct, _ := strconv.ParseFloat(m[4], 64)
			k := m[1] + ":" + m[2]
			if pct > into[k] {
				into[k] = pct
			}
			if _, ok := into[k]; !ok {
				into[k] = pct
			}
			n++
		}
	}
	if n == 0 {
		return fmt.Errorf("go tool covdata func printed no function of the repository: %s", tail(string(fn), 300))
	}
	return nil
}

// methodCoverage fills the evidence and reports exported methods that no workload reaches.
func methodCoverage(c *lib.Ctx) {
	rows := methodTable(c)
	if len(rows) == 0 {
		c.Violation("the generated method table (Generated/Locks.lean, methodTable) is empty or unreadable: the method coverage of the stress workloads cannot be established", "", false)
		return
	}
	if st, _ := os.ReadFile(filepath.Join(c.VerifDir, ".build/c20stress-cover.status")); strings.TrimSpace(string(st)) != "0" {
		lg, _ := os.ReadFile(filepath.Join(c.VerifDir, ".build/c20stress-cover.log"))
		c.Violation("the coverage build of the stress program does not build", tail(string(lg), 2000), false)
		return
	}
	cov := map[string]float64{}
	dur := 0.35
	if c.Thorough() {
		dur = 1.0
	}
	if err := coverageRun(c, c.Seed, dur, cov); err != nil {
		c.Violation("method coverage of the stress workloads could not be measured: "+err.Error(), "", false)
		return
	}
	missing := func() []methodRow {
		var ms []methodRow
		for _, r := range rows {
			if !r.exported {
				continue
			}
			pct, ok := cov[r.file+":"+strconv.Itoa(r.line)]
			if (!ok || pct == 0) && notExercised[r.typ+"."+r.name] == "" {
				ms = append(ms, r)
			}
		}
		return ms
	}
	if ms := missing(); len(ms) > 0 {
		// operations are drawn at random: give rarely drawn ones a second, longer chance before complaining
		_ = coverageRun(c, c.Seed+7919, 1.5, cov)
	}
	exported, exercised, unexp, unexpEx := 0, 0, 0, 0
	perType := map[string][2]int{}
	listed := map[string]string{}
	var stale []string
	for _, r := range rows {
		pct, ok := cov[r.file+":"+strconv.Itoa(r.line)]
		hit := ok && pct > 0
		if !r.exported {
			unexp++
			if hit {
				unexpEx++
			}
			continue
		}
		exported++
		pt := perType[r.typ]
		pt[1]++
		if hit {
			exercised++
			pt[0]++
			if notExercised[r.typ+"."+r.name] != "" {
				stale = append(stale, r.typ+"."+r.name)
			}
		} else if why := notExercised[r.typ+"."+r.name]; why != "" {
			listed[r.typ+"."+r.name] = why
		}
		perType[r.typ] = pt
	}
	per := map[string]string{}
	for t, v := range perType {
		per[t] = fmt.Sprintf("%d/%d", v[0], v[1])
	}
	var unl []string
	for _, r := range missing() {
		unl = append(unl, r.typ+"."+r.name)
	}
	sort.Strings(unl)
	sort.Strings(stale)
	c.Extra["method_coverage"] = map[string]any{
		"exported_methods_of_modelled_types": exported,
		"exercised_by_a_workload":            exercised,
		"not_exercised_with_reason":          listed,
		"not_exercised_unlisted":             unl,
		"listed_but_exercised":               stale,
		"per_type":                           per,
		"unexported_methods":                 fmt.Sprintf("%d/%d reached", unexpEx, unexp),
		"how":                                "one run of every workload of .build/c20stress-cover (go build -cover -coverpkg=<anchored packages>), go tool covdata func, matched to the extractor's method table by file:line",
	}
	c.Extra["inspected_accessors"] = "every element of the results of Tracer.Receives/Reads/Writes/Links (shared tracer and the three node tracers, on packets other goroutines are pushing through them), " +
		"Agent.Frames (all fields of every frame)/Processes/Symbols, Table.Keys, OutPort.Links, Writer.Links, Process.Keys, Local.Keys, Map.Keys/Values/Pairs/Range is read after the call returned, while writers run"
	c.Hist["methods:exported"] = exported
	c.Hist["methods:exercised"] = exercised
	if len(unl) > 0 {
		c.Violation("exported methods of the shared objects that no stress workload calls (extend harness/c20stress or list them with a reason in harness/c20/coverage.go): "+strings.Join(unl, ", "),
			"# the stress workloads say nothing about these methods\n"+strings.Join(unl, "\n"), false)
	}
}
