// Package c15: maps are persistent dictionaries – correct lookups, snapshots never change.
//
// (a) correspondence: random histories of Set/Delete/Clear/Mutable/Immutable on real
//
//	types.Map objects (a small key set built to collide) against Uniflow.MapHeap driven by the
//	same lines; after every step the receiver, the result and every retained snapshot are
//	re-read in full (Range order dump, Len, sorted Keys) and probed with Get/Has.
//
// (b) property oracle, independent of the model: a reference dictionary keyed by types.Equal
//
//	per Go map object (association list; a mutable map and the immutable views made by
//	Immutable() share one until the mutable map is cleared) is compared with
//	Get/Has/Len/Keys/Values/Pairs/Range of every live handle after every step, and every
//	immutable map is compared with its own earlier dump after any operation on a map
//	derived from it.
package c15

import (
	"fmt"
	"math"
	"sort"
	"strings"

	"github.com/siyul-park/uniflow/pkg/types"

	"verifharness/lib"
)

const le1x8 = "\x01\x00\x00\x00\x00\x00\x00\x00"

func mathFrom(b uint64) float64 { return math.Float64frombits(b) }

func keyPool() []types.Value {
	nan1 := types.NewFloat64(mathFrom(0x7FF8000000000001))
	nan2 := types.NewFloat64(mathFrom(0xFFF8000000000000))
	return []types.Value{
		// one hash bucket: identical hash bytes, six kinds
		types.NewInt(1), types.NewInt64(1), types.NewUint64(1), types.NewUint(1),
		types.NewString(le1x8), types.NewBinary([]byte(le1x8)), types.NewFloat64(mathFrom(1)),
		// equal keys with different representations
		types.NewFloat64(mathFrom(0)), types.NewFloat64(mathFrom(1 << 63)), nan1, nan2,
		// a second collision family and loners
		types.NewInt8(1), types.True, types.NewString("\x01"),
		types.NewString("a"), types.NewString("b"), nil,
		types.NewSlice(types.NewInt(1)), types.NewMap(types.NewString("a"), types.NewInt(1)),
		// composite keys that collide: slices of equal length whose elements have identical hash bytes but are of
		// different kinds – inside one bucket only Compare tells them apart (seeded change c15l: Slice.Compare
		// answered 0 for equal length and equal memoised hash)
		types.NewSlice(types.NewInt64(1)), types.NewSlice(types.NewUint64(1)),
		types.NewSlice(types.NewString(le1x8)), types.NewSlice(types.NewBinary([]byte(le1x8))),
	}
}

func valPool() []types.Value {
	return []types.Value{
		types.NewInt(1), types.NewInt(2), types.NewInt(3), types.NewString("x"), types.NewString("y"), nil,
		types.NewFloat64(mathFrom(0)), types.NewFloat64(mathFrom(1 << 63)), types.NewFloat64(mathFrom(0x7FF8000000000001)),
		types.NewSlice(), types.NewMap(types.NewString("a"), types.NewInt(1)),
	}
}

// ---- the oracle's reference: association lists keyed by types.Equal, with the alias structure

type dict struct{ ps [][2]types.Value }

func (d *dict) find(k types.Value) int {
	for i, p := range d.ps {
		if types.Equal(p[0], k) {
			return i
		}
	}
	return -1
}
func (d *dict) set(k, v types.Value) {
	if i := d.find(k); i >= 0 {
		d.ps[i][1] = v // the stored key is kept
		return
	}
	d.ps = append(d.ps, [2]types.Value{k, v})
}
func (d *dict) del(k types.Value) {
	if i := d.find(k); i >= 0 {
		d.ps = append(append([][2]types.Value{}, d.ps[:i]...), d.ps[i+1:]...)
	}
}
func (d *dict) clone() *dict { return &dict{ps: append([][2]types.Value{}, d.ps...)} }

// sameAs reports whether two reference dictionaries hold the same keys (by Equal) with Equal values;
// a key holding nil is a key.
func (d *dict) sameAs(o *dict) bool {
	if len(d.ps) != len(o.ps) {
		return false
	}
	for _, p := range d.ps {
		i := o.find(p[0])
		if i < 0 || !types.Equal(o.ps[i][1], p[1]) {
			return false
		}
	}
	return true
}

type handle struct {
	m    types.Map
	mut  bool
	cell **dict // mutable object: pointer to its current dictionary pointer; immutable: fixed dictionary
	anc  map[int]bool
	snap bool
}

func (h *handle) ref() *dict { return *h.cell }

type run struct {
	c     *lib.Ctx
	sc    *lib.Script
	hs    []*handle
	lines []string
	fails []lib.OracleFail
	keys  []types.Value
}

func isMutable(m types.Map) bool { return m.Mutable() == m }

func (r *run) fail(class, what string) {
	r.c.Hit("oracle-fail:" + class)
	if len(r.fails) < 3 {
		r.fails = append(r.fails, lib.OracleFail{Class: class, What: what, Replay: strings.Join(r.lines, "\n")})
	}
}

func (r *run) op(line, impl string) {
	r.lines = append(r.lines, line)
	r.sc.Op(line, impl)
}

func sortedWires(vs []types.Value) string {
	ws := make([]string, len(vs))
	for i, v := range vs {
		ws[i] = lib.EncodeVal(v)
	}
	sort.Strings(ws)
	return strings.Join(ws, " | ")
}

// reread emits the full observation of handle i and checks it against the reference dictionary.
func (r *run) reread(i int, probe bool) {
	h := r.hs[i]
	var dump string
	if p := lib.Safe(func() {
		dump = lib.EncodeVal(h.m)
		r.op(fmt.Sprintf("dump %d", i), dump)
		r.op(fmt.Sprintf("len %d", i), fmt.Sprint(h.m.Len()))
		r.op(fmt.Sprintf("keys %d", i), sortedWires(h.m.Keys()))
	}); p != "" {
		r.fail("panic", "reading a map panicked: "+p)
		return
	}
	// oracle: against the reference dictionary
	d := h.ref()
	if h.m.Len() != len(d.ps) {
		r.fail("len", fmt.Sprintf("handle %d: Len() = %d, reference dictionary has %d entries (%s)", i, h.m.Len(), len(d.ps), dump))
	}
	refKeys := make([]types.Value, len(d.ps))
	refVals := make([]types.Value, len(d.ps))
	var refPairs []string
	for j, p := range d.ps {
		refKeys[j], refVals[j] = p[0], p[1]
		refPairs = append(refPairs, lib.EncodeVal(p[0])+" => "+lib.EncodeVal(p[1]))
	}
	sort.Strings(refPairs)
	if got, want := sortedWires(h.m.Keys()), sortedWires(refKeys); got != want {
		r.fail("keys", fmt.Sprintf("handle %d: Keys() = [%s], reference [%s]", i, got, want))
	}
	if got, want := sortedWires(h.m.Values()), sortedWires(refVals); got != want {
		r.fail("values", fmt.Sprintf("handle %d: Values() = [%s], reference [%s]", i, got, want))
	}
	var rangePairs []string
	prev, first := uint64(0), true
	for k, v := range h.m.Range() {
		rangePairs = append(rangePairs, lib.EncodeVal(k)+" => "+lib.EncodeVal(v))
		if hk := types.HashOf(k); !first && hk < prev {
			r.fail("range-order", fmt.Sprintf("handle %d: Range() is not in ascending key-hash order", i))
		} else {
			prev, first = hk, false
		}
	}
	sort.Strings(rangePairs)
	if got, want := strings.Join(rangePairs, " | "), strings.Join(refPairs, " | "); got != want {
		r.fail("range", fmt.Sprintf("handle %d: Range() = [%s], reference [%s]", i, got, want))
	}
	if ps := h.m.Pairs(); len(ps) != 2*len(d.ps) {
		r.fail("pairs", fmt.Sprintf("handle %d: Pairs() has %d elements, reference %d entries", i, len(ps), len(d.ps)))
	}
	if !probe {
		return
	}
	for _, k := range r.keys {
		j := d.find(k)
		has, get := h.m.Has(k), h.m.Get(k)
		kw := lib.EncodeVal(k)
		r.op(fmt.Sprintf("has %d %s", i, kw), fmt.Sprint(has))
		r.op(fmt.Sprintf("get %d %s", i, kw), lib.EncodeVal(get))
		if has != (j >= 0) {
			r.fail("has", fmt.Sprintf("handle %d: Has(%s) = %v, reference says %v (%s)", i, kw, has, j >= 0, dump))
		}
		var want types.Value
		if j >= 0 {
			want = d.ps[j][1]
		}
		if lib.EncodeVal(get) != lib.EncodeVal(want) {
			r.fail("get", fmt.Sprintf("handle %d: Get(%s) = %s, reference says %s (%s)", i, kw, lib.EncodeVal(get), lib.EncodeVal(want), dump))
		}
	}
}

func (r *run) add(m types.Map, cell **dict, parent int, snap bool) int {
	anc := map[int]bool{}
	if parent >= 0 {
		for a := range r.hs[parent].anc {
			anc[a] = true
		}
		anc[parent] = true
	}
	r.hs = append(r.hs, &handle{m: m, mut: isMutable(m), cell: cell, anc: anc, snap: snap})
	return len(r.hs) - 1
}

func newCell(d *dict) **dict { p := d; return &p }

func sameStr(b bool) string {
	if b {
		return "same"
	}
	return "fresh"
}

// sequence runs one history.
func (r *run) sequence(rng *lib.RNG, steps int) {
	c := r.c
	vals := valPool()
	r.sc.Begin()
	r.lines = nil
	r.hs = nil
	// one history in eight is about a LARGE map: it starts from NewMap with 33–70 pairs over 70 further keys (ints,
	// strings, unsigned: distinct hashes, so as many buckets), and all keys are probed after every step. Every other
	// history stays below twenty keys. (Seeded change c15k: above 32 buckets the mutable view shared the parent's
	// bucket table until its first write, and the one-pair-bucket path of Delete wrote before taking its copy.)
	big := rng.Chance(1, 8)
	r.keys = keyPool()
	if big {
		for j := 0; j < 70; j++ {
			switch j % 3 {
			case 0:
				r.keys = append(r.keys, types.NewInt(100+j))
			case 1:
				r.keys = append(r.keys, types.NewString(fmt.Sprintf("k%02d", j)))
			default:
				r.keys = append(r.keys, types.NewUint16(uint16(1000+j)))
			}
		}
		c.Hit("history-large-map")
	}
	if big || rng.Chance(1, 4) {
		// the constructor with arguments: NewMap(k, v, k, v, …) – the pairs are set one after the other, so
		// a key that occurs more than once (also as a colliding key of another kind in between) keeps its
		// LAST value and counts once (seeded change c15f stopped merging repeated keys)
		n := rng.Range(1, 5)
		if big {
			n = rng.Range(33, 70)
		}
		d := &dict{}
		var ps []types.Value
		var toks []string
		for j := 0; j < n; j++ {
			k, v := lib.Pick(rng, r.keys), lib.Pick(rng, vals)
			if big {
				k = r.keys[len(r.keys)-1-j] // distinct keys of the large family
			} else if j > 0 && rng.Chance(1, 2) {
				k = ps[2*rng.Intn(j)] // repeat an earlier key
			}
			ps = append(ps, k, v)
			d.set(k, v)
			toks = append(toks, lib.EncodeVal(k), lib.EncodeVal(v))
		}
		r.add(types.NewMap(ps...), newCell(d), -1, true)
		r.op("newp "+strings.Join(toks, " "), "0")
		c.Hit("op-newmap-with-pairs")
	} else if rng.Bool() {
		r.add(types.NewMapWithSize(0), newCell(&dict{}), -1, false)
		r.op("new", "0")
	} else {
		r.add(types.NewMap(), newCell(&dict{}), -1, true)
		r.op("newi", "0")
	}
	for s := 0; s < steps; s++ {
		// receiver: biased towards recent handles, but old snapshots keep being used
		i := len(r.hs) - 1 - rng.Intn(min(len(r.hs), 4))
		if rng.Chance(1, 4) {
			i = rng.Intn(len(r.hs))
		}
		h := r.hs[i]
		// dumps of every immutable map this receiver was derived from (and itself), before the step
		before := map[int]string{}
		for a := range h.anc {
			if !r.hs[a].mut {
				before[a] = lib.EncodeVal(r.hs[a].m)
			}
		}
		if !h.mut {
			before[i] = lib.EncodeVal(h.m)
		}
		var res types.Map
		var line string
		k, v := lib.Pick(rng, r.keys), lib.Pick(rng, vals)
		kind := rng.Weighted([]int{10, 4, 1, 2, 3})
		if p := lib.Safe(func() {
			switch kind {
			case 0:
				if rng.Chance(1, 3) && len(h.ref().ps) > 0 { // overwrite an existing key, maybe with an Equal value
					p := lib.Pick(rng, h.ref().ps)
					k = p[0]
					if rng.Chance(1, 4) {
						v = p[1]
					}
				}
				line = fmt.Sprintf("set %d %s %s", i, lib.EncodeVal(k), lib.EncodeVal(v))
				existed := h.ref().find(k) >= 0
				res = h.m.Set(k, v)
				if existed {
					c.Hit("op:set-overwrite")
				} else {
					c.Hit("op:set-insert")
				}
			case 1:
				if rng.Chance(1, 2) && len(h.ref().ps) > 0 {
					k = lib.Pick(rng, h.ref().ps)[0]
				}
				line = fmt.Sprintf("del %d %s", i, lib.EncodeVal(k))
				res = h.m.Delete(k)
				c.Hit("op:delete")
			case 2:
				line = fmt.Sprintf("clear %d", i)
				res = h.m.Clear()
				c.Hit("op:clear")
			case 3:
				line = fmt.Sprintf("mut %d", i)
				res = h.m.Mutable()
				c.Hit("op:mutable")
			default:
				line = fmt.Sprintf("imm %d", i)
				res = h.m.Immutable()
				c.Hit("op:immutable")
			}
		}); p != "" {
			r.lines = append(r.lines, line)
			r.fail("panic", "map operation panicked: "+p)
			return
		}
		same := res == h.m
		// the reference semantics of the step
		var cell **dict
		switch {
		case kind == 3 && !h.mut: // immutable.Mutable(): an independent copy
			cell = newCell(h.ref().clone())
		case kind == 4 && h.mut: // mutable.Immutable(): a view of the same Go map, detached by a later Clear of the source
			cell = newCell(h.ref())
			// the view must keep following writes to the shared dictionary but not a Clear: share the *dict
		case kind == 3 || kind == 4: // receiver itself
			cell = h.cell
		case h.mut: // in-place mutation
			switch kind {
			case 0:
				h.ref().set(k, v)
			case 1:
				h.ref().del(k)
			case 2:
				*h.cell = &dict{}
			}
			cell = h.cell
		default: // immutable receiver: a new map (or the receiver itself when nothing changes)
			d := h.ref().clone()
			switch kind {
			case 0:
				d.set(k, v)
			case 1:
				d.del(k)
			case 2:
				d = &dict{}
			}
			if same {
				// an immutable map may return itself only when the operation changes nothing
				if !d.sameAs(h.ref()) {
					r.fail("shortcut-changes-nothing", fmt.Sprintf("%s on an immutable map returned the receiver although the reference dictionary changes", line))
				}
				cell = h.cell
			} else {
				cell = newCell(d)
			}
		}
		if h.mut {
			c.Hit("recv:mutable")
		} else {
			c.Hit("recv:immutable")
		}
		// What KIND of map the step must return follows from the receiver and the operation, not from what came
		// back: Set / Delete / Clear / Immutable of an immutable map are immutable maps ("derived from it"),
		// Mutable() is a mutable map; a mutable map returns itself except for Immutable(), a read-only view.
		// (Seeded change c15h: immutable.Clear() returned a MUTABLE map, which the harness – classifying handles
		// by what they are – then allowed to change in place.)
		wantMut := (h.mut && kind != 4) || (!h.mut && kind == 3)
		if isMutable(res) != wantMut {
			r.lines = append(r.lines, line)
			r.fail("kind-of-result", fmt.Sprintf("`%s` on a map that is mutable=%v returned a map that is mutable=%v (a map derived from an immutable map by Set, Delete or Clear is immutable; Mutable() gives a mutable copy; a mutable map answers with itself, Immutable() with a read-only view)", line, h.mut, isMutable(res)))
			return
		}
		j := r.add(res, cell, i, !isMutable(res) || rng.Chance(1, 3))
		r.op(line, fmt.Sprintf("%d %s", j, sameStr(same)))
		c.Count(fmt.Sprintf("%d:%s", r.sc.Cases(), line))
		// stability: immutable maps the receiver derives from must read exactly as before
		for a, was := range before {
			if now := lib.EncodeVal(r.hs[a].m); now != was {
				r.fail("snapshot-changed", fmt.Sprintf("immutable map %d changed from [%s] to [%s] by `%s` on a map derived from it", a, was, now, line))
			}
		}
		// re-read receiver, result and every retained snapshot
		r.reread(i, false)
		r.reread(j, rng.Chance(1, 2))
		for a, ha := range r.hs {
			if ha.snap && a != i && a != j && (len(r.hs) <= 12 || rng.Chance(1, 3)) {
				r.reread(a, false)
			}
		}
		if len(r.fails) > 0 {
			return
		}
	}
	for a := range r.hs {
		r.reread(a, a%3 == 0)
	}
}

func corpus(r *run, path string) {
	// a corpus file is a history: handle-producing lines are re-executed on the implementation
	r.sc.Begin()
	r.lines, r.hs = nil, nil
	for _, ln := range lib.ReadLines(path) {
		f := strings.Fields(ln)
		bad := func() { r.fail("corpus", path+": bad line "+ln) }
		var i int
		if len(f) >= 2 {
			if _, err := fmt.Sscanf(f[1], "%d", &i); err != nil || i < 0 || i >= len(r.hs) {
				bad()
				return
			}
		}
		switch f[0] {
		case "new":
			r.add(types.NewMapWithSize(0), newCell(&dict{}), -1, false)
			r.op("new", fmt.Sprint(len(r.hs)-1))
		case "newi":
			r.add(types.NewMap(), newCell(&dict{}), -1, true)
			r.op("newi", fmt.Sprint(len(r.hs)-1))
		case "set", "del", "clear", "mut", "imm":
			h := r.hs[i]
			var res types.Map
			var k, v types.Value
			var err error
			rest := f[2:]
			if f[0] == "set" || f[0] == "del" {
				if k, rest, err = lib.DecodeVal(rest); err != nil {
					bad()
					return
				}
			}
			if f[0] == "set" {
				if v, rest, err = lib.DecodeVal(rest); err != nil {
					bad()
					return
				}
			}
			_ = rest
			var cell **dict
			switch f[0] {
			case "set":
				res = h.m.Set(k, v)
			case "del":
				res = h.m.Delete(k)
			case "clear":
				res = h.m.Clear()
			case "mut":
				res = h.m.Mutable()
			case "imm":
				res = h.m.Immutable()
			}
			same := res == h.m
			switch {
			case f[0] == "mut" && !h.mut:
				cell = newCell(h.ref().clone())
			case f[0] == "imm" && h.mut:
				cell = newCell(h.ref())
			case f[0] == "mut" || f[0] == "imm":
				cell = h.cell
			case h.mut:
				switch f[0] {
				case "set":
					h.ref().set(k, v)
				case "del":
					h.ref().del(k)
				case "clear":
					*h.cell = &dict{}
				}
				cell = h.cell
			default:
				d := h.ref().clone()
				switch f[0] {
				case "set":
					d.set(k, v)
				case "del":
					d.del(k)
				case "clear":
					d = &dict{}
				}
				if same {
					if !d.sameAs(h.ref()) {
						r.fail("shortcut-changes-nothing", fmt.Sprintf("%s on an immutable map returned the receiver although the reference dictionary changes", ln))
					}
					cell = h.cell
				} else {
					cell = newCell(d)
				}
			}
			j := r.add(res, cell, i, true)
			r.op(ln, fmt.Sprintf("%d %s", j, sameStr(same)))
			for a := range r.hs {
				r.reread(a, true)
			}
		default:
			bad()
			return
		}
	}
}

func Run(c *lib.Ctx) {
	rng := lib.NewRNG(c.Seed).Fork() // Fork: NewRNG streams of neighbouring seeds are shifted copies of each other
	c.Rule = "a case is one handle-returning step (set/del/clear/mut/imm) of a history, followed by full re-reads of receiver, result and retained snapshots; distinct by (history number, operation line)"
	c.Assumptions = []string{
		"mutableMap.Immutable() returns a view of the same Go map: later writes through the source mutable map show through that view (DESIGN.md §7 row 26). The statement speaks of maps *derived from* a snapshot; model, reference dictionary and theorems follow that reading",
		"the model addresses bucket arrays, Go maps and mutableMap objects (immutableMap.mutable() copies the Go map and shares the bucket arrays); the by-value content of a Go map is what is compared",
		"Map.Interface()/Map() are not observed (they panic on unhashable keys such as binaries by design of Go maps)",
	}
	c.Trusted = []string{"harness/lib/valwire.go", "the oracle's own reference dictionary (association list keyed by types.Equal)"}
	sc := &lib.Script{}
	r := &run{c: c, sc: sc, keys: keyPool()}
	for _, f := range c.CorpusFiles() {
		c.Hit("corpus-file")
		corpus(r, f)
	}
	n, steps := c.Scale(150, 2500), c.Scale(30, 40)
	for i := 0; i < n && len(r.fails) == 0; i++ {
		r.sequence(rng.Fork(), rng.Range(5, steps))
		if i == 0 {
			for _, l := range r.lines[:min(6, len(r.lines))] {
				c.Sample(l)
			}
		}
	}
	ms, err := c.RunModel("c15", sc)
	if err != nil {
		ms = append(ms, lib.Mismatch{Op: "(model driver failed)", Model: err.Error()})
	}
	c.Conclude("types.Map histories ≈ Uniflow.MapHeap", ms, r.fails)
}
